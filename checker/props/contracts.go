package props

import (
	"fmt"
	"go/token"
	"go/types"
	"regexp"
	"strings"

	"golang.org/x/tools/go/ssa"

	"sfcheck/an"
	"sfcheck/core"
)

// Contracts of small producers that distant consumers rely on (round 9). Each rule states the contract at the producer.

// checkFreshConstructors: the constructors of package fix hand out objects of their own. Every value type is mutable (Set,
// FromBytes) and the library mutates values in place (the decoder writes into the items of a message, Prepare re-stamps
// BodyLength), so a constructor that returns a shared object — a flyweight table, an interning map — couples messages that have
// nothing to do with each other. A constructor result is an allocation made in the constructor (or another constructor's result),
// and no constructor reads a package-level variable of the module other than the read-only tables named below.
func checkFreshConstructors(c *core.Ctx, rule string) {
	pkg := c.SSAPkg("fix")
	if !c.Anchor("package fix", pkg != nil, "fix", token.NoPos) {
		return
	}
	readOnly := map[string]bool{"Delimiter": true}
	n := 0
	for _, fn := range an.PkgFuncs(pkg) {
		if fn.Parent() != nil || fn.Signature.Recv() != nil || !strings.HasPrefix(fn.Name(), "New") || fn.Signature.Results().Len() != 1 {
			continue
		}
		pt, isPtr := fn.Signature.Results().At(0).Type().(*types.Pointer)
		if !isPtr || an.NamedOf(pt.Elem()) == nil {
			continue
		}
		n++
		bad := ""
		var fresh func(v ssa.Value, depth int) bool
		fresh = func(v ssa.Value, depth int) bool {
			if depth > 4 {
				return false
			}
			switch x := v.(type) {
			case *ssa.Alloc:
				return true
			case *ssa.Call:
				cal := an.StaticCallee(&x.Call)
				if cal == nil || cal.Pkg != pkg {
					return false
				}
				if strings.HasPrefix(cal.Name(), "New") {
					return true
				}
				// an unexported helper all of whose returns are fresh
				okAll, nRet := true, 0
				for _, b := range cal.Blocks {
					if ret, isR := b.Instrs[len(b.Instrs)-1].(*ssa.Return); isR && len(ret.Results) >= 1 {
						nRet++
						if !fresh(ret.Results[0], depth+1) {
							okAll = false
						}
					}
				}
				return okAll && nRet > 0
			case *ssa.Phi:
				for _, e := range x.Edges {
					if !fresh(e, depth+1) {
						return false
					}
				}
				return true
			}
			return false
		}
		for _, b := range fn.Blocks {
			if ret, ok := b.Instrs[len(b.Instrs)-1].(*ssa.Return); ok && len(ret.Results) == 1 && !fresh(ret.Results[0], 0) {
				bad = "returns " + an.Render(ret.Results[0]) + ", which is not allocated by the call"
			}
		}
		for _, f := range an.WithAnon(fn) {
			an.AllInstrs(f, func(in ssa.Instruction) {
				for _, op := range in.Operands(nil) {
					if op == nil || *op == nil {
						continue
					}
					if g, isG := (*op).(*ssa.Global); isG && g.Pkg != nil && strings.HasPrefix(g.Pkg.Pkg.Path(), core.ModPath) && !readOnly[g.Name()] {
						bad = "uses the package-level variable " + g.Name()
					}
				}
			})
		}
		c.Check(bad == "", rule, fn.Name(), "a constructor hands out an object of its own", fn.Pos(), "result allocated in the call; no package-level state",
			fn.Name()+" "+bad+": values are mutable (Set, FromBytes, the decoder writing into a message's items, Prepare re-stamping BodyLength), so two messages that share the object change each other's fields")
	}
	c.Check(n >= 8, rule, "", "constructors of package fix found", token.NoPos, fmt.Sprint(n), fmt.Sprintf("only %d New* constructors found in package fix", n))
}

// checkKeyValuePlain: a KeyValue passes bytes and values through as they are. FromBytes hands its argument to the value's
// FromBytes unmodified (no trimming, no stripping of a leading "tag="), and the Value of a KeyValue is never set to nil inside the
// library (Set(nil), NewKeyValue(key, nil) or a possibly-nil variable): every consumer calls methods on it unguarded.
func checkKeyValuePlain(c *core.Ctx, rule string) {
	fb := c.Func("fix", "KeyValue.FromBytes")
	if c.Anchor("KeyValue.FromBytes", fb != nil && len(fb.Params) == 2, "fix.KeyValue.FromBytes", posOf(fb)) {
		n, bad := 0, ""
		an.AllInstrs(fb, func(in ssa.Instruction) {
			call, ok := in.(*ssa.Call)
			if !ok || !call.Call.IsInvoke() || call.Call.Method.Name() != "FromBytes" {
				return
			}
			n++
			if call.Call.Args[0] != ssa.Value(fb.Params[1]) {
				bad = "the value's FromBytes is given " + an.Render(call.Call.Args[0]) + ", not the bytes KeyValue.FromBytes received"
			}
		})
		ps, _ := an.EnumPaths(fb, 64)
		for _, p := range ps {
			if p.Return != nil && len(p.ResVals) == 1 {
				if _, isCall := an.Unspill(p.ResVals[0]).(*ssa.Call); !isCall {
					bad = "a path returns " + p.Results[0] + " without handing the bytes to the value (" + p.CondString() + ")"
				}
			}
		}
		c.Check(n == 1 && bad == "", rule, "KeyValue.FromBytes", "hands the bytes it is given to the value, unmodified, on every path", fb.Pos(), "return kv.Value.FromBytes(d)", bad)
	}
	// nil values
	pkg := c.SSAPkg("fix")
	if pkg == nil {
		return
	}
	var mayBeNil func(v ssa.Value, depth int) bool
	mayBeNil = func(v ssa.Value, depth int) bool {
		if depth > 5 {
			return false
		}
		if an.IsNilConst(v) {
			return true
		}
		if phi, ok := v.(*ssa.Phi); ok {
			for _, e := range phi.Edges {
				if mayBeNil(e, depth+1) {
					return true
				}
			}
		}
		return false
	}
	set, nkv := c.Func("fix", "KeyValue.Set"), c.Func("fix", "NewKeyValue")
	nSites := 0
	for _, rel := range []string{"fix", "fix/encoding", "session", ""} {
		p := c.SSAPkg(rel)
		if p == nil {
			continue
		}
		for _, fn := range an.PkgFuncs(p) {
			an.AllInstrs(fn, func(in ssa.Instruction) {
				call, ok := in.(*ssa.Call)
				if !ok {
					return
				}
				cal := an.StaticCallee(&call.Call)
				if cal == nil || (cal != set && cal != nkv) || len(call.Call.Args) != 2 {
					return
				}
				nSites++
				if mayBeNil(call.Call.Args[1], 0) {
					c.Ob(rule, an.NameOf(fn), "a KeyValue is never given a nil value", call.Pos()).Fail("%s calls %s with a value that can be nil (%s): ToBytes, IsNull and FromBytes are called on KeyValue.Value without a nil test by the decoder, the validator and the generated getters", an.NameOf(fn), an.NameOf(cal), an.Render(call.Call.Args[1]))
				}
			})
		}
	}
	c.Check(nSites >= 5, rule, "", "constructions of KeyValues found", token.NoPos, fmt.Sprint(nSites), fmt.Sprintf("only %d calls of NewKeyValue / KeyValue.Set found", nSites))
}

// checkCounterStorePlain: the bundled counter store does what its method names say and nothing else. SetSeqNum stores the number
// it is given — whatever it is — and returns nil (the session records "last received" with it, also when the peer restarted its
// numbering, and the all-types handler stops the dispatch when it fails); Save does not touch the counters; Messages modifies
// neither the store nor the stored messages.
func checkCounterStorePlain(c *core.Ctx, rule string) {
	ss := c.Func("storages/memory", "Storage.SetSeqNum")
	if c.Anchor("counter store", ss != nil && len(ss.Params) == 3, "memory.Storage.SetSeqNum", posOf(ss)) {
		ps, _ := an.EnumPaths(ss, 64)
		bad, n := "", 0
		for _, p := range ps {
			if p.Return == nil {
				if p.Loop {
					bad = "SetSeqNum loops (a compare-and-swap that only moves the counter forward?)"
				}
				continue
			}
			n++
			if len(p.Results) != 1 || p.Results[0] != "nil" {
				bad = "returns " + strings.Join(p.Results, ",") + " under [" + p.CondString() + "]"
			}
			stored := false
			for _, in := range p.InstrSeq() {
				if call, ok := in.(*ssa.Call); ok && an.CalleeIs(&call.Call, "sync/atomic", "StoreInt64") {
					if cv, isCv := call.Call.Args[1].(*ssa.Convert); isCv && cv.X == ssa.Value(ss.Params[2]) {
						stored = true
					}
				}
			}
			if !stored && bad == "" {
				bad = "does not store the number it is given under [" + p.CondString() + "]"
			}
		}
		c.Check(bad == "" && n > 0, rule, "Storage.SetSeqNum", "stores the number it is given, unconditionally, and returns nil", ss.Pos(), "atomic.StoreInt64(&counter, int64(seqNum)); return nil",
			"SetSeqNum "+bad+": the session uses it to record the last number received (also a lower one, after the peer restarted its numbering); a refusal makes the all-types handler return false, which skips the handler that restores the logged-on state, and a counter that does not move back hides a gap")
	}
	counters := map[*types.Var]bool{}
	for _, n := range []string{"counterIncoming", "counterOutgoing"} {
		if f := c.Field("storages/memory", "Storage", n); f != nil {
			counters[f] = true
		}
	}
	for _, name := range []string{"Storage.Save", "Storage.Messages"} {
		fn := c.Func("storages/memory", name)
		if !c.Anchor(name, fn != nil, name, posOf(fn)) {
			continue
		}
		bad := ""
		for _, f := range append([]*ssa.Function{fn}, pkgHelpersOf(fn)...) {
			an.AllInstrs(f, func(in ssa.Instruction) {
				call, ok := in.(*ssa.Call)
				if !ok {
					return
				}
				if cal := an.StaticCallee(&call.Call); cal != nil && cal.Pkg != nil && cal.Pkg.Pkg.Path() == "sync/atomic" && !strings.HasPrefix(an.NameOf(cal), "Load") && len(call.Call.Args) > 0 {
					if fa, isFA := call.Call.Args[0].(*ssa.FieldAddr); isFA && counters[an.FieldOf(fa)] {
						bad = an.NameOf(f) + " writes the counter " + an.FieldName(an.FieldOf(fa))
					}
				}
				// a method call on a stored message other than a read is a modification of what was sent
				if name == "Storage.Messages" && call.Call.IsInvoke() {
					m := call.Call.Method.Name()
					if strings.HasPrefix(m, "Set") || strings.HasPrefix(m, "Prepare") || m == "HeaderBuilder" || m == "Items" {
						bad = an.NameOf(f) + " calls " + m + " on a stored message"
					}
				}
			})
		}
		what := "saves the message and leaves the counters alone"
		if name == "Storage.Messages" {
			what = "is read-only: neither the counters nor the stored messages are modified"
		}
		c.Check(bad == "", rule, name, what, fn.Pos(), "no counter write, no setter on a stored message",
			bad+": a retransmission passes the saving handler again (its old number would move the counter back), and the lookup runs on the inbound goroutine without the session mutex (a re-stamped object can be one a live send has numbered but not yet encoded)")
	}
}

// checkNoSocketOptionSurprises: the only socket option the transport sets is the write deadline in Conn.Write. SetDeadline or
// SetReadDeadline arm the read side too (nothing re-arms it: a quiet peer is cut off, with a half-read message); SetLinger(0) makes
// Close discard what the kernel has not sent yet.
func checkNoSocketOptionSurprises(c *core.Ctx, rule string, fns []*ssa.Function) {
	n := 0
	for _, fn := range fns {
		an.AllInstrs(fn, func(in ssa.Instruction) {
			cc := an.CallOf(in)
			if cc == nil {
				return
			}
			name := ""
			if cc.IsInvoke() {
				name = cc.Method.Name()
			} else if cal := an.StaticCallee(cc); cal != nil && cal.Pkg != nil && cal.Pkg.Pkg.Path() == "net" {
				name = an.NameOf(cal)
			}
			switch name {
			case "SetWriteDeadline":
				n++
			case "SetDeadline", "SetReadDeadline":
				c.Ob(rule, an.NameOf(fn), name+" on the socket", in.Pos()).Fail("%s calls %s: the read deadline is armed as well and nothing re-arms or clears it, so a peer that is quiet for that long (or pauses in the middle of a message) has its connection torn down and the half-read message thrown away", an.NameOf(fn), name)
			case "SetLinger":
				c.Ob(rule, an.NameOf(fn), name+" on the socket", in.Pos()).Fail("%s calls SetLinger: with a zero linger the close discards what Conn.Write has handed to the kernel but the peer has not yet read — messages that were accepted for sending never arrive", an.NameOf(fn))
			}
		})
	}
	c.Check(n >= 1, rule, "", "the write deadline is the socket option the transport sets", token.NoPos, fmt.Sprint(n), "no SetWriteDeadline call found in the transport (anchor moved)")
}

// checkOptionsPassedAlong: the write timeout an application gives to NewAcceptor / NewInitiator reaches NewConn as it is: the
// deadline armed with it is the only thing that ends a connection whose peer stops reading.
func checkOptionsPassedAlong(c *core.Ctx, rule string, fns []*ssa.Function) {
	n := 0
	for _, typ := range []string{"Acceptor", "Initiator"} {
		f := c.Field("", typ, "writeTimeout")
		if f == nil {
			continue
		}
		for _, fn := range fns {
			an.AllInstrs(fn, func(in ssa.Instruction) {
				st, ok := in.(*ssa.Store)
				if !ok {
					return
				}
				fa, ok := st.Addr.(*ssa.FieldAddr)
				if !ok || an.FieldOf(fa) != f {
					return
				}
				n++
				_, isParam := st.Val.(*ssa.Parameter)
				c.Check(isParam, rule, an.NameOf(fn), typ+".writeTimeout is the value the application passed", st.Pos(), "field ← parameter",
					typ+".writeTimeout ← "+an.Render(st.Val)+": a replaced value (\"no timeout\" for zero, a default) removes the deadline that ends a connection whose peer has stopped reading — the serving call never returns and senders block")
			})
		}
	}
	c.Check(n >= 1, rule, "", "stores of the write timeout found", token.NoPos, fmt.Sprint(n), "no store to Acceptor/Initiator.writeTimeout found (anchor moved)")
}

// checkAddEntryPlain: Group.AddEntry appends the entry it is given on every path (generated code attaches an entry and fills it
// afterwards: an entry refused because it is still empty never reaches the wire).
func checkAddEntryPlain(c *core.Ctx, rule string) {
	fn := c.Func("fix", "Group.AddEntry")
	if !c.Anchor("Group.AddEntry", fn != nil && len(fn.Params) == 2, "fix.Group.AddEntry", posOf(fn)) {
		return
	}
	ps, _ := an.EnumPaths(fn, 32)
	bad, n := "", 0
	for _, p := range ps {
		if p.Return == nil {
			continue
		}
		n++
		appended := false
		for _, in := range p.InstrSeq() {
			if call, ok := in.(*ssa.Call); ok {
				if b, isB := call.Call.Value.(*ssa.Builtin); isB && b.Name() == "append" && len(call.Call.Args) == 2 {
					if elems, isLit := an.SliceElems(call.Call.Args[1]); isLit && len(elems) == 1 && an.Unwrap(elems[0]) == ssa.Value(fn.Params[1]) {
						appended = true
					}
				}
			}
		}
		if !appended {
			bad = "returns without appending the entry under [" + p.CondString() + "]"
		}
	}
	c.Check(bad == "" && n > 0, rule, "Group.AddEntry", "appends the entry it is given on every path", fn.Pos(), "g.items = append(g.items, v)", "AddEntry "+bad+": an entry attached first and filled through its setters afterwards (what the generated wrappers allow) is dropped with its fields and the count")
}

// checkPackageNameTest: the name test of the generator accepts what Execute makes of an output directory: Execute maps '-' to
// '_' in the directory's base name, so the pattern must accept lower-case letters, digits and '_' (a pattern without '_' rejects
// gen/fix-44 while gen/fix44 yields the identical package).
func checkPackageNameTest(c *core.Ctx, rule string, gen *ssa.Package) {
	fn := gen.Func("checkName")
	if fn == nil {
		for _, f := range an.PkgFuncs(gen) {
			if an.NameOf(f) == "checkName" {
				fn = f
			}
		}
	}
	if !c.Anchor("package name test", fn != nil, "generator.checkName", token.NoPos) {
		return
	}
	pat := ""
	var patCall *ssa.Call
	for _, f := range append([]*ssa.Function{fn}, gen.Func("init")) {
		if f == nil {
			continue
		}
		an.AllInstrs(f, func(in ssa.Instruction) {
			call, ok := in.(*ssa.Call)
			if !ok {
				return
			}
			cal := an.StaticCallee(&call.Call)
			if cal == nil || cal.Pkg == nil || cal.Pkg.Pkg.Path() != "regexp" {
				return
			}
			for _, a := range call.Call.Args {
				if s, isS := an.ConstString(a); isS && strings.ContainsAny(s, "[^$") && (f == fn || pat == "") {
					pat = s
					if f == fn {
						patCall = call
					}
				}
			}
		})
	}
	ob := c.Ob(rule, "checkName", "the package-name test accepts letters, digits and '_'", fn.Pos())
	if pat == "" {
		ob.Unknown("no constant regular expression found in checkName")
		return
	}
	re, err := regexp.Compile(pat)
	if err != nil {
		ob.Fail("the pattern %q does not compile: %v", pat, err)
		return
	}
	// polarity: does a match mean "accepted" (a path on which the match holds returns nil) or "refused"?
	acceptOnMatch := false
	if patCall != nil {
		ps, _ := an.EnumPaths(fn, 64)
		m := an.Render(patCall) + "#0"
		for _, p := range ps {
			if p.Return != nil && len(p.Results) == 1 && p.Results[0] == "nil" && p.Has(m) {
				acceptOnMatch = true
			}
		}
	}
	accepts := func(name string) bool { return re.MatchString(name) == acceptOnMatch }
	for _, name := range []string{"fix44", "fix_44", "my_fix_50sp2"} {
		if !accepts(name) {
			ob.Fail("the pattern %q rejects %q: Execute turns '-' in the output directory's base name into '_', so gen/fix-44 (or fix_44) is refused although gen/fix44 yields the identical package", pat, name)
			return
		}
	}
	for _, name := range []string{"fix-44", "Fix 44", "4fix."} {
		if accepts(name) {
			ob.Fail("the pattern %q accepts %q, which is not a Go package name", pat, name)
			return
		}
	}
	ob.Ok("%q", pat)
}

// checkValidatorPresenceOnly: the validator that runs after a message has passed the integrity check and has been parsed refuses
// a message only for a missing required field. It calls accessors of the message and nothing that serializes or measures it
// (CalcBodyLength ignores the trailer and unknown tags: a valid message that carries them would be refused).
func checkValidatorPresenceOnly(c *core.Ctx, rule string) {
	do := c.Func("fix/encoding", "DefaultValidator.Do")
	if !c.Anchor("validator", do != nil, "encoding.DefaultValidator.Do", posOf(do)) {
		return
	}
	bad := ""
	n := 0
	for f := range sameGoroutineReach(do) {
		an.AllInstrs(f, func(in ssa.Instruction) {
			cc := an.CallOf(in)
			if cc == nil {
				return
			}
			name := ""
			if cc.IsInvoke() {
				name = cc.Method.Name()
			} else if cal := an.StaticCallee(cc); cal != nil {
				name = an.NameOf(cal)
			}
			n++
			switch name {
			case "CalcBodyLength", "ToBytes", "BytesWithoutChecksum", "Prepare", "CalcCheckSum", "Items":
				bad = an.NameOf(f) + " calls " + name
			}
		})
	}
	c.Check(bad == "" && n > 0, rule, "DefaultValidator.Do", "the validator tests the presence of required fields and computes nothing from the message", do.Pos(), "accessors and IsNull only",
		bad+": the re-computed length or image of the parsed message leaves out what the template does not know (trailer fields, user-defined tags), so a valid message that carries them is refused after it has passed the integrity check")
}

// checkTableKeysAgree: the writer and the readers of a lookup table of the Generator agree on how the key is spelled. If the key
// of a map update is normalised (strings.ToUpper, TrimSpace, …), every lookup in that table applies the same normalisation;
// otherwise an entry stored as "YESNO" is never found under the schema's "YesNo" and the field silently gets the default type.
func checkTableKeysAgree(c *core.Ctx, rule string, gen *ssa.Package) {
	chain := func(v ssa.Value) string {
		out := ""
		for i := 0; i < 6; i++ {
			call, ok := v.(*ssa.Call)
			if !ok {
				break
			}
			cal := an.StaticCallee(&call.Call)
			if cal == nil || cal.Pkg == nil || cal.Pkg.Pkg.Path() != "strings" || len(call.Call.Args) == 0 {
				break
			}
			out += an.NameOf(cal) + "∘"
			v = call.Call.Args[0]
		}
		return out
	}
	type use struct {
		in  ssa.Instruction
		fn  *ssa.Function
		key string
	}
	writes, reads := map[*types.Var][]use{}, map[*types.Var][]use{}
	for _, fn := range an.PkgFuncs(gen) {
		an.AllInstrs(fn, func(in ssa.Instruction) {
			switch x := in.(type) {
			case *ssa.MapUpdate:
				if f, _ := an.LoadedField(x.Map); f != nil {
					writes[f] = append(writes[f], use{in, fn, chain(x.Key)})
				}
			case *ssa.Lookup:
				if f, _ := an.LoadedField(x.X); f != nil {
					if _, isMap := x.X.Type().Underlying().(*types.Map); isMap {
						reads[f] = append(reads[f], use{in, fn, chain(x.Index)})
					}
				}
			}
		})
	}
	n := 0
	for f, ws := range writes {
		for _, w := range ws {
			n++
			bad := ""
			for _, r := range reads[f] {
				if r.key != w.key {
					bad = fmt.Sprintf("%s stores under %skey, %s looks up under %skey", an.NameOf(w.fn), w.key, an.NameOf(r.fn), r.key)
				}
			}
			c.Check(bad == "", rule, an.NameOf(w.fn)+"→"+f.Name(), "the table's writer and readers spell the key the same way", w.in.Pos(), "same normalisation (or none) on both sides",
				"table "+f.Name()+": "+bad+": an entry whose name differs from the schema's spelling only by what the writer normalises away is never found, and the field silently falls back to the default mapping")
		}
	}
	c.Check(n >= 3, rule, "", "table updates of the Generator found", token.NoPos, fmt.Sprint(n), fmt.Sprintf("only %d map updates into Generator fields found", n))
}

// checkComponentSharesItems: fix.NewComponent keeps the slice it is given. The generated group accessors wrap a stored entry with
// fix.NewComponent(entry...) and hand the wrapper to the entry type's setters, which replace slots of that slice (a nested group or
// component is set by assigning items[i]): with a private copy in the wrapper the replacement never reaches the entry stored in
// the group — nor the wire.
func checkComponentSharesItems(c *core.Ctx, rule string) {
	fn := c.Func("fix", "NewComponent")
	f := c.Field("fix", "Component", "items")
	if !c.Anchor("component constructor", fn != nil && f != nil && len(fn.Params) == 1, "fix.NewComponent, Component.items", posOf(fn)) {
		return
	}
	n, bad := 0, ""
	an.AllInstrs(fn, func(in ssa.Instruction) {
		st, ok := in.(*ssa.Store)
		if !ok {
			return
		}
		fa, ok := st.Addr.(*ssa.FieldAddr)
		if !ok || an.FieldOf(fa) != f {
			return
		}
		n++
		v := st.Val
		if ct, isCT := v.(*ssa.ChangeType); isCT {
			v = ct.X
		}
		if v != ssa.Value(fn.Params[0]) {
			bad = "Component.items ← " + an.Render(st.Val)
		}
	})
	c.Check(n == 1 && bad == "", rule, "NewComponent", "the component keeps the slice it is given (the generated entry wrappers share their slots with the stored entry)", fn.Pos(), "&Component{items: items}",
		bad+": Entries() of a generated group wraps each stored entry with NewComponent(entry...); a setter that replaces a slot (a nested group or component) then writes into the wrapper's private copy, and the value never reaches the group or the wire")
}
