// Package props holds one check per property.
package props

import (
	"encoding/json"
	"fmt"
	"go/types"
	"os"
	"os/exec"
	"path/filepath"
	"runtime/debug"
	"sort"
	"strings"

	"sfcheck/an"
	"sfcheck/core"
)

// Options of one run.
type Options struct {
	Prop, Tier, Repo, Verif string
	Seed                    int64
	Debug                   string
	NoEvidence              bool
}

// Check is the implementation of one property.
type Check struct {
	ID      string
	NeedSSA bool
	Run     func(c *core.Ctx, o Options)
}

// Registry of implemented checks.
var Registry = map[string]*Check{}

func register(ch *Check) { Registry[ch.ID] = ch }

// Run runs one property check and returns the process exit code.
func Run(o Options) (code int) {
	ch := Registry[o.Prop]
	if ch == nil {
		fmt.Printf("sfcheck: no check for property %s\n", o.Prop)
		return 2
	}
	evPath := filepath.Join(o.Verif, "evidence", o.Prop+".json")
	if o.NoEvidence {
		evPath = filepath.Join(os.TempDir(), fmt.Sprintf("sfcheck-evidence-%d-%s.json", os.Getpid(), o.Prop))
		defer os.Remove(evPath)
	}
	defer func() {
		if r := recover(); r != nil {
			// a panic of the checker is a failed check, never a silent pass
			fmt.Printf("sfcheck: internal error while checking %s: %v\n%s\n", o.Prop, r, debug.Stack())
			path := filepath.Join(o.Verif, "evidence", "violations", o.Prop+"-internal.json")
			if o.NoEvidence { // variant runs on scratch copies leave nothing under the framework's evidence directory
				path = filepath.Join(os.TempDir(), fmt.Sprintf("sfcheck-violations-%d", os.Getpid()), o.Prop+"-internal.json")
			}
			os.MkdirAll(filepath.Dir(path), 0o755)
			b, _ := json.Marshal(map[string]interface{}{"property": o.Prop, "internal_error": fmt.Sprint(r)})
			os.WriteFile(path, b, 0o644)
			fmt.Printf("VIOLATION property=%s replay=%s\n", o.Prop, path)
			code = 1
		}
	}()
	cfg := core.Config{Name: "default+verif", Tags: "verif"}
	c, err := core.Load(o.Repo, o.Verif, o.Prop, o.Tier, cfg, ch.NeedSSA)
	if err != nil {
		fmt.Printf("sfcheck: %v\n", err)
		path := filepath.Join(o.Verif, "evidence", "violations", o.Prop+"-load.json")
		if o.NoEvidence {
			path = filepath.Join(os.TempDir(), fmt.Sprintf("sfcheck-violations-%d", os.Getpid()), o.Prop+"-load.json")
		}
		os.MkdirAll(filepath.Dir(path), 0o755)
		b, _ := json.Marshal(map[string]interface{}{"property": o.Prop, "load_error": err.Error()})
		os.WriteFile(path, b, 0o644)
		fmt.Printf("VIOLATION property=%s replay=%s\n", o.Prop, path)
		return 1
	}
	c.Seed = o.Seed
	c.NoEvidence = o.NoEvidence
	ch.Run(c, o)
	if o.Tier == "thorough" && !o.NoEvidence {
		thorough(c, ch, o)
	}
	known, err := core.LoadKnown(filepath.Join(o.Verif, "KNOWN_FINDINGS.txt"))
	if err != nil {
		fmt.Printf("sfcheck: cannot read KNOWN_FINDINGS.txt: %v\n", err)
		return 1
	}
	res, err := c.Finish(known, evPath)
	if err != nil {
		fmt.Printf("sfcheck: %v\n", err)
		return 1
	}
	dis := 0
	for _, ob := range c.Obls {
		if ob.Verdict == core.Discharged {
			dis++
		}
	}
	fmt.Printf("sfcheck %s tier=%s repo=%s: %d obligations, %d discharged, %d known findings, %d violations\n",
		o.Prop, o.Tier, o.Repo, len(c.Obls), dis, res.Known, res.Violations)
	for _, l := range res.Lines {
		fmt.Println(l)
	}
	if res.Violations > 0 {
		return 1
	}
	return 0
}

// Replay re-runs the property named in a replay file and reports whether the recorded obligation is still undischarged.
func Replay(path, repo, verif string) int {
	b, err := os.ReadFile(path)
	if err != nil {
		fmt.Println("sfcheck:", err)
		return 2
	}
	var rec struct {
		Property   string           `json:"property"`
		Tier       string           `json:"tier"`
		Obligation *core.Obligation `json:"obligation"`
	}
	if err := json.Unmarshal(b, &rec); err != nil || rec.Property == "" {
		fmt.Println("sfcheck: not a replay file:", path)
		return 2
	}
	ch := Registry[rec.Property]
	if ch == nil {
		return 2
	}
	c, err := core.Load(repo, verif, rec.Property, "quick", core.Config{Name: "default+verif", Tags: "verif"}, ch.NeedSSA)
	if err != nil {
		fmt.Println("sfcheck:", err)
		return 1
	}
	ch.Run(c, Options{Prop: rec.Property, Tier: "quick", Repo: repo, Verif: verif})
	if rec.Obligation == nil {
		return 1
	}
	for _, ob := range c.Obls {
		if ob.Key == rec.Obligation.Key {
			fmt.Printf("%s %s at %s: %s\n", strings.ToUpper(ob.Verdict), ob.Key, ob.Pos, ob.Note)
			if ob.Verdict != core.Discharged {
				fmt.Printf("VIOLATION property=%s replay=%s\n", rec.Property, path)
				return 1
			}
			return 0
		}
	}
	fmt.Printf("obligation %s no longer exists on the current tree\n", rec.Obligation.Key)
	return 0
}

// thorough adds, to the obligations of the default configuration, (a) the same rules evaluated on the other build
// configurations of the repository and (b) the checker-sensitivity table: every seeded change recorded for this property
// under /verif/seeded is applied to a scratch copy of the CURRENT working tree of the repository and the quick check is run
// on it in a separate process. Nothing of the repository is executed. An undetected seeded change is reported in the
// evidence as a weakness of the checker; it is not a violation of the repository.
func thorough(c *core.Ctx, ch *Check, o Options) {
	type cfgRes struct {
		Name        string `json:"name"`
		Obligations int    `json:"obligations"`
		Discharged  int    `json:"discharged"`
		Error       string `json:"error,omitempty"`
	}
	var cfgs []cfgRes
	base := map[string]string{}
	for _, ob := range c.Obls {
		base[ob.Key] = ob.Verdict
	}
	dis := 0
	for _, ob := range c.Obls {
		if ob.Verdict == core.Discharged {
			dis++
		}
	}
	cfgs = append(cfgs, cfgRes{Name: c.Cfg.Name, Obligations: len(c.Obls), Discharged: dis})
	for _, cfg := range []core.Config{
		{Name: "GOARCH=386+verif", Tags: "verif", Env: []string{"GOARCH=386", "GOOS=linux"}},
		{Name: "default (no build tag)"},
	} {
		c2, err := core.Load(o.Repo, o.Verif, o.Prop, o.Tier, cfg, ch.NeedSSA)
		if err != nil {
			cfgs = append(cfgs, cfgRes{Name: cfg.Name, Error: err.Error()})
			c.Ob("configuration", "", cfg.Name, 0).Unknown("the repository does not load in this configuration: %v", err)
			continue
		}
		c2.NoEvidence = true
		ch.Run(c2, o)
		d2 := 0
		for _, ob := range c2.Obls {
			if ob.Verdict == core.Discharged {
				d2++
				continue
			}
			if base[ob.Key] == ob.Verdict {
				continue // same undischarged obligation as in the default configuration: reported once
			}
			nob := *ob
			nob.Key = "[" + cfg.Name + "] " + ob.Key
			c.Obls = append(c.Obls, &nob)
		}
		cfgs = append(cfgs, cfgRes{Name: cfg.Name, Obligations: len(c2.Obls), Discharged: d2})
	}
	c.Extra["configurations"] = cfgs

	// ---- sensitivity
	type varRes struct {
		Name     string `json:"name"`
		Summary  string `json:"summary,omitempty"`
		Applied  bool   `json:"applied"`
		Detected bool   `json:"detected"`
		Report   string `json:"first_report,omitempty"`
	}
	dirs, _ := filepath.Glob(filepath.Join(o.Verif, "seeded", "*"))
	var todo []string
	for _, d := range dirs {
		b, err := os.ReadFile(filepath.Join(d, "meta.json"))
		if err != nil {
			continue
		}
		var meta struct {
			Property   string   `json:"property"`
			DetectedBy []string `json:"detected_by"`
		}
		if json.Unmarshal(b, &meta) != nil {
			continue
		}
		mine := meta.Property == o.Prop
		for _, p := range meta.DetectedBy {
			if p == o.Prop {
				mine = true
			}
		}
		if mine {
			todo = append(todo, d)
		}
	}
	exe, _ := os.Executable()
	results := make([]varRes, len(todo))
	sem := make(chan struct{}, 8)
	done := make(chan int, len(todo))
	for i, d := range todo {
		go func(i int, d string) {
			sem <- struct{}{}
			defer func() { <-sem; done <- i }()
			r := varRes{Name: filepath.Base(d)}
			if b, err := os.ReadFile(filepath.Join(d, "meta.json")); err == nil {
				var m struct {
					Summary string `json:"summary"`
				}
				json.Unmarshal(b, &m)
				if len(m.Summary) > 200 {
					m.Summary = m.Summary[:200] + "…"
				}
				r.Summary = m.Summary
			}
			r.Applied, r.Detected, r.Report = replayPatch(exe, o, filepath.Join(d, "patch.diff"))
			results[i] = r
		}(i, d)
	}
	for range todo {
		<-done
	}
	applied, detected := 0, 0
	for _, r := range results {
		if r.Applied {
			applied++
		}
		if r.Detected {
			detected++
		}
	}
	c.Extra["variants"] = results
	c.Extra["variants_applied"] = applied
	c.Extra["variants_detected"] = detected
	// ---- specificity: the behaviour-preserving patches of /verif/benign must not make this check report anything
	type benRes struct {
		Name    string `json:"name"`
		Applied bool   `json:"applied"`
		Alarm   bool   `json:"alarm"`
		Report  string `json:"first_report,omitempty"`
	}
	bfiles, _ := filepath.Glob(filepath.Join(o.Verif, "benign", "*.diff"))
	sort.Strings(bfiles)
	bres := make([]benRes, len(bfiles))
	bdone := make(chan int, len(bfiles))
	bsem := make(chan struct{}, 8)
	for i, f := range bfiles {
		go func(i int, f string) {
			bsem <- struct{}{}
			defer func() { <-bsem; bdone <- i }()
			r := benRes{Name: filepath.Base(f)}
			r.Applied, r.Alarm, r.Report = replayPatch(exe, o, f)
			bres[i] = r
		}(i, f)
	}
	for range bfiles {
		<-bdone
	}
	bApplied, bAlarms := 0, 0
	var alarmed []benRes
	for _, r := range bres {
		if r.Applied {
			bApplied++
		}
		if r.Alarm {
			bAlarms++
			alarmed = append(alarmed, r)
		}
	}
	c.Extra["benign_applied"] = bApplied
	c.Extra["benign_false_alarms"] = bAlarms
	if len(alarmed) > 0 {
		c.Extra["benign_alarmed"] = alarmed
	}
	fmt.Printf("sfcheck %s thorough: %d configurations; sensitivity: %d seeded changes applied to a scratch copy of the current tree, %d detected; specificity: %d behaviour-preserving patches applied, %d false alarms\n", o.Prop, len(cfgs), applied, detected, bApplied, bAlarms)
	for _, r := range alarmed {
		fmt.Printf("sfcheck %s thorough: NOTE the check reports on the behaviour-preserving patch %s (a defect of the check, not of the repository): %s\n", o.Prop, r.Name, r.Report)
	}
}

// replayPatch applies a patch to a scratch copy of the current working tree and runs this property's quick check on it.
func replayPatch(exe string, o Options, patch string) (applied, reported bool, report string) {
	tmp, err := os.MkdirTemp("", "sfvariant-")
	if err != nil {
		return false, false, err.Error()
	}
	defer os.RemoveAll(tmp)
	scratch := filepath.Join(tmp, "repo")
	// copy of the current working tree (without .git)
	cp := exec.Command("rsync", "-a", "--exclude", ".git", o.Repo+"/", scratch+"/")
	if out, err := cp.CombinedOutput(); err != nil {
		return false, false, "copy failed: " + string(out)
	}
	ap := exec.Command("git", "apply", "--whitespace=nowarn", patch)
	ap.Dir = scratch
	if out, err := ap.CombinedOutput(); err != nil {
		return false, false, "patch does not apply to the current tree: " + strings.TrimSpace(string(out))
	}
	run := exec.Command(exe, "-property", o.Prop, "-tier", "quick", "-repo", scratch, "-verif", o.Verif, "-no-evidence")
	out, err := run.CombinedOutput()
	if err != nil {
		reported = true
		for _, l := range strings.Split(string(out), "\n") {
			if strings.HasPrefix(l, "  ") {
				report = strings.ReplaceAll(strings.TrimSpace(l), scratch+"/", "")
				if len(report) > 300 {
					report = report[:300] + "…"
				}
				break
			}
		}
	}
	return true, reported, report
}

// DumpFuncs prints the names of all functions and methods declared in the module's packages (used to regenerate
// an/known_funcs.go, the vocabulary of function names the rules were written against).
func DumpFuncs(repo, verif string) int {
	c, err := core.Load(repo, verif, "C00", "quick", core.Config{Name: "default+verif", Tags: "verif"}, true)
	if err != nil {
		fmt.Println(err)
		return 2
	}
	var names []string
	for path, p := range c.ByPath {
		if !strings.HasPrefix(path, core.ModPath) {
			continue
		}
		sp := c.Prog.Package(p.Types)
		if sp == nil {
			continue
		}
		for _, fn := range pkgFuncs(sp) {
			if fn.Parent() == nil && fn.Synthetic == "" {
				names = append(names, fn.String())
				names = append(names, "SIG "+fn.String()+"\t"+an.SigString(fn))
				var ps []string
				for _, prm := range fn.Params {
					ps = append(ps, prm.Name())
				}
				names = append(names, "PARAMS "+fn.String()+"\t"+strings.Join(ps, ","))
				if fn.Signature.Recv() != nil && len(fn.Params) > 0 {
					if n := an.NamedOf(fn.Signature.Recv().Type()); n != nil && n.Obj().Pkg() != nil {
						names = append(names, "RECV "+n.Obj().Pkg().Path()+"."+n.Obj().Name()+" "+fn.Params[0].Name())
					}
				}
			}
		}
	}
	// struct types: fields in order with their types; functions: the functions they call (module functions by pinned name,
	// others as pkg.Name) — used to recognise renamed fields, renamed types and renamed functions
	for path, p := range c.ByPath {
		if !strings.HasPrefix(path, core.ModPath) {
			continue
		}
		scope := p.Types.Scope()
		for _, n := range scope.Names() {
			tn, ok := scope.Lookup(n).(*types.TypeName)
			if !ok {
				continue
			}
			st, ok := tn.Type().Underlying().(*types.Struct)
			if !ok {
				continue
			}
			var fs []string
			for i := 0; i < st.NumFields(); i++ {
				fs = append(fs, st.Field(i).Name()+":"+types.TypeString(st.Field(i).Type(), func(q *types.Package) string { return q.Path() }))
			}
			names = append(names, "FIELDS "+path+"."+n+"\t"+strings.Join(fs, ";"))
		}
		sp := c.Prog.Package(p.Types)
		if sp == nil {
			continue
		}
		for _, fn := range pkgFuncs(sp) {
			if fn.Parent() != nil || fn.Synthetic != "" {
				continue
			}
			names = append(names, "CALLEES "+fn.String()+"\t"+strings.Join(an.CalleeNames(fn), ","))
		}
	}
	sort.Strings(names)
	for _, n := range names {
		fmt.Println(n)
	}
	return 0
}
