// Package props holds one check per property.
package props

import (
	"encoding/json"
	"fmt"
	"os"
	"path/filepath"
	"runtime/debug"
	"strings"

	"sfcheck/core"
)

// Options of one run.
type Options struct {
	Prop, Tier, Repo, Verif string
	Seed                    int64
	Debug                   string
	NoEvidence              bool
}

// Check is the implementation of one property.
type Check struct {
	ID      string
	NeedSSA bool
	Run     func(c *core.Ctx, o Options)
}

// Registry of implemented checks.
var Registry = map[string]*Check{}

func register(ch *Check) { Registry[ch.ID] = ch }

// Run runs one property check and returns the process exit code.
func Run(o Options) (code int) {
	ch := Registry[o.Prop]
	if ch == nil {
		fmt.Printf("sfcheck: no check for property %s\n", o.Prop)
		return 2
	}
	evPath := filepath.Join(o.Verif, "evidence", o.Prop+".json")
	if o.NoEvidence {
		evPath = filepath.Join(os.TempDir(), fmt.Sprintf("sfcheck-evidence-%d-%s.json", os.Getpid(), o.Prop))
		defer os.Remove(evPath)
	}
	defer func() {
		if r := recover(); r != nil {
			// a panic of the checker is a failed check, never a silent pass
			fmt.Printf("sfcheck: internal error while checking %s: %v\n%s\n", o.Prop, r, debug.Stack())
			path := filepath.Join(o.Verif, "evidence", "violations", o.Prop+"-internal.json")
			os.MkdirAll(filepath.Dir(path), 0o755)
			b, _ := json.Marshal(map[string]interface{}{"property": o.Prop, "internal_error": fmt.Sprint(r)})
			os.WriteFile(path, b, 0o644)
			fmt.Printf("VIOLATION property=%s replay=%s\n", o.Prop, path)
			code = 1
		}
	}()
	cfg := core.Config{Name: "default+verif", Tags: "verif"}
	c, err := core.Load(o.Repo, o.Verif, o.Prop, o.Tier, cfg, ch.NeedSSA)
	if err != nil {
		fmt.Printf("sfcheck: %v\n", err)
		path := filepath.Join(o.Verif, "evidence", "violations", o.Prop+"-load.json")
		os.MkdirAll(filepath.Dir(path), 0o755)
		b, _ := json.Marshal(map[string]interface{}{"property": o.Prop, "load_error": err.Error()})
		os.WriteFile(path, b, 0o644)
		fmt.Printf("VIOLATION property=%s replay=%s\n", o.Prop, path)
		return 1
	}
	c.Seed = o.Seed
	c.NoEvidence = o.NoEvidence
	ch.Run(c, o)
	known, err := core.LoadKnown(filepath.Join(o.Verif, "KNOWN_FINDINGS.txt"))
	if err != nil {
		fmt.Printf("sfcheck: cannot read KNOWN_FINDINGS.txt: %v\n", err)
		return 1
	}
	res, err := c.Finish(known, evPath)
	if err != nil {
		fmt.Printf("sfcheck: %v\n", err)
		return 1
	}
	dis := 0
	for _, ob := range c.Obls {
		if ob.Verdict == core.Discharged {
			dis++
		}
	}
	fmt.Printf("sfcheck %s tier=%s repo=%s: %d obligations, %d discharged, %d known findings, %d violations\n",
		o.Prop, o.Tier, o.Repo, len(c.Obls), dis, res.Known, res.Violations)
	for _, l := range res.Lines {
		fmt.Println(l)
	}
	if res.Violations > 0 {
		return 1
	}
	return 0
}

// Replay re-runs the property named in a replay file and reports whether the recorded obligation is still undischarged.
func Replay(path, repo, verif string) int {
	b, err := os.ReadFile(path)
	if err != nil {
		fmt.Println("sfcheck:", err)
		return 2
	}
	var rec struct {
		Property   string           `json:"property"`
		Tier       string           `json:"tier"`
		Obligation *core.Obligation `json:"obligation"`
	}
	if err := json.Unmarshal(b, &rec); err != nil || rec.Property == "" {
		fmt.Println("sfcheck: not a replay file:", path)
		return 2
	}
	ch := Registry[rec.Property]
	if ch == nil {
		return 2
	}
	c, err := core.Load(repo, verif, rec.Property, "quick", core.Config{Name: "default+verif", Tags: "verif"}, ch.NeedSSA)
	if err != nil {
		fmt.Println("sfcheck:", err)
		return 1
	}
	ch.Run(c, Options{Prop: rec.Property, Tier: "quick", Repo: repo, Verif: verif})
	if rec.Obligation == nil {
		return 1
	}
	for _, ob := range c.Obls {
		if ob.Key == rec.Obligation.Key {
			fmt.Printf("%s %s at %s: %s\n", strings.ToUpper(ob.Verdict), ob.Key, ob.Pos, ob.Note)
			if ob.Verdict != core.Discharged {
				fmt.Printf("VIOLATION property=%s replay=%s\n", rec.Property, path)
				return 1
			}
			return 0
		}
	}
	fmt.Printf("obligation %s no longer exists on the current tree\n", rec.Obligation.Key)
	return 0
}
