package props

import (
	"fmt"
	"go/token"
	"go/types"
	"strings"

	"golang.org/x/tools/go/ssa"

	"sfcheck/an"
	"sfcheck/core"
)

// fieldStore is a store to a struct field of the receiver.
type fieldStore struct {
	Field string
	Val   ssa.Value
	In    *ssa.Store
}

// storesOn lists the receiver-field stores executed on a path, in order.
func storesOn(fn *ssa.Function, p *an.Path) []fieldStore {
	var out []fieldStore
	for _, b := range p.Blocks {
		for _, in := range b.Instrs {
			st, ok := in.(*ssa.Store)
			if !ok {
				continue
			}
			fa, ok := st.Addr.(*ssa.FieldAddr)
			if !ok {
				continue
			}
			if len(fn.Params) > 0 && fa.X == ssa.Value(fn.Params[0]) {
				out = append(out, fieldStore{Field: an.FieldOf(fa).Name(), Val: st.Val, In: st})
			}
		}
	}
	return out
}

func methodOf(c *core.Ctx, rel, typ, name string) *ssa.Function {
	return c.Func(rel, typ+"."+name)
}

// checkStringIdentity: fix.String converts bytes↔string without any transformation.
func checkStringIdentity(c *core.Ctx, rule string) {
	fb := methodOf(c, "fix", "String", "FromBytes")
	tb := methodOf(c, "fix", "String", "ToBytes")
	val := methodOf(c, "fix", "String", "Value")
	if !c.Anchor("fix.String codec", fb != nil && tb != nil && val != nil, "String.FromBytes/ToBytes/Value", posOf(fb)) {
		return
	}
	// FromBytes: on the d != nil path, value ← string(d) exactly
	paths, _ := an.EnumPaths(fb, 64)
	ok, seen := true, false
	why := ""
	for _, p := range paths {
		if !p.Has("d != nil") {
			continue
		}
		seen = true
		found := false
		for _, st := range storesOn(fb, p) {
			if st.Field == "value" {
				found = true
				if r := an.Render(st.Val); r != "string(d)" {
					ok = false
					why = "value ← " + r
				}
			}
		}
		if !found {
			ok = false
			why = "value is not stored"
		}
	}
	c.Check(ok && seen, rule, "String.FromBytes", "stores string(d) unchanged", fb.Pos(), "value ← string(d)", "String.FromBytes transforms or drops the bytes: "+why)
	// ToBytes: every non-nil result is []byte(v.value)
	paths, _ = an.EnumPaths(tb, 64)
	ok, seen = true, false
	for _, p := range paths {
		if p.Return == nil || len(p.Results) != 1 || p.Results[0] == "nil" {
			continue
		}
		seen = true
		if p.Results[0] != "[]byte(v.value)" {
			ok = false
			why = p.Results[0]
		}
	}
	c.Check(ok && seen, rule, "String.ToBytes", "returns []byte(value) unchanged", tb.Pos(), "result is []byte(v.value)", "String.ToBytes transforms the value: "+why)
	paths, _ = an.EnumPaths(val, 8)
	ok = len(paths) == 1 && len(paths[0].Results) == 1 && paths[0].Results[0] == "v.value"
	c.Check(ok, rule, "String.Value", "returns the stored string", val.Pos(), "result is v.value", "String.Value does not return the stored value")
}

var _ = fmt.Sprint
var _ = strings.Contains
var _ = token.NoPos
var _ types.Type

type typesConst = types.Const

// constString returns the string value of a constant object ("" if it is not a string constant).
func constString(obj types.Object) string {
	k, ok := obj.(*types.Const)
	if !ok {
		return ""
	}
	s := k.Val().ExactString()
	if len(s) >= 2 && s[0] == '"' {
		return s[1 : len(s)-1]
	}
	return s
}
