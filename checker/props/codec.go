package props

import (
	"fmt"
	"go/token"
	"go/types"
	"strings"

	"golang.org/x/tools/go/ssa"

	"sfcheck/an"
	"sfcheck/core"
)

// fieldStore is a store to a struct field of the receiver.
type fieldStore struct {
	Field string
	Val   ssa.Value
	In    *ssa.Store
}

// storesOn lists the receiver-field stores executed on a path, in order.
func storesOn(fn *ssa.Function, p *an.Path) []fieldStore {
	var out []fieldStore
	for _, b := range p.Blocks {
		for _, in := range b.Instrs {
			st, ok := in.(*ssa.Store)
			if !ok {
				continue
			}
			fa, ok := st.Addr.(*ssa.FieldAddr)
			if !ok {
				continue
			}
			if len(fn.Params) > 0 && fa.X == ssa.Value(fn.Params[0]) {
				out = append(out, fieldStore{Field: an.FieldName(an.FieldOf(fa)), Val: st.Val, In: st})
			}
		}
	}
	return out
}

func methodOf(c *core.Ctx, rel, typ, name string) *ssa.Function {
	return c.Func(rel, typ+"."+name)
}

// checkStringIdentity: fix.String converts bytes↔string without any transformation.
func checkStringIdentity(c *core.Ctx, rule string) {
	fb := methodOf(c, "fix", "String", "FromBytes")
	tb := methodOf(c, "fix", "String", "ToBytes")
	val := methodOf(c, "fix", "String", "Value")
	if !c.Anchor("fix.String codec", fb != nil && tb != nil && val != nil, "String.FromBytes/ToBytes/Value", posOf(fb)) {
		return
	}
	// FromBytes: on the d != nil path, value ← string(d) exactly
	paths, _ := an.EnumPaths(fb, 64)
	ok, seen := true, false
	why := ""
	for _, p := range paths {
		if !p.Has("d != nil") {
			continue
		}
		seen = true
		found := false
		for _, st := range storesOn(fb, p) {
			if st.Field == "value" {
				found = true
				if r := an.Render(st.Val); r != "string(d)" {
					ok = false
					why = "value ← " + r
				}
			}
		}
		if !found {
			ok = false
			why = "value is not stored"
		}
	}
	c.Check(ok && seen, rule, "String.FromBytes", "stores string(d) unchanged", fb.Pos(), "value ← string(d)", "String.FromBytes transforms or drops the bytes: "+why)
	// ToBytes: every non-nil result is []byte(v.value)
	paths, _ = an.EnumPaths(tb, 64)
	ok, seen = true, false
	for _, p := range paths {
		if p.Return == nil || len(p.Results) != 1 || p.Results[0] == "nil" {
			continue
		}
		seen = true
		if p.Results[0] != "[]byte(v.value)" {
			ok = false
			why = p.Results[0]
		}
	}
	c.Check(ok && seen, rule, "String.ToBytes", "returns []byte(value) unchanged", tb.Pos(), "result is []byte(v.value)", "String.ToBytes transforms the value: "+why)
	paths, _ = an.EnumPaths(val, 8)
	ok = len(paths) == 1 && len(paths[0].Results) == 1 && paths[0].Results[0] == "v.value"
	c.Check(ok, rule, "String.Value", "returns the stored string", val.Pos(), "result is v.value", "String.Value does not return the stored value")
}

var _ = fmt.Sprint
var _ = strings.Contains
var _ = token.NoPos
var _ types.Type

type typesConst = types.Const

// constString returns the string value of a constant object ("" if it is not a string constant).
func constString(obj types.Object) string {
	k, ok := obj.(*types.Const)
	if !ok {
		return ""
	}
	s := k.Val().ExactString()
	if len(s) >= 2 && s[0] == '"' {
		return s[1 : len(s)-1]
	}
	return s
}

// codecSpec is the frozen codec pair table (E8): formatter and parser must be inverse pairs.
type codecSpec struct {
	Type     string
	GoType   string   // asserted type in Set / returned by Value()
	ToBytes  []string // accepted renderings of the populated result(s)
	Parse    string   // rendering of the value stored by FromBytes
	ParseErr string   // rendering of the error FromBytes returns ("" = nil)
	Ctor     string   // constructor name ("" = none)
}

var codecTable = []codecSpec{
	{Type: "String", GoType: "string", ToBytes: []string{"[]byte(v.value)"}, Parse: "string(d)", Ctor: "NewString"},
	{Type: "Int", GoType: "int", ToBytes: []string{"[]byte(strconv.Itoa(v.value))"}, Parse: "strconv.Atoi(string(d))#0", ParseErr: "strconv.Atoi(string(d))#1", Ctor: "NewInt"},
	{Type: "Uint", GoType: "uint64", ToBytes: []string{"[]byte(strconv.FormatUint(v.value, 10))"}, Parse: "strconv.ParseUint(string(d), 10, 64)#0", ParseErr: "strconv.ParseUint(string(d), 10, 64)#1", Ctor: "NewUint"},
	{Type: "Float", GoType: "float64", ToBytes: []string{"v.source", "[]byte(strconv.FormatFloat(v.value, 102, -1, 64))"}, Parse: "strconv.ParseFloat(string(d), 64)#0", ParseErr: "strconv.ParseFloat(string(d), 64)#1", Ctor: "NewFloat"},
	{Type: "Time", GoType: "time.Time", ToBytes: []string{`[]byte(v.value.Format("20060102-15:04:05.000"))`}, Parse: `time.Parse("20060102-15:04:05.000", string(d))#0`, ParseErr: `time.Parse("20060102-15:04:05.000", string(d))#1`, Ctor: "NewTime"},
	{Type: "Bool", GoType: "bool", ToBytes: []string{`[]byte("Y")`, `[]byte("N")`}, Parse: `(string(d) == "Y")`},
	{Type: "Raw", GoType: "[]byte", ToBytes: []string{"v.value"}, Parse: "d", Ctor: "NewRaw"},
}

// checkCodecs checks every value type against the table: formatter/parser pair, null-flag maintenance, Set, Value, constructor.
func checkCodecs(c *core.Ctx, rule string, parts map[string]bool) {
	has := func(k string) bool { return parts == nil || parts[k] }
	// exhaustiveness: every implementation of fix.Value in package fix is in the table
	fixPkg := c.Pkg("fix")
	valueIface, _ := fixPkg.Types.Scope().Lookup("Value").Type().Underlying().(*types.Interface)
	known := map[string]bool{}
	for _, s := range codecTable {
		known[s.Type] = true
	}
	if valueIface != nil && !func() bool {
		for k := range parts {
			if strings.HasPrefix(k, "type:") {
				return true
			}
		}
		return false
	}() {
		for _, n := range fixPkg.Types.Scope().Names() {
			tn, ok := fixPkg.Types.Scope().Lookup(n).(*types.TypeName)
			if !ok || types.IsInterface(tn.Type()) {
				continue
			}
			if types.Implements(types.NewPointer(tn.Type()), valueIface) {
				c.Check(known[n], rule, n, "value type is in the codec table", tn.Pos(), "tabled", "a new implementation of fix.Value has no entry in the codec table: its formatter/parser pair is unchecked")
			}
		}
	}
	onlyTypes := false
	for k := range parts {
		if strings.HasPrefix(k, "type:") {
			onlyTypes = true
		}
	}
	for _, sp := range codecTable {
		if onlyTypes && !parts["type:"+sp.Type] {
			continue
		}
		tb := methodOf(c, "fix", sp.Type, "ToBytes")
		fb := methodOf(c, "fix", sp.Type, "FromBytes")
		set := methodOf(c, "fix", sp.Type, "Set")
		isn := methodOf(c, "fix", sp.Type, "IsNull")
		val := methodOf(c, "fix", sp.Type, "Value")
		if !c.Anchor("value type "+sp.Type, tb != nil && fb != nil && set != nil && isn != nil && val != nil, sp.Type+" methods", posOf(tb)) {
			continue
		}
		raw := sp.Type == "Raw"
		// ---- ToBytes
		if has("tobytes") {
			paths, _ := an.EnumPathsX(tb, 128) // helpers of the formatter (a shared text() of ToBytes and String) are spliced in
			var bad []string
			seen := map[string]bool{}
			for _, p := range paths {
				if p.Return == nil {
					continue
				}
				r := p.Results[0]
				if r == "nil" {
					if !raw && !p.Has("!v.valid") && !(sp.Type == "String" && p.Has(`v.value == ""`)) {
						bad = append(bad, "returns nil under "+p.CondString())
					}
					continue
				}
				okForm := false
				for _, f := range sp.ToBytes {
					if r == f {
						okForm = true
						seen[f] = true
					}
				}
				if !okForm {
					bad = append(bad, "a populated value is serialized as "+r+" (accepted: "+strings.Join(sp.ToBytes, " | ")+")")
				}
				if !raw && !p.Has("v.valid") {
					bad = append(bad, "bytes are produced without the value being populated: "+p.CondString())
				}
				if sp.Type == "Float" {
					if r == "v.source" && !p.Has("v.source != nil") {
						bad = append(bad, "source bytes are used without checking that they exist")
					}
					if r != "v.source" && !p.Has("v.source == nil") {
						bad = append(bad, "the numeric value is formatted although source bytes from parsing exist: re-serialization would not be byte exact")
					}
				}
				if sp.Type == "Bool" {
					if r == `[]byte("Y")` && !p.Has("v.value") {
						bad = append(bad, "Y is emitted for false")
					}
					if r == `[]byte("N")` && !p.Has("!v.value") {
						bad = append(bad, "N is emitted for true")
					}
				}
			}
			for _, f := range sp.ToBytes {
				if !seen[f] {
					bad = append(bad, "no path produces "+f)
				}
			}
			c.Check(len(bad) == 0, rule, sp.Type+".ToBytes", "canonical text of the populated value; nil when null", tb.Pos(), strings.Join(sp.ToBytes, " | "), strings.Join(bad, "; "))
		}
		// ---- FromBytes
		if has("frombytes") {
			paths, _ := an.EnumPaths(fb, 32)
			var bad []string
			nNil, nVal := 0, 0
			for _, p := range paths {
				if p.Return == nil {
					continue
				}
				sts := map[string]string{}
				for _, st := range storesOn(fb, p) {
					sts[st.Field] = an.RenderOnPath(st.Val, p)
				}
				if raw {
					nVal++
					if sts["value"] != "d" {
						bad = append(bad, "value ← "+sts["value"])
					}
					continue
				}
				if p.Has("d == nil") {
					nNil++
					if sts["valid"] != "false" {
						bad = append(bad, "nil input does not clear the populated flag")
					}
					continue
				}
				nVal++
				if sts["valid"] != "true" {
					bad = append(bad, "a parsed value is not marked populated")
				}
				if sts["value"] != sp.Parse {
					bad = append(bad, "value ← "+sts["value"]+", expected "+sp.Parse+" (the inverse of the formatter)")
				}
				if sp.Type == "Float" && sts["source"] != "d" {
					bad = append(bad, "the source bytes are not retained (source ← "+sts["source"]+"): re-serialization would not be byte exact")
				}
				wantErr := sp.ParseErr
				if wantErr == "" {
					wantErr = "nil"
				}
				if p.Results[0] != wantErr {
					bad = append(bad, "returns "+p.Results[0]+" instead of the parser's error "+wantErr)
				}
			}
			if !raw && (nNil != 1 || nVal != 1) {
				bad = append(bad, fmt.Sprintf("%d nil-input and %d parse paths (expected 1 and 1)", nNil, nVal))
			}
			c.Check(len(bad) == 0, rule, sp.Type+".FromBytes", "parses with the inverse of the formatter, marks populated; nil input marks null", fb.Pos(), "value ← "+sp.Parse, strings.Join(bad, "; "))
		}
		// ---- Set
		if has("set") {
			paths, _ := an.EnumPaths(set, 32)
			var bad []string
			nOK := 0
			for _, p := range paths {
				if p.Return == nil {
					continue
				}
				sts := map[string]string{}
				for _, st := range storesOn(set, p) {
					sts[st.Field] = an.RenderOnPath(st.Val, p)
				}
				assertOK := ""
				for _, a := range p.Atoms {
					if strings.HasPrefix(a.L, "d.(") && strings.HasSuffix(a.L, "#1") && a.Rel == "true" {
						assertOK = a.L
					}
				}
				switch {
				case assertOK != "":
					nOK++
					wantT := "d.(" + sp.GoType + ")"
					if !strings.HasPrefix(assertOK, wantT) {
						bad = append(bad, "Set asserts "+assertOK+", expected "+wantT)
					}
					if sts["value"] != wantT+"#0" {
						bad = append(bad, "value ← "+sts["value"])
					}
					if !raw && sts["valid"] != "true" {
						bad = append(bad, "a value that was set is not marked populated")
					}
					if sp.Type == "Float" && sts["source"] != "nil" {
						bad = append(bad, "Set keeps the source bytes of a previously parsed value: ToBytes would emit the old text")
					}
					if p.Results[0] != "nil" {
						bad = append(bad, "successful Set returns an error")
					}
				case p.Has("d == nil") && !raw:
					if sts["valid"] != "false" {
						bad = append(bad, "Set(nil) does not clear the populated flag")
					}
				default:
					if p.Results[0] == "nil" && !(raw && p.Has("d == nil")) {
						bad = append(bad, "a value of the wrong type is silently accepted: "+p.CondString())
					}
					if len(sts) > 0 {
						bad = append(bad, "a failed Set modifies the value")
					}
				}
			}
			if nOK != 1 {
				bad = append(bad, fmt.Sprintf("%d success paths", nOK))
			}
			c.Check(len(bad) == 0, rule, sp.Type+".Set", "stores a value of its Go type and marks it populated", set.Pos(), "d.("+sp.GoType+")", strings.Join(bad, "; "))
		}
		// ---- IsNull / Value
		if has("isnull") {
			paths, _ := an.EnumPaths(isn, 8)
			want := "!v.valid"
			if raw {
				want = "(v.value == nil)"
			}
			ok := len(paths) == 1 && len(paths[0].Results) == 1 && paths[0].Results[0] == want
			c.Check(ok, rule, sp.Type+".IsNull", "reports the populated flag", isn.Pos(), want, "IsNull is not "+want)
			paths, _ = an.EnumPaths(val, 8)
			ok = len(paths) == 1 && len(paths[0].Results) == 1 && paths[0].Results[0] == "v.value"
			c.Check(ok, rule, sp.Type+".Value", "returns the stored value (dynamic type "+sp.GoType+")", val.Pos(), "v.value", "Value() does not return the stored value")
		}
		// ---- constructor
		if has("ctor") && sp.Ctor != "" {
			ctor := c.Func("fix", sp.Ctor)
			if c.Anchor("constructor "+sp.Ctor, ctor != nil, sp.Ctor, posOf(ctor)) {
				lit := constructorLiteral(ctor)
				ok := lit["value"] == an.Render(ctor.Params[0]) && (raw || lit["valid"] == "true")
				c.Check(ok, rule, sp.Ctor, "yields a populated value holding its argument", ctor.Pos(), fmt.Sprint(lit),
					fmt.Sprintf("%s builds %v: the value it returns reports IsNull() and the field is silently dropped from the message", sp.Ctor, lit))
			}
		}
	}
	// every exported New* constructor of a value type is covered
	if has("ctor") {
		sc := fixPkg.Types.Scope()
		for _, n := range sc.Names() {
			fnObj, ok := sc.Lookup(n).(*types.Func)
			if !ok || !strings.HasPrefix(n, "New") {
				continue
			}
			sig := fnObj.Type().(*types.Signature)
			if sig.Results().Len() != 1 {
				continue
			}
			rn := an.NamedOf(sig.Results().At(0).Type())
			if rn == nil || !known[rn.Obj().Name()] {
				continue
			}
			covered := false
			for _, sp := range codecTable {
				if sp.Ctor == n {
					covered = true
				}
			}
			c.Check(covered, rule, n, "value constructor is checked", fnObj.Pos(), "tabled", "an exported value constructor is not in the table: whether it populates the value is unchecked")
		}
	}
}
