package props

import (
	"fmt"
	"go/token"
	"go/types"
	"strings"

	"golang.org/x/tools/go/ssa"

	"sfcheck/an"
	"sfcheck/core"
)

func init() {
	register(&Check{ID: "C05", NeedSSA: true, Run: runC05})
}

func hasGo(fn *ssa.Function) bool {
	found := false
	an.AllInstrs(fn, func(in ssa.Instruction) {
		if _, ok := in.(*ssa.Go); ok {
			found = true
		}
	})
	return found
}

// counterAddrFields resolves an address handed to sync/atomic to the receiver fields it can denote: &recv.f directly, or the
// result of a same-package helper called on the same receiver whose every return is &recv.f.
func counterAddrFields(v ssa.Value, fn *ssa.Function) ([]string, bool) {
	if fa, ok := v.(*ssa.FieldAddr); ok && len(fn.Params) > 0 && fa.X == ssa.Value(fn.Params[0]) {
		return []string{an.FieldName(an.FieldOf(fa))}, true
	}
	call, ok := v.(*ssa.Call)
	if !ok {
		return nil, false
	}
	cal := an.StaticCallee(&call.Call)
	if cal == nil || cal.Pkg != fn.Pkg || len(cal.Params) == 0 || len(call.Call.Args) == 0 || len(fn.Params) == 0 || call.Call.Args[0] != ssa.Value(fn.Params[0]) {
		return nil, false
	}
	ps, _ := an.EnumPaths(cal, 16)
	var out []string
	for _, p := range ps {
		if p.Return == nil || len(p.ResVals) != 1 {
			continue
		}
		fa, ok := an.ResolveOnPath(p.ResVals[0], p).(*ssa.FieldAddr)
		if !ok || fa.X != ssa.Value(cal.Params[0]) {
			return nil, false
		}
		out = append(out, an.FieldName(an.FieldOf(fa)))
	}
	return out, len(out) > 0
}

// checkImageFresh: every store to Message.prepared stores a byte slice whose backing array was allocated after the previous
// image was handed out — the chain of appends/slicings that produces it starts at nil, make, a literal, a conversion, bytes.Join or
// a module helper that returns such a value, never at a load of a field or variable (append(msg.prepared[:0], …) reuses the array
// that a message waiting in the outgoing queue still points to).
func checkImageFresh(c *core.Ctx, rule string) {
	prepared := c.Field("fix", "Message", "prepared")
	if !c.Anchor("wire image field", prepared != nil, "fix.Message.prepared", token.NoPos) {
		return
	}
	var fresh func(v ssa.Value, depth int) string
	fresh = func(v ssa.Value, depth int) string {
		if depth > 12 {
			return "too deep: " + an.Render(v)
		}
		switch x := v.(type) {
		case *ssa.Const:
			return ""
		case *ssa.MakeSlice:
			return ""
		case *ssa.Convert:
			if b, ok := x.X.Type().Underlying().(*types.Basic); ok && b.Info()&types.IsString != 0 {
				return "" // []byte(string) copies
			}
			return fresh(x.X, depth+1)
		case *ssa.ChangeType:
			return fresh(x.X, depth+1)
		case *ssa.Slice:
			if al, ok := x.X.(*ssa.Alloc); ok && al.Heap {
				return "" // slice literal
			}
			return fresh(x.X, depth+1)
		case *ssa.Phi:
			for _, e := range x.Edges {
				if r := fresh(e, depth+1); r != "" {
					return r
				}
			}
			return ""
		case *ssa.Call:
			if b, ok := x.Call.Value.(*ssa.Builtin); ok && b.Name() == "append" {
				return fresh(x.Call.Args[0], depth+1)
			}
			cal := an.StaticCallee(&x.Call)
			if cal == nil {
				return "the result of a dynamic call " + an.Render(v)
			}
			if cal.Pkg != nil && cal.Pkg.Pkg.Path() == "bytes" && (an.NameOf(cal) == "Join" || an.NameOf(cal) == "Repeat" || an.NameOf(cal) == "Clone") {
				return ""
			}
			if cal.Pkg != nil && strings.HasPrefix(cal.Pkg.Pkg.Path(), modulePrefix) && len(cal.Blocks) > 0 {
				bad := ""
				an.AllInstrs(cal, func(in ssa.Instruction) {
					if ret, ok := in.(*ssa.Return); ok && len(ret.Results) > 0 && bad == "" {
						bad = fresh(ret.Results[0], depth+1)
					}
				})
				return bad
			}
			return "the result of " + an.Render(v)
		}
		return "derived from existing memory: " + an.Render(v)
	}
	n := 0
	for _, fn := range pkgFuncs(c.SSAPkg("fix")) {
		an.AllInstrs(fn, func(in ssa.Instruction) {
			st, ok := in.(*ssa.Store)
			if !ok {
				return
			}
			fa, ok := st.Addr.(*ssa.FieldAddr)
			if !ok || an.FieldOf(fa) != prepared {
				return
			}
			n++
			// the value stored; a load of the field itself (msg.prepared = append(msg.prepared, …)) continues the chain of this call's earlier store
			v := st.Val
			var why string
			for i := 0; i < 8; i++ {
				why = fresh(v, 0)
				if !strings.HasPrefix(why, "derived from existing memory: ") {
					break
				}
				// a reload of the field within the same block after a store of a fresh value in the same function is the same buffer
				prev := previousStoreInBlock(st, prepared, v)
				if prev == nil {
					break
				}
				st, v = prev, prev.Val
			}
			c.Check(why == "", rule, an.NameOf(fn), "the wire image is built in fresh memory", in.Pos(), "nil/make/Join/literal-based", "the image buffer is "+why+": bytes already handed to the outgoing queue (or to a retransmission) are overwritten when the message is prepared again")
		})
	}
	c.Check(n > 0, rule, "Message.prepared", "stores found", token.NoPos, fmt.Sprint(n), "no store to Message.prepared found")
}

// previousStoreInBlock: v is (an append chain on) a load of field f that follows, in the block of st, an earlier store to f; returns that store.
func previousStoreInBlock(st *ssa.Store, f *types.Var, v ssa.Value) *ssa.Store {
	// find the base load
	for {
		call, ok := v.(*ssa.Call)
		if !ok {
			break
		}
		if b, ok := call.Call.Value.(*ssa.Builtin); !ok || b.Name() != "append" {
			return nil
		}
		v = call.Call.Args[0]
	}
	ld, ok := v.(*ssa.UnOp)
	if !ok || ld.Op != token.MUL {
		return nil
	}
	fa, ok := ld.X.(*ssa.FieldAddr)
	if !ok || an.FieldOf(fa) != f || ld.Block() != st.Block() {
		return nil
	}
	var prev *ssa.Store
	for _, in := range st.Block().Instrs {
		if in == ssa.Instruction(ld) {
			return prev
		}
		if s2, ok := in.(*ssa.Store); ok {
			if fa2, ok := s2.Addr.(*ssa.FieldAddr); ok && an.FieldOf(fa2) == f {
				prev = s2
			}
		}
	}
	return nil
}

func runC05(c *core.Ctx, o Options) {
	c.Explanation = "The premises of a short ordering argument are each decided on the code (for every schedule at once): K1 — in Session.send the call that takes the next outgoing number, the four header stamps and Router.Send all execute with Session.mu held (must-held lockset); " +
		"K2 — that is the only place in package session that takes an outgoing number or calls Router.Send; retransmission (SendBatch) is the only bypass; K3 — no go statement anywhere on the call chain Session.send → DefaultHandler.Send → send → sendRaw → channel `out`; " +
		"K4 — the bundled store increments atomically and returns the incremented value; nothing in package session resets or sets the outgoing counter; K5 — MsgSeqNum is the number just taken, Target/SenderCompID come from the session's settings, SendingTime is time.Now() in the session's location formatted with fix.TimeLayout, all on the message that is sent; " +
		"K6 — the acceptor's Logon handler swaps the peer's sender/target into the settings; K7 — `out` has one producer function and one consumer per serve function; K8 — DefaultHandler.Send/SendBatch hold DefaultHandler.mu across handlers, ToBytes and enqueue. " +
		"K9 — every Message.Prepare builds the wire image in fresh memory, so bytes waiting in the out channel are never rewritten by a later send of the same object; K10 — the session's timer goroutines test the session context right after every wake-up, so a stopped session takes no further number from a store that a later session continues. " +
		"Hence numbers are taken under one mutex, enqueued on a FIFO channel before the mutex is released, and written by a single writer: wire order equals numbering order. The refused/unsaved-message case is C19's."
	fns := libFuncs(c)
	la := an.AnalyseLocks(fns)
	s := newSess(c)
	if s == nil {
		return
	}
	send := s.m.Method("send")
	mu := c.Field("session", "Session", "mu")
	if !c.Anchor("numbering function", send != nil && mu != nil, "(*Session).send / Session.mu", posOf(send)) {
		return
	}
	// ---- K1 + K5
	var next, rsend *ssa.Call
	stamps := map[string]*ssa.Call{}
	an.AllInstrs(send, func(in ssa.Instruction) {
		call, ok := in.(*ssa.Call)
		if !ok || !call.Call.IsInvoke() {
			return
		}
		switch {
		case call.Call.Method.Name() == "GetNextSeqNum":
			next = call
		case an.TypeIs(call.Call.Value.Type(), "session", "Handler") && call.Call.Method.Name() == "Send":
			rsend = call
		case strings.HasPrefix(call.Call.Method.Name(), "SetField"):
			stamps[call.Call.Method.Name()] = call
		}
	})
	if c.Anchor("numbering steps", next != nil && rsend != nil, "GetNextSeqNum and Router.Send in send", send.Pos()) {
		steps := []struct {
			name string
			in   ssa.Instruction
		}{{"GetNextSeqNum", next}, {"Router.Send", rsend}}
		for _, n := range []string{"SetFieldMsgSeqNum", "SetFieldTargetCompID", "SetFieldSenderCompID", "SetFieldSendingTime"} {
			if stamps[n] == nil {
				c.Ob("K5", "Session.send", n+" is applied", send.Pos()).Fail("the header field is not stamped in send")
				continue
			}
			steps = append(steps, struct {
				name string
				in   ssa.Instruction
			}{n, stamps[n]})
		}
		for _, st := range steps {
			ls := la.At[st.in]
			c.Check(ls.Holds(mu, "s", an.ModeW), "K1", "Session.send", st.name+" executes with Session.mu held", st.in.Pos(),
				"lockset "+ls.String(), "lockset here is "+ls.String()+": another sender can interleave between taking the number and enqueueing")
		}
		// "a sending time taken at send time": the clock is read inside the region, after the number was taken
		var clock *ssa.Call
		an.AllInstrs(send, func(in ssa.Instruction) {
			if call, ok := in.(*ssa.Call); ok {
				if cal := an.StaticCallee(&call.Call); cal != nil && (an.FuncIs(cal, "session", "Session.CurrentTime") || an.FuncIs(cal, "time", "Now")) {
					clock = call
				}
			}
		})
		if clock != nil {
			ls := la.At[clock]
			c.Check(ls.Holds(mu, "s", an.ModeW) && an.Dominates(next, clock) && an.Dominates(clock, rsend), "K5", "Session.send", "the clock is read between taking the number and Router.Send, under Session.mu", clock.Pos(),
				"GetNextSeqNum → CurrentTime() → Router.Send, lockset "+ls.String(), "the sending time is read outside the numbering region (lockset "+ls.String()+"): under contention a message carries a time taken before its number was allocated, and later numbers can carry earlier times")
		} else {
			c.Ob("K5", "Session.send", "the clock is read in send", send.Pos()).Fail("send does not read the clock (CurrentTime) itself: the sending time is not taken at send time")
		}
		// order inside the region
		okOrder := an.Dominates(next, rsend)
		for _, cl := range stamps {
			if !an.Dominates(next, cl) || !an.Dominates(cl, rsend) {
				okOrder = false
			}
		}
		c.Check(okOrder, "K5", "Session.send", "number taken, then header stamped, then Router.Send", send.Pos(), "GetNextSeqNum → stamps → Router.Send", "a header stamp does not lie between taking the number and Router.Send on every path")
		c.Check(storageSide(next.Call.Args[0]) == "outgoing", "K5", "Session.send", "the number comes from the outgoing counter", next.Pos(), "Side = outgoing", "the number is taken from side "+storageSide(next.Call.Args[0]))
		msgName := an.Render(send.Params[1])
		want := map[string]string{
			"SetFieldMsgSeqNum":    an.Render(next) + "#0",
			"SetFieldTargetCompID": "s.LogonSettings.TargetCompID",
			"SetFieldSenderCompID": "s.LogonSettings.SenderCompID",
			"SetFieldSendingTime":  `s.CurrentTime().Format("20060102-15:04:05.000")`,
		}
		for _, n := range an.SortedKeys(want) {
			cl := stamps[n]
			if cl == nil {
				continue
			}
			got := an.Render(cl.Call.Args[0])
			root := an.Render(chainRoot(cl.Call.Value))
			c.Check(got == want[n] && root == msgName+".HeaderBuilder()", "K5", "Session.send", n+" operand", cl.Pos(), n+"("+got+") on "+root,
				fmt.Sprintf("%s is given %s on %s; expected %s on the header of the message being sent", n, got, root, want[n]))
		}
		c.Check(an.Render(rsend.Call.Args[0]) == msgName, "K5", "Session.send", "the stamped message is the one handed to the router", rsend.Pos(), "Router.Send(msg)", "Router.Send is given "+an.Render(rsend.Call.Args[0]))
		// TimeLayout constant and CurrentTime
		if ct := s.m.Method("CurrentTime"); ct != nil {
			ps, _ := an.EnumPaths(ct, 4)
			c.Check(len(ps) == 1 && len(ps[0].Results) == 1 && ps[0].Results[0] == "time.Now().In(s.timeLocation)", "K5", "Session.CurrentTime", "is time.Now() in the session's location", ct.Pos(), "time.Now().In(s.timeLocation)", "CurrentTime is not time.Now().In(s.timeLocation)")
		}
		// the session's location is the configured one or, when none is configured, UTC (SendingTime is a FIX UTCTimestamp:
		// the layout carries no zone designator, so a reading of the host's wall clock is off by the host's UTC offset)
		if lf := c.Field("session", "Session", "timeLocation"); c.Anchor("session location", lf != nil, "Session.timeLocation", send.Pos()) {
			nLoc := 0
			seenOrigin := map[string]bool{}
			for _, fn := range an.PkgFuncs(send.Pkg) {
				an.AllInstrs(fn, func(in ssa.Instruction) {
					st, ok := in.(*ssa.Store)
					if !ok {
						return
					}
					fa, ok := st.Addr.(*ssa.FieldAddr)
					if !ok || an.FieldOf(fa) != lf {
						return
					}
					nLoc++
					origins, why := locationOrigins(st.Val, 0)
					for _, o := range origins {
						seenOrigin[o] = true
					}
					c.Check(why == "", "K5", an.NameOf(fn), "the session's location is the configured one or UTC", st.Pos(), "time.LoadLocation(opts.Location) / time.UTC",
						"Session.timeLocation ← "+an.Render(st.Val)+" ("+why+"): with no location configured the sending time is not the UTC reading of the clock")
				})
			}
			c.Check(nLoc >= 1 && seenOrigin["UTC"] && seenOrigin["LoadLocation"], "K5", "Session.timeLocation", "the session's location comes from time.LoadLocation and from time.UTC", send.Pos(), fmt.Sprintf("%d store(s)", nLoc), fmt.Sprintf("%d stores; origins found: %v (the configured location and the UTC default were confirmed on the pinned tree)", nLoc, seenOrigin))
		}
		if tl := c.LookupObj("fix", "TimeLayout"); tl != nil {
			v := ""
			if cst, ok := tl.(interface {
				Val() interface{ ExactString() string }
			}); ok {
				_ = cst
			}
			if k, ok := tl.(*typesConst); ok {
				_ = k
			}
			v = constString(tl)
			c.Check(v == "20060102-15:04:05.000", "K5", "fix.TimeLayout", "FIX UTC timestamp layout with milliseconds", tl.Pos(), v, "fix.TimeLayout is "+v)
		}
	}
	// ---- K2 census
	nNum := 0
	for _, real := range s.allFuncs() {
		// a helper cut out of its only caller counts as that caller (the numbering site, the resend handler)
		fn := real
		if real.Parent() == nil {
			fn, _ = an.LogicalOwner(real)
		}
		an.AllInstrs(real, func(in ssa.Instruction) {
			cc := an.CallOf(in)
			if cc == nil || !cc.IsInvoke() {
				return
			}
			name := cc.Method.Name()
			switch {
			case an.TypeIs(cc.Value.Type(), "session", "CounterStorage") && name == "GetNextSeqNum":
				nNum++
				c.Check(fn == send, "K2", an.NameOf(fn), "takes a sequence number", in.Pos(), "the numbering function", "a second numbering site outside Session.send: numbers taken here are not ordered with the enqueue under Session.mu")
			case an.TypeIs(cc.Value.Type(), "session", "Handler") && name == "Send":
				c.Check(fn == send, "K2", an.NameOf(fn), "calls Router.Send", in.Pos(), "the numbering function", "Router.Send is called outside Session.send: the message bypasses numbering and stamping")
			case an.TypeIs(cc.Value.Type(), "session", "Handler") && name == "SendRaw":
				c.Ob("K2", an.NameOf(fn), "calls Router.SendRaw", in.Pos()).Fail("raw bytes are enqueued by the session, bypassing numbering")
			case an.TypeIs(cc.Value.Type(), "session", "Handler") && name == "SendBatch":
				isResend := false
				for _, r := range s.handlers(true, "ResendRequest", "") {
					if r.Fn == fn {
						isResend = true
					}
				}
				c.Check(isResend, "K2", an.NameOf(fn), "calls Router.SendBatch", in.Pos(), "retransmission in the ResendRequest handler (keeps the original numbers)", "SendBatch is used outside the ResendRequest handler")
			case an.TypeIs(cc.Value.Type(), "session", "CounterStorage") && name == "ResetSeqNum":
				c.Ob("K4", an.NameOf(fn), "resets a counter", in.Pos()).Fail("the session resets a sequence counter: a reused store would not continue its numbering")
			case an.TypeIs(cc.Value.Type(), "session", "CounterStorage") && name == "SetSeqNum":
				sd := storageSide(cc.Args[0])
				c.Check(sd == "incoming", "K4", an.NameOf(fn), "SetSeqNum side", in.Pos(), "only the incoming counter is ever set", "the session sets the "+sd+" counter")
			}
		})
	}
	c.Check(nNum == 1, "K2", "", "exactly one numbering site", send.Pos(), "one", fmt.Sprintf("%d numbering sites", nNum))
	// ---- K3 no spawn on the chain
	checkSendChainNoSpawn(c, s, "K3")
	send = s.m.Method("send")
	// chain links are direct calls
	hs, hsend, hraw := c.Func("", "DefaultHandler.Send"), c.Func("", "DefaultHandler.send"), c.Func("", "DefaultHandler.sendRaw")
	if hs != nil && hsend != nil && hraw != nil {
		c.Check(callsDirect(hs, hsend) && callsDirect(hsend, hraw), "K3", "DefaultHandler.Send", "Send → send → sendRaw are direct, synchronous calls", hs.Pos(), "direct calls", "the chain Send → send → sendRaw is broken")
		// sendRaw enqueues its parameter on `out`
		okEnq := false
		an.AllInstrs(hraw, func(in ssa.Instruction) {
			if sel, ok := in.(*ssa.Select); ok {
				for _, st := range sel.States {
					if st.Dir == 1 /* SendOnly */ && st.Send == ssa.Value(hraw.Params[1]) {
						if f, _ := an.LoadedField(st.Chan); f != nil && an.FieldName(f) == "out" {
							okEnq = true
						}
					}
				}
			}
			if snd, ok := in.(*ssa.Send); ok && snd.X == ssa.Value(hraw.Params[1]) {
				if f, _ := an.LoadedField(snd.Chan); f != nil && an.FieldName(f) == "out" {
					okEnq = true
				}
			}
		})
		c.Check(okEnq, "K3", "DefaultHandler.sendRaw", "enqueues its argument on the out channel", hraw.Pos(), "out <- data", "sendRaw does not put its argument on DefaultHandler.out")
	}
	// ---- K4 the bundled store
	if gn := c.Func("storages/memory", "Storage.GetNextSeqNum"); c.Anchor("store counter", gn != nil, "memory.Storage.GetNextSeqNum", posOf(gn)) {
		ps, _ := an.EnumPaths(gn, 8)
		ok, nOut := true, 0
		for _, p := range ps {
			if p.Return == nil {
				continue
			}
			// int(atomic.AddInt64(addr, 1)) with addr the address of one of the receiver's counters, possibly chosen by a helper
			var add *ssa.Call
			if cv, isCv := an.Unwrap(p.ResVals[0]).(*ssa.Convert); isCv {
				add, _ = cv.X.(*ssa.Call)
			}
			if add == nil || !an.CalleeIs(&add.Call, "sync/atomic", "AddInt64") {
				ok = false
				continue
			}
			if k, isK := an.ConstInt(add.Call.Args[1]); !isK || k != 1 {
				ok = false
				continue
			}
			fields, resolved := counterAddrFields(an.ResolveOnPath(add.Call.Args[0], p), gn)
			if !resolved {
				ok = false
			}
			for _, f := range fields {
				switch f {
				case "counterOutgoing":
					nOut++
				case "counterIncoming":
				default:
					ok = false
				}
			}
		}
		c.Check(ok && nOut == 1, "K4", "Storage.GetNextSeqNum", "atomically increments and returns the incremented counter", gn.Pos(), "int(atomic.AddInt64(&counter, 1))", "GetNextSeqNum is not an atomic increment-and-return of the counter")
	}
	// K4 (reset): the counters hold the last number used (GetNextSeqNum returns counter+1, a fresh store hands out 1), so a reset
	// stores 0 in the counter it resets: with any other constant the first message after a reset is not number 1
	if rs := c.Func("storages/memory", "Storage.ResetSeqNum"); c.Anchor("store reset", rs != nil, "memory.Storage.ResetSeqNum", posOf(rs)) {
		nSt := 0
		for _, fn := range append([]*ssa.Function{rs}, pkgHelpersOf(rs)...) {
			an.AllInstrs(fn, func(in ssa.Instruction) {
				call, ok := in.(*ssa.Call)
				if !ok || !an.CalleeIs(&call.Call, "sync/atomic", "StoreInt64") {
					return
				}
				nSt++
				k, isK := an.ConstInt(call.Call.Args[1])
				c.Check(isK && k == 0, "K4", "Storage.ResetSeqNum", "a reset counter holds 0 (the next number handed out is 1)", call.Pos(), "atomic.StoreInt64(&counter, 0)",
					"ResetSeqNum stores "+an.Render(call.Call.Args[1])+": GetNextSeqNum returns the counter plus one, so the first message after a reset does not carry number 1")
			})
		}
		c.Check(nSt >= 1, "K4", "Storage.ResetSeqNum", "resets through atomic stores", rs.Pos(), fmt.Sprint(nSt), "no atomic store of the counter found in ResetSeqNum")
	}
	// ---- K5 premise: the number stamped is the number serialized — Int.ToBytes is the decimal text of the value last Set
	checkIntCodec(c, "K5")
	checkCodecs(c, "K5", map[string]bool{"set": true, "type:Int": true})
	// ---- K9 the bytes put on the out channel are never written again: every Prepare builds its image in fresh memory
	checkImageFresh(c, "K9")
	// ---- K10 a stopped session takes no further number: the timer goroutines test the session context after every wake-up
	checkTimerRoutines(c, s, "K10")
	// K10 (premise): the session context those goroutines test ends with the connection — the handler (whose context the session
	// derives its own from) is created on the per-connection context that the connection's tear-down cancels; a session left alive
	// by a dropped connection would keep taking numbers from a counter store the next session continues from
	checkTeardownReach(c, "K10")
	// K11: what the session queues in order reaches the socket in order only if one goroutine per connection drains the queue
	checkSinglePumps(c, "K11", libFuncs(c))
	// K11 also: what the writer takes off the queue is written once — Conn.Write calls net.Conn.Write exactly once, outside any loop
	checkConnWrite(c, "K11")
	// ---- K6 acceptor swap: on every accepting-side path of the Logon handler the installed settings carry the peer's
	// SenderCompID as TargetCompID and vice versa (symbolic evaluation of the settings object, see settings.go)
	if lf := s.one(true, "Logon"); lf != nil {
		fl := s.settingsFlow(lf)
		ob := c.Ob("K6", "inbound:Logon", "acceptor mirrors the peer's SenderCompID/TargetCompID into its settings", lf.Pos())
		if fl.Problem != "" {
			ob.Unknown("%s", fl.Problem)
		} else {
			nAcc, bad := 0, ""
			for _, e := range fl.Envs {
				if e.Side == "initiator" {
					continue
				}
				nAcc++
				switch {
				case !mirrored(e.Env):
					bad = fmt.Sprintf("on an accepting-side path the installed settings have TargetCompID ← %s, SenderCompID ← %s: not the peer's SenderCompID/TargetCompID swapped", e.Env["TargetCompID"], e.Env["SenderCompID"])
				case e.Early != "":
					bad = e.Early
				}
			}
			switch {
			case bad != "":
				ob.Fail("%s", bad)
			case nAcc == 0:
				ob.Fail("no accepting-side path installs settings")
			default:
				ob.Ok("TargetCompID ← received SenderCompID, SenderCompID ← received TargetCompID on %d accepting-side path shape(s), before anything is sent", nAcc)
			}
		}
	}
	// ---- K7 one producer, one consumer per serve function
	outF := c.Field("", "DefaultHandler", "out")
	if c.Anchor("outbound channel", outF != nil, "DefaultHandler.out", token.NoPos) {
		var producers, getters []string
		for _, fn := range fns {
			an.AllInstrs(fn, func(in ssa.Instruction) {
				var ch ssa.Value
				switch x := in.(type) {
				case *ssa.Send:
					ch = x.Chan
				case *ssa.Select:
					for _, st := range x.States {
						if st.Dir == 1 {
							if f, _ := an.LoadedField(st.Chan); f == outF {
								producers = append(producers, an.NameOf(fn))
							}
						}
					}
				case *ssa.Return:
					for _, r := range x.Results {
						if f, _ := an.LoadedField(an.Unwrap(r)); f == outF {
							getters = append(getters, an.NameOf(fn))
						}
					}
				}
				if ch != nil {
					if f, _ := an.LoadedField(ch); f == outF {
						producers = append(producers, an.NameOf(fn))
					}
				}
			})
		}
		c.Check(len(producers) == 1 && producers[0] == "sendRaw", "K7", "DefaultHandler.out", "single producer function", token.NoPos, "only sendRaw sends on out", "senders on out: "+strings.Join(producers, ","))
		c.Check(len(getters) == 1 && getters[0] == "Outgoing", "K7", "DefaultHandler.out", "handed out only by Outgoing()", token.NoPos, "Outgoing", "out is returned by: "+strings.Join(getters, ","))
		// consumers: calls of Outgoing() in the library
		cons := map[string]int{}
		for _, fn := range fns {
			an.AllInstrs(fn, func(in ssa.Instruction) {
				if cc := an.CallOf(in); cc != nil && cc.IsInvoke() && cc.Method.Name() == "Outgoing" {
					root := fn
					for root.Parent() != nil {
						root = root.Parent()
					}
					cons[an.NameOf(root)+"/"+an.NameOf(fn)]++
				}
			})
		}
		keys := an.SortedKeys(cons)
		okCons := len(keys) == 2
		perRoot := map[string]int{}
		for _, k := range keys {
			perRoot[strings.Split(k, "/")[0]]++
		}
		for _, n := range perRoot {
			if n != 1 {
				okCons = false
			}
		}
		c.Check(okCons, "K7", "DefaultHandler.out", "one consumer goroutine per serve function", token.NoPos, strings.Join(keys, ", "), "consumers of Outgoing(): "+strings.Join(keys, ", ")+" (need exactly one closure in Acceptor.serve and one in Initiator.Serve)")
	}
	// ---- K8
	hmu := c.Field("", "DefaultHandler", "mu")
	if hmu != nil && hs != nil && hsend != nil {
		for _, fn := range []*ssa.Function{hs, c.Func("", "DefaultHandler.SendBatch")} {
			if fn == nil {
				continue
			}
			an.AllInstrs(fn, func(in ssa.Instruction) {
				if call, ok := in.(*ssa.Call); ok && an.StaticCallee(&call.Call) == hsend {
					ls := la.At[call]
					c.Check(ls.Holds(hmu, "h", an.ModeW), "K8", an.NameOf(fn), "h.send runs with DefaultHandler.mu held", call.Pos(), ls.String(), "lockset "+ls.String()+": handlers, serialization and enqueue of two messages can interleave")
				}
			})
		}
		ent := la.Entry[hsend]
		c.Check(ent.Holds(hmu, "h", an.ModeW), "K8", "DefaultHandler.send", "every caller of send holds DefaultHandler.mu", hsend.Pos(), "entry lockset "+ent.String(), "send is reachable without DefaultHandler.mu (entry lockset "+ent.String()+")")
	}
	c.Explanation += " K11 (= C04.F4): per connection exactly one goroutine of each serve function writes the socket, one reads and one forwards; two writers draining the same queue reorder the stream."
	c.Explanation += " K4 also: ResetSeqNum stores the constant 0 in the counter it resets (GetNextSeqNum returns counter+1). K5 also: Session.timeLocation is only assigned time.LoadLocation(configured) or time.UTC, followed through results of package functions. K10 premise (= C13.Z5): the handler, and with it the session, lives on the per-connection context that the connection's tear-down cancels."
	c.Explanation += " K11 also: Conn.Write calls net.Conn.Write exactly once, outside any loop."
	// K4 (premise): the bundled store's Save leaves the counters alone and Messages is read-only (a retransmission passes the saving
	// handler again; the lookup runs on the inbound goroutine without the session mutex)
	checkCounterStorePlain(c, "K4")
	c.Explanation += " K4 also: memory.Storage.Save writes no counter, Messages modifies neither counters nor stored messages, SetSeqNum stores what it is given and returns nil."
	c.RuleMin = map[string]int{"K1": 6, "K2": 4, "K3": 8, "K4": 6, "K5": 8, "K6": 1, "K7": 3, "K8": 3, "K9": 2, "K10": 8, "K11": 6}
	c.MinObl = 35
}

func callsDirect(from, to *ssa.Function) bool {
	found := false
	an.AllInstrs(from, func(in ssa.Instruction) {
		if call, ok := in.(*ssa.Call); ok && an.StaticCallee(&call.Call) == to {
			found = true
		}
	})
	return found
}

func firstPaths(fn *ssa.Function) []*an.Path {
	ps, _ := an.EnumPaths(fn, 4096)
	return ps
}

// checkSendChainNoSpawn: no go statement in any function between a session send and the outbound queue.
func checkSendChainNoSpawn(c *core.Ctx, s *sess, rule string) {
	chain := []*ssa.Function{s.m.Method("send"), s.m.Method("sendWithErrorCheck"), s.m.Method("Send"), c.Func("", "DefaultHandler.Send"), c.Func("", "DefaultHandler.send"), c.Func("", "DefaultHandler.sendRaw"), c.Func("", "DefaultHandler.SendBatch"), c.Func("", "DefaultHandler.SendRaw")}
	for _, fn := range chain {
		if fn == nil {
			c.Anchor("send chain", false, "a function of the send chain is missing", token.NoPos)
			continue
		}
		c.Check(!hasGo(fn), rule, an.NameOf(fn), "no goroutine is spawned on the send chain", fn.Pos(), "no go statement", "a go statement on the path between the sender and the outbound queue lets a later message overtake an earlier one")
	}
}

// pkgHelpersOf: unexported functions of fn's package that fn calls directly (one level).
func pkgHelpersOf(fn *ssa.Function) []*ssa.Function {
	var out []*ssa.Function
	seen := map[*ssa.Function]bool{}
	an.AllInstrs(fn, func(in ssa.Instruction) {
		if cc := an.CallOf(in); cc != nil {
			if cal := an.StaticCallee(cc); cal != nil && cal.Pkg == fn.Pkg && cal.Blocks != nil && !cal.Object().Exported() && !seen[cal] {
				seen[cal] = true
				out = append(out, cal)
			}
		}
	})
	return out
}

// locationOrigins: where a *time.Location value comes from — "UTC" (the package variable), "LoadLocation" (result 0 of
// time.LoadLocation), "nil" — followed through phis and through the results of functions of the same package. The second result
// names the first origin that is none of these.
func locationOrigins(v ssa.Value, depth int) ([]string, string) {
	if depth > 6 {
		return nil, "origin not followed: " + an.Render(v)
	}
	if an.IsNilConst(v) {
		return []string{"nil"}, ""
	}
	switch x := v.(type) {
	case *ssa.UnOp:
		if g, isG := x.X.(*ssa.Global); isG && g.Pkg != nil && g.Pkg.Pkg.Path() == "time" && g.Name() == "UTC" {
			return []string{"UTC"}, ""
		}
	case *ssa.Phi:
		var out []string
		for _, e := range x.Edges {
			o, why := locationOrigins(e, depth+1)
			if why != "" {
				return nil, why
			}
			out = append(out, o...)
		}
		return out, ""
	case *ssa.Extract:
		call, isC := x.Tuple.(*ssa.Call)
		if !isC || x.Index != 0 {
			break
		}
		if an.CalleeIs(&call.Call, "time", "LoadLocation") {
			return []string{"LoadLocation"}, ""
		}
		cal := an.StaticCallee(&call.Call)
		if cal == nil || cal.Pkg != call.Parent().Pkg || cal.Blocks == nil {
			break
		}
		var out []string
		for _, b := range cal.Blocks {
			ret, isR := b.Instrs[len(b.Instrs)-1].(*ssa.Return)
			if !isR || len(ret.Results) == 0 {
				continue
			}
			o, why := locationOrigins(ret.Results[0], depth+1)
			if why != "" {
				return nil, why
			}
			out = append(out, o...)
		}
		return out, ""
	}
	return nil, "neither time.UTC nor the result of time.LoadLocation: " + an.Render(v)
}
