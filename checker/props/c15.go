package props

import (
	"fmt"
	"strings"

	"golang.org/x/tools/go/ssa"

	"sfcheck/an"
	"sfcheck/core"
)

func init() {
	register(&Check{ID: "C15", NeedSSA: true, Run: runC15})
}

func runC15(c *core.Ctx, o Options) {
	c.Explanation = "Logout handler and Stop of package session, all acyclic SSA paths. U1: with the state read as SuccessfulLogged the handler sends exactly one Logout and ends in a state other than SuccessfulLogged. " +
		"U2: with the state read as WaitingLogoutAnswer (the session sent the Logout itself) it sends nothing and executes changeState(ReceivedLogoutAnswer, true), which triggers the logout event (M1). " +
		"U3: Stop sends a Logout, arms time.AfterFunc(CloseTimeout of the settings, cancel) and registers a logout-event callback that stops that timer and cancels the session. " +
		"U4 (live registration): in no entry point is a registration on the event pool followed by a Clean of the pool before the function returns (deferred calls included), and no callback registered by the library calls Clean/Handle on the pool it is triggered from. " +
		"U6: no timer goroutine or non-Logout handler changes the state unless its tests exclude WaitingLogoutAnswer. U5: the event pool appends registrations, triggers them in registration order under its lock and stops at the first callback returning false. " +
		"Not decided: arrival times relative to the deadline; time.AfterFunc's own behaviour."
	s := newSess(c)
	if s == nil {
		return
	}
	m := s.m
	fn := s.one(true, "Logout")
	SL := m.StateVals["SuccessfulLogged"]
	if fn != nil {
		traces := s.tr.Traces(fn, m.AllStates)
		var bad1, bad2 []string
		n1, n2 := 0, 0
		for _, t := range traces {
			oc, _ := unmarshalOutcome(t)
			if oc != "ok" {
				continue
			}
			read, has := s.entryRead(t)
			if !has {
				bad1 = append(bad1, "parse-ok path without a test of the session state: "+traceStr(t))
				continue
			}
			switch read {
			case m.Set("SuccessfulLogged"):
				n1++
				snd := sends(t)
				if len(snd) != 1 || !hasKind(snd[0].Kinds, "Logout") || len(snd[0].Kinds) != 1 {
					bad1 = append(bad1, fmt.Sprintf("%d sends (need exactly one Logout) on path: %s", len(snd), traceStr(t)))
				}
				if t.Final.Has(SL) {
					bad1 = append(bad1, "the session may still be SuccessfulLogged after acknowledging the Logout: final state "+m.SetString(t.Final))
				}
				for _, e := range t.Events {
					if e.Kind == "cancel" || e.Kind == "spawn" {
						bad1 = append(bad1, e.String()+" on the acknowledge path")
					}
				}
			case m.Set("WaitingLogoutAnswer"):
				n2++
				if snd := sends(t); len(snd) != 0 {
					bad2 = append(bad2, fmt.Sprintf("sends %s although the session sent the Logout itself: %s", strings.Join(snd[0].Kinds, "|"), traceStr(t)))
				}
				okEvent := false
				for _, e := range t.Events {
					if e.Kind == "state" && e.Name == "ReceivedLogoutAnswer" && e.Trigger == 1 {
						okEvent = true
					}
				}
				if !okEvent {
					bad2 = append(bad2, "the logout event is not signalled (no changeState(ReceivedLogoutAnswer, true)) on path: "+traceStr(t))
				}
				if t.Final.Has(SL) {
					bad2 = append(bad2, "final state may be SuccessfulLogged")
				}
			}
		}
		ob := c.Ob("U1", "inbound:Logout", "logged-on: exactly one Logout reply, then not logged on", fn.Pos())
		if n1 == 0 {
			ob.Fail("no path for state SuccessfulLogged")
		} else if len(bad1) > 0 {
			ob.Fail("%s", bad1[0])
		} else {
			ob.Ok("%d path(s)", n1)
		}
		ob = c.Ob("U2", "inbound:Logout", "own Logout outstanding: no second Logout; logout event signalled", fn.Pos())
		if n2 == 0 {
			ob.Fail("no path for state WaitingLogoutAnswer")
		} else if len(bad2) > 0 {
			ob.Fail("%s", bad2[0])
		} else {
			ob.Ok("%d path(s)", n2)
		}
	}
	s.checkEventMapping("M1", map[string]string{"ReceivedLogoutAnswer": "EventLogout"})

	// U3 Stop
	stop := m.Method("Stop")
	if c.Anchor("session Stop", stop != nil, "(*Session).Stop", posOf(stop)) {
		traces := s.tr.Traces(stop, m.AllStates)
		var bad []string
		nOK := 0
		for _, t := range traces {
			last := t.Events[len(t.Events)-1]
			if last.Kind != "return" {
				continue
			}
			if last.Ret != "nil" && len(eventsOf(t, "afterfunc"))+len(eventsOf(t, "register")) == 0 {
				continue // error return right after Logout
			}
			nOK++
			lo := sendsOfKind(t, "Logout")
			if len(lo) != 1 || len(sends(t)) != 1 {
				bad = append(bad, "Stop does not send exactly one Logout: "+traceStr(t))
			}
			okState := false
			for _, e := range t.Events {
				if e.Kind == "state" && e.Name == "WaitingLogoutAnswer" {
					okState = true
				}
				if e.Kind == "send" {
					break
				}
			}
			if !okState {
				bad = append(bad, "Stop does not enter WaitingLogoutAnswer before sending the Logout (the peer's answer would be taken for a new Logout)")
			}
			af := eventsOf(t, "afterfunc")
			if len(af) != 1 {
				bad = append(bad, fmt.Sprintf("%d deadline timers armed (need one time.AfterFunc)", len(af)))
			} else {
				if r := an.Render(af[0].Args[0]); r != "s.LogonSettings.CloseTimeout" {
					bad = append(bad, "deadline is "+r+", not the configured s.LogonSettings.CloseTimeout")
				}
				cb := an.ClosureFn(af[0].Args[1])
				// the session's cancel function itself may be the callback: time.AfterFunc(d, s.cancel)
				isCancel := false
				if f, base := an.LoadedField(an.Unwrap(af[0].Args[1])); f != nil && base != nil && s.m.IsSessionVal(base) && an.FieldName(f) == "cancel" {
					isCancel = true
				}
				if ct, isCT := af[0].Args[1].(*ssa.ChangeType); isCT {
					if f, base := an.LoadedField(ct.X); f != nil && base != nil && s.m.IsSessionVal(base) && an.FieldName(f) == "cancel" {
						isCancel = true
					}
				}
				if !isCancel && (cb == nil || !s.alwaysCancels(cb)) {
					bad = append(bad, "the deadline callback does not cancel the session on every path")
				}
			}
			var reg *an.Event
			for i, e := range t.Events {
				if e.Kind == "register" && e.Name == "EventLogout" {
					reg = &t.Events[i]
				}
			}
			if reg == nil {
				bad = append(bad, "no callback registered for the logout event")
			} else {
				cb := an.ClosureFn(reg.Args[2])
				if cb == nil || !s.alwaysCancels(cb) {
					bad = append(bad, "the logout-event callback does not cancel the session on every path")
				}
				if cb != nil && len(af) == 1 {
					stopsTimer := false
					for _, ct := range s.tr.Traces(cb, m.AllStates) {
						for _, e := range ct.Events {
							if e.Kind == "timerstop" {
								if call, ok := e.Instr.(*ssa.Call); ok && an.CellValue(call.Call.Args[0]) == af[0].Val {
									stopsTimer = true
								}
							}
						}
					}
					if !stopsTimer {
						bad = append(bad, "the logout-event callback does not stop the deadline timer it races with")
					}
				}
			}
		}
		ob := c.Ob("U3", "Stop", "Logout sent; AfterFunc(CloseTimeout, cancel); logout-event callback stops the timer and cancels", stop.Pos())
		if nOK == 0 {
			ob.Fail("Stop has no success path")
		} else if len(bad) > 0 {
			ob.Fail("%s", strings.Join(bad, "; "))
		} else {
			ob.Ok("%d success path(s)", nOK)
		}
	}
	// U4 live registration + no Clean/Handle from inside a triggered callback
	nReg := 0
	for _, r := range s.roots() {
		if r.Cat == "method" && !isExported(an.NameOf(r.Fn)) && s.inPkgCallers(r.Fn) > 0 {
			continue
		}
		bad := ""
		regs := 0
		for _, t := range s.tr.Traces(r.Fn, m.AllStates) {
			seenReg := ""
			for _, e := range t.Events {
				if e.Kind == "register" {
					seenReg = e.Name
					regs++
				}
				if e.Kind == "clean" && seenReg != "" {
					bad = fmt.Sprintf("the callback registered for %s is wiped by EventHandlerPool.Clean before %s returns: %s", seenReg, an.NameOf(r.Fn), traceStr(t))
				}
				if (e.Kind == "clean" || e.Kind == "register") && r.Cat == "event" {
					bad = fmt.Sprintf("a callback triggered by the event pool calls %s on it: Trigger holds the pool's read lock, so this blocks forever", e.Kind)
				}
			}
		}
		if regs > 0 || bad != "" {
			nReg++
			c.Check(bad == "", "U4", r.Name(), "registrations stay live", r.Fn.Pos(), "no Clean after a registration on any path (deferred calls included)", bad)
		}
	}
	c.Check(nReg >= 2, "U4", "", "registration sites found", 0, "found", "fewer than two functions register event callbacks (anchor moved)")
	// U6: while the answer to an own Logout is awaited, nothing but the Logout handler (and the Logout/Stop entry points) changes the state:
	// a timer goroutine or another inbound handler that overwrites WaitingLogoutAnswer makes the peer's answer look like a new Logout.
	WLO := m.Set("WaitingLogoutAnswer")
	nU6 := 0
	for _, r := range s.roots() {
		if r.Cat != "goroutine" && r.Cat != "inbound" && r.Cat != "outbound" {
			continue
		}
		if r.Cat == "inbound" && strings.HasPrefix(r.Key, "Logout@") {
			continue
		}
		bad := ""
		changes := 0
		for _, t := range s.tr.Traces(r.Fn, m.AllStates) {
			known := m.AllStates
			for _, e := range t.Events {
				if e.Kind == "guard" && !e.Stale {
					known &= e.Read
				}
				if e.Kind == "state" {
					changes++
					if known&WLO != 0 {
						bad = fmt.Sprintf("changes the state to %s although the tests before it (%s) do not exclude WaitingLogoutAnswer: a pending logout would be overwritten and the peer's answer taken for a new Logout; path: %s", e.Name, m.SetString(known), traceStr(t))
					}
					known = m.AllStates &^ WLO // after an own write the state is the written one
				}
			}
		}
		if changes > 0 {
			nU6++
			c.Check(bad == "", "U6", r.Name(), "does not overwrite a pending logout", r.Fn.Pos(), "every state change is behind a test that excludes WaitingLogoutAnswer", bad)
		}
	}
	c.Check(nU6 >= 3, "U6", "", "state-changing handlers and goroutines found", 0, fmt.Sprint(nU6), "fewer state-changing roots than confirmed by reading")
	checkEventPool(c, "U5")
	// U3 premise: the close timeout armed by Stop is the configured one — the settings the Logon handler installs keep CloseTimeout
	s.checkRegisteredOnce("U1", true, "Logout")
	s.checkSettingsPreserved("U3")
	// … and nothing else rewrites it: every store to LogonSettings.CloseTimeout stores the CloseTimeout of other settings
	nCT := 0
	for _, fn := range s.allFuncs() {
		an.AllInstrs(fn, func(in ssa.Instruction) {
			st, ok := in.(*ssa.Store)
			if !ok {
				return
			}
			fa, ok := st.Addr.(*ssa.FieldAddr)
			if !ok || an.FieldOf(fa) == nil || an.FieldName(an.FieldOf(fa)) != "CloseTimeout" || !an.TypeIs(fa.X.Type(), "session", "LogonSettings") {
				return
			}
			nCT++
			f, _ := an.LoadedField(st.Val)
			c.Check(f != nil && f.Name() == "CloseTimeout", "U3", an.NameOf(fn), "a store to CloseTimeout copies a configured CloseTimeout", st.Pos(), "x.CloseTimeout ← y.CloseTimeout",
				"CloseTimeout is set to "+an.Render(st.Val)+": Stop then waits for that long, not for the close timeout the application configured (a configured zero means 'end at once')")
		})
	}
	c.Check(nCT >= 1, "U3", "", "stores to CloseTimeout found", 0, fmt.Sprint(nCT), "no store to LogonSettings.CloseTimeout found (the Logon handler's replacement was confirmed)")
	s.checkStateReadAfterDecode("U7")
	c.Explanation += " U7: in every inbound handler the state a branch tests is read after the message has been decoded (no Unmarshal between the read and the test): a snapshot taken before the decode misses a Stop()/Logout() that lands meanwhile."
	s.checkCallbacksOutsideStateLock("U4")
	// U6 (premise): the all-types handlers (which restore SuccessfulLogged from a pending probe) run before the Logout handler
	checkInboundDispatch(c, "U6")
	// U6 (premise): the session's Logout handler stays registered — a Remove never drops a non-empty handler list
	checkPoolGrowOnly(c, "U6")
	// U8 (premise): the one Logout reaches the wire — the enqueue waits for room in the outgoing queue (or for the handler to
	// stop) and never gives up on a slow consumer
	checkBatchDelivery(c, "U8")
	// U3 (the deadline stays armed): Stop itself never stops the timer it has just armed — only the logout-event callback does
	if st := s.m.Method("Stop"); st != nil {
		bad := ""
		an.AllInstrs(st, func(in ssa.Instruction) {
			cc := an.CallOf(in)
			if cc == nil {
				return
			}
			if cal := an.StaticCallee(cc); cal != nil && an.FuncIs(cal, "time", "Timer.Stop") || cal != nil && an.FuncIs(cal, "time", "Timer.Reset") {
				bad = "Stop calls (or defers) " + an.NameOf(cal) + " on " + an.Render(cc.Args[0]) + " at " + c.RelPos(in.Pos())
			}
		})
		// … and nothing Stop sets up postpones it: no function literal of Stop resets the timer, and the only one that stops it is the
		// logout-event callback (a handler that re-arms the deadline on every inbound message lets a peer that keeps talking but
		// never answers the Logout hold the session open for ever)
		for _, cl := range an.WithAnon(st) {
			if cl == st {
				continue
			}
			isLogoutCb := false
			an.AllInstrs(st, func(in ssa.Instruction) {
				if call, ok := in.(*ssa.Call); ok {
					if cal := an.StaticCallee(&call.Call); cal != nil && (an.FuncIs(cal, "session", "Session.OnChangeState") || an.FuncIs(cal, "utils", "EventHandlerPool.Handle")) && len(call.Call.Args) == 3 {
						if an.ClosureFn(call.Call.Args[2]) == cl && evName(call.Call.Args[1]) == "EventLogout" {
							isLogoutCb = true
						}
					}
				}
			})
			an.AllInstrs(cl, func(in ssa.Instruction) {
				cc := an.CallOf(in)
				if cc == nil {
					return
				}
				cal := an.StaticCallee(cc)
				if cal == nil {
					return
				}
				if an.FuncIs(cal, "time", "Timer.Reset") || (an.FuncIs(cal, "time", "Timer.Stop") && !isLogoutCb) {
					bad = an.NameOf(cl) + " (set up by Stop) calls " + an.NameOf(cal) + " on " + an.Render(cc.Args[0]) + " at " + c.RelPos(in.Pos())
				}
			})
		}
		c.Check(bad == "", "U3", "Stop", "the close deadline armed by Stop is left running", st.Pos(), "no Timer.Stop/Reset in Stop itself", bad+": the deadline callback never fires, and a peer that does not answer the Logout keeps the session alive for ever")
	}
	c.Explanation += " U8 premise (= C10.Y8): sendRaw blocks until there is room in the queue or the handler stops; it never drops. U5 also: Handle never runs the callback it registers. U3 also: no function literal set up by Stop resets the deadline, and only the logout-event callback stops it." + " U3 also: Stop itself never stops or resets the deadline timer it armed. U4 also: callbacks are triggered with no session mutex held. U6 premises: the inbound dispatch order (all-types handlers before the Logout handler); registered handlers stay registered (only an empty handler list is deleted). U5 also: Trigger does not hold the pool's mutex exclusively while the callbacks run (a callback may raise an event itself)."
	// U9 (premises): the peer's Logout reaches the handler whatever its size (framing) and whatever its text contains (value extraction)
	c.RulePrefix = "U9"
	framingRules(c, libFuncs(c))
	c.RulePrefix = ""
	checkValueExtraction(c, "U9")
	c.Explanation += " U9 premises: the framing rules C04.F1–F3 and the decoder's value extraction C02.R5."
	c.RuleMin = map[string]int{"M1": 3, "U1": 3, "U2": 1, "U3": 3, "U4": 4, "U5": 5, "U6": 8, "U8": 3, "U7": 6}
	c.MinObl = 12
}

// alwaysCancels: every path of the callback calls s.cancel.
func (s *sess) alwaysCancels(fn *ssa.Function) bool {
	traces := s.tr.Traces(fn, s.m.AllStates)
	if len(traces) == 0 {
		return false
	}
	for _, t := range traces {
		ok := false
		for _, e := range t.Events {
			if e.Kind == "cancel" && e.Name == "s.cancel" {
				ok = true
			}
		}
		if !ok {
			return false
		}
	}
	return true
}

// checkEventPool (U5): utils.EventHandlerPool keeps registration order and stops at the first false.
func checkEventPool(c *core.Ctx, rule string) {
	handle := c.Func("utils", "EventHandlerPool.Handle")
	trigger := c.Func("utils", "EventHandlerPool.Trigger")
	if !c.Anchor("event pool", handle != nil && trigger != nil, "utils.EventHandlerPool.Handle/Trigger", posOf(handle)) {
		return
	}
	// Handle: every update of the pool's map appends the new callback at the end of the event's list (directly, or through a
	// helper that returns an ordered copy plus one)
	checkEventPoolUpdates(c, rule)
	// Handle only registers: it never calls the callback itself (a "late subscriber" replay fires a subscriber for an event of an
	// earlier logon period — Stop's logout callback would cancel the session the moment Stop is called)
	{
		callsCb := ""
		for _, f := range append([]*ssa.Function{handle}, pkgHelpersOf(handle)...) {
			an.AllInstrs(f, func(in ssa.Instruction) {
				cc := an.CallOf(in)
				if cc == nil || cc.IsInvoke() || an.StaticCallee(cc) != nil {
					return
				}
				if _, isB := cc.Value.(*ssa.Builtin); isB {
					return
				}
				callsCb = an.Render(cc.Value) + " at " + c.RelPos(in.Pos())
			})
		}
		c.Check(callsCb == "", rule, "EventHandlerPool.Handle", "registration does not run the callback", handle.Pos(), "no dynamic call in Handle", "Handle calls "+callsCb+": a subscriber registered after an event of an earlier period is run at once, for an event that has not happened in this one")
	}
	// Trigger: range over the slice in index order; return on first false
	var rng *ssa.Phi
	okOrder, okStop, calls := false, false, 0
	an.AllInstrs(trigger, func(in ssa.Instruction) {
		call, ok := in.(*ssa.Call)
		if !ok || call.Call.IsInvoke() || an.StaticCallee(&call.Call) != nil {
			return
		}
		if _, isB := call.Call.Value.(*ssa.Builtin); isB {
			return
		}
		// dynamic call of a handler: the callee must be handlers[i] with i the range index
		calls++
		// callbacks raise events themselves (Logout() from a logon callback, the disconnect event from a timer): the pool's mutex
		// must not be held exclusively while they run, or the nested Trigger blocks on it for ever
		if held := an.HeldExclusiveAt(trigger, call); true {
			k := ""
			if len(held) > 0 {
				k = an.SortedKeys(held)[0]
			}
			c.Check(len(held) == 0, rule, "EventHandlerPool.Trigger", "callbacks run without the pool's mutex held exclusively", call.Pos(), "read lock (or none) while the callbacks run",
				"Trigger calls the callbacks with "+k+" locked exclusively: a callback that raises an event itself (Logout() or Stop() from a logon callback) blocks for ever in the nested Trigger — the Logout is never sent and the logout event never signalled")
		}
		r := an.Render(call.Call.Value)
		if u, ok := call.Call.Value.(*ssa.UnOp); ok {
			if ia, ok := u.X.(*ssa.IndexAddr); ok {
				if phi := rangeIndexPhi(ia.Index); phi != nil {
					rng = phi
					okOrder = true
				}
			}
		}
		_ = r
		// the result decides whether to continue
		for _, ref := range *call.Referrers() {
			if iff, ok := ref.(*ssa.If); ok {
				// the false edge must lead to a return without further handler calls
				tgt := iff.Block().Succs[1]
				if len(tgt.Instrs) > 0 {
					okStop = leadsToReturnWithoutCalls(tgt)
				}
			}
		}
	})
	_ = rng
	c.Check(calls == 1 && okOrder, rule, "EventHandlerPool.Trigger", "calls the callbacks in ascending index order", trigger.Pos(), "range over the registered slice, index ascending from 0", "Trigger does not call handlers[i] for an ascending range index i")
	c.Check(okStop, rule, "EventHandlerPool.Trigger", "stops at the first callback that returns false", trigger.Pos(), "false → return", "a false result does not end the traversal")
}

// rangeIndexPhi: v is the index of a `for i := range x` loop: go/ssa lowers range-over-slice to
// t = phi [entry: -1, back edges: t+1]; idx = t + 1. Returns the phi if v is idx (or the phi itself for i=0;i++ loops).
func rangeIndexPhi(v ssa.Value) *ssa.Phi {
	if b, ok := v.(*ssa.BinOp); ok && b.Op.String() == "+" {
		if c, ok := an.ConstInt(b.Y); ok && c == 1 {
			if phi, ok := b.X.(*ssa.Phi); ok && len(phi.Edges) >= 2 {
				if c0, ok := an.ConstInt(phi.Edges[0]); ok && c0 == -1 {
					for _, e := range phi.Edges[1:] {
						if e != ssa.Value(b) {
							return nil
						}
					}
					return phi
				}
			}
		}
	}
	if phi, ok := v.(*ssa.Phi); ok && len(phi.Edges) >= 2 {
		if c0, ok := an.ConstInt(phi.Edges[0]); ok && c0 == 0 {
			for _, e := range phi.Edges[1:] {
				b, ok := e.(*ssa.BinOp)
				if !ok || b.Op.String() != "+" || b.X != ssa.Value(phi) {
					return nil
				}
				if c1, ok := an.ConstInt(b.Y); !ok || c1 != 1 {
					return nil
				}
			}
			return phi
		}
	}
	return nil
}

func leadsToReturnWithoutCalls(b *ssa.BasicBlock) bool {
	seen := map[*ssa.BasicBlock]bool{}
	for b != nil && !seen[b] {
		seen[b] = true
		for _, in := range b.Instrs {
			switch x := in.(type) {
			case *ssa.Return:
				return true
			case *ssa.Call:
				if an.StaticCallee(&x.Call) == nil && !x.Call.IsInvoke() {
					if _, isB := x.Call.Value.(*ssa.Builtin); !isB {
						return false
					}
				}
			}
		}
		if len(b.Succs) != 1 {
			return false
		}
		b = b.Succs[0]
	}
	return false
}
