package props

import (
	"fmt"
	"go/token"
	"go/types"
	"strings"

	"golang.org/x/tools/go/ssa"

	"sfcheck/an"
	"sfcheck/core"
)

func init() {
	register(&Check{ID: "C19", NeedSSA: true, Run: runC19})
}

// rangeCall describes `for _, h := range X { if !f(h) {…} }` in a pool's Range method.
type rangeCall struct {
	Over      ssa.Value // the slice ranged over
	Call      *ssa.Call // the dynamic call f(elem)
	Ascending bool
	FalseExit *ssa.BasicBlock
	TrueNext  *ssa.BasicBlock
	Head      *ssa.BasicBlock
}

func findRangeCall(fn *ssa.Function) *rangeCall {
	var out *rangeCall
	an.AllInstrs(fn, func(in ssa.Instruction) {
		call, ok := in.(*ssa.Call)
		if !ok || call.Call.IsInvoke() || an.StaticCallee(&call.Call) != nil {
			return
		}
		if _, isB := call.Call.Value.(*ssa.Builtin); isB {
			return
		}
		if len(call.Call.Args) != 1 {
			return
		}
		// argument: (typeassert of) *(&X[i]) with i a range index
		arg := call.Call.Args[0]
		if ta, ok := arg.(*ssa.TypeAssert); ok {
			arg = ta.X
		}
		u, ok := arg.(*ssa.UnOp)
		if !ok {
			return
		}
		ia, ok := u.X.(*ssa.IndexAddr)
		if !ok {
			return
		}
		phi := rangeIndexPhi(ia.Index)
		rc := &rangeCall{Over: ia.X, Call: call, Ascending: phi != nil}
		if phi != nil {
			rc.Head = phi.Block()
		}
		for _, ref := range *call.Referrers() {
			if iff, ok := ref.(*ssa.If); ok {
				rc.TrueNext = iff.Block().Succs[0]
				rc.FalseExit = iff.Block().Succs[1]
			}
		}
		out = rc
	})
	return out
}

func runC19(c *core.Ctx, o Options) {
	c.Explanation = "H1: in DefaultHandler.send the enqueue (sendRaw) is dominated, in this order, by the pass edges of Range over the all-types outgoing handlers, Range over the handlers of msg.MsgType(), and ToBytes; every fail edge returns a non-nil error; " +
		"the bytes enqueued are ToBytes' result; each handler is called with the very message being sent; Send/SendBatch/Session.send/Session.Send propagate the error. H2: the pools append on registration, copy in order, iterate in ascending index order; the outgoing Range returns false at the first refusal and true otherwise. " +
		"H3: the first outgoing all-types handler ever registered by a session is the save handler (it calls MessageStorage.Save), registered inside the constructor before the session is returned. " +
		"H4: DefaultHandler.serve offers the message to the all-types incoming handlers and then to the handlers of its own type (extracted with ValueByTag(msg, msgTypeTag)), unconditionally in that order. " +
		"Structural conditions for every set of registered handlers and every pattern of refusals/store failures; what the handlers themselves do is the application's."
	root := c.SSAPkg("")
	if !c.Anchor("root package", root != nil, "simplefixgo", token.NoPos) {
		return
	}
	checkSendPathOrder(c, "H1")
	// error propagation up to the public API
	for _, f := range []struct{ rel, name, callee, what string }{
		{"", "DefaultHandler.Send", "DefaultHandler.send", "Send returns send's error"},
		{"session", "Session.Send", "Session.send", "Session.Send returns send's error"},
	} {
		fn := c.Func(f.rel, f.name)
		if !c.Anchor(f.name, fn != nil, f.name, posOf(fn)) {
			continue
		}
		// the callee inlined into this wrapper: there is no hand-over of an error left to check here (the rule about the callee's
		// own result — Router.Send's error is returned — is applied to the wrapper below)
		if cal := c.Func(f.rel, f.callee); cal == fn {
			c.Ob("H1", f.name, f.what, fn.Pos()).Ok("%s is inlined into %s", f.callee, f.name)
			continue
		}
		paths, _ := an.EnumPaths(fn, 16)
		ok := len(paths) > 0
		for _, p := range paths {
			if p.Return == nil || len(p.Results) != 1 || !strings.Contains(p.Results[0], "."+strings.Split(f.callee, ".")[1]+"(") {
				ok = false
			}
		}
		c.Check(ok, "H1", f.name, f.what, fn.Pos(), "result is the callee's error", "the error of "+f.callee+" is dropped or replaced")
	}
	if fn := c.Func("session", "Session.send"); c.Anchor("Session.send", fn != nil, "Session.send", posOf(fn)) {
		paths, _ := an.EnumPaths(fn, 16)
		ok, n := true, 0
		for _, p := range paths {
			if p.Return == nil || len(p.Results) != 1 {
				continue
			}
			if strings.Contains(p.Results[0], ".Router.Send(") {
				n++
			} else if p.Results[0] == "nil" {
				ok = false
			}
		}
		c.Check(ok && n == 1, "H1", "Session.send", "returns Router.Send's error", fn.Pos(), "result is Router.Send(msg)", "Session.send drops the router's error or returns nil on a failure path")
	}
	if fn := c.Func("", "DefaultHandler.SendBatch"); c.Anchor("SendBatch", fn != nil, "DefaultHandler.SendBatch", posOf(fn)) {
		paths, _ := an.EnumPaths(fn, 64)
		ok, sawErr := true, false
		for _, p := range paths {
			if p.Return == nil || len(p.Results) != 1 {
				continue
			}
			failed := false
			for _, a := range p.Atoms {
				if strings.Contains(a.L, ".send(") && a.Rel == "!=" && a.R == "nil" {
					failed = true
				}
			}
			if failed {
				sawErr = true
				if !strings.Contains(p.Results[0], ".send(") {
					ok = false
				}
			}
		}
		c.Check(ok && sawErr, "H1", "DefaultHandler.SendBatch", "stops at and returns the first send error", fn.Pos(), "err != nil → return err", "SendBatch continues after, or hides, a failed send")
	}

	// ---- H2 pools
	add := c.Func("", "HandlerPool.add")
	if c.Anchor("pool add", add != nil, "HandlerPool.add", posOf(add)) {
		ok := false
		an.AllInstrs(add, func(in ssa.Instruction) {
			mu, isMu := in.(*ssa.MapUpdate)
			if !isMu {
				return
			}
			call, isCall := mu.Value.(*ssa.Call)
			if !isCall {
				return
			}
			if b, isB := call.Call.Value.(*ssa.Builtin); !isB || b.Name() != "append" {
				return
			}
			elems, okE := an.SliceElems(call.Call.Args[1])
			if okE && len(elems) == 1 && elems[0] == ssa.Value(add.Params[2]) && an.Render(call.Call.Args[0]) == "p.handlers[msgType]" && an.Render(mu.Key) == "msgType" {
				ok = true
			}
		})
		c.Check(ok, "H2", "HandlerPool.add", "appends the new handler after the existing ones of its type", add.Pos(), "handlers[t] = append(handlers[t], handle)", "add does not append the handler to the end of its type's list")
	}
	byType := c.Func("", "HandlerPool.handlersByMsgType")
	if c.Anchor("pool snapshot", byType != nil, "HandlerPool.handlersByMsgType", posOf(byType)) {
		paths, _ := an.EnumPaths(byType, 16)
		ok, n := true, 0
		why := ""
		for _, p := range paths {
			if p.Return == nil {
				continue
			}
			r := p.Results[0]
			if p.Has("p.handlers[msgType]#1") {
				n++
				if r != "p.handlers[msgType]#0" && !isOrderedCopy(p.ResVals[0], "p.handlers[msgType]#0", p) {
					ok = false
					why = r
				}
			}
		}
		c.Check(ok && n > 0, "H2", "HandlerPool.handlersByMsgType", "returns the registered handlers in registration order", byType.Pos(), "a copy append(empty, handlers...) of the type's list", "the snapshot is not the type's list in order: "+why)
	}
	checkPoolRange(c, "H2", "Outgoing", "Incoming")
	checkPoolGrowOnly(c, "H2")
	checkEventPoolOrder(c, "H2")

	// ---- H3 store first
	s := newSess(c)
	if s != nil {
		ns := s.m.Pkg.Func("newSession")
		if c.Anchor("session constructor", ns != nil, "session.newSession", posOf(ns)) {
			var bad []string
			nOK := 0
			for _, t := range s.tr.Traces(ns, s.m.AllStates) {
				last := t.Events[len(t.Events)-1]
				if last.Kind != "return" || !strings.HasSuffix(last.Ret, ",nil") {
					continue
				}
				nOK++
				outs := eventsOf(t, "handle-out")
				if len(outs) == 0 || outs[0].Name != "ALL" {
					bad = append(bad, "the constructor returns a session without an all-types outgoing handler registered first")
					continue
				}
				cl := an.ClosureFn(outs[0].Args[1])
				saves := false
				if cl != nil {
					for _, ht := range s.tr.Traces(cl, s.m.AllStates) {
						for _, e := range ht.Events {
							if e.Kind == "store" && e.Name == "Save" {
								saves = true
							}
						}
					}
				}
				if !saves {
					bad = append(bad, "the first all-types outgoing handler registered by the constructor does not save the message")
				}
			}
			ob := c.Ob("H3", "newSession", "the save handler is the first all-types outgoing handler, registered before the session is returned", ns.Pos())
			if len(bad) > 0 || nOK == 0 {
				ob.Fail("%s", strings.Join(append(bad, fmt.Sprintf("(%d success paths)", nOK)), "; "))
			} else {
				ob.Ok("%d success path(s)", nOK)
			}
		}
		s.checkSaveHandler("H3")
		// no other function registers an all-types outgoing handler before the constructor's: registrations elsewhere happen on an existing session
		for _, r := range s.regs {
			if !r.In && r.Key == "ALL" && an.NameOf(r.Parent) != "setStorageCallbacks" {
				c.Check(an.NameOf(r.Parent) == "start", "H3", an.NameOf(r.Parent), "later all-types outgoing registration", r.Site.Pos(), "registered by start() at logon, after construction", "an all-types outgoing handler is registered in "+an.NameOf(r.Parent)+"; if it runs before the save handler a message can be refused or sent unsaved")
			}
		}
	}

	// ---- H4 inbound dispatch
	checkInboundDispatch(c, "H4")
	// H4: what ServeIncoming accepted is dispatched before Run ends: every return of Run after a stop signal passes the drain
	if run, drain, serve := c.Func("", "DefaultHandler.Run"), c.Func("", "DefaultHandler.processRemainingIncoming"), c.Func("", "DefaultHandler.serve"); c.Anchor("handler loop and drain", run != nil && drain != nil && serve != nil, "DefaultHandler.Run, processRemainingIncoming, serve", posOf(run)) {
		var drainCall *ssa.Call
		paths, _ := an.EnumPathsX(run, 256)
		for _, p := range paths {
			for _, in := range p.InstrSeq() {
				if call, ok := in.(*ssa.Call); ok && an.StaticCallee(&call.Call) == drain {
					drainCall = call
				}
			}
		}
		var bad []string
		nStop := 0
		for _, p := range paths {
			if p.Return == nil {
				continue
			}
			// exits that are not stop signals: the incoming channel was closed (nothing is queued), or a handler failed on a message
			exempt := false
			drained := false
			for _, b := range p.Blocks {
				for _, in := range b.Instrs {
					if call, ok := in.(*ssa.Call); ok && an.StaticCallee(&call.Call) == drain {
						drained = true
					}
				}
			}
			for _, b := range p.Blocks {
				for _, in := range b.Instrs {
					// a return on a way round the loop that dispatched a message can only be the failed-handler exit (success loops on)
					if call, ok := in.(*ssa.Call); ok && an.StaticCallee(&call.Call) == serve {
						exempt = true
					}
				}
			}
			res := ""
			if len(p.Results) == 1 {
				res = p.Results[0]
			}
			if strings.HasSuffix(res, "ErrConnClosed") && !drained {
				// the closed-channel exit returns the sentinel directly
				exempt = true
			}
			if exempt {
				continue
			}
			nStop++
			if !drained {
				bad = append(bad, "Run returns under ["+p.CondString()+"] without dispatching the inbound messages that are still queued")
			}
		}
		ob := c.Ob("H4", "DefaultHandler.Run", "queued inbound messages are dispatched before the loop ends on a stop signal", run.Pos())
		if drainCall == nil || len(bad) > 0 || nStop < 2 {
			ob.Fail("%s", strings.Join(append(bad, fmt.Sprintf("(%d stop exits found)", nStop)), "; "))
		} else {
			ob.Ok("%d stop exits, each after processRemainingIncoming", nStop)
		}
		// the drain: a non-blocking receive loop that dispatches every message it takes
		okDrain := false
		an.AllInstrs(drain, func(in ssa.Instruction) {
			if sel, ok := in.(*ssa.Select); ok && !sel.Blocking && len(sel.States) == 1 && sel.States[0].Dir == 2 {
				if f, _ := an.LoadedField(sel.States[0].Chan); f != nil && an.FieldName(f) == "incoming" {
					okDrain = true
				}
			}
		})
		callsServe := false
		an.AllInstrs(drain, func(in ssa.Instruction) {
			if call, ok := in.(*ssa.Call); ok && an.StaticCallee(&call.Call) == serve {
				callsServe = true
			}
		})
		c.Check(okDrain && callsServe && len(loops(drain)) == 1, "H4", "DefaultHandler.processRemainingIncoming", "takes messages from the queue until it is empty and dispatches each", drain.Pos(), "for { select { case msg := <-incoming: serve(msg); default: return } }", "the drain does not empty the incoming queue through serve")
	}
	c.Explanation += " H2 also covers utils.EventHandlerPool: every update of its map appends one subscriber at the end of the event's list (directly or through a helper that returns an ordered copy plus one), and Trigger walks front to back and stops at the first false."
	// H1 (premises): what was enqueued is not rewritten by a later serialization of the same object, and the session hands
	// messages to the handler only through Send/SendBatch (never serialized by itself and pushed with SendRaw)
	checkImageFresh(c, "H1")
	if s2 := newSess(c); s2 != nil {
		for _, fn := range s2.allFuncs() {
			an.AllInstrs(fn, func(in ssa.Instruction) {
				if cc := an.CallOf(in); cc != nil && cc.IsInvoke() && an.TypeIs(cc.Value.Type(), "session", "Handler") && cc.Method.Name() == "SendRaw" {
					c.Ob("H1", an.NameOf(fn), "calls Router.SendRaw", in.Pos()).Fail("package session pushes raw bytes with SendRaw in %s: the message bypasses the outgoing handlers (store, refusals)", an.NameOf(fn))
				}
			})
		}
	}
	c.Explanation += " H1 premises: the wire image is built in fresh memory (what was enqueued is not rewritten by a later serialization of the same object), and package session never calls Router.SendRaw."
	// H4 (premises): the dispatcher finds the message type (ValueByTag returns the first anchored occurrence, also when the tag text
	// occurs again inside a data field); no library callback in front of the application's refuses a message the store can record
	if vbt := c.Func("fix", "ValueByTag"); vbt != nil {
		needleCensus(c, "H4", []*ssa.Function{vbt})
	}
	checkCounterStorePlain(c, "H4")
	c.RuleMin = map[string]int{"H1": 6, "H2": 10, "H3": 3, "H4": 3}
	c.MinObl = 20
}

// checkPoolRange: the Range method of the given handler pools walks the snapshot of the requested type front to back, continues
// after a true result and stops at the first false one (the outgoing Range then returns false, and true when nobody refused).
func checkPoolRange(c *core.Ctx, rule string, dirs ...string) {
	for _, dir := range dirs {
		fn := c.Func("", dir+"HandlerPool.Range")
		if !c.Anchor(dir+" Range", fn != nil, dir+"HandlerPool.Range", posOf(fn)) {
			continue
		}
		rc := findRangeCall(fn)
		name := dir + "HandlerPool.Range"
		if rc == nil {
			c.Ob(rule, name, "iterates the handlers", fn.Pos()).Fail("no loop calling f(handler) found")
			continue
		}
		c.Check(rc.Ascending && strings.HasSuffix(an.Render(rc.Over), ".handlersByMsgType(msgType)"), rule, name, "visits handlersByMsgType(msgType) in ascending index order", rc.Call.Pos(),
			"range over the snapshot of the requested type", "Range does not walk the requested type's handlers front to back")
		c.Check(flowsStraightTo(rc.TrueNext, rc.Head), rule, name, "continues with the next handler after a true result", rc.Call.Pos(), "true → next iteration", "a true result does not continue with the next handler")
		if dir == "Outgoing" {
			// every way on from a refusal returns false without another handler having been called (a way back to the loop head
			// would be a path that does not return)
			paths, _ := an.EnumPaths(fn, 32)
			okF, nF := true, 0
			for _, p := range paths {
				refused := false
				for _, a := range p.Atoms {
					if a.Rel == "false" && strings.HasPrefix(a.L, "f(") {
						refused = true
					}
				}
				if !refused {
					continue
				}
				nF++
				if p.Return == nil || len(p.Results) != 1 || p.Results[0] != "false" || rc.FalseExit == nil || !leadsToReturnWithoutCalls(rc.FalseExit) {
					okF = false
				}
			}
			c.Check(okF && nF > 0, rule, name, "returns false at the first refusal", rc.Call.Pos(), "false → return false", "a refusal does not make Range return false immediately")
			okT := false
			for _, p := range paths {
				if p.Return != nil && len(p.Results) == 1 && p.Results[0] == "true" {
					okT = true
					for _, a := range p.Atoms {
						if a.Rel == "false" && strings.HasPrefix(a.L, "f(") {
							okT = false
						}
					}
				}
			}
			c.Check(okT, rule, name, "returns true when no handler refused", fn.Pos(), "loop exhausted → true", "Range does not return true after all handlers accepted")
		} else {
			c.Check(rc.FalseExit != nil && leadsToReturnWithoutCalls(rc.FalseExit), rule, name, "stops at the first false result", rc.Call.Pos(), "false → leave the loop", "a false result does not stop the traversal")
		}
	}
}

// isOrderedCopy: v is a fresh slice holding exactly the elements of the list rendered src, in order: append(empty, src...) or
// make(len(src)) filled by copy(v, src) on the path and by nothing else.
func isOrderedCopy(v ssa.Value, src string, p *an.Path) bool {
	emptySlice := func(x ssa.Value) bool {
		switch y := x.(type) {
		case *ssa.Const:
			return y.Value == nil
		case *ssa.MakeSlice:
			k, isK := an.ConstInt(y.Len)
			return isK && k == 0
		case *ssa.Slice:
			if al, isAl := y.X.(*ssa.Alloc); isAl {
				if arr, isArr := an.Deref(al.Type()).Underlying().(*types.Array); isArr && arr.Len() == 0 {
					return true
				}
			}
		}
		return false
	}
	switch x := an.ResolveOnPath(v, p).(type) {
	case *ssa.Call:
		if b, isB := x.Call.Value.(*ssa.Builtin); isB && b.Name() == "append" && len(x.Call.Args) == 2 {
			return emptySlice(an.ResolveOnPath(x.Call.Args[0], p)) && an.RenderOnPath(x.Call.Args[1], p) == src
		}
	case *ssa.MakeSlice:
		if an.RenderOnPath(x.Len, p) != "len("+src+")" {
			return false
		}
		copies := 0
		for _, in := range p.InstrSeq() {
			switch y := in.(type) {
			case *ssa.Call:
				if bi, isB := y.Call.Value.(*ssa.Builtin); isB && bi.Name() == "copy" && an.ResolveOnPath(y.Call.Args[0], p) == ssa.Value(x) {
					if an.RenderOnPath(y.Call.Args[1], p) != src {
						return false
					}
					copies++
				}
			case *ssa.IndexAddr:
				if an.ResolveOnPath(y.X, p) == ssa.Value(x) {
					return false
				}
			}
		}
		return copies == 1
	}
	return false
}

// checkPoolGrowOnly: registered handlers stay registered, at their position. Every update of HandlerPool.handlers is
// handlers[k] = append(handlers[k], h) or the creation of an empty list for a missing key, and the only delete removes an entry
// whose list is empty. (Remove is a no-op on non-empty lists today; a removal that shifts or reorders elements would let an
// application's stale identifier remove the session's own handlers from the shared pool, or reorder the survivors.)
func checkPoolGrowOnly(c *core.Ctx, rule string) {
	hf := c.Field("", "HandlerPool", "handlers")
	if !c.Anchor("handler pool map", hf != nil, "HandlerPool.handlers", token.NoPos) {
		return
	}
	isPoolMap := func(v ssa.Value) bool {
		f, _ := an.LoadedField(v)
		return f == hf
	}
	n := 0
	for _, fn := range pkgFuncs(c.SSAPkg("")) {
		an.AllInstrs(fn, func(in ssa.Instruction) {
			switch x := in.(type) {
			case *ssa.MapUpdate:
				if !isPoolMap(x.Map) {
					return
				}
				n++
				ok := false
				switch v := x.Value.(type) {
				case *ssa.MakeSlice:
					if k, isK := an.ConstInt(v.Len); isK && k == 0 {
						ok = true // an empty list for a new key
					}
				case *ssa.Slice:
					// make([]T, 0) with a constant size is lowered to new([0]T)[:0]
					if al, isAl := v.X.(*ssa.Alloc); isAl {
						if arr, isArr := an.Deref(al.Type()).Underlying().(*types.Array); isArr && arr.Len() == 0 {
							ok = true
						}
					}
				case *ssa.Call:
					if b, isB := v.Call.Value.(*ssa.Builtin); isB && b.Name() == "append" && len(v.Call.Args) == 2 {
						if lk, isL := v.Call.Args[0].(*ssa.Lookup); isL && isPoolMap(lk.X) && lk.Index == x.Key {
							if elems, isLit := an.SliceElems(v.Call.Args[1]); isLit && len(elems) == 1 {
								ok = true
							}
						}
					}
				}
				c.Check(ok, rule, an.NameOf(fn), "the handler list of a type only grows at its end", x.Pos(), "handlers[k] = append(handlers[k], h)",
					"handlers["+an.Render(x.Key)+"] is set to "+an.Render(x.Value)+": registered handlers are removed, moved or replaced — the session's own handlers (store, timer refresh) live in the same lists and are identified only by position")
			case *ssa.Call:
				b, isB := x.Call.Value.(*ssa.Builtin)
				if !isB || b.Name() != "delete" || !isPoolMap(x.Call.Args[0]) {
					return
				}
				n++
				key := an.Render(x.Call.Args[1])
				paths, _ := an.EnumPaths(fn, 64)
				ok, np := true, 0
				for _, p := range paths {
					if !p.Passes(x) {
						continue
					}
					np++
					nonEmpty := false
					for _, a := range p.Atoms {
						if strings.HasPrefix(a.L, "len(") && strings.HasSuffix(a.L, ".handlers["+key+"])") || strings.HasPrefix(a.R, "len(") && strings.HasSuffix(a.R, ".handlers["+key+"])") || lenOfPoolEntry(a.Val, isPoolMap, key) {
							lenTerm := a.L
							if !strings.HasPrefix(lenTerm, "len(") {
								lenTerm = a.R
							}
							if !an.PathFeasible(p, an.Atom{L: "0", Rel: "<", R: lenTerm}) {
								nonEmpty = true // the path entails len == 0
							}
						}
					}
					if !nonEmpty {
						ok = false
					}
				}
				c.Check(ok && np > 0, rule, an.NameOf(fn), "only an empty handler list is deleted", x.Pos(), "len(handlers[k]) == 0 ⇒ delete", "a handler list is deleted without having been found empty")
			}
		})
	}
	c.Check(n >= 2, rule, "HandlerPool", "updates of the handler map found", token.NoPos, fmt.Sprint(n), fmt.Sprintf("%d updates of HandlerPool.handlers found (append in add, delete in free were confirmed)", n))
}

// handlerCalledWith: the function literal handed to Range (argument 2 of the effective call) has a single path, and its result
// is its own parameter — the handler — applied to want, the message of the outer function.
func handlerCalledWith(e an.EffCall, want ssa.Value) bool {
	if len(e.Inner.Call.Args) < 3 {
		return false
	}
	cl := an.ClosureFn(e.Inner.Call.Args[2])
	if cl == nil || len(cl.Params) != 1 {
		return false
	}
	ps, _ := an.EnumPaths(cl, 8)
	if len(ps) != 1 || len(ps[0].ResVals) != 1 {
		return false
	}
	call, ok := an.Unspill(ps[0].ResVals[0]).(*ssa.Call)
	if !ok || call.Call.IsInvoke() || call.Call.Value != ssa.Value(cl.Params[0]) || len(call.Call.Args) != 1 {
		return false
	}
	return e.Resolve(call.Call.Args[0]) == want
}

// checkInboundDispatch: DefaultHandler.serve reads the type from the message's own MsgType tag and offers the message to the
// all-types handlers and then, unconditionally, to the handlers of its type.
func checkInboundDispatch(c *core.Ctx, rule string) {
	serve := c.Func("", "DefaultHandler.serve")
	if !c.Anchor("inbound dispatch", serve != nil, "(*DefaultHandler).serve", posOf(serve)) {
		return
	}
	// over the interprocedural paths of serve (steps may live in helpers): a path that returns nil has looked the type up in the
	// message, then run the all-types handlers, then — with nothing in between that could skip it — the handlers of that type
	paths, _ := an.EnumPathsX(serve, 4096)
	type step struct {
		call *ssa.Call
		eff  an.EffCall
	}
	var bad []string
	nOK := 0
	var where token.Pos = serve.Pos()
	for _, p := range paths {
		if p.Return == nil {
			continue
		}
		var lookup, rAll, rType *step
		order := ""
		// a forwarding helper is read at its call (an.Effective); its body, which the path also contains, is not read again
		viaForwarder := map[*ssa.Call]bool{}
		for _, in := range p.InstrSeq() {
			call, ok := in.(*ssa.Call)
			if !ok || viaForwarder[call] {
				continue
			}
			e := an.Effective(call)
			if e.Inner != call {
				viaForwarder[e.Inner] = true
			}
			switch {
			case an.CalleeIs(&call.Call, "fix", "ValueByTag"):
				lookup = &step{call, e}
				order += "L"
			case an.CalleeIs(&e.Inner.Call, "simplefix-go", "IncomingHandlerPool.Range"):
				key := an.ResolveOnPath(e.Arg(1), p)
				if s, ok := an.ConstString(key); ok && s == "ALL" {
					rAll = &step{call, e}
					order += "A"
				} else {
					rType = &step{call, e}
					order += "T"
				}
			}
		}
		success := len(p.Results) == 1 && p.Results[0] == "nil"
		if !success {
			// a failing lookup ends the dispatch before any handler ran; anything else must not have run handlers partially
			if strings.Contains(order, "A") != strings.Contains(order, "T") {
				bad = append(bad, "a path runs the all-types handlers without the type's handlers (or vice versa): "+p.CondString())
			}
			continue
		}
		nOK++
		if order != "LAT" {
			bad = append(bad, fmt.Sprintf("a successful path of serve performs the steps %q (L = type lookup, A = all-types handlers, T = type handlers), expected LAT: %s", order, p.CondString()))
			continue
		}
		where = lookup.call.Pos()
		if r := an.RenderOnPath(lookup.call, p); r != "fix.ValueByTag(msg, h.msgTypeTag)" {
			bad = append(bad, "the type is looked up as "+r)
		}
		if r := an.RenderOnPath(rType.eff.Arg(1), p); r != "string("+an.RenderOnPath(lookup.call, p)+"#0)" {
			bad = append(bad, "type-specific handlers are selected by "+r)
		}
		for _, st := range []*step{rAll, rType} {
			if !handlerCalledWithOn(st.eff, ssa.Value(serve.Params[1]), p) {
				bad = append(bad, "a handler is not called with the inbound message")
			}
		}
	}
	ob := c.Ob(rule, "DefaultHandler.serve", "type from the MsgType tag; all-types handlers first, then — unconditionally — the handlers of that type, each offered the message itself", where)
	switch {
	case nOK == 0:
		ob.Unknown("no successful path of serve found")
	case len(bad) > 0:
		ob.Fail("%s", bad[0])
	default:
		ob.Ok("%d successful path(s): ValueByTag(msg, h.msgTypeTag) → Range(ALL) → Range(string(type)), handle(msg)", nOK)
	}
}

// handlerCalledWithOn is handlerCalledWith with the message also resolved through the substitutions of an interprocedural path.
func handlerCalledWithOn(e an.EffCall, want ssa.Value, p *an.Path) bool {
	if handlerCalledWith(e, want) {
		return true
	}
	if len(e.Inner.Call.Args) < 3 {
		return false
	}
	cl := an.ClosureFn(e.Inner.Call.Args[2])
	if cl == nil || len(cl.Params) != 1 {
		return false
	}
	ps, _ := an.EnumPaths(cl, 8)
	if len(ps) != 1 || len(ps[0].ResVals) != 1 {
		return false
	}
	call, ok := an.Unspill(ps[0].ResVals[0]).(*ssa.Call)
	if !ok || call.Call.IsInvoke() || call.Call.Value != ssa.Value(cl.Params[0]) || len(call.Call.Args) != 1 {
		return false
	}
	return an.ResolveOnPath(e.Resolve(call.Call.Args[0]), p) == want
}

// checkEventPoolOrder (C19.H2): event subscribers, too, run in registration order and a false result stops the later ones (the
// session's own subscribers — the initiator's start(), the disconnect teardown — share the lists with the application's):
// every update of EventHandlerPool.pool appends one handler at the end of the event's list (or creates the empty list), and
// Trigger walks the list front to back and returns at the first false.
func checkEventPoolOrder(c *core.Ctx, rule string) {
	checkEventPoolUpdates(c, rule)
	tr := c.Func("utils", "EventHandlerPool.Trigger")
	if !c.Anchor("event pool trigger", tr != nil, "EventHandlerPool.Trigger", posOf(tr)) {
		return
	}
	// Trigger: ascending walk, stop at the first false
	rc := findRangeCallNoArgs(tr)
	ob := c.Ob(rule, "EventHandlerPool.Trigger", "subscribers are called front to back until one returns false", tr.Pos())
	switch {
	case rc == nil:
		ob.Fail("no loop calling the subscribers found")
	case !rc.Ascending || !flowsStraightTo(rc.TrueNext, rc.Head) || rc.FalseExit == nil || !leadsToReturnWithoutCalls(rc.FalseExit):
		ob.Fail("Trigger does not walk the event's subscribers in ascending order, continue after true and stop at the first false")
	default:
		ob.Ok("ascending; true → next; false → return")
	}
}

// checkEventPoolUpdates: every update of EventHandlerPool.pool appends one handler at the end of the event's list.
func checkEventPoolUpdates(c *core.Ctx, rule string) {
	pf := c.Field("utils", "EventHandlerPool", "pool")
	if !c.Anchor("event pool", pf != nil, "EventHandlerPool.pool", token.NoPos) {
		return
	}
	isPool := func(v ssa.Value) bool {
		f, _ := an.LoadedField(v)
		return f == pf
	}
	var appendsAtEnd func(v ssa.Value, key ssa.Value, depth int) bool
	appendsAtEnd = func(v ssa.Value, key ssa.Value, depth int) bool {
		if depth > 3 {
			return false
		}
		switch x := v.(type) {
		case *ssa.Slice:
			if al, isAl := x.X.(*ssa.Alloc); isAl {
				if arr, isArr := an.Deref(al.Type()).Underlying().(*types.Array); isArr && arr.Len() == 0 {
					return true // the empty list of a new event
				}
			}
		case *ssa.MakeSlice:
			k, isK := an.ConstInt(x.Len)
			return isK && k == 0
		case *ssa.Call:
			if b, isB := x.Call.Value.(*ssa.Builtin); isB && b.Name() == "append" && len(x.Call.Args) == 2 {
				elems, isLit := an.SliceElems(x.Call.Args[1])
				if !isLit || len(elems) != 1 {
					return false
				}
				switch base := x.Call.Args[0].(type) {
				case *ssa.Lookup:
					return isPool(base.X) && (key == nil || base.Index == key)
				case *ssa.Parameter:
					return true // a helper's parameter: the list it was given (checked at the call)
				case *ssa.Extract:
					if lk, isLk := base.Tuple.(*ssa.Lookup); isLk {
						return isPool(lk.X)
					}
				}
				return false
			}
			// a helper of the package that returns the list with the handler appended
			if cal := an.StaticCallee(&x.Call); cal != nil && cal.Pkg != nil && !an.IsKnown(cal) && len(cal.Blocks) > 0 {
				ps, _ := an.EnumPaths(cal, 16)
				n := 0
				for _, p := range ps {
					if p.Return == nil || len(p.ResVals) != 1 {
						continue
					}
					n++
					r := an.ResolveOnPath(p.ResVals[0], p)
					if isOrderedCopyPlusOne(r, p) {
						continue
					}
					if !appendsAtEnd(r, nil, depth+1) {
						return false
					}
				}
				return n > 0
			}
		}
		return false
	}
	n := 0
	for _, fn := range pkgFuncs(c.SSAPkg("utils")) {
		an.AllInstrs(fn, func(in ssa.Instruction) {
			mu, ok := in.(*ssa.MapUpdate)
			if !ok || !isPool(mu.Map) {
				return
			}
			n++
			c.Check(appendsAtEnd(mu.Value, mu.Key, 0), rule, an.NameOf(fn), "an event's subscriber list only grows at its end", mu.Pos(), "pool[e] = append(pool[e], handle)",
				"pool["+an.Render(mu.Key)+"] is set to "+an.Render(mu.Value)+": subscribers no longer run in the order they were registered (a later subscriber that returns false then silences the earlier ones — among them the session's own)")
		})
	}
	c.Check(n >= 1, rule, "EventHandlerPool", "updates of the event map found", token.NoPos, fmt.Sprint(n), "no update of EventHandlerPool.pool found")
}

// isOrderedCopyPlusOne: v is append(C, h) with C an ordered copy of a parameter of the helper (copy-on-write registration).
func isOrderedCopyPlusOne(v ssa.Value, p *an.Path) bool {
	call, ok := v.(*ssa.Call)
	if !ok {
		return false
	}
	b, isB := call.Call.Value.(*ssa.Builtin)
	if !isB || b.Name() != "append" || len(call.Call.Args) != 2 {
		return false
	}
	if elems, isLit := an.SliceElems(call.Call.Args[1]); !isLit || len(elems) != 1 {
		return false
	}
	base := an.ResolveOnPath(call.Call.Args[0], p)
	fn := call.Parent()
	for _, prm := range fn.Params {
		if _, isSl := prm.Type().Underlying().(*types.Slice); isSl && isOrderedCopy(base, an.Render(prm), p) {
			return true
		}
	}
	return false
}

// findRangeCallNoArgs is findRangeCall for a loop whose body calls the ranged-over element itself with no arguments.
func findRangeCallNoArgs(fn *ssa.Function) *rangeCall {
	var out *rangeCall
	an.AllInstrs(fn, func(in ssa.Instruction) {
		call, ok := in.(*ssa.Call)
		if !ok || call.Call.IsInvoke() || an.StaticCallee(&call.Call) != nil || len(call.Call.Args) != 0 {
			return
		}
		u, ok := call.Call.Value.(*ssa.UnOp)
		if !ok {
			return
		}
		ia, ok := u.X.(*ssa.IndexAddr)
		if !ok {
			return
		}
		phi := rangeIndexPhi(ia.Index)
		rc := &rangeCall{Over: ia.X, Call: call, Ascending: phi != nil}
		if phi != nil {
			rc.Head = phi.Block()
		}
		for _, ref := range *call.Referrers() {
			if iff, ok := ref.(*ssa.If); ok {
				rc.TrueNext = iff.Block().Succs[0]
				rc.FalseExit = iff.Block().Succs[1]
			}
		}
		out = rc
	})
	return out
}

// flowsStraightTo: control goes from b to head without a choice and without calling anything (b is head, or the increment
// block of a counted loop in front of it).
func flowsStraightTo(b, head *ssa.BasicBlock) bool {
	if head == nil {
		return false
	}
	for i := 0; i < 4 && b != nil; i++ {
		if b == head {
			return true
		}
		for _, in := range b.Instrs {
			if _, isCall := in.(*ssa.Call); isCall {
				return false
			}
		}
		if len(b.Succs) != 1 {
			return false
		}
		b = b.Succs[0]
	}
	return false
}

// checkSendPathOrder (H1): in DefaultHandler.send the enqueue is dominated, in this order, by Range(ALL), Range(type), ToBytes; the
// bytes enqueued are ToBytes' result and every handler sees the message that is serialized.
func checkSendPathOrder(c *core.Ctx, rule string) {
	send := c.Func("", "DefaultHandler.send")
	if c.Anchor("send path", send != nil, "(*DefaultHandler).send", posOf(send)) {
		var rAll, rType, toBytes, enq *ssa.Call
		eff := map[*ssa.Call]an.EffCall{}
		an.AllInstrs(send, func(in ssa.Instruction) {
			call, ok := in.(*ssa.Call)
			if !ok {
				return
			}
			e := an.Effective(call) // a forwarding helper around Range stands for the Range call
			eff[call] = e
			switch {
			case an.CalleeIs(&e.Inner.Call, "simplefix-go", "OutgoingHandlerPool.Range"):
				if s, ok := an.ConstString(e.Arg(1)); ok && s == "ALL" {
					rAll = call
				} else if strings.HasSuffix(an.Render(e.Arg(1)), ".MsgType()") {
					rType = call
				}
			case call.Call.IsInvoke() && call.Call.Method.Name() == "ToBytes":
				toBytes = call
			case an.CalleeIs(&call.Call, "simplefix-go", "DefaultHandler.sendRaw"):
				enq = call
			}
		})
		if c.Anchor("send path steps", rAll != nil && rType != nil && toBytes != nil && enq != nil, "Range(ALL), Range(MsgType()), ToBytes, sendRaw", send.Pos()) {
			c.Check(an.Dominates(rAll, rType) && an.Dominates(rType, toBytes) && an.Dominates(toBytes, enq), rule, "DefaultHandler.send", "order: all-types handlers, type handlers, ToBytes, enqueue", send.Pos(),
				"Range(ALL) → Range(type) → ToBytes → sendRaw", "the steps of the send path are not in the order all-types → type-specific → serialize → enqueue")
			c.Check(an.Render(enq.Call.Args[1]) == an.Render(toBytes)+"#0", rule, "DefaultHandler.send", "the bytes enqueued are ToBytes' result", enq.Pos(),
				"sendRaw(h, ToBytes()#0)", "the enqueued bytes are "+an.Render(enq.Call.Args[1])+", not what ToBytes returned after the handlers ran")
			// the message passed to handlers and serialized is the parameter
			msgName := an.Render(send.Params[1])
			okMsg := an.Render(toBytes.Call.Value) == msgName && strings.HasPrefix(an.Render(eff[rType].Arg(1)), msgName+".")
			for _, rc := range []*ssa.Call{rAll, rType} {
				if !handlerCalledWith(eff[rc], ssa.Value(send.Params[1])) {
					okMsg = false
				}
			}
			c.Check(okMsg, rule, "DefaultHandler.send", "handlers see the message that is serialized", send.Pos(), "each handler is called as handle(msg) and msg.ToBytes() is what is sent", "a handler is not called with the message being sent (or its result is not what Range sees)")
			paths, _ := an.EnumPaths(send, 64)
			var bad []string
			nEnq := 0
			for _, p := range paths {
				if p.Return == nil {
					continue
				}
				if p.Passes(enq) {
					nEnq++
					for _, need := range []string{an.Render(rAll), an.Render(rType), an.Render(toBytes) + "#1 == nil"} {
						if !p.Has(need) {
							bad = append(bad, "the message is enqueued without "+need+" having succeeded")
						}
					}
					if p.Results[0] != an.Render(enq) {
						bad = append(bad, "the result of the enqueue is not returned")
					}
				} else if p.Results[0] == "nil" {
					bad = append(bad, "a refusal/serialization failure returns nil: "+p.CondString())
				}
			}
			ob := c.Ob(rule, "DefaultHandler.send", "enqueue only after both handler ranges and ToBytes succeeded; failures return an error", send.Pos())
			if len(bad) > 0 || nEnq != 1 {
				ob.Fail("%s", strings.Join(append(bad, fmt.Sprintf("(%d enqueue paths)", nEnq)), "; "))
			} else {
				ob.Ok("%d paths, 1 reaches the enqueue", len(paths))
			}
		}
	}
}

// lenOfPoolEntry: the condition compares len(handlers[key]) — the list read by a plain or a comma-ok lookup — with something.
func lenOfPoolEntry(v ssa.Value, isPoolMap func(ssa.Value) bool, key string) bool {
	bo, ok := v.(*ssa.BinOp)
	if !ok {
		return false
	}
	for _, side := range []ssa.Value{bo.X, bo.Y} {
		call, ok := side.(*ssa.Call)
		if !ok {
			continue
		}
		if b, isB := call.Call.Value.(*ssa.Builtin); !isB || b.Name() != "len" || len(call.Call.Args) != 1 {
			continue
		}
		arg := call.Call.Args[0]
		if ex, isEx := arg.(*ssa.Extract); isEx && ex.Index == 0 {
			arg = ex.Tuple
		}
		if lk, isL := arg.(*ssa.Lookup); isL && isPoolMap(lk.X) && an.Render(lk.Index) == key {
			return true
		}
	}
	return false
}
