package props

import (
	"encoding/xml"
	"fmt"
	"go/ast"
	"go/constant"
	"go/token"
	"go/types"
	"os"
	"path/filepath"
	"strings"

	"golang.org/x/tools/go/packages"

	"sfcheck/core"
)

// ---- schema model (read as data; nothing of the generator is executed) ----

type xDoc struct {
	Type       string   `xml:"type,attr"`
	Major      string   `xml:"major,attr"`
	Minor      string   `xml:"minor,attr"`
	Header     *xComp   `xml:"header"`
	Trailer    *xComp   `xml:"trailer"`
	Messages   []*xComp `xml:"messages>message"`
	Components []*xComp `xml:"components>component"`
	Fields     []*xFld  `xml:"fields>field"`
}
type xComp struct {
	Name    string  `xml:"name,attr"`
	MsgType string  `xml:"msgtype,attr"`
	Members []*xMem `xml:",any"`
}
type xMem struct {
	XMLName  xml.Name
	Name     string  `xml:"name,attr"`
	Required string  `xml:"required,attr"`
	Members  []*xMem `xml:",any"`
}
type xFld struct {
	Number string `xml:"number,attr"`
	Name   string `xml:"name,attr"`
	Type   string `xml:"type,attr"`
	Values []struct {
		Enum string `xml:"enum,attr"`
	} `xml:"value"`
}
type xCfg struct {
	Types []struct {
		Name string `xml:"name,attr"`
		Cast string `xml:"cast,attr"`
	} `xml:"types>type"`
}

var goTypeOfFix = map[string]string{"Float": "float64", "Int": "int", "Raw": "[]byte", "Bool": "bool", "String": "string", "Time": "time.Time"}
var excludedFraming = map[string]bool{"BeginString": true, "BodyLength": true, "MsgType": true, "CheckSum": true}

// member as the package must realise it
type wantItem struct {
	Kind    string // field group component
	Name    string // schema name
	FixType string // for fields: String Int ...
	GoType  string
	Req     bool
}

func grpType(name string) string   { return strings.Replace(name, "No", "", 1) + "Grp" }
func entryType(name string) string { return strings.Replace(name, "No", "", 1) + "Entry" }

// pkgView indexes the generated package's syntax.
type pkgView struct {
	p     *packages.Package
	funcs map[string]*ast.FuncDecl // "Name" or "Recv.Name"
	fset  *token.FileSet
}

func newPkgView(p *packages.Package) *pkgView {
	v := &pkgView{p: p, funcs: map[string]*ast.FuncDecl{}, fset: p.Fset}
	for _, f := range p.Syntax {
		for _, d := range f.Decls {
			fd, ok := d.(*ast.FuncDecl)
			if !ok {
				continue
			}
			name := fd.Name.Name
			if fd.Recv != nil && len(fd.Recv.List) == 1 {
				t := fd.Recv.List[0].Type
				if st, ok := t.(*ast.StarExpr); ok {
					t = st.X
				}
				if id, ok := t.(*ast.Ident); ok {
					name = id.Name + "." + name
				}
			}
			v.funcs[name] = fd
		}
	}
	return v
}

func (v *pkgView) constString(name string) (string, bool) {
	obj, ok := v.p.Types.Scope().Lookup(name).(*types.Const)
	if !ok || obj.Val().Kind() != constant.String {
		return "", false
	}
	return constant.StringVal(obj.Val()), true
}

// itemsOf renders the argument list of a constructor call as (kind, name, fixType).
func (v *pkgView) itemsOf(args []ast.Expr) []wantItem {
	var out []wantItem
	for _, a := range args {
		it := wantItem{Kind: "?", Name: types.ExprString(a)}
		switch x := a.(type) {
		case *ast.CallExpr:
			// fix.NewKeyValue(FieldX, &fix.T{})
			if sel, ok := x.Fun.(*ast.SelectorExpr); ok && sel.Sel.Name == "NewKeyValue" && len(x.Args) == 2 {
				it.Kind = "field"
				if id, ok := x.Args[0].(*ast.Ident); ok {
					it.Name = strings.TrimPrefix(id.Name, "Field")
				}
				if u, ok := x.Args[1].(*ast.UnaryExpr); ok {
					if cl, ok := u.X.(*ast.CompositeLit); ok {
						if s2, ok := cl.Type.(*ast.SelectorExpr); ok {
							it.FixType = s2.Sel.Name
						}
					}
				}
			}
		case *ast.SelectorExpr:
			// makeX().Component  /  NewXGrp().Group
			if call, ok := x.X.(*ast.CallExpr); ok {
				if id, ok := call.Fun.(*ast.Ident); ok {
					switch {
					case x.Sel.Name == "Component" && strings.HasPrefix(id.Name, "make"):
						it.Kind, it.Name = "component", strings.TrimPrefix(id.Name, "make")
					case x.Sel.Name == "Group" && strings.HasPrefix(id.Name, "New"):
						it.Kind, it.Name = "group", strings.TrimPrefix(id.Name, "New")
					}
				}
			}
		}
		out = append(out, it)
	}
	return out
}

// findCall finds the first call of pkgfn (e.g. "NewComponent", "SetBody", "NewGroup") in a function body.
func findCall(body ast.Node, name string) *ast.CallExpr {
	var out *ast.CallExpr
	ast.Inspect(body, func(n ast.Node) bool {
		if out != nil {
			return false
		}
		if call, ok := n.(*ast.CallExpr); ok {
			if sel, ok := call.Fun.(*ast.SelectorExpr); ok && sel.Sel.Name == name {
				out = call
				return false
			}
		}
		return true
	})
	return out
}

// accessorIndex extracts the constant index used by recv.Get(i) / recv.Set(i, …) inside a method; -1 if none, -2 if several different.
func accessorIndex(fd *ast.FuncDecl) int {
	idx := -1
	ast.Inspect(fd.Body, func(n ast.Node) bool {
		call, ok := n.(*ast.CallExpr)
		if !ok {
			return true
		}
		sel, ok := call.Fun.(*ast.SelectorExpr)
		if !ok || (sel.Sel.Name != "Get" && sel.Sel.Name != "Set") || len(call.Args) == 0 {
			return true
		}
		if lit, ok := call.Args[0].(*ast.BasicLit); ok && lit.Kind == token.INT {
			var k int
			fmt.Sscan(lit.Value, &k)
			if idx == -1 {
				idx = k
			} else if idx != k {
				idx = -2
			}
		}
		return true
	})
	return idx
}

// checkSchemaPackage is rule (h): the shipped reference package corresponds, declaration for declaration, to the reference schema.
func checkSchemaPackage(c *core.Ctx, rule string) {
	var doc xDoc
	var cfg xCfg
	for _, f := range []struct {
		path string
		into interface{}
	}{{"source/fix44.xml", &doc}, {"source/types.xml", &cfg}} {
		b, err := os.ReadFile(filepath.Join(c.Repo, f.path))
		if err == nil {
			err = xml.Unmarshal(b, f.into)
		}
		if err != nil {
			c.Anchor("schema "+f.path, false, err.Error(), token.NoPos)
			return
		}
	}
	pkg := c.Pkg("tests/fix44")
	if !c.Anchor("reference package", pkg != nil && doc.Header != nil && doc.Trailer != nil, "tests/fix44 and source/fix44.xml", token.NoPos) {
		return
	}
	v := newPkgView(pkg)
	cast := map[string]string{}
	for _, t := range cfg.Types {
		cast[t.Name] = t.Cast
	}
	fields := map[string]*xFld{}
	for _, f := range doc.Fields {
		fields[f.Name] = f
	}
	fieldType := func(name string) (fixT, goT string, ok bool) {
		f := fields[name]
		if f == nil {
			return "", "", false
		}
		ct, okc := cast[f.Type]
		if len(f.Values) > 0 && ct != "Bool" {
			return "String", "string", true // enum
		}
		if !okc {
			return "", "", false
		}
		return ct, goTypeOfFix[ct], true
	}
	nDecl, nDis := 0, 0
	check := func(cond bool, unit, what string, pos token.Pos, ok, bad string) {
		nDecl++
		if !cond {
			nDis++
		}
		c.Check(cond, rule, unit, what, pos, ok, bad)
	}
	// ---- constants
	okConst, badConst := 0, []string{}
	for _, f := range doc.Fields {
		if got, ok := v.constString("Field" + f.Name); ok && got == f.Number {
			okConst++
		} else {
			badConst = append(badConst, fmt.Sprintf("Field%s=%q (schema %s)", f.Name, got, f.Number))
		}
	}
	check(len(badConst) == 0, "fields.go", "every field-number constant equals the schema's number", token.NoPos, fmt.Sprintf("%d constants", okConst), strings.Join(badConst, ", "))
	for _, m := range doc.Messages {
		got, ok := v.constString("MsgType" + m.Name)
		check(ok && got == m.MsgType, m.Name, "message-type constant", token.NoPos, got, fmt.Sprintf("MsgType%s = %q, schema says %q", m.Name, got, m.MsgType))
	}
	// converse: no Field*/MsgType* constant without a schema origin
	var orphan []string
	for _, n := range pkg.Types.Scope().Names() {
		if _, ok := pkg.Types.Scope().Lookup(n).(*types.Const); !ok {
			continue
		}
		if strings.HasPrefix(n, "Field") && fields[strings.TrimPrefix(n, "Field")] == nil {
			orphan = append(orphan, n)
		}
		if strings.HasPrefix(n, "MsgType") {
			found := false
			for _, m := range doc.Messages {
				if "MsgType"+m.Name == n {
					found = true
				}
			}
			if !found {
				orphan = append(orphan, n)
			}
		}
	}
	check(len(orphan) == 0, "fields.go", "no constant without a schema origin", token.NoPos, "none", strings.Join(orphan, ", "))
	if bs, ok := pkg.Types.Scope().Lookup("beginString").(*types.Var); ok {
		_ = bs
	}
	// ---- member lists
	wantMembers := func(ms []*xMem, excludeFraming bool) []wantItem {
		var out []wantItem
		for _, m := range ms {
			if excludeFraming && excludedFraming[m.Name] {
				continue
			}
			it := wantItem{Kind: m.XMLName.Local, Name: m.Name, Req: m.Required == "Y"}
			switch it.Kind {
			case "field":
				it.FixType, it.GoType, _ = fieldType(m.Name)
			case "group":
				it.Name = grpType(m.Name)
				it.GoType = "*" + it.Name
			case "component":
				it.GoType = "*" + m.Name
			}
			out = append(out, it)
		}
		return out
	}
	compare := func(unit string, pos token.Pos, got, want []wantItem) {
		var diffs []string
		if len(got) != len(want) {
			diffs = append(diffs, fmt.Sprintf("%d members in the package, %d in the schema", len(got), len(want)))
		}
		for i := 0; i < len(got) && i < len(want); i++ {
			g, w := got[i], want[i]
			if g.Kind != w.Kind || g.Name != w.Name || (w.Kind == "field" && g.FixType != w.FixType) {
				diffs = append(diffs, fmt.Sprintf("position %d: package has %s %s %s, schema has %s %s %s", i, g.Kind, g.Name, g.FixType, w.Kind, w.Name, w.FixType))
				if len(diffs) > 3 {
					break
				}
			}
		}
		check(len(diffs) == 0, unit, "members in schema order with the mapped value types", pos, fmt.Sprintf("%d members", len(want)), strings.Join(diffs, "; "))
	}
	accessors := func(unit, typeName string, pos token.Pos, want []wantItem) {
		var diffs []string
		for i, w := range want {
			name := w.Name
			get, set := v.funcs[typeName+"."+name], v.funcs[typeName+".Set"+name]
			if get == nil || set == nil {
				diffs = append(diffs, "no accessor pair for "+name)
				continue
			}
			if gi, si := accessorIndex(get), accessorIndex(set); gi != i || si != i {
				diffs = append(diffs, fmt.Sprintf("%s: getter uses index %d, setter %d, member position is %d", name, gi, si, i))
			}
			// result / parameter type
			if get.Type.Results == nil || len(get.Type.Results.List) != 1 || types.ExprString(get.Type.Results.List[0].Type) != w.GoType {
				diffs = append(diffs, fmt.Sprintf("%s: getter type is not %s", name, w.GoType))
			}
			if len(set.Type.Params.List) != 1 || types.ExprString(set.Type.Params.List[0].Type) != w.GoType {
				diffs = append(diffs, fmt.Sprintf("%s: setter parameter type is not %s", name, w.GoType))
			}
			if len(diffs) > 4 {
				break
			}
		}
		check(len(diffs) == 0, unit, "each member has a getter and a setter bound to its own position and Go type", pos, fmt.Sprintf("%d accessor pairs", len(want)), strings.Join(diffs, "; "))
	}
	ctorArgs := func(unit string, fd *ast.FuncDecl, want []wantItem) {
		if fd == nil {
			check(false, unit, "populating constructor exists", token.NoPos, "", "no populating constructor")
			return
		}
		var wantArgs []string
		for _, w := range want {
			if w.Req {
				wantArgs = append(wantArgs, w.GoType)
			}
		}
		var gotArgs []string
		for _, p := range fd.Type.Params.List {
			for range p.Names {
				gotArgs = append(gotArgs, types.ExprString(p.Type))
			}
		}
		// setter calls in the body, in order
		var calls []string
		ast.Inspect(fd.Body, func(n ast.Node) bool {
			if call, ok := n.(*ast.CallExpr); ok {
				if sel, ok := call.Fun.(*ast.SelectorExpr); ok && strings.HasPrefix(sel.Sel.Name, "Set") && len(call.Args) == 1 {
					if id, ok := call.Args[0].(*ast.Ident); ok {
						calls = append(calls, sel.Sel.Name+"("+id.Name+")")
					}
				}
			}
			return true
		})
		var wantCalls []string
		for _, w := range want {
			if w.Req {
				wantCalls = append(wantCalls, "Set"+w.Name)
			}
		}
		okCalls := len(calls) == len(wantCalls)
		for _, wc := range wantCalls {
			found := false
			for _, cl := range calls {
				if strings.HasPrefix(cl, wc+"(") {
					found = true
				}
			}
			if !found {
				okCalls = false
			}
		}
		check(strings.Join(gotArgs, ",") == strings.Join(wantArgs, ",") && okCalls, unit, "populating constructor takes exactly the required members, in order, and sets each", fd.Pos(),
			fmt.Sprintf("%d required", len(wantArgs)), fmt.Sprintf("constructor parameters (%s), setter calls %v; schema requires (%s)", strings.Join(gotArgs, ","), calls, strings.Join(wantArgs, ",")))
	}
	// messages
	for _, m := range doc.Messages {
		mk := v.funcs["make"+m.Name]
		if mk == nil {
			check(false, m.Name, "message constructor exists", token.NoPos, "", "make"+m.Name+" not found")
			continue
		}
		want := wantMembers(m.Members, false)
		var got []wantItem
		if sb := findCall(mk.Body, "SetBody"); sb != nil {
			got = v.itemsOf(sb.Args)
		}
		compare(m.Name, mk.Pos(), got, want)
		accessors(m.Name, m.Name, mk.Pos(), want)
		ctorArgs(m.Name, v.funcs["Create"+m.Name], want)
		// the message is built with its own type constant
		okT := false
		if nm := findCall(mk.Body, "NewMessage"); nm != nil && len(nm.Args) == 6 {
			okT = types.ExprString(nm.Args[5]) == "MsgType"+m.Name && types.ExprString(nm.Args[0]) == "FieldBeginString" && types.ExprString(nm.Args[1]) == "FieldBodyLength" && types.ExprString(nm.Args[2]) == "FieldCheckSum" && types.ExprString(nm.Args[3]) == "FieldMsgType"
		}
		check(okT, m.Name, "built with its own MsgType constant and the framing tags", mk.Pos(), "NewMessage(FieldBeginString, FieldBodyLength, FieldCheckSum, FieldMsgType, beginString, MsgType"+m.Name+")", "the message is not built with its own type constant / framing tags")
	}
	// header, trailer, components
	units := []struct {
		name string
		comp *xComp
		excl bool
	}{{"Header", doc.Header, true}, {"Trailer", doc.Trailer, true}}
	for _, cp := range doc.Components {
		units = append(units, struct {
			name string
			comp *xComp
			excl bool
		}{cp.Name, cp, true})
	}
	for _, u := range units {
		mk := v.funcs["make"+u.name]
		if mk == nil {
			check(false, u.name, "component constructor exists", token.NoPos, "", "make"+u.name+" not found")
			continue
		}
		want := wantMembers(u.comp.Members, u.excl)
		var got []wantItem
		if nc := findCall(mk.Body, "NewComponent"); nc != nil {
			got = v.itemsOf(nc.Args)
		}
		compare(u.name, mk.Pos(), got, want)
		accessors(u.name, u.name, mk.Pos(), want)
		ctorArgs(u.name, v.funcs["New"+u.name], want)
	}
	// groups: every definition in the schema, by context
	type gdef struct {
		ctx string
		mem *xMem
	}
	var groups []gdef
	var walk func(ctx string, ms []*xMem)
	walk = func(ctx string, ms []*xMem) {
		for _, m := range ms {
			if m.XMLName.Local == "group" {
				groups = append(groups, gdef{ctx, m})
				walk(ctx+"/"+m.Name, m.Members)
			}
		}
	}
	for _, m := range doc.Messages {
		walk(m.Name, m.Members)
	}
	for _, cp := range doc.Components {
		walk(cp.Name, cp.Members)
	}
	walk("Header", doc.Header.Members)
	walk("Trailer", doc.Trailer.Members)
	for _, g := range groups {
		gt, et := grpType(g.mem.Name), entryType(g.mem.Name)
		unit := g.mem.Name + "@" + g.ctx
		nw := v.funcs["New"+gt]
		if nw == nil {
			check(false, unit, "group constructor exists", token.NoPos, "", "New"+gt+" not found")
			continue
		}
		want := wantMembers(g.mem.Members, false)
		var got []wantItem
		okTag := false
		if ng := findCall(nw.Body, "NewGroup"); ng != nil && len(ng.Args) >= 1 {
			okTag = types.ExprString(ng.Args[0]) == "Field"+g.mem.Name
			got = v.itemsOf(ng.Args[1:])
		}
		check(okTag, unit, "group is counted by its own NoXXX tag", nw.Pos(), "Field"+g.mem.Name, "the group's count tag is not Field"+g.mem.Name)
		compare(unit, nw.Pos(), got, want)
		if mk := v.funcs["make"+et]; mk != nil {
			var gotE []wantItem
			if nc := findCall(mk.Body, "NewComponent"); nc != nil {
				gotE = v.itemsOf(nc.Args)
			}
			compare(unit+" (entry)", mk.Pos(), gotE, want)
			accessors(unit+" (entry)", et, mk.Pos(), want)
		} else {
			check(false, unit, "entry constructor exists", token.NoPos, "", "make"+et+" not found")
		}
	}
	// the SetField… wrappers of the session pipeline call their own setter
	var badWrap []string
	nWrap := 0
	for name, fd := range v.funcs {
		i := strings.Index(name, ".SetField")
		if i < 0 {
			continue
		}
		nWrap++
		field := name[i+len(".SetField"):]
		okW := false
		ast.Inspect(fd.Body, func(n ast.Node) bool {
			if call, ok := n.(*ast.CallExpr); ok {
				if sel, ok := call.Fun.(*ast.SelectorExpr); ok && sel.Sel.Name == "Set"+field && len(call.Args) == 1 {
					if id, ok := call.Args[0].(*ast.Ident); ok && len(fd.Type.Params.List) == 1 && len(fd.Type.Params.List[0].Names) == 1 && id.Name == fd.Type.Params.List[0].Names[0].Name {
						okW = true
					}
				}
			}
			return true
		})
		if !okW {
			badWrap = append(badWrap, name)
		}
	}
	check(len(badWrap) == 0 && nWrap >= 15, "pipeline", "every SetFieldX wrapper calls SetX with its own argument", token.NoPos, fmt.Sprintf("%d wrappers", nWrap), "wrappers not bound to their own setter: "+strings.Join(badWrap, ", "))
	c.Extra["programs"] = nDecl
	c.Extra["disagreements_checked"] = nDis
}
