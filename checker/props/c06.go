package props

import (
	"fmt"
	"go/token"
	"go/types"
	"sort"
	"strings"

	"golang.org/x/tools/go/ssa"

	"sfcheck/an"
	"sfcheck/core"
)

func init() {
	register(&Check{ID: "C06", NeedSSA: true, Run: runC06})
}

// checkEventMapping (rule M1): changeState triggers event E for state S iff the mapping below, only when the trigger flag is set.
func (s *sess) checkEventMapping(rule string, want map[string]string) {
	c := s.c
	cs := s.m.Method("changeState")
	if !c.Anchor("state writer", cs != nil && len(cs.Params) == 3, "(*Session).changeState(state, trigger)", posOf(cs)) {
		return
	}
	paths, _ := an.EnumPathsX(cs, 256)
	got := map[string]string{}
	okFlag := true
	for _, p := range paths {
		if p.Return == nil {
			continue
		}
		// trigger calls on the path (a helper that maps the state to its event is read through)
		{
			for _, in := range p.InstrSeq() {
				call, ok := in.(*ssa.Call)
				if !ok || !an.CalleeIs(&call.Call, "utils", "EventHandlerPool.Trigger") {
					continue
				}
				argv := an.ResolveOnPath(call.Call.Args[1], p)
				// the event may come out of a package-level table indexed by the state: every entry of the table is a
				// state→event pair (the table is written by its initialiser only)
				if ex, isEx := argv.(*ssa.Extract); isEx && ex.Index == 0 {
					if lk, isLk := ex.Tuple.(*ssa.Lookup); isLk && lk.CommaOk && lk.Index == ssa.Value(cs.Params[1]) {
						if entries, okT := s.constMapTable(lk.X); okT && p.Has(an.Render(lk)+"#1") {
							if !p.Has("isEventTriggerRequired") {
								okFlag = false
							}
							for k, v := range entries {
								got[s.m.StateNames[k]] = evName(v)
							}
							continue
						}
					}
				}
				ev := evName(argv)
				st := "?"
				for _, a := range p.Atoms {
					if a.L == "state" && a.Rel == "==" {
						if v, ok := atoi(a.R); ok {
							st = s.m.StateNames[v]
						}
					}
				}
				if !p.Has("isEventTriggerRequired") {
					okFlag = false
				}
				if old, dup := got[st]; dup && old != ev {
					got[st] = old + "+" + ev
				} else {
					got[st] = ev
				}
			}
		}
	}
	for _, st := range an.SortedKeys(want) {
		c.Check(got[st] == want[st], rule, "changeState", "state "+st+" triggers "+want[st], cs.Pos(),
			"changeState("+st+", true) triggers "+want[st], fmt.Sprintf("changeState(%s, true) triggers %q, expected %s", st, got[st], want[st]))
	}
	for _, st := range an.SortedKeys(got) {
		if _, ok := want[st]; !ok {
			for _, ev := range want {
				if strings.Contains(got[st], ev) {
					c.Ob(rule, "changeState", "state "+st+" triggers "+got[st], cs.Pos()).Fail("a state other than the designated one triggers %s", got[st])
				}
			}
		}
	}
	c.Check(okFlag, rule, "changeState", "events are triggered only when the trigger flag is set", cs.Pos(), "every Trigger is behind the flag", "an event is triggered although the caller asked for no trigger")
	// the state store happens on every path, of the parameter, under the lock
	stores := 0
	an.AllInstrs(cs, func(in ssa.Instruction) {
		if st, ok := in.(*ssa.Store); ok {
			if fa, ok := st.Addr.(*ssa.FieldAddr); ok && an.FieldOf(fa) == s.m.StateField {
				if st.Val == ssa.Value(cs.Params[1]) && st.Block() == cs.Blocks[0] {
					stores++
				}
			}
		}
	})
	c.Check(stores == 1, rule, "changeState", "stores its state argument unconditionally", cs.Pos(), "one store of the parameter in the entry block", "changeState does not (only) store its argument unconditionally")
}

func atoi(s string) (int64, bool) {
	var v int64
	if s == "" {
		return 0, false
	}
	for _, ch := range s {
		if ch < '0' || ch > '9' {
			return 0, false
		}
		v = v*10 + int64(ch-'0')
	}
	return v, true
}

func runC06(c *core.Ctx, o Options) {
	c.Explanation = "Typestate rules over the SSA paths of package session. T1: every transition to SuccessfulLogged, in any entry point, is (a) in the Logon handler after Unmarshal ok with the state read as WaitingLogonAnswer, " +
		"(b) in the Logon handler with the state read as WaitingLogon after checkLogonParams true, application callback nil-error and start() nil-error, in that order, or (c) a restoration without event whose guard read WaitingTestReqAnswer; " +
		"and WaitingTestReqAnswer itself is entered only from a logged-on abstract state (otherwise (c) would be a back door). T2: the decision tree of checkLogonParams accepts exactly method∈allowed ∧ Min≤HeartBtInt≤Max and names the offending tag; " +
		"the acceptor constructor refuses nil/inconsistent limits and an empty method set. T3: every refusal path of the Logon handler has exactly one Reject whose RefSeqNum operand is the Logon's MsgSeqNum (RefTagID the tag reported by the parameter check), " +
		"no state change, no other send. T4: the Logon reply echoes the HeartBtInt/EncryptMethod that were stored from the incoming Logon on the same path. T6: IsLogged() — what the session reports and what its own handlers consult — is true exactly in the state SuccessfulLogged (on every return path). T5: the initiator's LogonRequest sends Logon with the configured settings, before anything else is sent by Run. " +
		"M1: changeState triggers the logon event for SuccessfulLogged only. Decided for every inbound history (the rules hold per message in every abstract state); the application callback's own behaviour is not decided."
	s := newSess(c)
	if s == nil {
		return
	}
	m := s.m
	SL := m.StateVals["SuccessfulLogged"]
	WT := m.StateVals["WaitingTestReqAnswer"]
	logonFn := s.one(true, "Logon")

	// ---- T1 over all roots
	type siteAgg struct {
		ob   *core.Obligation
		bad  []string
		good int
	}
	aggs := map[ssa.Instruction]*siteAgg{}
	var order []ssa.Instruction
	loggedish := m.Close(m.Set("SuccessfulLogged"))
	for _, r := range s.roots() {
		if r.Cat == "method" && !isExported(an.NameOf(r.Fn)) && s.inPkgCallers(r.Fn) > 0 {
			continue
		}
		if _, isWriter := m.StateWriters[r.Fn]; isWriter {
			continue // changeState itself
		}
		for _, t := range s.tr.Traces(r.Fn, m.AllStates) {
			for i, e := range t.Events {
				if e.Kind == "state" && e.Name == "WaitingLogonAnswer" {
					// the state in which the next Logon is taken for the answer to the session's own Logon — no parameter check, no
					// callback, no reply — is entered only where the session sends that Logon
					a := aggs[e.Instr]
					if a == nil {
						a = &siteAgg{ob: c.Ob("T1", r.Name(), "transition to "+e.Name+" in "+an.NameOf(e.Fn), e.Pos)}
						aggs[e.Instr] = a
						order = append(order, e.Instr)
					}
					sendsLogon := false
					for _, e2 := range t.Events {
						if e2.Kind == "send" && len(e2.Kinds) == 1 && e2.Kinds[0] == "Logon" {
							sendsLogon = true
						}
						if e2.Kind == "callback" && strings.HasPrefix(e2.Name, "logonRequest") {
							sendsLogon = true // the application's own logon request (SetLogonRequest) stands for the send
						}
					}
					last := t.Events[len(t.Events)-1]
					if sendsLogon || (last.Kind == "return" && last.Ret != "nil" && last.Ret != "") {
						a.good++
						a.ob.Fact("entered where the session sends its own Logon")
					} else {
						a.bad = append(a.bad, "WaitingLogonAnswer is entered on a path that does not send the session's own Logon: the next Logon of any content is then accepted without parameter check, callback or reply; path: "+traceStr(t))
					}
					continue
				}
				if e.Kind != "state" || (e.To != SL && e.To != WT && e.To >= 0) {
					continue
				}
				a := aggs[e.Instr]
				if a == nil {
					rule := "T1"
					a = &siteAgg{ob: c.Ob(rule, r.Name(), "transition to "+e.Name+" in "+an.NameOf(e.Fn), e.Pos)}
					aggs[e.Instr] = a
					order = append(order, e.Instr)
				}
				prefix := t.Events[:i]
				if e.To == WT {
					if e.Pre&^loggedish == 0 {
						a.good++
						a.ob.Fact("entered from %s", m.SetString(e.Pre))
					} else {
						a.bad = append(a.bad, fmt.Sprintf("WaitingTestReqAnswer is entered from abstract state %s: a session that is not logged on would then be 'restored' to SuccessfulLogged by the next inbound message, without any Logon; path: %s", m.SetString(e.Pre), traceStr(&an.Trace{Events: t.Events[:i+1]})))
					}
					continue
				}
				if e.To < 0 {
					a.bad = append(a.bad, "state is set to a non-constant value")
					continue
				}
				// e.To == SL
				lastGuard := an.StateSet(0)
				hasGuard := false
				for _, p := range prefix {
					if p.Kind == "guard" && !p.Stale {
						lastGuard = p.Read
						hasGuard = true
					}
					if p.Kind == "state" {
						hasGuard = false
					}
				}
				inLogon := r.Cat == "inbound" && strings.HasPrefix(r.Key, "Logon@")
				uok := false
				for _, p := range prefix {
					if p.Kind == "unmarshal" && p.Outcome == "ok" {
						uok = true
					}
				}
				switch {
				case hasGuard && lastGuard == m.Set("WaitingTestReqAnswer") && e.Trigger == 0:
					a.good++
					a.ob.Fact("restoration WaitingTestReqAnswer→SuccessfulLogged without event")
				case inLogon && uok && hasGuard && lastGuard == m.Set("WaitingLogonAnswer"):
					a.good++
					a.ob.Fact("initiator: Logon answer received while WaitingLogonAnswer")
				case inLogon && uok && hasGuard && lastGuard == m.Set("WaitingLogon"):
					seq := []string{}
					for _, p := range prefix {
						if p.Kind == "check" {
							seq = append(seq, p.Name+"="+p.Outcome)
						}
					}
					if strings.Join(seq, ",") == "params=true,app=ok,start=ok" {
						a.good++
						a.ob.Fact("acceptor: WaitingLogon, parse ok, params ok, application approved, timers started")
					} else {
						a.bad = append(a.bad, "logged on in WaitingLogon without the full check sequence params→app→start (got ["+strings.Join(seq, ",")+"]) on path: "+traceStr(&an.Trace{Events: t.Events[:i+1]}))
					}
				default:
					g := "no guard"
					if hasGuard {
						g = "state read as " + m.SetString(lastGuard)
					}
					a.bad = append(a.bad, fmt.Sprintf("transition to SuccessfulLogged outside an approved Logon exchange (%s, parse-ok=%v, in %s) on path: %s", g, uok, r.Name(), traceStr(&an.Trace{Events: t.Events[:i+1]})))
				}
			}
		}
	}
	sort.Slice(order, func(i, j int) bool { return aggs[order[i]].ob.Key < aggs[order[j]].ob.Key })
	nSL := 0
	for _, in := range order {
		a := aggs[in]
		if strings.Contains(a.ob.Key, "SuccessfulLogged") {
			nSL++
		}
		if len(a.bad) > 0 {
			a.ob.Fail("%s", a.bad[0])
		} else {
			a.ob.Ok("%d path(s)", a.good)
			if len(a.ob.Facts) > 1 {
				a.ob.Facts = a.ob.Facts[:1]
			}
		}
	}
	c.Check(nSL >= 2, "T1", "", "transitions to SuccessfulLogged exist", 0, "found", "fewer than two transitions to SuccessfulLogged found: the anchor moved")

	// ---- T2 checkLogonParams
	s.checkLogonParams("T2")
	s.checkAcceptorCtor()

	// ---- T3 / T4 on the Logon handler
	if logonFn != nil {
		traces := s.tr.Traces(logonFn, m.AllStates)
		var target ssa.Value
		for _, t := range traces {
			if _, u := unmarshalOutcome(t); u != nil && len(u.Args) == 2 {
				target = an.Unwrap(u.Args[0])
			}
		}
		var bad []string
		nRef := 0
		for _, t := range traces {
			oc, _ := unmarshalOutcome(t)
			if oc != "ok" {
				continue // damaged Logon: C16.J1/J3
			}
			read, _ := s.entryRead(t)
			refusal := ""
			for _, e := range t.Events {
				if e.Kind == "check" && (e.Outcome == "false" || e.Outcome == "fail") {
					refusal = e.Name
				}
			}
			if refusal == "" && read == m.Set("SuccessfulLogged") {
				refusal = "already-logged-on"
			}
			if refusal == "" {
				continue
			}
			nRef++
			pr := s.refusalProblems(t, false)
			if refusal != "already-logged-on" {
				// a Logon refused while waiting for one has already replaced the settings of a session that is not established
				var keep []string
				for _, x := range pr {
					if !strings.HasPrefix(x, "replaces the session's settings") {
						keep = append(keep, x)
					}
				}
				pr = keep
			}
			if len(pr) > 0 {
				bad = append(bad, refusal+": "+strings.Join(pr, "; ")+" on path: "+traceStr(t))
				continue
			}
			if refusal == "already-logged-on" {
				// not permitted in this state: rejected from the raw bytes like in the other handlers (C16.J2/J3)
				if countCalls(t, "ValueByTag") == 0 {
					bad = append(bad, "already-logged-on: the Reject is not built from the raw bytes of the offending Logon")
				}
				continue
			}
			// operands of the reject
			mk := eventsOf(t, "mkreject")
			if len(mk) != 1 || len(mk[0].Args) != 4 {
				bad = append(bad, refusal+": the Reject is not built by MakeReject exactly once")
				continue
			}
			seq := mk[0].R(mk[0].Args[3])
			wantSeq := an.Render(target) + ".HeaderBuilder().MsgSeqNum()"
			if seq != wantSeq {
				bad = append(bad, fmt.Sprintf("%s: RefSeqNum operand is %s, expected the Logon's own sequence number %s", refusal, seq, wantSeq))
			}
			if refusal == "params" {
				tag := mk[0].R(mk[0].Args[2])
				_, tagIdx, _ := logonParamResultIdx(s.m.Method("checkLogonParams"))
				if !strings.HasSuffix(tag, fmt.Sprintf(".checkLogonParams(%s)#%d", an.Render(target), tagIdx)) {
					bad = append(bad, "params: RefTagID operand is "+tag+", not the tag reported by the parameter check")
				}
			}
			snd := sends(t)
			if len(snd) == 1 && chainRoot(an.Unwrap(snd[0].Args[1])) != ssa.Value(mk[0].Instr.(*ssa.Call)) {
				bad = append(bad, refusal+": the message sent is not the Reject that was built")
			}
		}
		ob := c.Ob("T3", "inbound:Logon", "every refusal: one Reject referencing the Logon's MsgSeqNum, nothing else", logonFn.Pos())
		if len(bad) > 0 {
			ob.Fail("%s", bad[0])
			if len(bad) > 1 {
				ob.Fact("%d more", len(bad)-1)
			}
		} else if nRef < 4 {
			ob.Fail("only %d refusal paths found (expected parameter, application, timer and already-logged-on refusals)", nRef)
		} else {
			ob.Ok("%d refusal paths", nRef)
		}
		// T4 echo
		bad = nil
		nApp := 0
		for _, t := range traces {
			var logonSend *an.Event
			for i, e := range t.Events {
				if e.Kind == "send" && hasKind(e.Kinds, "Logon") {
					logonSend = &t.Events[i]
				}
			}
			read, _ := s.entryRead(t)
			if read != m.Set("WaitingLogon") {
				continue
			}
			approved := false
			for _, e := range t.Events {
				if e.Kind == "state" && e.To == SL {
					approved = true
				}
			}
			if !approved {
				continue
			}
			nApp++
			if logonSend == nil {
				bad = append(bad, "approved Logon is not answered with a Logon on path: "+traceStr(t))
				continue
			}
			sent := chainRoot(an.Unwrap(logonSend.Args[1]))
			// where the fields of the installed settings come from (symbolic evaluation of the settings object)
			fieldsFrom := map[string]string{}
			if fl := s.settingsFlow(logonFn); fl.Problem == "" {
				for _, f := range []string{"HeartBtInt", "EncryptMethod"} {
					fieldsFrom[f] = fl.fieldSource(f)
				}
			}
			for _, f := range []struct{ setter, field string }{{"SetFieldHeartBtInt", "HeartBtInt"}, {"SetFieldEncryptMethod", "EncryptMethod"}} {
				found := false
				for _, e := range eventsOf(t, "set") {
					if e.Name != f.setter || chainRoot(e.Args[0]) != sent {
						continue
					}
					found = true
					r := e.R(e.Args[1])
					direct := an.Render(target) + "." + f.field + "()"
					viaSettings := strings.HasSuffix(r, ".LogonSettings."+f.field) && fieldsFrom[f.field] == direct
					if r != direct && !viaSettings {
						bad = append(bad, fmt.Sprintf("the Logon reply's %s is %s (settings field stored from %q), not the value received in the peer's Logon", f.field, r, fieldsFrom[f.field]))
					}
				}
				if !found {
					bad = append(bad, "the Logon reply does not set "+f.field)
				}
			}
			// the reply must be sent after the transition or before? Either; but it must be on the path exactly once
			if n := len(sendsOfKind(t, "Logon")); n != 1 {
				bad = append(bad, fmt.Sprintf("%d Logon replies on an approval path", n))
			}
		}
		ob = c.Ob("T4", "inbound:Logon", "approved Logon is answered once, echoing the received HeartBtInt and EncryptMethod", logonFn.Pos())
		if len(bad) > 0 {
			ob.Fail("%s", bad[0])
		} else if nApp == 0 {
			ob.Fail("no approval path found")
		} else {
			ob.Ok("%d approval path(s)", nApp)
		}
	}

	// ---- T2c: a replacement of Session.LogonSettings keeps the configured limits and timeouts
	s.checkSettingsPreserved("T2")

	// ---- T5 initiator
	lr := m.Method("LogonRequest")
	if c.Anchor("initiator logon request", lr != nil, "(*Session).LogonRequest", posOf(lr)) {
		var bad []string
		n := 0
		for _, t := range s.tr.Traces(lr, m.AllStates) {
			if len(eventsOf(t, "callback")) > 0 {
				continue // application-supplied logon request
			}
			n++
			snd := sends(t)
			if len(snd) != 1 || !hasKind(snd[0].Kinds, "Logon") {
				bad = append(bad, "LogonRequest does not send exactly one Logon on path "+traceStr(t))
				continue
			}
			sent := chainRoot(an.Unwrap(snd[0].Args[1]))
			want := map[string]string{"SetFieldEncryptMethod": "EncryptMethod", "SetFieldHeartBtInt": "HeartBtInt", "SetFieldPassword": "Password", "SetFieldUsername": "Username"}
			got := map[string]bool{}
			for _, e := range eventsOf(t, "set") {
				f, ok := want[e.Name]
				if !ok || chainRoot(e.Args[0]) != sent {
					continue
				}
				got[e.Name] = true
				if r := e.R(e.Args[1]); r != "s.LogonSettings."+f {
					bad = append(bad, e.Name+" operand is "+r+", not the configured s.LogonSettings."+f)
				}
			}
			for k := range want {
				if !got[k] {
					bad = append(bad, "Logon request lacks "+k)
				}
			}
			st := eventsOf(t, "state")
			if len(st) == 0 || st[0].Name != "WaitingLogonAnswer" {
				bad = append(bad, "LogonRequest does not enter WaitingLogonAnswer before sending")
			}
		}
		sort.Strings(bad)
		ob := c.Ob("T5", "LogonRequest", "sends Logon with the configured interval, method and credentials", lr.Pos())
		if len(bad) > 0 || n == 0 {
			ob.Fail("%s", strings.Join(append(bad, ""), "; "))
		} else {
			ob.Ok("%d path(s)", n)
		}
	}
	run := m.Method("Run")
	if c.Anchor("session Run", run != nil, "(*Session).Run", posOf(run)) {
		var bad []string
		nInit := 0
		for _, t := range s.tr.Traces(run, m.AllStates) {
			isInit := false
			for _, e := range t.Events {
				if e.Kind == "state" && e.Name == "WaitingLogonAnswer" {
					isInit = true
				}
			}
			if !isInit {
				// acceptor path: nothing may be sent and no timers started by Run
				if len(sends(t)) > 0 {
					bad = append(bad, "Run sends on the acceptor path: "+traceStr(t))
				}
				continue
			}
			nInit++
			for _, e := range t.Events {
				if e.Kind == "send" {
					if !hasKind(e.Kinds, "Logon") {
						bad = append(bad, "initiator sends "+strings.Join(e.Kinds, "|")+" before its Logon")
					}
					break
				}
			}
			for _, e := range t.Events {
				if e.Kind == "state" && e.To == SL {
					bad = append(bad, "Run itself sets SuccessfulLogged")
				}
			}
		}
		ob := c.Ob("T5", "Run", "initiator's first message is its Logon; Run never logs on by itself", run.Pos())
		if len(bad) > 0 || nInit == 0 {
			ob.Fail("%s", strings.Join(append(bad, fmt.Sprintf("(%d initiator paths)", nInit)), "; "))
		} else {
			ob.Ok("%d initiator path(s)", nInit)
		}
	}
	s.checkEventMapping("M1", map[string]string{"SuccessfulLogged": "EventLogon"})
	s.checkIsLoggedExact("T6")
	s.checkRestingSide("T1")
	s.checkRegisteredOnce("T1", true, "Logon")
	s.checkApprovalIsTheCallbacks("T1")
	// T1 (premise): the Logon is decoded first, from the handler's own input, into a fresh builder — decoded into the shared
	// prototype, a Logon that lacks fields inherits them from the previous one
	if lf := s.one(true, "Logon"); lf != nil {
		s.checkParseFirst("T1", "Logon", lf, s.tr.Traces(lf, s.m.AllStates))
	}
	// T1 (premise): "well-formed" — a damaged Logon is seen as damaged: the integrity rules of C03 hold
	c.RulePrefix = "T7"
	integrityRules(c)
	c.RulePrefix = ""
	// T3 (premise): the Reject's RefSeqNum is what ValueByTag finds under the sequence-number tag — anchored, whole-tag lookups
	if vbt := c.Func("fix", "ValueByTag"); vbt != nil {
		n := needleCensus(c, "T3", []*ssa.Function{vbt})
		c.Check(n >= 2, "T3", "ValueByTag", "anchored lookups found", vbt.Pos(), fmt.Sprint(n), "ValueByTag no longer searches with anchored needles")
	}
	c.Explanation += " T3 also: no refusal path resets or sets a sequence counter; premise: the anchored needles of ValueByTag (the Reject's RefSeqNum is looked up in the raw bytes)."
	c.Explanation += " T1 also: WaitingLogonAnswer (where the next Logon is accepted unchecked as the answer to the session's own) is entered only on paths that send the session's own Logon. T7 premise: the integrity rules V1–V7 of C03 (a damaged Logon is not well-formed)."
	c.Explanation += " T1 premise: the Logon is decoded first, from the handler's own input, into a fresh builder (shared with C07.G2/C16.J1)."
	// T4 (premise): the Logon reply reaches the queue — the enqueue waits for room, it never gives up
	checkBatchDelivery(c, "T4")
	// T7 (premise): a Logon with a valueless field is not well-formed — the decoder hands every located value to FromBytes
	checkValueExtraction(c, "T7")
	checkKeyValuePlain(c, "T7")
	c.Explanation += " T4 premise (= C10.Y8): sendRaw blocks until there is room. T7 also: the decoder's value extraction (= C02.R5) and KeyValue.FromBytes pass every located value on."
	c.RuleMin = map[string]int{"M1": 3, "T1": 6, "T2": 4, "T3": 3, "T4": 1, "T5": 2, "T6": 1, "T7": 12}
	c.MinObl = 17
}

func sendsOfKind(t *an.Trace, kind string) []an.Event {
	var out []an.Event
	for _, e := range t.Events {
		if e.Kind == "send" && hasKind(e.Kinds, kind) {
			out = append(out, e)
		}
	}
	return out
}

// checkLogonParams (rule T2): the accept/refuse decision tree.
func (s *sess) checkLogonParams(rule string) {
	c := s.c
	fn := s.m.Method("checkLogonParams")
	if !c.Anchor("logon parameter check", fn != nil, "(*Session).checkLogonParams", posOf(fn)) {
		return
	}
	paths, over := an.EnumPathsX(fn, 256)
	if over {
		c.Ob(rule, "checkLogonParams", "paths", fn.Pos()).Unknown("too many paths")
		return
	}
	hb := "incoming.HeartBtInt()"
	lim := "s.LogonSettings.HeartBtLimits"
	methodOK := "s.Opts.AllowedEncryptedMethods[incoming.EncryptMethod()]#1"
	var bad []string
	nTrue, nFalseMethod, nFalseHb := 0, 0, 0
	for _, p := range paths {
		// the three results may travel as the fields of one struct literal (in declaration order; an omitted field is zero)
		if p.Return != nil && len(p.Results) == 1 {
			if st, isSt := p.ResVals[0].Type().Underlying().(*types.Struct); isSt && st.NumFields() == 3 {
				if lit, ok := an.StructLit(an.ResolveOnPath(p.ResVals[0], p)); ok {
					var res []string
					for i := 0; i < 3; i++ {
						if v, has := lit[an.FieldName(st.Field(i))]; has {
							res = append(res, an.RenderOnPath(v, p))
						} else if b, isB := st.Field(i).Type().Underlying().(*types.Basic); isB && b.Kind() == types.Bool {
							res = append(res, "false")
						} else {
							res = append(res, "0")
						}
					}
					q := *p
					q.Results = res
					p = &q
				}
			}
		}
		if p.Return == nil || len(p.Results) != 3 {
			bad = append(bad, "a path does not return (ok, tag, reason)")
			continue
		}
		// the three results in the rule's order (ok, tag, reason) whatever their order in the signature
		if oi, ti, ri := logonParamResultIdx(fn); oi != 0 || ti != 1 || ri != 2 {
			q := *p
			q.Results = []string{p.Results[oi], p.Results[ti], p.Results[ri]}
			p = &q
		}
		atoms := map[string]bool{}
		for _, a := range p.Atoms {
			atoms[a.String()] = true
		}
		known := map[string]bool{methodOK: true, "!" + methodOK: true, lim + " == nil": true, lim + " != nil": true,
			lim + ".Min <= " + hb: true, hb + " < " + lim + ".Min": true, hb + " <= " + lim + ".Max": true, lim + ".Max < " + hb: true}
		for a := range atoms {
			if !known[a] {
				bad = append(bad, "unrecognised condition in the decision tree: "+a)
			}
		}
		switch p.Results[0] {
		case "true":
			nTrue++
			if !atoms[methodOK] {
				bad = append(bad, "accepts without the encryption method being in the allowed set: "+p.CondString())
			}
			if !atoms[lim+" == nil"] && !(atoms[lim+".Min <= "+hb] && atoms[hb+" <= "+lim+".Max"]) {
				bad = append(bad, "accepts without Min ≤ HeartBtInt ≤ Max: "+p.CondString())
			}
		case "false":
			switch {
			case atoms["!"+methodOK]:
				nFalseMethod++
				if !strings.HasSuffix(p.Results[1], "Tags.EncryptedMethod") {
					bad = append(bad, "a disallowed method is reported with tag "+p.Results[1])
				}
			case atoms[hb+" < "+lim+".Min"] || atoms[lim+".Max < "+hb]:
				nFalseHb++
				if !strings.HasSuffix(p.Results[1], "Tags.HeartBtInt") {
					bad = append(bad, "an out-of-range interval is reported with tag "+p.Results[1])
				}
			default:
				bad = append(bad, "refuses under conditions that are neither a disallowed method nor an out-of-range interval: "+p.CondString())
			}
			if !strings.HasSuffix(p.Results[2], "SessionErrorCodes.IncorrectValue") {
				bad = append(bad, "refusal reason is "+p.Results[2])
			}
		default:
			bad = append(bad, "result is not a constant: "+p.Results[0])
		}
	}
	ob := c.Ob(rule, "checkLogonParams", "accepts iff method allowed ∧ Min ≤ HeartBtInt ≤ Max; names the offending tag", fn.Pos())
	if len(bad) > 0 {
		ob.Fail("%s", bad[0])
		if len(bad) > 1 {
			ob.Fact("%d more: %s", len(bad)-1, strings.Join(bad[1:], " | "))
		}
	} else if nTrue == 0 || nFalseMethod == 0 || nFalseHb < 2 {
		ob.Fail("decision tree incomplete: %d accepting, %d method refusals, %d interval refusals (need ≥1, ≥1, 2)", nTrue, nFalseMethod, nFalseHb)
	} else {
		ob.Ok("%d paths: %d accept, %d refuse method, %d refuse interval", len(paths), nTrue, nFalseMethod, nFalseHb)
	}
}

// checkAcceptorCtor: NewAcceptorSession returns an error for nil/inconsistent limits or an empty method set,
// so the nil-limits shortcut of checkLogonParams is unreachable for acceptors.
func (s *sess) checkAcceptorCtor() {
	c := s.c
	fn := s.m.Pkg.Func("NewAcceptorSession")
	if !c.Anchor("acceptor constructor", fn != nil, "NewAcceptorSession", posOf(fn)) {
		return
	}
	paths, _ := an.EnumPathsX(fn, 1024) // the checks may live in a validation helper
	var bad []string
	nOK := 0
	for _, p := range paths {
		if p.Return == nil || len(p.Results) != 2 {
			continue
		}
		if p.Results[0] == "nil" {
			continue // error return
		}
		// success paths: first result is the session
		if !strings.Contains(p.Results[0], "newSession(") {
			continue
		}
		errPath := false
		for _, a := range p.Atoms {
			if strings.Contains(a.L, "newSession(") && strings.HasSuffix(a.L, "#1") && a.Rel == "!=" && a.R == "nil" {
				errPath = true
			}
		}
		if errPath {
			continue
		}
		nOK++
		// the parameters by their types (their names are the author's business)
		settings, params := "settings", "params"
		for _, prm := range fn.Params {
			switch {
			case an.TypeIs(prm.Type(), "session", "LogonSettings"):
				settings = an.Render(prm)
			case an.TypeIs(prm.Type(), "session", "Opts"):
				params = an.Render(prm)
			}
		}
		need := []string{settings + ".HeartBtLimits != nil", settings + ".HeartBtLimits.Min <= " + settings + ".HeartBtLimits.Max", settings + ".HeartBtLimits.Max != 0", settings + ".HeartBtLimits.Min != 0"}
		for _, n := range need {
			if !p.Has(n) {
				bad = append(bad, "a session is returned without checking "+n+" ("+p.CondString()+")")
			}
		}
		// a non-empty method set, in any spelling: an empty one cannot reach this return
		if an.PathFeasible(p, an.Atom{L: "len(" + params + ".AllowedEncryptedMethods)", Rel: "==", R: "0"}) {
			bad = append(bad, "a session is returned without checking len("+params+".AllowedEncryptedMethods) != 0 ("+p.CondString()+")")
		}
		// the acceptor's LogonHandler is installed and the state is WaitingLogon
	}
	ob := c.Ob("T2", "NewAcceptorSession", "refuses nil or inconsistent heartbeat limits and an empty method set", fn.Pos())
	if len(bad) > 0 {
		ob.Fail("%s", bad[0])
	} else if nOK == 0 {
		ob.Fail("no success path recognised")
	} else {
		ob.Ok("%d success path(s), all behind the five checks", nOK)
	}
}

// checkSettingsPreserved: every post-construction store to Session.LogonSettings stores a struct whose
// HeartBtLimits, CloseTimeout and LogonTimeout are copied from the settings being replaced. Otherwise the
// nil-limits shortcut of checkLogonParams becomes reachable after the first Logon (and Stop loses its deadline).
func (s *sess) checkSettingsPreserved(rule string) {
	c := s.c
	n := 0
	for _, fn := range s.allFuncs() {
		an.AllInstrs(fn, func(in ssa.Instruction) {
			st, ok := in.(*ssa.Store)
			if !ok {
				return
			}
			fa, ok := st.Addr.(*ssa.FieldAddr)
			if !ok || an.FieldOf(fa) == nil || an.FieldName(an.FieldOf(fa)) != "LogonSettings" || !an.TypeIs(fa.X.Type(), "session", "Session") {
				return
			}
			// constructor context: the session is allocated in this function
			if _, isAlloc := fa.X.(*ssa.Alloc); isAlloc {
				return
			}
			n++
			ob := c.Ob(rule, an.NameOf(fn), "replacement of Session.LogonSettings keeps HeartBtLimits, CloseTimeout, LogonTimeout", st.Pos())
			// symbolic evaluation of the installed object (literal here or in a constructor helper), see settings.go
			fl := s.settingsFlow(fn)
			if fl.Problem != "" {
				ob.Unknown("%s", fl.Problem)
				return
			}
			var miss []string
			for _, e := range fl.Envs {
				for _, f := range []string{"HeartBtLimits", "CloseTimeout", "LogonTimeout"} {
					// the same field of the settings being replaced (read through the session, however the session is reached)
					if e.Env[f] != "s.LogonSettings."+f && !strings.HasSuffix(e.Env[f], ".LogonSettings."+f) {
						m := fmt.Sprintf("%s ← %q", f, e.Env[f])
						dup := false
						for _, x := range miss {
							if x == m {
								dup = true
							}
						}
						if !dup {
							miss = append(miss, m)
						}
					}
				}
			}
			if len(miss) > 0 {
				ob.Fail("the settings that replace the configured ones do not carry over %s: after this store the heartbeat limits are nil (any interval is accepted) or the close/logon timeouts are zero", strings.Join(miss, ", "))
			} else {
				ob.Ok("HeartBtLimits, CloseTimeout and LogonTimeout are copied from the replaced settings")
			}
		})
	}
	c.Check(n >= 1, rule, "", "Session.LogonSettings is replaced by the Logon handler", 0, "found", "no post-construction store to Session.LogonSettings found (anchor moved)")
}

// checkIsLoggedExact (T6): Session.IsLogged returns true exactly when the state read is SuccessfulLogged: it is classified as the
// reader `state == SuccessfulLogged`, or every path that returns the constant true has compared the state it read equal to that
// value, no path that returns false has, and any other result is that comparison itself.
func (s *sess) checkIsLoggedExact(rule string) {
	c := s.c
	fn := s.m.Method("IsLogged")
	if !c.Anchor("logged-on predicate", fn != nil, "(*Session).IsLogged", posOf(fn)) {
		return
	}
	SL := s.m.StateVals["SuccessfulLogged"]
	ob := c.Ob(rule, "IsLogged", "true exactly in SuccessfulLogged", fn.Pos())
	if k, ok := s.m.StateReaders[fn]; ok && k == SL {
		ob.Ok("returns state == SuccessfulLogged")
		return
	}
	isStateRead := func(v ssa.Value) bool {
		v = an.Unspill(v)
		if f, _ := an.LoadedField(v); f == s.m.StateField {
			return true
		}
		if call, ok := v.(*ssa.Call); ok {
			if cal := an.StaticCallee(&call.Call); cal != nil {
				if k, ok := s.m.StateReaders[cal]; ok && k == -1 {
					return true
				}
			}
		}
		return false
	}
	isSLTest := func(v ssa.Value) bool {
		bo, ok := v.(*ssa.BinOp)
		if !ok || bo.Op != token.EQL {
			return false
		}
		for _, pr := range [][2]ssa.Value{{bo.X, bo.Y}, {bo.Y, bo.X}} {
			if k, isK := an.ConstInt(pr[1]); isK && k == SL && isStateRead(pr[0]) {
				return true
			}
		}
		return false
	}
	paths, _ := an.EnumPathsX(fn, 256)
	var bad []string
	n := 0
	for _, p := range paths {
		if p.Return == nil || len(p.ResVals) != 1 {
			continue
		}
		n++
		tested, testedTrue := false, false
		for _, a := range p.Atoms {
			if isSLTest(a.Val) {
				tested = true
				if a.Taken {
					testedTrue = true
				}
			}
		}
		res := an.Unspill(p.ResVals[0])
		if k, isK := res.(*ssa.Const); isK && k.Value != nil {
			isTrue := k.Value.String() == "true"
			switch {
			case isTrue && !testedTrue:
				bad = append(bad, "returns true on a path that has not established state == SuccessfulLogged: "+p.CondString())
			case !isTrue && (testedTrue || !tested):
				bad = append(bad, "returns false on a path that does not exclude SuccessfulLogged: "+p.CondString())
			}
			continue
		}
		if !isSLTest(res) {
			bad = append(bad, "returns "+an.Render(res)+", which is not state == SuccessfulLogged")
		}
	}
	if len(bad) > 0 || n == 0 {
		ob.Fail("%s", strings.Join(append(bad, fmt.Sprintf("(%d return paths)", n)), "; "))
	} else {
		ob.Ok("%d return path(s), each equivalent to state == SuccessfulLogged", n)
	}
}

// constMapTable: v is a load of a package-level map variable of package session that is written only by its initialiser, with
// constant integer keys and values: the table as key → value constant.
func (s *sess) constMapTable(v ssa.Value) (map[int64]ssa.Value, bool) {
	ld, ok := v.(*ssa.UnOp)
	if !ok || ld.Op != token.MUL {
		return nil, false
	}
	g, ok := ld.X.(*ssa.Global)
	if !ok || g.Pkg != s.m.Pkg {
		return nil, false
	}
	out := map[int64]ssa.Value{}
	okAll := true
	isG := func(x ssa.Value) bool {
		l, ok := x.(*ssa.UnOp)
		return ok && l.X == ssa.Value(g)
	}
	for _, fn := range pkgFuncs(s.m.Pkg) {
		an.AllInstrs(fn, func(in ssa.Instruction) {
			switch x := in.(type) {
			case *ssa.MapUpdate:
				if !isG(x.Map) {
					// the freshly made map before it is stored into the global (the initialiser)
					if mm, isMk := x.Map.(*ssa.MakeMap); isMk && fn.Name() == "init" {
						stored := false
						for _, ref := range *mm.Referrers() {
							if st, isSt := ref.(*ssa.Store); isSt && st.Addr == ssa.Value(g) {
								stored = true
							}
						}
						if !stored {
							return
						}
					} else {
						return
					}
				} else if fn.Name() != "init" {
					okAll = false
					return
				}
				k, isK := an.ConstInt(x.Key)
				if _, isV := an.ConstInt(x.Value); !isK || !isV {
					okAll = false
					return
				}
				out[k] = x.Value
			case *ssa.Store:
				if x.Addr == ssa.Value(g) && fn.Name() != "init" {
					okAll = false
				}
			case *ssa.Call:
				if b, isB := x.Call.Value.(*ssa.Builtin); isB && b.Name() == "delete" && isG(x.Call.Args[0]) {
					okAll = false
				}
			}
		})
	}
	return out, okAll && len(out) > 0
}

// logonParamResultIdx: the positions of (ok, tag, reason) among the three results of checkLogonParams — by type for the
// boolean, by name for the two integers when the results are named (tag…/reason…), else in the pinned order.
func logonParamResultIdx(fn *ssa.Function) (okIdx, tagIdx, reasonIdx int) {
	okIdx, tagIdx, reasonIdx = 0, 1, 2
	if fn == nil || fn.Signature.Results().Len() != 3 {
		return
	}
	res := fn.Signature.Results()
	var ints []int
	for i := 0; i < 3; i++ {
		if b, ok := res.At(i).Type().Underlying().(*types.Basic); ok && b.Kind() == types.Bool {
			okIdx = i
		} else {
			ints = append(ints, i)
		}
	}
	if len(ints) != 2 {
		return 0, 1, 2
	}
	tagIdx, reasonIdx = ints[0], ints[1]
	n0, n1 := strings.ToLower(res.At(ints[0]).Name()), strings.ToLower(res.At(ints[1]).Name())
	if strings.Contains(n0, "reason") || strings.Contains(n1, "tag") {
		tagIdx, reasonIdx = ints[1], ints[0]
	}
	return
}
