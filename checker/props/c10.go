package props

import (
	"fmt"
	"go/token"
	"go/types"
	"strings"

	"golang.org/x/tools/go/ssa"

	"sfcheck/an"
	"sfcheck/core"
)

func init() {
	register(&Check{ID: "C10", NeedSSA: true, Run: runC10})
}

// storageSide renders the Side of a fix.StorageID argument ("Outgoing"/"Incoming"/"?").
func storageSide(v ssa.Value) string {
	// the identifier may travel as a field of a small bundle built by a helper: out := s.outgoing(); … out.id …
	for i := 0; i < 3; i++ {
		// the parameter of a helper cut out of the handler stands for the argument at its only call site
		if p, isP := v.(*ssa.Parameter); isP && p.Parent() != nil {
			if a, has := an.OwnerSub(p.Parent())[p]; has && a != v {
				v = a
				continue
			}
		}
		ld, isLd := v.(*ssa.UnOp)
		if !isLd {
			break
		}
		fa, isFA := ld.X.(*ssa.FieldAddr)
		if !isFA {
			break
		}
		w, idx := an.LocalStructField(fa)
		if w == nil {
			break
		}
		if idx < 0 {
			v = w
			continue
		}
		outer, okO := an.StructLit(w)
		st, isSt := an.Deref(fa.X.Type()).Underlying().(*types.Struct)
		if !okO || !isSt || idx >= st.NumFields() {
			break
		}
		fv, has := outer[an.FieldName(st.Field(idx))]
		if !has {
			break
		}
		v = fv
	}
	lit, ok := an.StructLit(v)
	if !ok {
		return "?"
	}
	if s, ok := an.ConstString(lit["Side"]); ok {
		return s
	}
	return "?"
}

func runC10(c *core.Ctx, o Options) {
	c.Explanation = "Y1: the all-types outgoing handler registered at construction saves every message under msg.HeaderBuilder().MsgSeqNum() of that same message and returns err == nil. " +
		"Y2: the ResendRequest handler passes BeginSeqNo() of the request it parsed as the lower and EndSeqNo() as the upper bound to MessageStorage.Messages (outgoing side) and hands the result unmodified to SendBatch. " +
		"Y3: no path from the handler takes a new sequence number or re-stamps a header (retransmissions keep number and bytes). Y4: memory.Storage.Messages returns an error for from>to, for to beyond the outgoing counter and for a missing entry, " +
		"and otherwise appends messages[i] for i = from; i <= to; i++. Y5: on the path where EndSeqNo() == 0 the upper bound is the outgoing counter's current value instead. " +
		"Y6: at logon, when last-received+1 < received, the ResendRequest's BeginSeqNo operand is last-received+1 (the expression the comparison treats as next expected) and EndSeqNo is 0, then the incoming counter is set. " +
		"Y7: every message a loop of the session sends is built inside that loop, so an object kept by the store is never stamped again. Y8: SendBatch ranges over its whole argument, hands each element to DefaultHandler.send, which enqueues through a direct call of sendRaw, whose only wait is a blocking select on the out channel and the handler context (no default branch: a full queue delays, never drops). " +
		"Structural conditions over all histories and ranges; byte identity of a retransmission with its first transmission is decided only as far as Y1/Y3 (same stored object, no mutation on the resend path)."
	s := newSess(c)
	if s == nil {
		return
	}
	m := s.m
	s.checkSaveHandler("Y1")
	s.checkRegisteredOnce("Y2", true, "ResendRequest")
	// ---- Y2 / Y3 / Y5 on the resend handler
	rh := s.one(true, "ResendRequest")
	if rh != nil {
		traces := s.tr.Traces(rh, m.AllStates)
		var target ssa.Value
		for _, t := range traces {
			if _, u := unmarshalOutcome(t); u != nil && len(u.Args) == 2 {
				target = an.Unwrap(u.Args[0])
			}
		}
		tr := an.Render(target)
		paths, _ := an.EnumPathsX(rh, 4096)
		var bad2, bad5 []string
		nMsg, nOpen, nClosed := 0, 0, 0
		var msgsCall *ssa.Call
		for _, p := range paths {
			var call *ssa.Call
			for _, in := range p.InstrSeq() {
				if cl, ok := in.(*ssa.Call); ok && cl.Call.IsInvoke() && cl.Call.Method.Name() == "Messages" && an.TypeIs(cl.Call.Value.Type(), "session", "MessageStorage") {
					call = cl
				}
			}
			if call == nil {
				continue
			}
			msgsCall = call
			nMsg++
			if sd := storageSide(call.Call.Args[0]); sd != "outgoing" {
				bad2 = append(bad2, "messages are looked up on side "+sd)
			}
			from := an.RenderOnPath(call.Call.Args[1], p)
			if from != tr+".BeginSeqNo()" {
				bad2 = append(bad2, "lower bound is "+from+", not BeginSeqNo() of the parsed request")
			}
			to := an.RenderOnPath(call.Call.Args[2], p)
			endExpr := tr + ".EndSeqNo()"
			beginExpr := tr + ".BeginSeqNo()"
			switch {
			case p.Has(endExpr + " == 0"):
				// the path must be takeable by a request b..0 with b >= 1
				if !an.PathFeasible(p, an.Atom{L: "1", Rel: "<=", R: beginExpr}, an.Atom{L: endExpr, Rel: "==", R: "0"}) {
					continue
				}
				nOpen++
				if !strings.Contains(to, ".GetCurrSeqNum(") || !strings.HasSuffix(to, "#0") {
					bad5 = append(bad5, "EndSeqNo = 0 (open end) but the upper bound is "+to+", not the last number sent")
				} else if ex, ok := an.ResolveOnPath(call.Call.Args[2], p).(*ssa.Extract); ok {
					if gc, ok := ex.Tuple.(*ssa.Call); ok && storageSide(gc.Call.Args[0]) != "outgoing" {
						bad5 = append(bad5, "open end taken from the "+storageSide(gc.Call.Args[0])+" counter")
					}
				}
			case p.Has(endExpr + " != 0"):
				if !an.PathFeasible(p, an.Atom{L: "1", Rel: "<=", R: beginExpr}, an.Atom{L: beginExpr, Rel: "<=", R: endExpr}) {
					continue
				}
				nClosed++
				if to != endExpr {
					bad2 = append(bad2, "upper bound is "+to+", not EndSeqNo() of the parsed request")
				}
			default:
				bad5 = append(bad5, "the upper bound "+to+" is used without testing EndSeqNo() for 0: a request with EndSeqNo=0 (through the last message sent) selects an empty range")
			}
		}
		ob := c.Ob("Y2", "inbound:ResendRequest", "Messages(outgoing, BeginSeqNo(), EndSeqNo()) of the parsed request", rh.Pos())
		if nMsg == 0 {
			ob.Fail("the handler never queries the message store")
		} else if len(bad2) > 0 {
			ob.Fail("%s", bad2[0])
		} else {
			ob.Ok("%d path(s) through the lookup", nMsg)
		}
		ob = c.Ob("Y5", "inbound:ResendRequest", "EndSeqNo = 0 selects the last number sent", rh.Pos())
		if len(bad5) > 0 {
			ob.Fail("%s", bad5[0])
		} else if nOpen == 0 || nClosed == 0 {
			ob.Fail("feasible paths to the store lookup: %d for a request b..0 (b ≥ 1), %d for a request b..e (1 ≤ b ≤ e); both forms must reach the lookup", nOpen, nClosed)
		} else {
			ob.Ok("%d open-end and %d closed-end path(s)", nOpen, nClosed)
		}
		// SendBatch operand and Y3
		var bad3 []string
		nSend := 0
		for _, t := range traces {
			for _, e := range t.Events {
				if e.Kind == "send" && hasKind(e.Kinds, "Stored") {
					nSend++
					if msgsCall != nil {
						if r := e.R(e.Args[0]); r != an.Render(msgsCall)+"#0" {
							bad3 = append(bad3, "SendBatch is given "+r+", not the list returned by the store")
						}
					}
				}
				if e.Kind == "store" && e.Name == "GetNextSeqNum" {
					bad3 = append(bad3, "a new sequence number is taken on the resend path")
				}
				if e.Kind == "send" && !isRejectSend(e) && !hasKind(e.Kinds, "Stored") {
					bad3 = append(bad3, "the resend handler sends "+strings.Join(e.Kinds, "|")+" through "+e.Name)
				}
				if e.Kind == "set" && (e.Name == "SetFieldMsgSeqNum" || e.Name == "SetFieldSendingTime") {
					bad3 = append(bad3, "a header field is re-stamped on the resend path: "+e.Name)
				}
			}
			// between lookup and send nothing may touch the list: checked by operand identity above
		}
		// the outgoing handlers the session installs must not mutate the message
		for _, r := range s.regs {
			if r.In || r.Fn == nil {
				continue
			}
			for _, t := range s.tr.Traces(r.Fn, m.AllStates) {
				for _, e := range t.Events {
					if e.Kind == "set" || e.Kind == "send" {
						bad3 = append(bad3, fmt.Sprintf("the outgoing handler %s registered in %s modifies or sends messages (%s); a retransmission would differ from the first transmission", an.NameOf(r.Fn), an.NameOf(r.Parent), e.String()))
					}
				}
			}
		}
		ob = c.Ob("Y3", "inbound:ResendRequest", "stored messages go to SendBatch unmodified; no renumbering, no re-stamping", rh.Pos())
		if nSend == 0 {
			ob.Fail("no retransmission (SendBatch) on any path")
		} else if len(bad3) > 0 {
			ob.Fail("%s", bad3[0])
		} else {
			ob.Ok("%d path(s) reach SendBatch", nSend)
		}
	}
	checkStorageMessages(c, "Y4")
	// ---- Y6 gap request
	pi := m.Method("processIncSeq")
	if c.Anchor("gap detection", pi != nil, "(*Session).processIncSeq", posOf(pi)) {
		traces := s.tr.Traces(pi, m.AllStates)
		paths, _ := an.EnumPaths(pi, 256)
		var bad []string
		nGap, nNoGap := 0, 0
		inc := an.Render(pi.Params[1]) + ".HeaderBuilder().MsgSeqNum()"
		// the last received number: result #0 of the GetCurrSeqNum call
		curr := ""
		an.AllInstrs(pi, func(in ssa.Instruction) {
			if call, ok := in.(*ssa.Call); ok && call.Call.IsInvoke() && call.Call.Method.Name() == "GetCurrSeqNum" {
				curr = an.Render(call) + "#0"
			}
		})
		for _, p := range paths {
			if p.Return == nil || curr == "" {
				continue
			}
			// the path is a gap path iff its conditions entail  last received + 1 < received
			gap := an.PathDBM(p).Entails(an.Lin{Term: curr, K: 1}, an.Lin{Term: inc}, true)
			var begin, end ssa.Value
			nSendCalls := 0
			for _, b := range p.Blocks {
				for _, in := range b.Instrs {
					call, ok := in.(*ssa.Call)
					if !ok {
						continue
					}
					if call.Call.IsInvoke() && call.Call.Method.Name() == "SetFieldBeginSeqNo" {
						begin = call.Call.Args[0]
					}
					if call.Call.IsInvoke() && call.Call.Method.Name() == "SetFieldEndSeqNo" {
						end = call.Call.Args[0]
					}
					if cal := an.StaticCallee(&call.Call); cal != nil && s.isSendPrimitive(cal) {
						nSendCalls++
					}
				}
			}
			if !gap {
				if nSendCalls > 0 {
					bad = append(bad, "a ResendRequest is sent on a path whose conditions do not establish last-received + 1 < received: "+p.CondString())
				}
				isErr := false
				for _, a := range p.Atoms {
					if strings.HasSuffix(a.L, "#1") && a.Rel == "!=" && a.R == "nil" {
						isErr = true
					}
				}
				if !isErr {
					nNoGap++
				}
				continue
			}
			nGap++
			if nSendCalls != 1 || begin == nil || end == nil {
				bad = append(bad, "gap detected but not exactly one ResendRequest with Begin/EndSeqNo is sent")
				continue
			}
			if b := an.ParseLin(an.RenderOnPath(begin, p)); b.Term != curr || b.K != 1 {
				bad = append(bad, fmt.Sprintf("gap (last received + 1 < received) but the request begins at %s instead of the first missing number, last received + 1", an.RenderOnPath(begin, p)))
			}
			if e, ok := an.ConstInt(end); !ok || e != 0 {
				bad = append(bad, "EndSeqNo of the gap request is "+an.Render(end)+", not 0")
			}
		}
		// the counter read is the incoming one and it is set to the received number afterwards
		okSet := false
		for _, t := range traces {
			for _, e := range t.Events {
				if e.Kind == "store" && e.Name == "GetCurrSeqNum" && storageSide(e.Args[0]) != "incoming" {
					bad = append(bad, "the gap is computed from the "+storageSide(e.Args[0])+" counter")
				}
				if e.Kind == "store" && e.Name == "SetSeqNum" {
					if storageSide(e.Args[0]) == "incoming" && e.R(e.Args[1]) == inc {
						okSet = true
					} else {
						bad = append(bad, "SetSeqNum("+storageSide(e.Args[0])+", "+e.R(e.Args[1])+")")
					}
				}
			}
		}
		if !okSet {
			bad = append(bad, "the incoming counter is not set to the Logon's sequence number")
		}
		ob := c.Ob("Y6", "processIncSeq", "gap ⇒ ResendRequest(BeginSeqNo = last received + 1, EndSeqNo = 0)", pi.Pos())
		if len(bad) > 0 {
			ob.Fail("%s", bad[0])
		} else if nGap == 0 || nNoGap == 0 {
			ob.Fail("gap paths %d, no-gap paths %d (need both)", nGap, nNoGap)
		} else {
			ob.Ok("%d gap path(s), %d no-gap path(s)", nGap, nNoGap)
		}
		// processIncSeq is called on both logon branches of the Logon handler
		n := 0
		if lf := s.one(true, "Logon"); lf != nil {
			for _, t := range s.tr.Traces(lf, m.AllStates) {
				logged, gapChecked := false, false
				for _, e := range t.Events {
					if e.Kind == "state" && e.Name == "SuccessfulLogged" {
						logged = true
					}
					if e.Kind == "store" && e.Name == "GetCurrSeqNum" && logged {
						gapChecked = true
					}
				}
				if logged && !gapChecked {
					n++
				}
			}
			c.Check(n == 0, "Y6", "inbound:Logon", "every successful logon path runs the gap check", lf.Pos(), "gap check follows each transition to SuccessfulLogged", fmt.Sprintf("%d logon path(s) skip the gap check", n))
			// … on the Logon that was received (its MsgSeqNum is the peer's), not on a Logon of the session's own making
			nCall, wrong := 0, ""
			for _, t := range s.tr.Traces(lf, m.AllStates) {
				_, ue := unmarshalOutcome(t)
				if ue == nil || len(ue.Args) == 0 {
					continue
				}
				for _, e := range t.Events {
					if e.Kind == "enter" && e.Name == "processIncSeq" && len(e.Args) >= 2 {
						nCall++
						if e.Args[1] != ue.Args[0] && an.Render(e.Args[1]) != an.Render(ue.Args[0]) {
							wrong = e.R(e.Args[1])
						}
					}
				}
			}
			// … against the expected number as it stood when the Logon arrived: the handler does not set or reset a counter before
			// the comparison (an incoming counter pre-set to the Logon's own number makes the comparison vacuous)
			early := ""
			for _, t := range s.tr.Traces(lf, m.AllStates) {
				for _, e := range t.Events {
					if e.Kind == "enter" && e.Name == "processIncSeq" {
						break
					}
					if e.Kind == "store" && (e.Name == "SetSeqNum" || e.Name == "ResetSeqNum") {
						early = e.Name + " before the gap check on path: " + traceStr(t)
					}
				}
			}
			c.Check(early == "", "Y6", "inbound:Logon", "no counter is set or reset before the gap check", lf.Pos(), "none", early+": the expected number the Logon's MsgSeqNum is compared with is no longer the one the store held when the Logon arrived")
			c.Check(wrong == "" && nCall > 0, "Y6", "inbound:Logon", "the gap check is made on the received Logon", lf.Pos(), "processIncSeq(<the decoded message>)", "processIncSeq is handed "+wrong+", not the Logon that was decoded from the peer's bytes: the number compared with the expected one is not the peer's, so a gap is never (or always) seen")

		}
	}
	// ---- Y6 premise: the gap check compares the Logon's number with the incoming counter, so the all-types handler that tracks
	// that counter must leave it alone while a Logon (or the answer to the own Logon) is awaited — it runs before the Logon handler
	{
		wl := m.Set("WaitingLogon", "WaitingLogonAnswer")
		nTrack := 0
		for _, r := range s.regs {
			if !r.In || r.Key != "ALL" || r.Fn == nil {
				continue
			}
			for _, t := range s.tr.Traces(r.Fn, m.AllStates) {
				sets := false
				for _, e := range t.Events {
					if e.Kind == "store" && e.Name == "SetSeqNum" {
						sets = true
					}
				}
				if !sets {
					continue
				}
				nTrack++
				read, has := s.entryRead(t)
				if !has {
					read = m.AllStates
				}
				c.Check(read&wl == 0, "Y6", an.NameOf(r.Fn), "the incoming counter is not advanced while a Logon is awaited", r.Fn.Pos(), "state ∉ {WaitingLogon, WaitingLogonAnswer} on the path that sets the counter",
					"the all-types handler sets the incoming counter on a path that state "+m.SetString(read&wl)+" can take: it runs before the Logon handler, so the Logon's own number is stored first and the gap check that follows sees no gap — missing messages are never requested")
			}
		}
		c.Check(nTrack >= 1, "Y6", "", "the handler that tracks the incoming counter was found", 0, fmt.Sprint(nTrack), "no all-types incoming handler sets the incoming counter (anchor moved)")
		// … and conversely it does track every message received in any other state (a confirming Logout, the answer to the
		// session's own TestRequest): a path of the tracking handler that returns without even looking at the message is
		// one that only the two waiting-for-Logon states can take
		for _, r := range s.regs {
			if !r.In || r.Key != "ALL" || r.Fn == nil || an.NameOf(r.Parent) != "setStorageCallbacks" {
				continue
			}
			for _, t := range s.tr.Traces(r.Fn, m.AllStates) {
				sets, found := false, false
				for _, e := range t.Events {
					if e.Kind == "store" && e.Name == "SetSeqNum" {
						sets = true
					}
					if e.Kind == "call" && strings.Contains(e.Name, "ValueByTag") {
						found = true // the message was looked at (a missing or non-numeric number, a SequenceReset are its own business)
					}
				}
				if sets || found {
					continue
				}
				read, has := s.entryRead(t)
				if !has {
					read = m.AllStates
				}
				c.Check(read&^wl == 0, "Y6", an.NameOf(r.Fn), "every message received outside the Logon wait advances the incoming counter", r.Fn.Pos(), "skipped only in {WaitingLogon, WaitingLogonAnswer}",
					"the all-types handler leaves the incoming counter alone on a path that state "+m.SetString(read&^wl)+" can take: a message received then (the peer's confirming Logout, the answer to the session's TestRequest) is not counted, the next expected number is one too low, and the next Logon is answered with a ResendRequest for a message that was received")
			}
		}
	}
	// ---- Y4 premise: what was stored stays stored — a retransmission of any number b..e ≤ last sent needs every entry
	if st := c.Field("storages/memory", "Storage", "messages"); c.Anchor("message map of the store", st != nil, "memory.Storage.messages", token.NoPos) {
		nUpd := 0
		for _, fn := range pkgFuncs(c.SSAPkg("storages/memory")) {
			an.AllInstrs(fn, func(in ssa.Instruction) {
				switch x := in.(type) {
				case *ssa.Call:
					if b, isB := x.Call.Value.(*ssa.Builtin); isB && b.Name() == "delete" {
						if f, _ := an.LoadedField(x.Call.Args[0]); f == st {
							c.Ob("Y4", an.NameOf(fn), "no stored message is removed", x.Pos()).Fail("%s deletes an entry of Storage.messages: a ResendRequest that reaches that number is then answered with nothing (Messages fails on the first missing entry)", an.NameOf(fn))
						}
					}
				case *ssa.MapUpdate:
					if f, _ := an.LoadedField(x.Map); f == st {
						nUpd++
						c.Check(an.NameOf(fn) == "Save" && len(fn.Params) >= 4 && x.Key == ssa.Value(fn.Params[3]) && an.Unwrap(x.Value) == ssa.Value(fn.Params[2]), "Y4", an.NameOf(fn), "the store keeps the message given to Save under the number given to Save", x.Pos(), "messages[msgSeqNum] = msg",
							"Storage.messages["+an.Render(x.Key)+"] = "+an.Render(x.Value)+" in "+an.NameOf(fn))
					}
				case *ssa.Store:
					if fa, ok := x.Addr.(*ssa.FieldAddr); ok && an.FieldOf(fa) == st && an.NameOf(fn) != "NewStorage" {
						c.Ob("Y4", an.NameOf(fn), "the message map is not replaced", x.Pos()).Fail("%s replaces Storage.messages", an.NameOf(fn))
					}
				}
			})
		}
		c.Check(nUpd >= 1, "Y4", "Storage", "the store's update site found", token.NoPos, fmt.Sprint(nUpd), "no update of Storage.messages found")
	}
	// ---- Y7 each stored object is sent once: what the store keeps under a number is never re-stamped by a later send
	checkFreshMessages(c, s, "Y7")
	// ---- Y8 the batch is delivered whole: SendBatch walks the entire list through the same blocking enqueue as Send
	checkBatchDelivery(c, "Y8")
	// ---- Y9 a ResendRequest that arrives while the session's own TestRequest is outstanding is still served: the all-types
	// handler, which runs first, restores the logged-on state
	if hs := s.handlers(true, "ALL", "start"); len(hs) == 1 && hs[0].Fn != nil {
		s.checkRestore("Y9", hs[0].Fn)
	} else {
		c.Ob("Y9", "start", "all-types incoming handler restores the logged-on state", 0).Fail("no all-types incoming handler is registered when the timers start: in WaitingTestReqAnswer a ResendRequest would be rejected instead of served")
	}
	// ---- Y7 (premise) the bytes of the first transmission are those of the object the store keeps: the message is serialized after
	// the outgoing handlers (the saving one included) have run, and what is enqueued is that serialization
	checkSendPathOrder(c, "Y7")
	// ---- Y10 (premises) the saving and the tracking hooks stay registered (a Remove never drops a non-empty handler list), and no
	// function returns with a mutex it took still locked (the store's mutex is taken by every Save and every Messages)
	checkPoolGrowOnly(c, "Y10")
	checkLocksReleased(c, "Y10", libFuncs(c), "the next Save or Messages call — the next send or the next ResendRequest — blocks for ever")
	c.Explanation += " Y7 premise (= C19.H1): DefaultHandler.send serializes after both handler ranges and enqueues that serialization. Y10 premises: registered handlers stay registered at their position (only an empty handler list is deleted); no function of the library returns with a mutex it took still locked."
	c.Explanation += " Y6 also requires that processIncSeq is handed the very message the Logon handler decoded from the peer's bytes (not a Logon of the session's own making, whose number is not the peer's)."
	c.Explanation += " Y4 also: nothing deletes from or replaces Storage.messages and the only update is messages[msgSeqNum] = msg in Save. Y6 also: a path of the tracking handler that returns without looking at the message is one only WaitingLogon/WaitingLogonAnswer can take."
	c.Explanation += " Y6 also: the Logon handler sets or resets no counter before the gap check."
	// Y11 (premises): a valid ResendRequest is seen as valid (C03's integrity rules); the counter store records what it is given
	c.RulePrefix = "Y11"
	integrityRules(c)
	c.RulePrefix = ""
	checkCounterStorePlain(c, "Y6")
	c.Explanation += " Y11 premise: the integrity rules V1–V8 of C03. Y6 also: SetSeqNum stores the number it is given unconditionally (a forward-only counter hides a gap after the peer restarted its numbering)."
	c.RuleMin = map[string]int{"Y1": 1, "Y2": 3, "Y3": 1, "Y4": 4, "Y5": 1, "Y6": 5, "Y7": 3, "Y8": 3, "Y9": 1, "Y10": 18}
	c.MinObl = 8
}

// checkStorageMessages (Y4): loop and error shape of memory.Storage.Messages.
func checkStorageMessages(c *core.Ctx, rule string) {
	fn := c.Func("storages/memory", "Storage.Messages")
	if !c.Anchor("message store range lookup", fn != nil && len(fn.Params) == 4, "memory.Storage.Messages", posOf(fn)) {
		return
	}
	from, to := an.Render(fn.Params[2]), an.Render(fn.Params[3])
	paths, _ := an.EnumPaths(fn, 512)
	var bad []string
	okInv, okBeyond, okMissing := false, false, false
	for _, p := range paths {
		if p.Return == nil || len(p.Results) != 2 {
			continue
		}
		isErr := p.Results[1] != "nil"
		cs := p.CondString()
		if p.Has(to + " < " + from) {
			if isErr && p.Results[0] == "nil" {
				okInv = true
			} else {
				bad = append(bad, "from > to does not return (nil, error)")
			}
			continue
		}
		beyond := false
		for _, a := range p.Atoms {
			if a.Rel == "<" && strings.Contains(a.L, "counterOutgoing") && strings.Contains(a.R, to) {
				beyond = true
			}
		}
		if beyond {
			if isErr && p.Results[0] == "nil" {
				okBeyond = true
			} else {
				bad = append(bad, "a range beyond the last sent number does not return (nil, error)")
			}
			continue
		}
		missing := false
		for _, a := range p.Atoms {
			if a.Rel == "false" && strings.Contains(a.L, ".messages[") {
				missing = true
			}
		}
		if missing {
			if isErr && p.Results[0] == "nil" {
				okMissing = true
			} else {
				bad = append(bad, "a missing entry yields a partial list instead of (nil, error): "+cs)
			}
		}
	}
	// loop shape
	var idx *ssa.Phi
	an.AllInstrs(fn, func(in ssa.Instruction) {
		if phi, ok := in.(*ssa.Phi); ok && len(phi.Edges) == 2 && phi.Edges[0] == ssa.Value(fn.Params[2]) {
			if b, ok := phi.Edges[1].(*ssa.BinOp); ok && b.Op == token.ADD && b.X == ssa.Value(phi) {
				if k, ok := an.ConstInt(b.Y); ok && k == 1 {
					idx = phi
				}
			}
		}
	})
	okLoop, okAppend := false, false
	if idx != nil {
		for _, ref := range *idx.Referrers() {
			if b, ok := ref.(*ssa.BinOp); ok && b.Op == token.LEQ && b.X == ssa.Value(idx) && b.Y == ssa.Value(fn.Params[3]) {
				for _, r2 := range *b.Referrers() {
					if iff, ok := r2.(*ssa.If); ok && iff.Block() == idx.Block() {
						okLoop = true
					}
				}
			}
		}
		an.AllInstrs(fn, func(in ssa.Instruction) {
			if call, ok := in.(*ssa.Call); ok {
				if b, ok := call.Call.Value.(*ssa.Builtin); ok && b.Name() == "append" {
					if elems, ok := an.SliceElems(call.Call.Args[1]); ok && len(elems) == 1 {
						el := elems[0]
						if ex, ok := el.(*ssa.Extract); ok && ex.Index == 0 {
							el = ex.Tuple // msg, ok := messages[i]
						}
						if lk, ok := el.(*ssa.Lookup); ok && lk.Index == ssa.Value(idx) {
							if f, _ := an.LoadedField(lk.X); f != nil && an.FieldName(f) == "messages" {
								okAppend = true
							}
						}
					}
				}
			}
		})
	}
	ob := c.Ob(rule, "Storage.Messages", "errors for from>to / beyond last sent / missing entry; never a partial list", fn.Pos())
	if len(bad) > 0 {
		ob.Fail("%s", bad[0])
	} else if !okInv || !okBeyond || !okMissing {
		ob.Fail("error cases found: inverted=%v beyond=%v missing=%v (need all three)", okInv, okBeyond, okMissing)
	} else {
		ob.Ok("three error cases return (nil, error)")
	}
	c.Check(idx != nil && okLoop && okAppend, rule, "Storage.Messages", "loop i = from; i <= to; i++ appends messages[i]", fn.Pos(),
		"index starts at from, runs while i <= to, step 1, appends messages[i]", "the retrieval loop is not the inclusive ascending range from..to over messages[i]")
	// under the store's mutex: C20
}

// checkSaveHandler (C10.Y1, C19.H3): the all-types outgoing handler registered at construction saves every message under its own number.
func (s *sess) checkSaveHandler(rule string) {
	outs := s.handlers(false, "ALL", "setStorageCallbacks")
	if s.c.Anchor("save-on-send handler", len(outs) == 1 && outs[0].Fn != nil, "outgoing ALL handler registered in setStorageCallbacks", token.NoPos) {
		fn := outs[0].Fn
		var bad []string
		nSave := 0
		paths, _ := an.EnumPathsX(fn, 64)
		for _, p := range paths {
			var save *ssa.Call
			for _, in := range p.InstrSeq() {
				if call, ok := in.(*ssa.Call); ok && call.Call.IsInvoke() && call.Call.Method.Name() == "Save" && an.TypeIs(call.Call.Value.Type(), "session", "MessageStorage") {
					save = call
				}
			}
			if save == nil {
				bad = append(bad, "a path does not save the message: "+p.CondString())
				continue
			}
			nSave++
			if an.ResolveOnPath(save.Call.Args[1], p) != ssa.Value(an.HandlerArg(fn)) {
				bad = append(bad, "the value saved is not the message being sent: "+an.RenderOnPath(save.Call.Args[1], p))
			}
			if r := an.RenderOnPath(save.Call.Args[2], p); r != an.Render(an.HandlerArg(fn))+".HeaderBuilder().MsgSeqNum()" {
				bad = append(bad, "the message is saved under "+r+", not under its own MsgSeqNum")
			}
			if sd := storageSide(save.Call.Args[0]); sd != "outgoing" {
				bad = append(bad, "saved on side "+sd)
			}
			if len(p.Results) != 1 || p.Results[0] != "("+an.RenderOnPath(save, p)+" == nil)" {
				bad = append(bad, "the handler does not return (Save error == nil): "+strings.Join(p.Results, ","))
			}
		}
		ob := s.c.Ob(rule, "outbound:ALL@setStorageCallbacks", "Save(outgoing, msg, msg's own MsgSeqNum); returns err == nil", fn.Pos())
		if len(bad) > 0 || nSave == 0 {
			ob.Fail("%s", strings.Join(append(bad, ""), "; "))
		} else {
			ob.Ok("%d path(s)", nSave)
		}
	}
}

// checkBatchDelivery (Y8).
func checkBatchDelivery(c *core.Ctx, rule string) {
	sb, hsend, hraw := c.Func("", "DefaultHandler.SendBatch"), c.Func("", "DefaultHandler.send"), c.Func("", "DefaultHandler.sendRaw")
	if !c.Anchor("batch send chain", sb != nil && hsend != nil && hraw != nil && len(sb.Params) == 2, "DefaultHandler.SendBatch, send, sendRaw", posOf(sb)) {
		return
	}
	// SendBatch: for i, m := range messages { send(m) } over the parameter itself
	var call *ssa.Call
	an.AllInstrs(sb, func(in ssa.Instruction) {
		if cl, ok := in.(*ssa.Call); ok && an.StaticCallee(&cl.Call) == hsend {
			call = cl
		}
	})
	ob := c.Ob(rule, "DefaultHandler.SendBatch", "hands every element of its argument, in order, to send", sb.Pos())
	switch {
	case call == nil:
		ob.Fail("SendBatch does not call DefaultHandler.send directly")
	case !inLoop(call.Block()):
		ob.Fail("the call of send is not in a loop")
	default:
		ia, ok := unload(call.Call.Args[1]).(*ssa.IndexAddr)
		if !ok || ia.X != ssa.Value(sb.Params[1]) || rangeIndexPhi(ia.Index) == nil {
			ob.Fail("send is given %s, not the elements of the batch in ascending order from the first", an.Render(call.Call.Args[1]))
		} else {
			// the loop runs to len(messages)
			bound := false
			phi := rangeIndexPhi(ia.Index)
			for _, v := range []ssa.Value{phi, ia.Index} {
				if v == nil || v.Referrers() == nil {
					continue
				}
				for _, ref := range *v.Referrers() {
					if bo, ok := ref.(*ssa.BinOp); ok && bo.Op == token.LSS && an.Render(bo.Y) == "len("+an.Render(sb.Params[1])+")" {
						bound = true
					}
				}
			}
			if bound {
				ob.Ok("range over the whole batch")
			} else {
				ob.Fail("the loop does not run to len(%s)", an.Render(sb.Params[1]))
			}
		}
	}
	c.Check(callsDirect(hsend, hraw), rule, "DefaultHandler.send", "enqueues through a direct call of sendRaw", hsend.Pos(), "sendRaw(data)", "send does not call sendRaw directly: the batch path may use a different (lossy) way to enqueue")
	// sendRaw: the only wait is one blocking select {out <- data; <-ctx.Done()}
	nSel, okSel := 0, false
	an.AllInstrs(hraw, func(in ssa.Instruction) {
		sel, ok := in.(*ssa.Select)
		if !ok {
			return
		}
		nSel++
		if !sel.Blocking {
			return
		}
		sends, dones := 0, 0
		for _, st := range sel.States {
			if st.Dir == 1 && st.Send == ssa.Value(hraw.Params[1]) {
				if f, _ := an.LoadedField(st.Chan); f != nil && an.FieldName(f) == "out" {
					sends++
				}
			}
			if st.Dir == 2 && doneContext(st.Chan) != "" {
				dones++
			}
		}
		okSel = sends == 1 && dones == len(sel.States)-1
	})
	plainSend := false
	an.AllInstrs(hraw, func(in ssa.Instruction) {
		if snd, ok := in.(*ssa.Send); ok && snd.X == ssa.Value(hraw.Params[1]) {
			plainSend = true
		}
	})
	c.Check((nSel == 1 && okSel) || (nSel == 0 && plainSend), rule, "DefaultHandler.sendRaw", "waits for room in the outgoing queue (or for the handler to stop); never drops", hraw.Pos(), "blocking select {out <- data; <-ctx.Done()}",
		"sendRaw's enqueue is not a blocking send on the out channel guarded only by context cancellation: with a default branch or a timeout a full queue drops part of a retransmission")
}
