package props

import (
	"fmt"
	"go/token"
	"strings"

	"golang.org/x/tools/go/ssa"

	"sfcheck/an"
	"sfcheck/core"
)

func init() {
	register(&Check{ID: "C16", NeedSSA: true, Run: runC16})
	register(&Check{ID: "C14", NeedSSA: true, Run: runC14})
}

var adminKinds = []string{"Logon", "Logout", "Heartbeat", "TestRequest", "ResendRequest"}

// checkParseFirst: rule J1 for one handler; returns the unmarshalled value (builder) or nil.
func (s *sess) checkParseFirst(rule, kind string, fn *ssa.Function, traces []*an.Trace) ssa.Value {
	c := s.c
	hn := "inbound:" + kind
	var target ssa.Value
	okFirst, okData, okFresh := true, true, true
	why := ""
	for _, t := range traces {
		// first event that is not bookkeeping must be the unmarshal
		var first *an.Event
		for i := range t.Events {
			k := t.Events[i].Kind
			if k == "enter" || k == "guard" {
				continue
			}
			first = &t.Events[i]
			break
		}
		if first == nil || first.Kind != "unmarshal" {
			okFirst = false
			if first != nil {
				why = "first event is " + first.String()
			}
			continue
		}
		if len(first.Args) == 2 {
			if p, ok := first.Args[1].(*ssa.Parameter); !ok || p != an.HandlerArg(fn) {
				okData = false
			}
			tv := an.Unwrap(first.Args[0])
			target = tv
			call, ok := tv.(*ssa.Call)
			if !ok || !call.Call.IsInvoke() || (call.Call.Method.Name() != "New" && call.Call.Method.Name() != "Build") || s.m.MsgTypeKeyOfBuilder(call.Call.Value) != kind {
				okFresh = false
			}
		}
	}
	c.Check(okFirst && len(traces) > 0, rule, hn, "unmarshal is the first event on every path", fn.Pos(),
		"every path starts by parsing the handler's input", "a path does something before (or without) parsing the input: "+why)
	c.Check(okData, rule, hn, "unmarshal parses the handler's own input", fn.Pos(), "the data argument is the handler's parameter", "the bytes parsed are not the handler's parameter")
	c.Check(okFresh, rule, hn, "unmarshal target is a fresh builder of the handler's own message type", fn.Pos(),
		"target is "+kind+"Builder.New()/Build()", "the target of Unmarshal is not a fresh "+kind+" builder")
	return target
}

// checkRejectOnly verifies that a refusal path contains exactly one Reject send and nothing else observable.
func (s *sess) refusalProblems(t *an.Trace, allowStateToNonLogged bool) []string {
	var probs []string
	sl := s.m.StateVals["SuccessfulLogged"]
	nRej := 0
	for _, e := range t.Events {
		switch e.Kind {
		case "send":
			if isRejectSend(e) {
				nRej++
			} else {
				probs = append(probs, "sends "+strings.Join(e.Kinds, "|"))
			}
		case "state":
			if !allowStateToNonLogged {
				probs = append(probs, "changes the state to "+e.Name)
			} else if e.To == sl || e.To < 0 {
				probs = append(probs, "changes the state to "+e.Name)
			}
		case "cancel":
			probs = append(probs, "stops the session ("+e.Name+")")
		case "setfield":
			if e.Name == "LogonSettings" {
				probs = append(probs, "replaces the session's settings (identifiers, heartbeat interval, credentials of the established session)")
			}
		case "spawn":
			probs = append(probs, "spawns a goroutine")
		case "store":
			if e.Name == "ResetSeqNum" || e.Name == "SetSeqNum" {
				probs = append(probs, "resets or sets a sequence counter ("+e.Name+"): a refused message disturbs the numbering of the session")
			}
		case "clean":
			probs = append(probs, "clears the event handlers")
		case "panic":
			probs = append(probs, "panics")
		}
	}
	if nRej != 1 {
		probs = append(probs, fmt.Sprintf("%d Reject sends (need exactly one)", nRej))
	}
	if !returnsTrue(t) {
		probs = append(probs, "handler does not return true (dispatch of later handlers/messages would stop)")
	}
	return probs
}

// checkParseErrorPaths (C16.J1, C07.G4, C06.T3): on every path of an administrative handler on which Unmarshal failed there is
// exactly one Reject, built from the raw bytes, no state change, no cancellation, no settings change, nothing started, and the
// handler is done. (A damaged Logon that is rejected and then processed all the same logs the session on.)
func (s *sess) checkParseErrorPaths(rule, kind string, fn *ssa.Function, traces []*an.Trace) {
	c := s.c
	hn := "inbound:" + kind
	// J1: parse-error paths
	var bad []string
	nFail := 0
	for _, t := range traces {
		oc, _ := unmarshalOutcome(t)
		if oc != "fail" {
			if oc == "" {
				bad = append(bad, "the result of Unmarshal is not tested on path: "+traceStr(t))
			}
			continue
		}
		nFail++
		if pr := s.refusalProblems(t, false); len(pr) > 0 {
			bad = append(bad, strings.Join(pr, "; ")+" on path: "+traceStr(t))
		}
		if countCalls(t, "ValueByTag") == 0 {
			bad = append(bad, "the Reject for a damaged message is not built from the raw bytes (no ValueByTag lookup) on path: "+traceStr(t))
		}
	}
	ob := c.Ob(rule, hn, "parse-error paths reject once and change nothing", fn.Pos())
	if nFail == 0 {
		ob.Fail("no path handles an Unmarshal error")
	} else if len(bad) > 0 {
		ob.Fail("%s", bad[0])
	} else {
		ob.Ok("%d parse-error path(s): exactly one raw-bytes Reject, no state change, no cancel, returns true", nFail)
	}
}

func runC16(c *core.Ctx, o Options) {
	c.Explanation = "For each of the five administrative inbound handlers of package session, all acyclic SSA paths (RejectMessage, processIncSeq … spliced in) are enumerated and classified " +
		"by the outcome of the Unmarshal call and by what the first read of Session.state is known to have returned. Rule J1: parsing is the first event, of the handler's own input, into a fresh builder; the parse-error path " +
		"contains exactly one Reject send (built from the raw bytes), no state change, no cancellation, and returns true. Rule J2: the not-permitted paths (Heartbeat/TestRequest/ResendRequest when not logged on; " +
		"Logout outside {SuccessfulLogged, WaitingLogoutAnswer}; Logon in SuccessfulLogged) contain exactly one Reject and leave logged-on-ness unchanged; every parse-ok path of Heartbeat/TestRequest/ResendRequest is " +
		"behind a logged-on test. Rule J4: the value parsers return their parser's error for every non-nil input (so an unparsable field fails Unmarshal) and ValueByTag's needles are anchored. Rule J3: the raw-bytes reject takes RefSeqNum from the MsgSeqNum tag of the offending bytes, or names that tag when the number is missing or not numeric, and sends once on each of its paths. " +
		"Decides the structure for all inputs and states; does not decide that later valid messages are processed normally beyond absence of state change and cancellation."
	s := newSess(c)
	if s == nil {
		return
	}
	sl := s.m.Set("SuccessfulLogged")
	nPaths := 0
	for _, kind := range adminKinds {
		fn := s.one(true, kind)
		if fn == nil {
			continue
		}
		hn := "inbound:" + kind
		traces := s.tr.Traces(fn, s.m.AllStates)
		nPaths += len(traces)
		s.checkParseFirst("J1", kind, fn, traces)
		s.checkParseErrorPaths("J1", kind, fn, traces)
		var bad []string
		// J2
		var permitted an.StateSet
		switch kind {
		case "Heartbeat", "TestRequest", "ResendRequest":
			permitted = sl
		case "Logout":
			permitted = s.m.Set("SuccessfulLogged", "WaitingLogoutAnswer")
		case "Logon":
			permitted = s.m.AllStates &^ sl
		}
		bad = nil
		nNP, nUnguarded := 0, 0
		for _, t := range traces {
			oc, _ := unmarshalOutcome(t)
			if oc != "ok" {
				continue
			}
			read, has := s.entryRead(t)
			if !has {
				nUnguarded++
				if kind != "Logon" && kind != "Logout" {
					bad = append(bad, "parse-ok path without any test of the session state: "+traceStr(t))
				}
				continue
			}
			if read&permitted != 0 && !(kind == "Logon" && read&sl != 0) { // a Logon path that SuccessfulLogged can take must reject, whatever else can take it
				if read&^permitted != 0 && kind != "Logon" {
					// the path does not separate permitted from not-permitted states
					bad = append(bad, fmt.Sprintf("path taken both in permitted and not-permitted states %s: %s", s.m.SetString(read), traceStr(t)))
				}
				continue
			}
			nNP++
			allowState := kind == "Logout" // the Logout handler re-arms the waiting state; it must not enter SuccessfulLogged
			if pr := s.refusalProblems(t, allowState); len(pr) > 0 {
				bad = append(bad, fmt.Sprintf("state %s: %s on path: %s", s.m.SetString(read), strings.Join(pr, "; "), traceStr(t)))
			} else if countCalls(t, "ValueByTag") == 0 {
				bad = append(bad, fmt.Sprintf("state %s: the Reject is not built from the raw bytes (no ValueByTag lookup of MsgSeqNum): when the sequence number is missing or not numeric the Reject carries RefSeqNum=0 instead of naming the tag; path: %s", s.m.SetString(read), traceStr(t)))
			}
		}
		ob := c.Ob("J2", hn, "not-permitted-in-this-state paths reject once and keep logged-on-ness", fn.Pos())
		switch {
		case len(bad) > 0:
			ob.Fail("%s", bad[0])
			if len(bad) > 1 {
				ob.Fact("%d more offending paths", len(bad)-1)
			}
		case nNP == 0:
			ob.Fail("no path for the not-permitted states %s: such a message would be processed or ignored, not rejected", s.m.SetString(s.m.AllStates&^permitted))
		default:
			ob.Ok("%d not-permitted path(s) (states outside %s): one Reject each, logged-on-ness unchanged, no cancel", nNP, s.m.SetString(permitted))
		}
	}
	// J3: the raw-bytes reject
	rm := s.m.Method("RejectMessage")
	if c.Anchor("raw-bytes reject", rm != nil, "(*Session).RejectMessage", posOf(rm)) {
		traces := s.tr.Traces(rm, s.m.AllStates)
		nPaths += len(traces)
		var bad []string
		seenOK, seenLookupFail, seenParseFail := false, false, false
		for _, t := range traces {
			snd := sends(t)
			if len(snd) != 1 || !isRejectSend(snd[0]) {
				bad = append(bad, fmt.Sprintf("%d sends on path %s", len(snd), traceStr(t)))
				continue
			}
			var lookup *an.Event
			for i, e := range t.Events {
				if e.Kind == "call" && strings.HasSuffix(e.Name, "fix.ValueByTag") {
					lookup = &t.Events[i]
					break
				}
			}
			if lookup == nil {
				bad = append(bad, "no ValueByTag lookup on path "+traceStr(t))
				continue
			}
			// lookup arguments: (msg parameter, Itoa(Tags.MsgSeqNum))
			if len(lookup.Args) == 2 {
				if p, ok := lookup.Args[0].(*ssa.Parameter); !ok || p != rm.Params[1] {
					bad = append(bad, "ValueByTag does not search the offending message: "+lookup.R(lookup.Args[0]))
				}
				if r := lookup.R(lookup.Args[1]); r != "strconv.Itoa(s.Opts.Tags.MsgSeqNum)" && r != "strconv.Itoa(s.Tags.MsgSeqNum)" {
					bad = append(bad, "ValueByTag is not asked for the MsgSeqNum tag but for "+r)
				}
			}
			sets := eventsOf(t, "set")
			var refSeq, refTag *an.Event
			for i, e := range sets {
				if e.Name == "SetFieldRefSeqNum" {
					refSeq = &sets[i]
				}
				if e.Name == "SetFieldRefTagID" {
					refTag = &sets[i]
				}
			}
			switch {
			case lookup.Outcome == "fail":
				seenLookupFail = true
				if refTag == nil || !strings.HasSuffix(refTag.R(refTag.Args[1]), "Tags.MsgSeqNum") {
					bad = append(bad, "missing sequence number: RefTagID is not set to the MsgSeqNum tag on path "+traceStr(t))
				}
				if refSeq != nil {
					bad = append(bad, "missing sequence number but RefSeqNum is set on path "+traceStr(t))
				}
			case refSeq != nil:
				seenOK = true
				r := refSeq.R(refSeq.Args[1])
				if !strings.HasPrefix(r, "strconv.Atoi(string(fix.ValueByTag(") || !strings.HasSuffix(r, "#0") {
					bad = append(bad, "RefSeqNum operand is not the integer parsed from the looked-up value: "+r)
				}
			default:
				seenParseFail = true
				if refTag == nil || !strings.HasSuffix(refTag.R(refTag.Args[1]), "Tags.MsgSeqNum") {
					bad = append(bad, "non-numeric sequence number: RefTagID is not set to the MsgSeqNum tag on path "+traceStr(t))
				}
			}
			// the reject that is sent is the one the setters were applied to
			if len(snd[0].Args) >= 2 {
				sent := an.Unwrap(snd[0].Args[1])
				for _, e := range sets {
					if chainRoot(e.Args[0]) != chainRoot(sent) {
						bad = append(bad, "a field is set on a different message than the one sent on path "+traceStr(t))
					}
				}
			}
		}
		ob := c.Ob("J3", "RejectMessage", "one Reject per path; RefSeqNum from the raw MsgSeqNum, else RefTagID names it", rm.Pos())
		switch {
		case len(bad) > 0:
			ob.Fail("%s", bad[0])
		case !seenOK || !seenLookupFail || !seenParseFail:
			ob.Fail("expected three cases (number found / tag missing / not numeric), found ok=%v missing=%v non-numeric=%v", seenOK, seenLookupFail, seenParseFail)
		default:
			ob.Ok("%d paths: found → RefSeqNum=Atoi(ValueByTag(msg, MsgSeqNum tag)); missing or non-numeric → RefTagID=MsgSeqNum tag", len(traces))
		}
		// MakeReject puts its seqNum argument into RefSeqNum and its tag into RefTagID
		s.checkMakeReject("J3")
	}
	// J4: what the rejects rely on — unparsable numeric fields make Unmarshal fail, and the raw lookup recognises tag 34 only at a field boundary
	checkCodecs(c, "J4", map[string]bool{"frombytes": true, "tobytes": true, "isnull": true})
	// J2 premise: an administrative message reaches the handler of its type (which rejects it) whatever the all-types handlers returned
	checkInboundDispatch(c, "J2")
	for _, k := range adminKinds {
		s.checkRegisteredOnce("J1", true, k)
	}
	// J4: an unparsable field anywhere in the message — header and trailer components included — fails Unmarshal
	checkItemLoops(c, "J4")
	if vbt := c.Func("fix", "ValueByTag"); vbt != nil {
		n := needleCensus(c, "J4", []*ssa.Function{vbt})
		c.Check(n >= 2, "J4", "ValueByTag", "anchored lookups found", vbt.Pos(), fmt.Sprint(n), "ValueByTag no longer searches with anchored needles")
	}
	c.Extra["paths"] = nPaths
	// J2 (premise): the all-types incoming handler takes any inbound message — a damaged one too — for the answer to a pending probe
	// and restores SuccessfulLogged from WaitingTestReqAnswer. That leaves logged-on-ness unchanged only because the probe state is
	// entered from SuccessfulLogged alone: every path that sets WaitingTestReqAnswer has read the state as SuccessfulLogged.
	{
		WT := s.m.StateVals["WaitingTestReqAnswer"]
		nSet, bad := 0, ""
		var where token.Pos
		for _, r := range s.roots() {
			for _, t := range s.tr.Traces(r.Fn, s.m.AllStates) {
				for _, e := range t.Events {
					if e.Kind != "state" || e.To != WT {
						continue
					}
					nSet++
					read, has := s.guardSet(t)
					if !has || read != sl {
						bad = fmt.Sprintf("%s enters WaitingTestReqAnswer with the state read as %s: from there the next inbound message of any kind, valid or not, makes the session logged on", r.Name(), s.m.SetString(read))
						where = e.Pos
					}
				}
			}
		}
		c.Check(bad == "" && nSet > 0, "J2", "WaitingTestReqAnswer", "the probe state is entered only from SuccessfulLogged", where, fmt.Sprintf("%d site(s)", nSet), bad)
	}
	// J1 (exactly one): the all-types handlers in front of the administrative handlers neither answer nor stop the dispatch
	s.checkAllTypesHandlersPassive("J1")
	// J5 (premise): "rejected" for a damaged message means the integrity check sees the damage — the rules of C03 (both checks
	// guard acceptance, mirror arithmetic on the bytes as received, exact parsing of the declared values) hold
	c.RulePrefix = "J5"
	integrityRules(c)
	c.RulePrefix = ""
	// J6 (premise): "valid messages that follow are processed normally" — the damaged message ends where its CheckSum field starts,
	// whatever that field's value looks like: the framing rules of the connection reader (C04.F1–F3) hold
	c.RulePrefix = "J6"
	framingRules(c, libFuncs(c))
	c.RulePrefix = ""
	c.Explanation += " J6 premise (= C04.F1–F3): the connection reader frames on a start-anchored \"10=\" segment and nothing else, so a damaged message does not swallow the valid one behind it. J4 also covers the formatters (the Reject's RefSeqNum is written by Int.ToBytes)."
	c.Explanation += " J2 premise: every path that sets WaitingTestReqAnswer has read the state as SuccessfulLogged (the all-types handler takes any inbound message, damaged ones too, for the answer to the probe). J5 premise: the rules V1–V6 of C03 hold (a damaged message is rejected only if the integrity check sees the damage)."
	// J7 (premises): the length arithmetic of the integrity check measures the fields as received (KeyValue.ToBytes emits a populated
	// field whatever its value); the counter store never refuses a number (a refusal stops the all-types chain)
	checkLeafProducers(c, "J7")
	checkCounterStorePlain(c, "J1")
	c.Explanation += " J7 premise: the leaf producers of C17.S (KeyValue.ToBytes). J1 also: SetSeqNum returns nil on every path."
	c.RuleMin = map[string]int{"J1": 20, "J2": 5, "J3": 2, "J4": 14, "J5": 12, "J6": 8}
	c.MinObl = 5*5 + 2
}

// chainRoot follows fluent setter calls back to the value they were first applied to.
func chainRoot(v ssa.Value) ssa.Value {
	for i := 0; i < 16; i++ {
		v = an.Unwrap(v)
		call, ok := v.(*ssa.Call)
		if !ok || !call.Call.IsInvoke() || !strings.HasPrefix(call.Call.Method.Name(), "SetField") {
			return v
		}
		v = call.Call.Value
	}
	return v
}

func countCalls(t *an.Trace, suffix string) int {
	n := 0
	for _, e := range t.Events {
		if e.Kind == "call" && strings.HasSuffix(e.Name, suffix) {
			n++
		}
	}
	return n
}

// checkMakeReject: MakeReject builds from RejectBuilder.Build(), RefSeqNum ← seqNum param, reason ← Itoa(reasonCode), RefTagID ← tag iff tag != 0.
func (s *sess) checkMakeReject(rule string) {
	c := s.c
	mr := s.m.Method("MakeReject")
	if !c.Anchor("reject constructor", mr != nil, "(*Session).MakeReject", posOf(mr)) {
		return
	}
	traces := s.tr.Traces(mr, s.m.AllStates)
	var bad []string
	sawTag, sawNoTag := false, false
	for _, t := range traces {
		var ret ssa.Value
		for _, e := range t.Events {
			if e.Kind == "return" && e.Depth == 0 && len(e.Args) == 1 {
				ret = e.Args[0]
			}
		}
		sets := eventsOf(t, "set")
		hasSeq, hasTag := false, false
		for _, e := range sets {
			switch e.Name {
			case "SetFieldRefSeqNum":
				hasSeq = true
				if p, ok := e.Args[1].(*ssa.Parameter); !ok || an.Render(p) != "seqNum" {
					bad = append(bad, "RefSeqNum operand is "+e.R(e.Args[1])+", not the seqNum parameter")
				}
			case "SetFieldRefTagID":
				hasTag = true
				if p, ok := e.Args[1].(*ssa.Parameter); !ok || an.Render(p) != "tag" {
					bad = append(bad, "RefTagID operand is "+e.R(e.Args[1])+", not the tag parameter")
				}
			case "SetFieldSessionRejectReason":
				if r := e.R(e.Args[1]); r != "strconv.Itoa(reasonCode)" && r != "strconv.FormatInt(int64(reasonCode), 10)" {
					bad = append(bad, "SessionRejectReason operand is "+r)
				}
			}
			if ret != nil && chainRoot(e.Args[0]) != chainRoot(ret) {
				bad = append(bad, "a setter is applied to a message other than the one returned")
			}
		}
		if !hasSeq {
			bad = append(bad, "RefSeqNum is not set on path "+traceStr(t))
		}
		if hasTag {
			sawTag = true
		} else {
			sawNoTag = true
		}
		if ret != nil {
			root := chainRoot(ret)
			call, ok := root.(*ssa.Call)
			if !ok || !call.Call.IsInvoke() || s.m.MsgTypeKeyOfBuilder(call.Call.Value) != "Reject" {
				bad = append(bad, "the returned message does not come from RejectBuilder.Build(): "+an.Render(root))
			}
		}
	}
	ob := c.Ob(rule, "MakeReject", "RefSeqNum←seqNum, RefTagID←tag when non-zero, from RejectBuilder", mr.Pos())
	if len(bad) > 0 {
		ob.Fail("%s", bad[0])
	} else if !sawTag || !sawNoTag {
		ob.Fail("expected one path that sets RefTagID and one that does not (tag == 0)")
	} else {
		ob.Ok("%d paths", len(traces))
	}
}

func runC14(c *core.Ctx, o Options) {
	c.Explanation = "TestRequest handler of package session, all acyclic SSA paths: rule Q0 — exactly one handler is registered for TestRequest, by a function that runs once per session (not in a loop, not reachable from any handler, event callback, timer callback or goroutine: the pool only appends, so a second registration would answer twice), and it parses the message first; rule Q1 — every path with Unmarshal ok and the logged-on test true contains exactly one send, of kind Heartbeat, " +
		"no state change and no cancellation; Q2 — the operand of SetFieldTestReqID on the message that is sent is TestReqID() of the very builder the handler unmarshalled its input into; " +
		"Q3 — the reply is sent synchronously in the dispatch goroutine (no go statement on the path, C04.F5 shows dispatch is sequential), hence before any later inbound message is handled; " +
		"Q4 — byte identity of the ID rests on the String value codec being the identity conversion in both directions (checked on fix.String) and on the decoder handing FromBytes exactly the bytes between the matched 'tag=' and the next delimiter (checked on scanKeyValue). " +
		"Not decided: content-dependent mis-location of field 112 by substring search (C18 decides anchoring only)."
	s := newSess(c)
	if s == nil {
		return
	}
	fn := s.one(true, "TestRequest")
	if fn == nil {
		return
	}
	hn := "inbound:TestRequest"
	s.checkRegisteredOnce("Q0", true, "TestRequest")
	checkUnboundedFieldRead(c, "Q4")
	// Q4: the decoder looks for '=' only as part of an anchored tag needle and for the group separator — a value may contain '='
	if enc := c.SSAPkg("fix/encoding"); enc != nil {
		needleCensus(c, "Q4", pkgFuncs(enc))
	}
	// Q0: the TestRequest reaches its handler whatever the all-types handlers returned, and the handler stays registered
	checkInboundDispatch(c, "Q0")
	checkPoolGrowOnly(c, "Q0")
	traces := s.tr.Traces(fn, s.m.AllStates)
	target := s.checkParseFirst("Q0", "TestRequest", fn, traces)
	sl := s.m.Set("SuccessfulLogged")
	var bad, badOp, badSync []string
	n := 0
	for _, t := range traces {
		oc, _ := unmarshalOutcome(t)
		if oc != "ok" {
			continue
		}
		read, has := s.entryRead(t)
		if has && read&sl == 0 {
			continue // not logged on: C16
		}
		n++
		snd := sends(t)
		if len(snd) != 1 || len(snd[0].Kinds) != 1 || snd[0].Kinds[0] != "Heartbeat" {
			var ks []string
			for _, e := range snd {
				ks = append(ks, strings.Join(e.Kinds, "|"))
			}
			bad = append(bad, fmt.Sprintf("sends [%s] (need exactly one Heartbeat) on path: %s", strings.Join(ks, ", "), traceStr(t)))
			continue
		}
		for _, e := range t.Events {
			if e.Kind == "state" || e.Kind == "cancel" {
				bad = append(bad, e.String()+" on the reply path: "+traceStr(t))
			}
			if e.Kind == "spawn" {
				badSync = append(badSync, "the path spawns a goroutine: "+traceStr(t))
			}
		}
		// operand
		sent := an.Unwrap(snd[0].Args[1])
		var setID *an.Event
		sets := eventsOf(t, "set")
		for i, e := range sets {
			if e.Name == "SetFieldTestReqID" && chainRoot(e.Args[0]) == chainRoot(sent) {
				setID = &sets[i]
			}
		}
		if setID == nil {
			badOp = append(badOp, "TestReqID is not set on the Heartbeat that is sent")
			continue
		}
		call, ok := setID.Args[1].(*ssa.Call)
		if !ok || !call.Call.IsInvoke() || call.Call.Method.Name() != "TestReqID" || target == nil || an.Unwrap(call.Call.Value) != target {
			badOp = append(badOp, "operand of SetFieldTestReqID is "+setID.R(setID.Args[1])+", not TestReqID() of the parsed request")
		}
		root := chainRoot(sent)
		rc, ok := root.(*ssa.Call)
		if !ok || !rc.Call.IsInvoke() || s.m.MsgTypeKeyOfBuilder(rc.Call.Value) != "Heartbeat" {
			badOp = append(badOp, "the reply is not built from HeartbeatBuilder: "+an.Render(root))
		}
	}
	ob := c.Ob("Q1", hn, "logged-on parse-ok paths send exactly one Heartbeat and nothing else", fn.Pos())
	if n == 0 {
		ob.Fail("no path answers a TestRequest")
	} else if len(bad) > 0 {
		ob.Fail("%s", bad[0])
	} else {
		ob.Ok("%d path(s)", n)
	}
	ob = c.Ob("Q2", hn, "reply carries TestReqID() of the parsed request", fn.Pos())
	if len(badOp) > 0 || n == 0 {
		ob.Fail("%s", strings.Join(append(badOp, ""), " "))
	} else {
		ob.Ok("SetFieldTestReqID(<parsed request>.TestReqID()) on the HeartbeatBuilder.Build() value that is sent")
	}
	ob = c.Ob("Q3", hn, "reply is sent synchronously", fn.Pos())
	if len(badSync) > 0 {
		ob.Fail("%s", badSync[0])
	} else {
		ob.Ok("no go statement on any reply path")
	}
	// Q4: codec identity of fix.String, and accessor pair of TestReqID in the reference package
	checkStringIdentity(c, "Q4")
	checkValueExtraction(c, "Q4")
	// Q5: a TestRequest that arrives while the session's own TestRequest is outstanding is still answered: the all-types
	// handler (which runs first, C19.H4) restores SuccessfulLogged from WaitingTestReqAnswer before the logged-on test
	if hs := s.handlers(true, "ALL", "start"); len(hs) == 1 && hs[0].Fn != nil {
		s.checkRestore("Q5", hs[0].Fn)
	} else {
		c.Ob("Q5", "start", "all-types incoming handler restores the logged-on state", fn.Pos()).Fail("no all-types incoming handler is registered when the timers start: in WaitingTestReqAnswer a TestRequest would be rejected instead of answered")
	}
	// Q5 (premise): the restoring handler is reached — no earlier all-types handler stops the dispatch (other than on a store
	// failure) or answers in the type handler's place
	s.checkAllTypesHandlersPassive("Q5")
	// Q3b: nothing between the handler and the outbound queue runs in another goroutine
	checkSendChainNoSpawn(c, s, "Q3")
	c.Extra["paths"] = len(traces)
	// Q6: the reply that the session queued is taken off the queue by the connection's writer and written — not measured and dropped
	checkNoMessageDropped(c, "Q6")
	// Q6 also on the way in: the TestRequest read from the socket reaches the handler's queue — ServeIncoming never gives up
	checkServeIncomingHandsOver(c, "Q6")
	// Q8 (premise): a TestRequest that is valid is seen as valid — the integrity rules of C03 (the BodyLength region is measured on
	// the bytes received, not on a re-rendered number)
	c.RulePrefix = "Q8"
	integrityRules(c)
	c.RulePrefix = ""
	checkValidatorPresenceOnly(c, "Q8")
	c.Explanation += " Q6 (= C04.F7): the reply the session queued is taken off the queue by the connection's writer and written — no path receives a message from a byte-message channel and lets it go."
	s.checkCallbacksOutsideStateLock("Q3")
	// Q4 (premises): the end-of-message test of the connection reader is start-anchored (a TestReqID containing "10=" does not cut
	// the message), and the value formatters emit a populated value as it is (a blank-only TestReqID is still echoed)
	if rr := c.Func("", "Conn.runReader"); rr != nil {
		needleCensus(c, "Q4", readerScope(c))
	}
	checkCodecs(c, "Q4", map[string]bool{"tobytes": true, "isnull": true, "frombytes": true})
	// Q7 (premise): the reply can be sent at all — no function of the library returns with a mutex it took still locked (the message
	// store's mutex is taken by every send when it saves)
	checkLocksReleased(c, "Q7", libFuncs(c), "the next send — the Heartbeat answering a TestRequest included — blocks for ever")
	c.Explanation += " Q3 also: event subscribers and the logon callback run with no session mutex held. Q4 premises: the reader's end-of-message test is start-anchored; value formatters emit a populated value as it is and value parsers are the exact inverses (a TestRequest with a large MsgSeqNum still decodes). Q7 premise: no function of the library returns with a mutex it took still locked. Q6 also: ServeIncoming hands over with one blocking select {incoming <- msg; <-ctx.Done()}. Q8 premise: the integrity rules V1–V7 of C03. Q5 premise: the all-types handlers in front of the TestRequest handler neither stop the dispatch (except on a store failure) nor answer."
	checkCodecs(c, "Q4", map[string]bool{"set": true, "type:String": true})
	c.RuleMin = map[string]int{"Q0": 8, "Q1": 1, "Q2": 1, "Q3": 7, "Q4": 12, "Q5": 5, "Q6": 6, "Q8": 12, "Q7": 15}
	c.MinObl = 7
}

// checkRegisteredOnce: the single registration of the handler for key is made by a function that runs once per session — a
// top-level function, outside any loop, not reachable through static calls from a registered handler, an event or AfterFunc
// callback or a spawned goroutine (those run once per message / logon / event, and the handler pool only appends).
func (s *sess) checkRegisteredOnce(rule string, in bool, key string) {
	c := s.c
	hs := s.handlers(in, key, "")
	if len(hs) != 1 {
		return // reported by the anchor of one()
	}
	r := hs[0]
	reach := map[*ssa.Function]string{}
	var work []*ssa.Function
	for _, rt := range s.roots() {
		switch rt.Cat {
		case "inbound", "outbound", "event", "afterfunc", "goroutine":
			if _, ok := reach[rt.Fn]; !ok {
				reach[rt.Fn] = rt.Cat + ":" + rt.Key
				work = append(work, rt.Fn)
			}
		}
	}
	for len(work) > 0 {
		f := work[0]
		work = work[1:]
		an.AllInstrs(f, func(i2 ssa.Instruction) {
			var next *ssa.Function
			if cc := an.CallOf(i2); cc != nil {
				if cal := an.StaticCallee(cc); cal != nil && cal.Pkg == s.m.Pkg {
					next = cal
				}
			}
			if mc, ok := i2.(*ssa.MakeClosure); ok {
				next, _ = mc.Fn.(*ssa.Function)
			}
			if next != nil {
				if _, ok := reach[next]; !ok {
					reach[next] = reach[f]
					work = append(work, next)
				}
			}
		})
	}
	ob := c.Ob(rule, an.NameOf(r.Parent), "the "+key+" handler is registered once per session", r.Site.Pos())
	switch {
	case r.Parent.Parent() != nil:
		ob.Fail("the handler is registered inside the function literal %s: it is added again each time that literal runs, and each copy answers", an.NameOf(r.Parent))
	case inLoop(r.Site.Block()) || chainInLoop(r.Chain):
		ob.Fail("the handler is registered inside a loop")
	case reach[r.Where] != "":
		ob.Fail("the handler is registered in %s, which is reached from %s: it is added again on every such call (the pool only appends), so one message is then handled — and answered — several times", an.NameOf(r.Where), reach[r.Where])
	case reach[r.Parent] != "":
		ob.Fail("the handler is registered in %s, which is reached from %s: it is added again on every such call (the pool only appends), so one message is then handled — and answered — several times", an.NameOf(r.Parent), reach[r.Parent])
	default:
		ob.Ok("registered in %s, which no handler, callback or goroutine calls", an.NameOf(r.Parent))
	}
	// … and on every successful way through that function: a role (or a configuration) for which the registration is
	// skipped never handles the message type
	paths, _ := an.EnumPathsX(r.Parent, 4096)
	skipped := ""
	n := 0
	for _, p := range paths {
		if p.Return == nil || p.Passes(r.Site) {
			continue
		}
		// failure exits: the result is an error that the path has tested non-nil, or a freshly built error
		failure := false
		if len(p.Results) > 0 {
			last := p.Results[len(p.Results)-1]
			for _, a := range p.Atoms {
				if a.Rel == "!=" && a.R == "nil" && a.L == last {
					failure = true
				}
			}
			if strings.HasPrefix(last, "fmt.Errorf(") || strings.HasPrefix(last, "errors.New(") || strings.HasPrefix(last, "Err") {
				failure = true
			}
		}
		if !failure {
			n++
			skipped = p.CondString()
		}
	}
	c.Check(n == 0, rule, an.NameOf(r.Parent), "the "+key+" handler is registered on every successful path of "+an.NameOf(r.Parent), r.Site.Pos(), "no success path bypasses the registration",
		fmt.Sprintf("%d successful path(s) of %s return without registering the %s handler (e.g. under [%s]): a session configured that way never handles that message type", n, an.NameOf(r.Parent), key, skipped))
}

func chainInLoop(chain []*ssa.Call) bool {
	for _, c := range chain {
		if inLoop(c.Block()) {
			return true
		}
	}
	return false
}

// checkUnboundedFieldRead: the connection reader takes fields off the stream with bufio.Reader.ReadBytes, the one bufio primitive
// that returns a whole field of any length in memory of its own (ReadSlice/ReadLine fail or truncate beyond the buffer size and
// alias the buffer; Peek/Read return fragments). A necessary condition for "any length" of a field value such as TestReqID.
func checkUnboundedFieldRead(c *core.Ctx, rule string) {
	rr := c.Func("", "Conn.runReader")
	if !c.Anchor("connection reader", rr != nil, "(*Conn).runReader", posOf(rr)) {
		return
	}
	n := 0
	for _, fn := range an.WithAnon(rr) {
		an.AllInstrs(fn, func(in ssa.Instruction) {
			cc := an.CallOf(in)
			if cc == nil {
				return
			}
			cal := an.StaticCallee(cc)
			if cal == nil || cal.Pkg == nil || cal.Pkg.Pkg.Path() != "bufio" || cal.Signature.Recv() == nil || !an.TypeIs(cal.Signature.Recv().Type(), "bufio", "Reader") {
				return
			}
			if strings.HasPrefix(an.NameOf(cal), "Read") || an.NameOf(cal) == "Peek" {
				n++
				c.Check(an.NameOf(cal) == "ReadBytes" || an.NameOf(cal) == "ReadString", rule, an.NameOf(fn), "fields are read whole, whatever their length", in.Pos(), "bufio.Reader.ReadBytes",
					"the stream is read with bufio.Reader."+an.NameOf(cal)+": a field longer than the reader's buffer (4096 bytes by default) fails with ErrBufferFull or arrives in pieces, so a long TestReqID is not echoed")
			}
		})
	}
	c.Check(n >= 1, rule, "Conn.runReader", "read sites found", rr.Pos(), fmt.Sprint(n), "no bufio read in the connection reader (anchor moved)")
}
