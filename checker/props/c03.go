package props

import (
	"fmt"
	"go/types"
	"strings"

	"golang.org/x/tools/go/ssa"

	"sfcheck/an"
	"sfcheck/core"
)

func init() {
	register(&Check{ID: "C03", NeedSSA: true, Run: runC03})
}

func runC03(c *core.Ctx, o Options) {
	integrityRules(c)
	// V6 (premise): the framing values are the wire bytes — KeyValue.FromBytes passes them to the value unmodified
	checkKeyValuePlain(c, "V6")
	c.RuleMin = map[string]int{"V1": 3, "V2": 2, "V3": 1, "V4": 3, "V5": 3, "V6": 4, "V7": 2, "V8": 1}
	c.MinObl = 12
}

const c03Explanation = "V1 (must-pass-through): in DefaultUnmarshaller.Unmarshal every path that populates the target message or returns nil has passed the raw validation with a nil result; a non-nil result is returned unchanged; encoding.Unmarshal delegates to it. " +
	"V2 (two checks): inside the raw validation `return nil` is reached only through the pass edge of declared-length == measured-length and of bytes.Equal(declared checksum bytes, recomputed checksum); a missing or non-numeric BodyLength is an error; every fail edge returns a non-nil error. " +
	"V3 (mode independence): no branch condition of the validation or of Unmarshal depends on the strict parameter / Strict field. V4: the recomputed checksum is a call of the very function the serializer uses (whose shape is checked as in C01.S1). " +
	"V5 (mirror arithmetic): with the serializer's layout as the shape of the input, the measured length len(d) − (len(BeginString field)+1) − (len(BodyLength field)+1) − (len(CheckSum field)+1) is the length of the BodyLength region, and the slice handed to the checksum function has the length of the checksum prefix, len(d) − len(CheckSum field) − 2; the three fields are looked up with the message's own framing tags. " +
	"V7: the framing fields are looked up in the very bytes that are measured and summed — the data given to the field scanner is the validation's argument passed along unmodified (parameter, whole-slice, or a scanner field stored only from such a parameter). " +
	"V8: on the accepting path the CheckSum field found by the (first-occurrence) lookup is compared, with both delimiters, with the end of the input — the field that is measured and compared is the trailer, not a look-alike in front of it. " +
	"V6: the declared values are read exactly — field values are the unmodified bytes up to the next delimiter, and BodyLength/CheckSum are parsed by the strict inverses of their formatters (no trimming or padding tolerance). " +
	"Decides that nothing is accepted unless both checks pass; does NOT decide that every damaged variant fails them (a statement about 256·n neighbours per message: e.g. a NUL byte inserted into the BeginString value changes neither the measured region nor the byte sum)."

// integrityRules are the rules V1–V6 of C03; C16 runs them as a premise (a damaged message is rejected only if the integrity
// check sees the damage).
func integrityRules(c *core.Ctx) {
	if c.RulePrefix == "" {
		c.Explanation = c03Explanation
	}
	integrityBody(c)
}

func integrityBody(c *core.Ctx) {
	um := c.Func("fix/encoding", "DefaultUnmarshaller.Unmarshal")
	vr := c.Func("fix/encoding", "validateRaw")
	ui := c.Func("fix/encoding", "unmarshalItems")
	eu := c.Func("fix/encoding", "Unmarshal")
	if !c.Anchor("decoder", um != nil && vr != nil && ui != nil && eu != nil, "Unmarshal, validateRaw, unmarshalItems", posOf(um)) {
		return
	}
	// ---- V1
	var vcall, icall *ssa.Call
	an.AllInstrs(um, func(in ssa.Instruction) {
		if call, ok := in.(*ssa.Call); ok {
			switch an.StaticCallee(&call.Call) {
			case vr:
				vcall = call
			case ui:
				icall = call
			}
		}
	})
	if c.Anchor("validation and population calls", vcall != nil && icall != nil, "validateRaw(...) and unmarshalItems(...) in Unmarshal", um.Pos()) {
		paths, _ := an.EnumPaths(um, 256)
		pass := an.Render(vcall) + " == nil"
		var bad []string
		nOK := 0
		for _, p := range paths {
			if p.Return == nil {
				continue
			}
			if p.Passes(icall) && !p.Has(pass) {
				bad = append(bad, "the message is populated on a path where the raw validation did not succeed: "+p.CondString())
			}
			if p.Results[0] == "nil" && !p.Has(pass) {
				bad = append(bad, "success is reported without a successful raw validation")
			}
			if p.Has(an.Render(vcall)+" != nil") && p.Results[0] != an.Render(vcall) {
				bad = append(bad, "the validation error is not returned as it is ("+p.Results[0]+")")
			}
			if p.Passes(icall) {
				nOK++
			}
		}
		c.Check(len(bad) == 0 && nOK > 0 && an.Dominates(vcall, icall), "V1", "DefaultUnmarshaller.Unmarshal", "raw validation precedes and guards population; its error is returned", um.Pos(), "validateRaw == nil dominates unmarshalItems", strings.Join(bad, "; "))
		okArgs := an.Render(vcall.Call.Args[0]) == "msg" && an.Render(vcall.Call.Args[1]) == "d" && an.Render(icall.Call.Args[1]) == "d" && an.Render(icall.Call.Args[0]) == "msg.Items()"
		c.Check(okArgs, "V1", "DefaultUnmarshaller.Unmarshal", "the bytes validated are the bytes parsed, into the target's own items", um.Pos(), "validateRaw(msg, d, …); unmarshalItems(msg.Items(), d, …)", "validation and population do not operate on the same message and bytes")
	}
	{
		ps, _ := an.EnumPaths(eu, 8)
		ok := len(ps) == 1 && len(ps[0].Results) == 1 && strings.HasSuffix(ps[0].Results[0], ".Unmarshal(msg, d)")
		c.Check(ok, "V1", "encoding.Unmarshal", "delegates to DefaultUnmarshaller.Unmarshal", eu.Pos(), "u.Unmarshal(msg, d)", "encoding.Unmarshal does not go through DefaultUnmarshaller.Unmarshal")
	}
	// ---- V2 / V5 inside validateRaw
	var kv [3]*ssa.Call // bs, bl, cs
	tags := []string{"BeginStringTag", "BodyLengthTag", "CheckSumTag"}
	// the validation together with the helpers cut out of it (a lookup step and a comparison step, say)
	vrGroup := []*ssa.Function{vr}
	for _, g := range an.PkgFuncs(vr.Pkg) {
		if owner, _ := an.LogicalOwner(g); owner == vr && g != vr && g.Parent() == nil {
			vrGroup = append(vrGroup, g)
		}
	}
	inGroup := func(f func(ssa.Instruction)) {
		for _, g := range vrGroup {
			an.AllInstrs(g, f)
		}
	}
	inGroup(func(in ssa.Instruction) {
		call, ok := in.(*ssa.Call)
		if !ok || !an.CalleeIs(&call.Call, "fix", "NewKeyValue") {
			return
		}
		for i, t := range tags {
			if an.Render(call.Call.Args[0]) == "msg."+t+"()" {
				kv[i] = call
			}
		}
	})
	if !c.Anchor("framing fields", kv[0] != nil && kv[1] != nil && kv[2] != nil, "NewKeyValue(msg.BeginStringTag()/BodyLengthTag()/CheckSumTag(), …)", vr.Pos()) {
		return
	}
	bsB, blB, csB := an.Render(kv[0])+".ToBytes()", an.Render(kv[1])+".ToBytes()", an.Render(kv[2])+".ToBytes()"
	// the three are parsed from d by one unmarshalItems call whose error is returned
	var parse *ssa.Call
	inGroup(func(in ssa.Instruction) {
		if call, ok := in.(*ssa.Call); ok && an.StaticCallee(&call.Call) == ui {
			parse = call
		}
	})
	okParse := false
	if parse != nil {
		if elems, ok := an.SliceElems(parse.Call.Args[0]); ok && len(elems) == 3 && an.Render(parse.Call.Args[1]) == "d" {
			okParse = an.Unwrap(elems[0]) == ssa.Value(kv[0]) && an.Unwrap(elems[1]) == ssa.Value(kv[1]) && an.Unwrap(elems[2]) == ssa.Value(kv[2])
		}
	}
	c.Check(okParse, "V5", "validateRaw", "BeginString, BodyLength and CheckSum are looked up in the input by the message's own tags", vr.Pos(), "unmarshalItems({bs, bl, cs}, d)", "the three framing fields are not all extracted from d with the message's tags")
	paths, _ := an.EnumPathsX(vr, 1024) // helpers of the validation (a parser for the declared length, …) are walked through
	var cmpLen, cmpSum string
	var sumCall, eq *ssa.Call
	var okPath *an.Path // the accepting path (for rendering what helpers were given)
	for _, p := range paths {
		for _, in := range p.InstrSeq() {
			if call, ok := in.(*ssa.Call); ok {
				if an.CalleeIs(&call.Call, "fix", "CalcCheckSum") {
					sumCall = call
				}
				if an.CalleeIs(&call.Call, "bytes", "Equal") {
					eq = call
				}
			}
		}
		if p.Return != nil && len(p.Results) == 1 && p.Results[0] == "nil" {
			okPath = p
		}
	}
	c.Check(sumCall != nil, "V4", "validateRaw", "recomputes the checksum with fix.CalcCheckSum, the serializer's function", vr.Pos(), "fix.CalcCheckSum", "the validation does not call fix.CalcCheckSum: a private copy can drift from the serializer")
	if ccs := c.Func("fix", "CalcCheckSum"); ccs != nil {
		checkChecksumFn(c, "V4", ccs)
	}
	if sumCall == nil {
		return
	}
	var bad []string
	nNil := 0
	for _, p := range paths {
		if p.Return == nil {
			continue
		}
		if p.Results[0] != "nil" {
			continue
		}
		nNil++
		// the pass edges
		var okLen, okSum, okNull, okNum bool
		for _, a := range p.Atoms {
			s := a.String()
			if a.Rel == "==" && (strings.Contains(a.L, "len(d)") || strings.Contains(a.R, "len(d)")) && (strings.Contains(a.L, ".Value().(int)") || strings.Contains(a.R, ".Value().(int)")) {
				okLen = true
				cmpLen = s
			}
			if a.Rel == "true" && eq != nil && (a.L == an.Render(eq) || a.L == an.RenderOnPath(eq, p)) {
				okSum = true
				cmpSum = s
			}
			if a.Rel == "false" && strings.HasSuffix(a.L, ".IsNull()") {
				okNull = true
			}
			if a.Rel == "==" && strings.Contains(a.L, ".FromBytes(") && a.R == "nil" {
				okNum = true
			}
		}
		if !okLen {
			bad = append(bad, "the message is accepted without declared BodyLength == measured length: "+p.CondString())
		}
		if !okSum {
			bad = append(bad, "the message is accepted without the declared checksum bytes being equal to the recomputed ones: "+p.CondString())
		}
		if !okNull || !okNum {
			bad = append(bad, "the message is accepted although BodyLength may be missing or not numeric")
		}
	}
	ob := c.Ob("V2", "validateRaw", "accepts only if length and checksum both agree", vr.Pos())
	if nNil != 1 {
		ob.Fail("%d accepting paths (expected exactly one)", nNil)
	} else if len(bad) > 0 {
		ob.Fail("%s", bad[0])
	} else {
		ob.Ok("single accepting path: %s ∧ %s", cmpLen, cmpSum)
	}
	// the checksum comparison is between the raw declared bytes and the recomputed bytes
	if eq != nil {
		a0, a1 := an.Render(eq.Call.Args[0]), an.Render(eq.Call.Args[1])
		e0, e1 := eq.Call.Args[0], eq.Call.Args[1]
		if okPath != nil {
			a0, a1 = an.RenderOnPath(eq.Call.Args[0], okPath), an.RenderOnPath(eq.Call.Args[1], okPath)
			e0, e1 = an.ResolveOnPath(e0, okPath), an.ResolveOnPath(e1, okPath)
		}
		okEq := (a0 == an.Render(kv[2])+".Load().ToBytes()" && e1 == ssa.Value(sumCall)) || (a1 == an.Render(kv[2])+".Load().ToBytes()" && e0 == ssa.Value(sumCall))
		c.Check(okEq, "V2", "validateRaw", "byte-wise comparison of the declared CheckSum value with the recomputed one", eq.Pos(), "bytes.Equal(cs value, CalcCheckSum(prefix))", "the comparison is between "+a0+" and "+a1)
	} else {
		c.Ob("V2", "validateRaw", "byte-wise comparison of the declared CheckSum value with the recomputed one", vr.Pos()).Fail("no bytes.Equal between the declared and the recomputed checksum: a numeric comparison accepts 77, +77 and 0077 for 077")
	}
	// ---- V8 the field taken for the CheckSum is the message's last field. The lookup returns the first anchored occurrence of the
	// tag; the length and the sum are taken as if the field found were the trailer. A damaged tag in front of the real trailer
	// (…␁16=110␁10=116␁ → …␁10=110␁10=116␁) yields a field of the same length whose value is the sum of the damaged bytes. So
	// on the accepting path the field found is compared, with both delimiters, with the end of the input.
	{
		okTail, got := false, "no such test"
		if okPath != nil {
			want := an.Seq{{Bytes: []byte{1}}, {Atom: csB}, {Bytes: []byte{1}}}
			for _, a := range okPath.Atoms {
				call, isC := a.Val.(*ssa.Call)
				if !isC || a.Rel != "true" || !an.CalleeIs(&call.Call, "bytes", "HasSuffix") || len(call.Call.Args) != 2 {
					continue
				}
				hay := an.ResolveOnPath(call.Call.Args[0], okPath)
				ev := &an.SeqEval{Path: okPath}
				seq := ev.Eval(call.Call.Args[1])
				got = "HasSuffix(" + an.RenderOnPath(hay, okPath) + ", " + seq.String() + ")"
				if an.RenderOnPath(hay, okPath) == "d" && seq.Equal(want) {
					okTail = true
				}
			}
		}
		c.Check(okTail, "V8", "validateRaw", "the field taken for the CheckSum is the last field of the input", vr.Pos(), "HasSuffix(d, SOH·⟨CheckSum field⟩·SOH) on the accepting path",
			"on the accepting path the CheckSum field that was found (first anchored occurrence of the tag) is not compared with the end of the input ("+got+"): a field whose tag was damaged into the CheckSum tag in front of the real trailer is taken for the trailer — same length, and its value can be the sum of the damaged bytes")
	}
	// ---- V3 mode independence: in the validation, in Unmarshal and in every function of the package the framing lookup goes
	// through (the scanner's constructor and its field lookup included)
	dep := ""
	scope := pkgReach([]*ssa.Function{vr, um})
	for _, fn := range scope {
		an.AllInstrs(fn, func(in ssa.Instruction) {
			if iff, ok := in.(*ssa.If); ok && dependsOnMode(iff.Cond, 0) {
				dep = an.NameOf(fn) + ": " + an.Render(iff.Cond)
			}
		})
	}
	c.Check(dep == "", "V3", "validateRaw", "no integrity decision depends on strict mode", vr.Pos(), fmt.Sprintf("no branch on strict / Strict in %d functions", len(scope)), "a branch of the integrity check depends on the mode: "+dep)
	// ---- V7 the bytes the framing fields are looked up in are the bytes that are measured and summed: the data handed to the
	// field scanner is the validation's own argument, passed along unmodified (a normalised copy — other delimiter, trimmed,
	// case-folded — lets a damaged message be located as if it were intact while length and sum are taken over the original)
	if parse != nil {
		why := unmodifiedInput(parse.Call.Args[1], vr, 0)
		c.Check(why == "", "V7", "validateRaw", "the framing fields are looked up in the validated bytes themselves", parse.Pos(), "d", why)
		for _, fn := range pkgReach([]*ssa.Function{ui}) {
			an.AllInstrs(fn, func(in ssa.Instruction) {
				call, ok := in.(*ssa.Call)
				if !ok || fn != ui {
					return
				}
				callee := an.StaticCallee(&call.Call)
				if callee == nil || callee.Pkg != ui.Pkg || callee.Signature.Recv() == nil {
					return
				}
				for i, a := range call.Call.Args {
					if i == 0 || !isByteSlice(a.Type()) {
						continue
					}
					why := unmodifiedInput(a, ui, 0)
					c.Check(why == "", "V7", an.NameOf(ui)+"→"+an.NameOf(callee), "the scanner is run over the bytes unmarshalItems was given", call.Pos(), an.Render(a), why)
				}
			})
		}
	}
	// ---- V5 mirror arithmetic on the accepting path
	for _, p := range paths {
		if p.Return == nil || p.Results[0] != "nil" {
			continue
		}
		ev := &an.SeqEval{Path: p}
		// measured length: the int side of the length comparison
		var measured ssa.Value
		for _, a := range p.Atoms {
			if bo, ok := a.Val.(*ssa.BinOp); ok && a.String() == cmpLen {
				if strings.Contains(an.Render(bo.X), "len(d)") {
					measured = bo.X
				} else {
					measured = bo.Y
				}
			}
		}
		if measured != nil {
			got := ev.EvalLen(measured)
			want := an.LinLen{Coef: map[string]int64{"d": 1, bsB: -1, blB: -1, csB: -1}, K: -3}
			c.Check(got.Equal(want), "V5", "validateRaw", "measured length = len(d) − |BeginString field| − |BodyLength field| − |CheckSum field| − 3 delimiters", measured.Pos(), got.String(),
				fmt.Sprintf("the measured length is %s; the BodyLength region of a message laid out as the serializer does is %s", got.String(), want.String()))
		}
		if sl, ok := an.ResolveOnPath(sumCall.Call.Args[0], p).(*ssa.Slice); ok && sl.Low == nil && sl.High != nil && an.Render(sl.X) == "d" {
			got := ev.EvalLen(sl.High)
			want := an.LinLen{Coef: map[string]int64{"d": 1, csB: -1}, K: -2}
			c.Check(got.Equal(want), "V5", "validateRaw", "checksum is recomputed over d[: len(d) − |CheckSum field| − 2], the serializer's checksum prefix", sl.Pos(), got.String(),
				fmt.Sprintf("the checksum is recomputed over d[:%s]; the prefix the serializer sums ends at %s", got.String(), want.String()))
		} else {
			c.Ob("V5", "validateRaw", "checksum is recomputed over a prefix of the input", sumCall.Pos()).Fail("CalcCheckSum is applied to %s, not to a prefix d[:n]", an.Render(sumCall.Call.Args[0]))
		}
	}
	// every error return is non-nil: paths not accepting return something else than nil — by construction of the census above (nNil == 1)
	// ---- V6 the declared values are the field's bytes exactly: the framing fields are extracted by the decoder's value
	// extraction (unmodified bytes up to the next delimiter) and the BodyLength is parsed by the strict inverse of the
	// formatter — any leniency here (trimming, padding, alternative spellings) makes distinct damaged inputs read alike.
	checkValueExtraction(c, "V6")
	checkCodecs(c, "V6", map[string]bool{"frombytes": true, "type:Int": true, "type:String": true})
}

// dependsOnMode: the condition value is computed (without going through calls) from the strict parameter or the Strict field.
func dependsOnMode(v ssa.Value, depth int) bool {
	if v == nil || depth > 6 {
		return false
	}
	switch x := v.(type) {
	case *ssa.Parameter:
		return x.Name() == "strict"
	case *ssa.UnOp:
		if f, _ := an.LoadedField(x); f != nil && strings.EqualFold(an.FieldName(f), "Strict") {
			return true
		}
		return dependsOnMode(x.X, depth+1)
	case *ssa.Field:
		return an.FieldOf(x) != nil && strings.EqualFold(an.FieldName(an.FieldOf(x)), "Strict")
	case *ssa.BinOp:
		return dependsOnMode(x.X, depth+1) || dependsOnMode(x.Y, depth+1)
	case *ssa.Phi:
		for _, e := range x.Edges {
			if dependsOnMode(e, depth+1) {
				return true
			}
		}
	}
	return false
}

// pkgReach: the functions of the roots' package reachable from the roots through static calls.
func pkgReach(roots []*ssa.Function) []*ssa.Function {
	seen := map[*ssa.Function]bool{}
	var out []*ssa.Function
	var walk func(fn *ssa.Function)
	walk = func(fn *ssa.Function) {
		if fn == nil || seen[fn] || fn.Blocks == nil || fn.Pkg != roots[0].Pkg {
			return
		}
		seen[fn] = true
		out = append(out, fn)
		for _, a := range fn.AnonFuncs {
			walk(a)
		}
		an.AllInstrs(fn, func(in ssa.Instruction) {
			if cc := an.CallOf(in); cc != nil {
				walk(an.StaticCallee(cc))
			}
		})
	}
	for _, r := range roots {
		walk(r)
	}
	return out
}

func isByteSlice(t types.Type) bool {
	sl, ok := t.Underlying().(*types.Slice)
	if !ok {
		return false
	}
	b, ok := sl.Elem().Underlying().(*types.Basic)
	return ok && b.Kind() == types.Uint8
}

// unmodifiedInput: v is a parameter of fn, possibly passed through a whole-slice expression or through a struct field that is only
// ever stored from a parameter of a package function all of whose call sites pass an unmodified input in turn. Returns "" or
// the reason why not.
func unmodifiedInput(v ssa.Value, fn *ssa.Function, depth int) string {
	if depth > 6 {
		return "the origin of " + an.Render(v) + " could not be followed"
	}
	switch x := v.(type) {
	case *ssa.Parameter:
		if x.Parent() == fn {
			return ""
		}
		// the parameter of a helper cut out of fn stands for the argument at its only call site
		if a, ok := an.OwnerSub(x.Parent())[x]; ok && a != v {
			return unmodifiedInput(a, fn, depth+1)
		}
		return an.Render(v) + " is a parameter of " + an.NameOf(x.Parent())
	case *ssa.Slice:
		lowZero := x.Low == nil
		if k, ok := an.ConstInt(x.Low); ok && k == 0 {
			lowZero = true
		}
		if lowZero && x.High == nil && x.Max == nil {
			return unmodifiedInput(x.X, fn, depth+1)
		}
		return an.Render(v) + " is a part of the input"
	case *ssa.UnOp:
		f, _ := an.LoadedField(x)
		if f == nil {
			break
		}
		// every store to this field in the package
		n := 0
		for _, g := range an.PkgFuncs(fn.Pkg) {
			var why string
			an.AllInstrs(g, func(in ssa.Instruction) {
				st, ok := in.(*ssa.Store)
				if !ok || why != "" {
					return
				}
				fa, ok := st.Addr.(*ssa.FieldAddr)
				if !ok || an.FieldOf(fa) != f {
					return
				}
				n++
				p, ok := st.Val.(*ssa.Parameter)
				if !ok {
					why = an.NameOf(g) + " stores " + an.Render(st.Val) + " in the scanner's " + an.FieldName(f) + ": the bytes scanned are not the bytes given"
					return
				}
				idx := -1
				for i, q := range g.Params {
					if q == p {
						idx = i
					}
				}
				// call sites of g inside fn pass fn's input; call sites elsewhere are that function's business
				sites := 0
				an.AllInstrs(fn, func(in2 ssa.Instruction) {
					call, ok := in2.(*ssa.Call)
					if !ok || an.StaticCallee(&call.Call) != g || idx < 0 || idx >= len(call.Call.Args) {
						return
					}
					sites++
					if w := unmodifiedInput(call.Call.Args[idx], fn, depth+1); w != "" && why == "" {
						why = w
					}
				})
				if sites == 0 && g != fn && why == "" {
					why = an.NameOf(g) + " fills the scanner's " + an.FieldName(f) + " but is not called from " + an.NameOf(fn)
				}
			})
			if why != "" {
				return why
			}
		}
		if n == 0 {
			return "no store to the scanner's " + an.FieldName(f) + " found"
		}
		return ""
	}
	return an.Render(v) + " is not the input itself"
}
