package props

import (
	"fmt"
	"go/token"
	"go/types"
	"strings"

	"golang.org/x/tools/go/ssa"

	"sfcheck/an"
	"sfcheck/core"
)

func init() {
	register(&Check{ID: "C01", NeedSSA: true, Run: runC01})
}

// layoutOf evaluates, per path of fn, the byte layout of the (single) result.
type pathLayout struct {
	P   *an.Path
	Seq an.Seq
}

func layoutsOf(fn *ssa.Function) []pathLayout {
	var out []pathLayout
	paths, _ := an.EnumPaths(fn, 1024)
	for _, p := range paths {
		if p.Return == nil || len(p.ResVals) != 1 {
			continue
		}
		ev := &an.SeqEval{Path: p}
		out = append(out, pathLayout{P: p, Seq: ev.Eval(p.ResVals[0]).Norm()})
	}
	return out
}

// consistent: the arithmetic atoms of two paths (over the same rendered terms) can hold together.
func consistent(p, q *an.Path, extra ...an.Atom) bool {
	d := an.NewDBM()
	for _, a := range p.Atoms {
		d.AddAtom(a)
	}
	for _, a := range q.Atoms {
		d.AddAtom(a)
	}
	for _, a := range extra {
		d.AddAtom(a)
	}
	return d.Feasible()
}

func runC01(c *core.Ctx, o Options) {
	c.Level = "proof"
	c.TrustedBase = []string{"go/types and go/ssa (golang.org/x/tools v0.29.0)", "the layout model of checker/an/seq.go: bytes.Join, append, len, []byte/string conversions", "fmt.Sprintf(\"%03s\"/\"%03d\") zero-pads to three characters; strconv.Itoa is decimal", "values contain no SOH (a precondition of the property)"}
	c.Explanation = "Byte-layout inference (an effect/type inference over go/ssa, nothing is executed): atoms are the opaque results of the leaf producers, so the result holds for every template, population and value. " +
		"L1: on every path the bytes stored in Message.prepared are KV(beginString)·SOH·KV(bodyLength)·SOH·KV(msgType)·(SOH·part)*·SOH·tag(checkSum)·'='·CHK·SOH, a part being present exactly when it is non-empty. " +
		"L2: the integer stored into bodyLength.Value (before the assembly evaluates that field) equals, as a linear form over len(atoms), the length of the region after KV(bodyLength)·SOH up to and including the SOH before the CheckSum field, for every consistent combination of emptiness conditions (assumption A1: MsgType non-empty). " +
		"L3: CHK is the checksum function applied to exactly the layout prefix before that SOH, and the value Set on checkSum is the emitted CHK. L4: only Prepare stores to prepared; ToBytes returns it only after a successful Prepare. " +
		"S1: the checksum function adds every byte of its argument once, plus one SOH, modulo 256, formatted as three zero-padded decimal digits. S2: the leaf producers are pure collector loops (shared with C17). S3: Delimiter is {1} and never reassigned. S4: Int.ToBytes is decimal."
	c.Assume("A1: the MsgType value is non-empty (the generated constructors pass a constant message type)")
	c.Assume("field values contain no SOH byte")
	prep := c.Func("fix", "Message.Prepare")
	bwc := c.Func("fix", "Message.BytesWithoutChecksum")
	cbl := c.Func("fix", "Message.CalcBodyLength")
	tob := c.Func("fix", "Message.ToBytes")
	ccs := c.Func("fix", "CalcCheckSum")
	if !c.Anchor("serializer", prep != nil && bwc != nil && cbl != nil && tob != nil && ccs != nil, "Message.Prepare/BytesWithoutChecksum/CalcBodyLength/ToBytes, CalcCheckSum", posOf(prep)) {
		return
	}
	// ---- L4 who writes prepared
	pkg := c.SSAPkg("fix")
	prepared := c.Field("fix", "Message", "prepared")
	var writers, returners []string
	for _, fn := range pkgFuncs(pkg) {
		an.AllInstrs(fn, func(in ssa.Instruction) {
			if st, ok := in.(*ssa.Store); ok {
				if fa, ok := st.Addr.(*ssa.FieldAddr); ok && an.FieldOf(fa) == prepared {
					// a helper cut out of Prepare (one call site, unexported) writes on Prepare's behalf
					owner := fn
					if fn.Parent() == nil {
						owner, _ = an.LogicalOwner(fn)
					}
					writers = append(writers, an.NameOf(owner))
				}
			}
			if r, ok := in.(*ssa.Return); ok {
				for _, v := range r.Results {
					if f, _ := an.LoadedField(an.Unspill(v)); f == prepared {
						returners = append(returners, an.NameOf(fn))
					}
				}
			}
		})
	}
	okW := len(writers) > 0
	for _, w := range writers {
		if w != "Prepare" {
			okW = false
		}
	}
	c.Check(okW, "L4", "Message.prepared", "only Prepare stores the wire image", token.NoPos, fmt.Sprint(writers), "prepared is stored by "+fmt.Sprint(writers))
	okR := len(returners) == 1 && returners[0] == "ToBytes"
	c.Check(okR, "L4", "Message.prepared", "only ToBytes hands the wire image out", token.NoPos, fmt.Sprint(returners), "prepared is returned by "+fmt.Sprint(returners))
	// ToBytes: non-nil bytes only after Prepare() == nil on the same path
	{
		paths, _ := an.EnumPaths(tob, 64)
		ok, n := true, 0
		for _, p := range paths {
			if p.Return == nil || len(p.Results) != 2 {
				continue
			}
			if p.Results[0] != "nil" {
				n++
				if !p.Has("msg.Prepare() == nil") {
					ok = false
				}
			}
		}
		c.Check(ok && n == 1, "L4", "Message.ToBytes", "returns the wire image only after a successful recomputation on the same call", tob.Pos(), "Prepare() == nil ⇒ return prepared", "ToBytes can return bytes without (successfully) running Prepare first: a stale image")
	}
	// ---- layouts
	ppaths, _ := an.EnumPathsX(prep, 64)
	var okPath *an.Path
	for _, p := range ppaths {
		if p.Return != nil && len(p.Results) == 1 && p.Results[0] == "nil" {
			if okPath != nil {
				c.Ob("L1", "Message.Prepare", "single success path", prep.Pos()).Unknown("Prepare has several success paths; the layout inference handles one")
				return
			}
			okPath = p
		}
	}
	if okPath == nil {
		c.Ob("L1", "Message.Prepare", "success path", prep.Pos()).Unknown("Prepare has no path returning nil")
		return
	}
	// the final store to prepared on the success path
	var lastStore *ssa.Store
	seq := okPath.InstrSeq()
	idx := func(in ssa.Instruction) int {
		for i, x := range seq {
			if x == in {
				return i
			}
		}
		return -1
	}
	before := func(a, b ssa.Instruction) bool { return idx(a) >= 0 && idx(a) < idx(b) }
	for _, in := range seq {
		if st, ok := in.(*ssa.Store); ok {
			if fa, ok := st.Addr.(*ssa.FieldAddr); ok && an.FieldOf(fa) == prepared {
				lastStore = st
			}
		}
	}
	if lastStore == nil {
		c.Ob("L1", "Message.Prepare", "stores prepared", prep.Pos()).Fail("the success path does not store the wire image")
		return
	}
	ev := &an.SeqEval{Path: okPath}
	outer := ev.Eval(lastStore.Val).Norm()
	c.Extra["layout_outer"] = outer.String()
	// locate the call values
	var bwcCall, cblCall, ccsCall *ssa.Call
	var setCall *ssa.Call
	var blStore *ssa.Store
	// (on the success path, helpers cut out of Prepare included)
	for _, in := range seq {
		switch x := in.(type) {
		case *ssa.Call:
			switch {
			case an.StaticCallee(&x.Call) == bwc:
				bwcCall = x
			case an.StaticCallee(&x.Call) == cbl:
				cblCall = x
			case an.StaticCallee(&x.Call) == ccs:
				ccsCall = x
			case x.Call.IsInvoke() && x.Call.Method.Name() == "Set":
				setCall = x
			}
		case *ssa.Store:
			if fa, ok := x.Addr.(*ssa.FieldAddr); ok && an.FieldName(an.FieldOf(fa)) == "Value" && an.RenderOnPath(fa.X, okPath) == "msg.bodyLength" {
				blStore = x
			}
		}
	}
	if !c.Anchor("recomputation steps", bwcCall != nil && cblCall != nil && ccsCall != nil && setCall != nil && blStore != nil, "CalcBodyLength, store to bodyLength.Value, BytesWithoutChecksum, CalcCheckSum, checkSum.Set", prep.Pos()) {
		return
	}
	bwcAtom := an.RenderOnPath(bwcCall, okPath)
	chkAtom := an.RenderOnPath(ccsCall, okPath)
	keyAtom := "msg.checkSum.Key"
	wantOuter := an.Seq{{Atom: bwcAtom}, {Bytes: []byte{1}}, {Atom: keyAtom}, {Bytes: []byte{'='}}, {Atom: chkAtom}, {Bytes: []byte{1}}}
	c.Check(outer.Equal(wantOuter), "L1", "Message.Prepare", "wire image = prefix · SOH · checkSum tag · '=' · CHK · SOH", lastStore.Pos(), outer.String(), "the image stored is "+outer.String()+"; expected "+wantOuter.String())
	// L3
	c.Check(an.ResolveOnPath(ccsCall.Call.Args[0], okPath) == ssa.Value(bwcCall), "L3", "Message.Prepare", "the checksum is computed over exactly the emitted prefix", ccsCall.Pos(), "CalcCheckSum(<the prefix that is emitted>)", "CalcCheckSum is applied to "+an.Render(ccsCall.Call.Args[0])+", which is not the prefix placed in the wire image")
	okSet := an.RenderOnPath(setCall.Call.Value, okPath) == "msg.checkSum.Value" && an.RenderOnPath(setCall.Call.Args[0], okPath) == "string("+chkAtom+")"
	c.Check(okSet, "L3", "Message.Prepare", "the CheckSum field's value is the emitted CHK", setCall.Pos(), "checkSum.Value.Set(string(CHK))", "checkSum.Value is set to "+an.Render(setCall.Call.Args[0]))
	// L2 ordering
	okOrd := before(cblCall, blStore) && before(blStore, bwcCall) && an.RenderOnPath(blStore.Val, okPath) == "fix.NewInt("+an.RenderOnPath(cblCall, okPath)+")"
	c.Check(okOrd, "L2", "Message.Prepare", "bodyLength.Value ← NewInt(CalcBodyLength()) before the prefix is assembled", blStore.Pos(), "store dominates BytesWithoutChecksum()", "the BodyLength field is not refreshed from CalcBodyLength() before the prefix (and hence the checksum) is computed")
	// nothing touches header/body/trailer between the two computations
	mutated := ""
	for _, in := range seq {
		if st, ok := in.(*ssa.Store); ok && before(cblCall, st) && before(st, lastStore) {
			if fa, ok := st.Addr.(*ssa.FieldAddr); ok {
				n := an.FieldName(an.FieldOf(fa))
				if n == "header" || n == "body" || n == "trailer" || n == "msgType" || n == "beginString" {
					mutated = n
				}
			}
		}
	}
	// … nor does anything called in between (other than the three computations and the store of the checksum itself)
	for _, in := range seq {
		call, ok := in.(*ssa.Call)
		if !ok || !before(cblCall, call) || !before(call, lastStore) || call == bwcCall || call == ccsCall || call == setCall || mutated != "" {
			continue
		}
		// (a helper cut out of Prepare is on the path with its body: its instructions are looked at one by one)
		if cal := an.StaticCallee(&call.Call); cal != nil && cal.Pkg != nil && strings.HasPrefix(cal.Pkg.Pkg.Path(), core.ModPath) && cal != bwc && cal != ccs && cal != cbl && an.IsKnown(cal) {
			if m := firstMutation(c, cal, map[*ssa.Function]bool{}, 0); m != "" {
				mutated = "(" + m + ")"
			}
		}
	}
	c.Check(mutated == "", "L2", "Message.Prepare", "the message is not modified between the length computation and the assembly", prep.Pos(), "no store to header/body/trailer/msgType", "field "+mutated+" is replaced between CalcBodyLength and the assembly")
	// inner layouts
	inner := layoutsOf(bwc)
	lens := []struct {
		P *an.Path
		L an.LinLen
	}{}
	{
		paths, _ := an.EnumPaths(cbl, 1024)
		for _, p := range paths {
			if p.Return == nil || len(p.ResVals) != 1 {
				continue
			}
			e2 := &an.SeqEval{Path: p}
			// one entry per case: a helper such as `if len(part) == 0 { return 0 }; return len(part)+1` contributes its own
			// conditions to the path's
			cases := e2.EvalLenCases(p.ResVals[0])
			var loopCond ssa.Value
			// the length may be accumulated by a loop over a literal list of the parts: unrolled, one case per combination
			if acc, isPhi := p.Return.Results[0].(*ssa.Phi); isPhi && an.LoopHeads(cbl)[acc.Block()] {
				if lc, cond, ok := (&an.SeqEval{}).LoopSumCases(acc); ok {
					cases, loopCond = lc, cond
				}
			}
			for _, lc := range cases {
				q := p
				if loopCond != nil {
					// the loop's own continuation test says nothing about the message
					var keep []an.Atom
					for _, a := range p.Atoms {
						if a.Val != loopCond {
							keep = append(keep, a)
						}
					}
					q = &an.Path{Atoms: keep, Blocks: p.Blocks, Return: p.Return, Results: p.Results, ResVals: p.ResVals}
				}
				if len(lc.Atoms) > 0 {
					p := q
					q = &an.Path{Atoms: append(append([]an.Atom(nil), p.Atoms...), lc.Atoms...), Blocks: p.Blocks, Return: p.Return, Results: p.Results, ResVals: p.ResVals}
				}
				lens = append(lens, struct {
					P *an.Path
					L an.LinLen
				}{q, lc.L})
			}
		}
	}
	c.Extra["assembly_paths"] = len(inner)
	c.Extra["length_paths"] = len(lens)
	bs, bl, mt := "msg.beginString.ToBytes()", "msg.bodyLength.ToBytes()", "msg.msgType.ToBytes()"
	soh := an.Part{Bytes: []byte{1}}
	a1 := an.Atom{L: "0", Rel: "<", R: "len(" + mt + ")"}
	var samples []string
	for _, il := range inner {
		ob := c.Ob("L1", "Message.BytesWithoutChecksum", "layout under ["+il.P.CondString()+"]", bwc.Pos())
		seq := splitConst(il.Seq)
		// expected head
		head := an.Seq{{Atom: bs}, soh, {Atom: bl}, soh, {Atom: mt}}
		if len(seq) < len(head) || !an.Seq(seq[:len(head)]).Equal(head) {
			ob.Fail("the message does not start with BeginString, BodyLength, MsgType separated by SOH: %s", il.Seq.String())
			continue
		}
		rest := seq[len(head):]
		okShape := len(rest)%2 == 0
		var parts []string
		for i := 0; i+1 < len(rest); i += 2 {
			if rest[i].Atom != "" || len(rest[i].Bytes) != 1 || rest[i].Bytes[0] != 1 || rest[i+1].Atom == "" {
				okShape = false
				break
			}
			parts = append(parts, rest[i+1].Atom)
		}
		if !okShape {
			ob.Fail("after MsgType the layout is not a sequence of SOH·part: %s", il.Seq.String())
			continue
		}
		// each included part is known non-empty on this path (else an empty part would produce two SOH in a row)
		bad := ""
		for _, pa := range parts {
			if !il.P.Has("0 < len(" + pa + ")") {
				bad = "part " + pa + " is emitted without the path establishing that it is non-empty (an empty part yields SOH SOH)"
			}
		}
		if bad != "" {
			ob.Fail("%s", bad)
			continue
		}
		ob.Ok("%s", il.Seq.String())
		samples = append(samples, il.P.CondString()+" ⊢ "+il.Seq.String())
		// L2: against every consistent length path
		region := append(an.Seq{}, seq[4:]...) // from KV(msgType)
		region = append(region, soh)           // the SOH before the CheckSum field (from Prepare's join)
		want := region.Len()
		n := 0
		for _, lp := range lens {
			if !consistent(il.P, lp.P, a1) {
				continue
			}
			n++
			c.Check(lp.L.Equal(want), "L2", "Message.CalcBodyLength", "length under ["+il.P.CondString()+" ∧ "+lp.P.CondString()+"]", cbl.Pos(),
				lp.L.String()+" = len(region)", fmt.Sprintf("CalcBodyLength gives %s but the bytes between the BodyLength field and the CheckSum field measure %s (layout %s)", lp.L.String(), want.String(), il.Seq.String()))
		}
		c.Check(n >= 1, "L2", "Message.CalcBodyLength", "a length path exists for ["+il.P.CondString()+"]", cbl.Pos(), fmt.Sprintf("%d", n), "no path of CalcBodyLength is consistent with this assembly path")
	}
	// every combination of emptiness must be covered by the assembly: parts that appear on some path
	c.Extra["samples_layout"] = samples
	c.Check(len(inner) >= 2, "L1", "Message.BytesWithoutChecksum", "assembly paths found", bwc.Pos(), fmt.Sprint(len(inner)), "fewer than two assembly paths: the emptiness tests of header/body were removed")
	// the parts that are length-counted but never emitted (or vice versa) show up as L2 mismatches above.
	// ---- S1
	checkChecksumFn(c, "S1", ccs)
	checkLeafProducers(c, "S2")
	checkIntCodec(c, "S4")
	// L2: the length function and the assembly read the message; they (and what they call) never write it
	checkReadOnly(c, "L2", cbl, bwc, ccs)
	c.Explanation += " L2 also requires that CalcBodyLength, BytesWithoutChecksum and CalcCheckSum — with everything of the module they can call, interface calls resolved through the call graph — store nothing outside their own locals, and that nothing called between the length computation and the assembly does: the message that is assembled is the message that was measured."
	// S4 (premise): the BodyLength value Prepare stamps is an object of this message — constructors hand out fresh objects
	checkFreshConstructors(c, "S4")
	c.Explanation += " S4 also: every New* constructor of package fix returns an object allocated in the call and reads no package-level state (a flyweight Int shared between messages lets one message's BodyLength be rewritten by another's decode)."
	c.RuleMin = map[string]int{"L1": 6, "L2": 11, "L3": 2, "L4": 3, "S1": 2, "S2": 8, "S4": 2}
	c.MinObl = 30
}

// splitConst splits multi-byte constants into single bytes so that layouts can be pattern-matched positionally.
func splitConst(s an.Seq) an.Seq {
	var out an.Seq
	for _, p := range s {
		if p.Atom != "" {
			out = append(out, p)
			continue
		}
		for _, b := range p.Bytes {
			out = append(out, an.Part{Bytes: []byte{b}})
		}
	}
	return out
}

func pkgFuncs(pkg *ssa.Package) []*ssa.Function { return an.PkgFuncs(pkg) }

// checkChecksumFn (S1).
func checkChecksumFn(c *core.Ctx, rule string, fn *ssa.Function) {
	lps := loops(fn)
	ob := c.Ob(rule, "CalcCheckSum", "adds every byte of its argument exactly once", fn.Pos())
	var sumPhi *ssa.Phi
	var sumInit int64 // the accumulator's initial value: 0, or 1 when the SOH is counted up front
	if len(lps) != 1 {
		ob.Fail("%d loops (expected one range loop over the argument)", len(lps))
	} else {
		var ia *ssa.IndexAddr
		for _, b := range lps[0] {
			for _, in := range b.Instrs {
				if x, ok := in.(*ssa.IndexAddr); ok && rangeIndexPhi(x.Index) != nil {
					ia = x
				}
			}
		}
		okRange := ia != nil && ia.X == ssa.Value(fn.Params[0])
		okBound := false
		if ia != nil {
			for _, ref := range *ia.Index.Referrers() {
				if bo, ok := ref.(*ssa.BinOp); ok && bo.Op == token.LSS && an.Render(bo.Y) == "len("+an.Render(fn.Params[0])+")" {
					okBound = true
				}
			}
		}
		// accumulator: phi(0, phi + int(body[i])) with a single back edge
		okAcc := false
		if ia != nil {
			for _, in := range rangeIndexPhi(ia.Index).Block().Instrs {
				phi, ok := in.(*ssa.Phi)
				if !ok || phi == rangeIndexPhi(ia.Index) || len(phi.Edges) != 2 {
					continue
				}
				k0, ok := an.ConstInt(phi.Edges[0])
				if !ok || (k0 != 0 && k0 != 1) {
					continue
				}
				if bo, ok := phi.Edges[1].(*ssa.BinOp); ok && bo.Op == token.ADD && bo.X == ssa.Value(phi) {
					if an.Render(bo.Y) == "int("+an.Render(ia)[1:]+")" {
						okAcc = true
						sumPhi = phi
						sumInit = k0
					}
				}
			}
		}
		switch {
		case !okRange:
			ob.Fail("the loop does not range over the argument itself (a sub-slice or another slice is summed)")
		case !okBound:
			ob.Fail("the loop does not run to len(argument)")
		case !okAcc:
			ob.Fail("the accumulator is not sum += int(b) for every byte b on every iteration")
		default:
			ob.Ok("range over the argument; sum += int(b)")
		}
	}
	// result formatting
	paths, _ := an.EnumPaths(fn, 16)
	ob2 := c.Ob(rule, "CalcCheckSum", "(sum + SOH) mod 256 as three zero-padded decimal digits", fn.Pos())
	var res string
	n := 0
	for _, p := range paths {
		if p.Return != nil && len(p.Results) == 1 && !p.Loop {
			res = an.Render(p.Return.Results[0]) // the loop-carried sum must stay symbolic: no path resolution
			n++
		}
	}
	okFmt := false
	for _, p := range paths {
		if p.Return != nil && len(p.Results) == 1 && !p.Loop {
			okFmt = checksumFormat(p.Return.Results[0], sumPhi, sumInit)
		}
	}
	if n != 1 {
		ob2.Unknown("%d return paths", n)
	} else if okFmt {
		ob2.Ok("%s", res)
	} else {
		ob2.Fail("the result is %s; accepted forms are Sprintf(\"%%03s\", Itoa((sum+1)%%256)) and Sprintf(\"%%03d\", (sum+1)%%256) — the addend must be the one SOH that is not part of the argument, the modulus 256, the width three with zero padding", res)
	}
}

// checksumFormat: v is []byte(Sprintf("%03s", decimal((sum+SOH) mod 256))) or []byte(Sprintf("%03d", (sum+SOH) mod 256)), where the
// accumulator's initial value and the constant added after the loop together contribute exactly one SOH (1), the reduction is
// % 256, & 255 or a conversion to byte, and decimal is Itoa / FormatInt(·,10) / FormatUint(·,10). Integer conversions in between are transparent.
func checksumFormat(v ssa.Value, sumPhi *ssa.Phi, sumInit int64) bool {
	if sumPhi == nil {
		return false
	}
	if cv, ok := v.(*ssa.Convert); ok {
		v = cv.X
	}
	call, ok := v.(*ssa.Call)
	if !ok || !an.CalleeIs(&call.Call, "fmt", "Sprintf") || len(call.Call.Args) != 2 {
		return false
	}
	format, ok := an.ConstString(call.Call.Args[0])
	if !ok {
		return false
	}
	elems, ok := an.SliceElems(call.Call.Args[1])
	if !ok || len(elems) != 1 {
		return false
	}
	arg := elems[0]
	if mi, ok := arg.(*ssa.MakeInterface); ok {
		arg = mi.X
	}
	stripConv := func(x ssa.Value) (ssa.Value, bool) { // strips integer conversions; reports whether one of them was to an 8-bit unsigned type
		narrowed := false
		for {
			cv, ok := x.(*ssa.Convert)
			if !ok {
				return x, narrowed
			}
			if b, ok := cv.Type().Underlying().(*types.Basic); ok && b.Kind() == types.Uint8 {
				narrowed = true
			}
			x = cv.X
		}
	}
	reduced := func(x ssa.Value) bool { // (sum + k) reduced mod 256 with sumInit + k == 1
		x, narrowed := stripConv(x)
		if !narrowed {
			bo, ok := x.(*ssa.BinOp)
			if !ok {
				return false
			}
			k, isK := an.ConstInt(bo.Y)
			if !((bo.Op == token.REM && isK && k == 256) || (bo.Op == token.AND && isK && k == 255)) {
				return false
			}
			x, _ = stripConv(bo.X)
		}
		add := int64(0)
		if bo, ok := x.(*ssa.BinOp); ok && bo.Op == token.ADD {
			if k, isK := an.ConstInt(bo.Y); isK {
				add, x = k, bo.X
			} else if k, isK := an.ConstInt(bo.X); isK {
				add, x = k, bo.Y
			}
		}
		return x == ssa.Value(sumPhi) && sumInit+add == 1
	}
	switch format {
	case "%03d":
		return reduced(arg)
	case "%03s":
		dec, ok := arg.(*ssa.Call)
		if !ok {
			return false
		}
		switch {
		case an.CalleeIs(&dec.Call, "strconv", "Itoa"):
			return reduced(dec.Call.Args[0])
		case an.CalleeIs(&dec.Call, "strconv", "FormatInt"), an.CalleeIs(&dec.Call, "strconv", "FormatUint"):
			base, ok := an.ConstInt(dec.Call.Args[1])
			return ok && base == 10 && reduced(dec.Call.Args[0])
		}
	}
	return false
}

// checkIntCodec (S4): Int.ToBytes is decimal Itoa of the value, NewInt populates.
func checkIntCodec(c *core.Ctx, rule string) {
	fn := c.Func("fix", "Int.ToBytes")
	if !c.Anchor("Int.ToBytes", fn != nil, "fix.Int.ToBytes", posOf(fn)) {
		return
	}
	paths, _ := an.EnumPaths(fn, 8)
	ok, n := true, 0
	for _, p := range paths {
		if p.Return == nil {
			continue
		}
		if p.Results[0] == "nil" {
			if !p.Has("!v.valid") {
				ok = false
			}
			continue
		}
		n++
		if p.Results[0] != "[]byte(strconv.Itoa(v.value))" {
			ok = false
		}
	}
	c.Check(ok && n == 1, rule, "Int.ToBytes", "decimal text of the value when populated", fn.Pos(), "[]byte(strconv.Itoa(v.value))", "Int.ToBytes is not strconv.Itoa of the stored value")
	if ni := c.Func("fix", "NewInt"); ni != nil {
		lit := constructorLiteral(ni)
		c.Check(lit["value"] == an.Render(ni.Params[0]) && lit["valid"] == "true", rule, "NewInt", "stores its argument and marks it populated", ni.Pos(), fmt.Sprint(lit), "NewInt builds "+fmt.Sprint(lit))
	}
}

// constructorLiteral returns the rendered field values of the struct a constructor returns.
func constructorLiteral(fn *ssa.Function) map[string]string {
	out := map[string]string{}
	paths, _ := an.EnumPaths(fn, 4)
	if len(paths) != 1 || len(paths[0].ResVals) != 1 {
		return out
	}
	if lit, ok := an.StructLit(paths[0].ResVals[0]); ok {
		for k, v := range lit {
			out[k] = an.Render(v)
		}
	}
	return out
}

var _ = strings.Contains
