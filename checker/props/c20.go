package props

import (
	"fmt"
	"go/token"
	"go/types"
	"sort"
	"strings"

	"golang.org/x/tools/go/ssa"

	"sfcheck/an"
	"sfcheck/core"
)

func init() {
	register(&Check{ID: "C20", NeedSSA: true, Run: runC20})
}

// guardedBy is the frozen guarded-by table; every access was confirmed by reading.
var guardedBy = []struct{ Pkg, Type, Field, Guard, Why string }{
	{"session", "Session", "state", "stateMu", "read by inbound handlers, timer goroutines and application queries; written by all of them"},
	{"", "HandlerPool", "handlers", "mu", "read on every message by the dispatch/send paths, written by registration from any goroutine"},
	{"utils", "EventHandlerPool", "pool", "mu", "read by Trigger from any goroutine, written by Handle/Clean"},
	{"utils", "Timer", "lastUpdate", "mu", "written by Refresh from sender/dispatch goroutines, read by the timer goroutine"},
	{"storages/memory", "Storage", "messages", "mu", "written by every send, read by the resend path"},
}

var atomicFields = []struct{ Pkg, Type, Field string }{
	{"storages/memory", "Storage", "counterIncoming"},
	{"storages/memory", "Storage", "counterOutgoing"},
}

// libFuncs returns all functions (with closures) of the library packages that take part in a running session.
func libFuncs(c *core.Ctx) []*ssa.Function {
	var out []*ssa.Function
	seen := map[*ssa.Function]bool{}
	for _, rel := range []string{"", "session", "storages/memory", "utils"} {
		pkg := c.SSAPkg(rel)
		if pkg == nil {
			continue
		}
		var names []string
		for n := range pkg.Members {
			names = append(names, n)
		}
		sort.Strings(names)
		add := func(fn *ssa.Function) {
			for _, f := range an.WithAnon(fn) {
				if !seen[f] && len(f.Blocks) > 0 {
					seen[f] = true
					out = append(out, f)
				}
			}
		}
		for _, n := range names {
			switch mem := pkg.Members[n].(type) {
			case *ssa.Function:
				if mem.Synthetic == "" {
					add(mem)
				}
			case *ssa.Type:
				for _, t := range []types.Type{mem.Type(), types.NewPointer(mem.Type())} {
					ms := pkg.Prog.MethodSets.MethodSet(t)
					for i := 0; i < ms.Len(); i++ {
						if fn := pkg.Prog.MethodValue(ms.At(i)); fn != nil && fn.Pkg == pkg && fn.Synthetic == "" {
							add(fn)
						}
					}
				}
			}
		}
	}
	return out
}

// atomicOnlyResult: every use of helper in the library is a direct call whose result is used only as the address operand of
// sync/atomic functions. It returns the number of such call sites, or a description of the first other use.
func atomicOnlyResult(helper *ssa.Function, fns []*ssa.Function) (int, string, []*ssa.Call) {
	n := 0
	var sites []*ssa.Call
	bad := ""
	if helper.Object() != nil && helper.Object().Exported() {
		return 0, "is exported, so callers outside the library can use it", nil
	}
	for _, fn := range fns {
		an.AllInstrs(fn, func(in ssa.Instruction) {
			cc := an.CallOf(in)
			for _, op := range in.Operands(nil) {
				if op == nil || *op != ssa.Value(helper) {
					continue
				}
				if cc == nil || cc.Value != ssa.Value(helper) {
					bad = "is used as a function value in " + an.NameOf(fn)
					return
				}
			}
			call, ok := in.(*ssa.Call)
			if !ok || an.StaticCallee(&call.Call) != helper {
				if cc != nil && an.StaticCallee(cc) == helper {
					bad = "is deferred or spawned in " + an.NameOf(fn)
				}
				return
			}
			n++
			sites = append(sites, call)
			if call.Referrers() == nil {
				return
			}
			for _, ref := range *call.Referrers() {
				if _, isDbg := ref.(*ssa.DebugRef); isDbg {
					continue
				}
				use, ok := ref.(*ssa.Call)
				cal := (*ssa.Function)(nil)
				if ok {
					cal = an.StaticCallee(&use.Call)
				}
				if cal == nil || cal.Pkg == nil || cal.Pkg.Pkg.Path() != "sync/atomic" || len(use.Call.Args) == 0 || use.Call.Args[0] != ssa.Value(call) {
					bad = "used in " + an.NameOf(fn) + " other than as the operand of a sync/atomic call"
				}
			}
		})
	}
	return n, bad, sites
}

func runC20(c *core.Ctx, o Options) {
	c.Explanation = "Lockset discipline, decided for all schedules at once: (1) every access to a field of the guarded-by table (Session.state←stateMu, HandlerPool.handlers←mu, EventHandlerPool.pool←mu, Timer.lastUpdate←mu, Storage.messages←mu) " +
		"in the library packages (root, session, storages/memory, utils) executes with the must-held lockset containing the guard on the same object — exclusive mode for writes, map updates and deletes — unless the object is still private to its constructor; " +
		"unexported helpers inherit the lockset common to all their call sites. (2) The store's counters are touched only through sync/atomic. (3) Completeness: every store to any struct field of these packages outside constructor context " +
		"is to a guarded or atomic field or to one of the named configuration fields whose premise is checked (setter-only before Run; Session.LogonSettings replaced only in the Logon handler before the timers start). " +
		"(4) Messages sent from loops (the timer goroutines) are built afresh for each send, so an object retained by the message store is never re-stamped concurrently with its retransmission. A sufficient condition for freedom from data races on those fields; memory reached through application callbacks, custom stores or the fix message objects themselves is not modelled."
	fns := libFuncs(c)
	if !c.Anchor("library functions", len(fns) > 100, fmt.Sprintf("%d functions", len(fns)), token.NoPos) {
		return
	}
	la := an.AnalyseLocks(fns)
	for _, odd := range la.Odd {
		c.Ob("lockset", odd.Parent().Name(), "lock operation on something other than a struct field", odd.Pos()).Unknown("cannot identify the mutex")
	}
	guard := map[*types.Var]*types.Var{}
	for _, g := range guardedBy {
		f, m := c.Field(g.Pkg, g.Type, g.Field), c.Field(g.Pkg, g.Type, g.Guard)
		if c.Anchor("guarded field "+g.Type+"."+g.Field, f != nil && m != nil, g.Type+"."+g.Field+" ← "+g.Guard, token.NoPos) {
			guard[f] = m
		}
	}
	atomics := map[*types.Var]bool{}
	for _, a := range atomicFields {
		f := c.Field(a.Pkg, a.Type, a.Field)
		if c.Anchor("atomic field "+a.Type+"."+a.Field, f != nil, a.Type+"."+a.Field, token.NoPos) {
			atomics[f] = true
		}
	}
	nAcc := 0
	for _, fn := range fns {
		accs := an.FieldAccesses(fn, func(v *types.Var) bool { return guard[v] != nil || atomics[v] })
		for _, a := range accs {
			if an.IsConstructorBase(a.Base, fn) {
				continue
			}
			nAcc++
			owner := fieldOwner(a.Field)
			if atomics[a.Field] && a.How == "addr-returned" {
				// a selector helper: its result may be used only as the address operand of sync/atomic calls, at every use of the helper
				n, bad, sites := atomicOnlyResult(fn, fns)
				for _, site := range sites {
					c.Ob("atomic", site.Parent().Name(), fmt.Sprintf("%s.%s through %s()", owner, a.Field.Name(), an.NameOf(fn)), site.Pos()).Ok("the selected counter's address is the operand of a sync/atomic call")
				}
				ob := c.Ob("atomic", an.NameOf(fn), fmt.Sprintf("%s.%s %s", owner, a.Field.Name(), a.How), a.Instr.Pos())
				if bad == "" && n > 0 {
					ob.Ok("the address returned is handed only to sync/atomic, at %d call sites", n)
				} else {
					ob.Fail("the address of %s.%s is returned by %s and then %s: plain access through it would race with the atomic updates", owner, a.Field.Name(), an.NameOf(fn), bad)
				}
				continue
			}
			if atomics[a.Field] {
				c.Check(a.Atomic, "atomic", an.NameOf(fn), fmt.Sprintf("%s.%s %s", owner, a.Field.Name(), a.How), a.Instr.Pos(),
					"through sync/atomic", fmt.Sprintf("%s.%s is updated with sync/atomic elsewhere but accessed here by a plain %s: mixed atomic/plain access is a data race", owner, a.Field.Name(), a.How))
				continue
			}
			g := guard[a.Field]
			mode := an.ModeR
			if a.Write {
				mode = an.ModeW
			}
			ls := la.At[a.Instr]
			base := an.Render(a.Base)
			ob := c.Ob("lockset", an.NameOf(fn), fmt.Sprintf("%s.%s %s", owner, a.Field.Name(), a.How), a.Instr.Pos())
			switch {
			case a.How == "addr-escapes":
				ob.Fail("the address of guarded field %s.%s escapes: accesses through it cannot be checked", owner, a.Field.Name())
			case ls.Holds(g, base, mode):
				ob.Ok("held: %s", ls.String())
			case ls.Holds(g, base, an.ModeR) && mode == an.ModeW:
				ob.Fail("%s.%s is written (%s) while %s is only read-locked", owner, a.Field.Name(), a.How, g.Name())
			default:
				ob.Fail("%s.%s is accessed (%s) without holding %s.%s; lockset here: %s", owner, a.Field.Name(), a.How, base, g.Name(), ls.String())
			}
		}
	}
	// completeness: every field store outside constructor context
	exc := map[string]string{
		"Session.logonRequest":       "setter",
		"Session.errorHandler":       "setter",
		"Session.unmarshaller":       "setter",
		"Session.LogonSettings":      "logon-handler",
		"LogonSettings.TargetCompID": "logon-handler",
		"LogonSettings.SenderCompID": "logon-handler",
	}
	var logonFn *ssa.Function
	if s := newSess(c); s != nil {
		logonFn = s.one(true, "Logon")
	}
	for _, fn := range fns {
		an.AllInstrs(fn, func(in ssa.Instruction) {
			st, ok := in.(*ssa.Store)
			if !ok {
				return
			}
			fa, ok := st.Addr.(*ssa.FieldAddr)
			if !ok {
				// a store through a pointer kept in a field of a library object (*p.counter = …) writes memory that is as
				// shared as the object; it needs a lock on that object like a field store
				if ld, isLd := st.Addr.(*ssa.UnOp); isLd && ld.Op == token.MUL {
					if pfa, isF := ld.X.(*ssa.FieldAddr); isF {
						pf := an.FieldOf(pfa)
						pn := an.NamedOf(pfa.X.Type())
						if pf != nil && pn != nil && pn.Obj().Pkg() != nil && strings.HasPrefix(pn.Obj().Pkg().Path(), core.ModPath) && !an.IsConstructorBase(pfa.X, fn) && !isLocalStruct(pfa.X) {
							ls := la.At[st]
							held := false
							for id := range ls {
								if id.Base == an.Render(pfa.X) {
									held = true
								}
							}
							c.Check(held, "complete", an.NameOf(fn), "store through pointer field "+fieldOwner(pf)+"."+pf.Name(), st.Pos(), "a lock of the same object is held: "+ls.String(),
								"memory reached through "+fieldOwner(pf)+"."+pf.Name()+" is written in "+an.NameOf(fn)+" with no lock of that object held (lockset "+ls.String()+"): concurrent callers race on it")
						}
					}
				}
				return
			}
			f := an.FieldOf(fa)
			if f == nil || guard[f] != nil || atomics[f] {
				return
			}
			owner := fieldOwner(f)
			n := an.NamedOf(fa.X.Type())
			if n == nil || n.Obj().Pkg() == nil || !strings.HasPrefix(n.Obj().Pkg().Path(), core.ModPath) {
				return
			}
			if an.IsConstructorBase(fa.X, fn) || isLocalStruct(fa.X) {
				return
			}
			key := owner + "." + an.FieldName(f)
			ob := c.Ob("complete", an.NameOf(fn), "store to "+key, st.Pos())
			switch exc[key] {
			case "setter":
				// premise: an exported one-block method that only performs this store
				if fn.Parent() == nil && len(fn.Blocks) == 1 && isExported(an.NameOf(fn)) && countStores(fn) == 1 {
					ob.Ok("configuration setter %s (documented to be called before the session runs); its only effect is this store", an.NameOf(fn))
				} else {
					ob.Fail("%s is a configure-before-run field but is stored in %s, which is not a plain setter", key, an.NameOf(fn))
				}
			case "logon-handler":
				okDom := false
				if fn == logonFn && logonFn != nil {
					nStart := 0
					okDom = true
					an.AllInstrs(fn, func(i2 ssa.Instruction) {
						if call, ok := i2.(*ssa.Call); ok && an.CalleeIs(&call.Call, "session", "Session.start") {
							nStart++
							if an.Reaches(call, st) || !an.Reaches(st, call) {
								okDom = false // the store can happen after the timers were started
							}
						}
					})
					if nStart == 0 {
						okDom = false
					}
				} else if logonFn != nil && !an.KnownFuncs[fn.String()] && onlyCalledUnder(fn, logonFn, fns, 0) {
					// the store lives in a helper that only the Logon handler runs: on the handler's interprocedural paths it
					// comes before start() and start() can follow it
					xp, _ := an.EnumPathsX(logonFn, 4096)
					nPass, nStart := 0, 0
					okDom = true
					for _, p := range xp {
						seenStore, startBefore, startAfter := false, false, false
						for _, i2 := range p.InstrSeq() {
							if i2 == ssa.Instruction(st) {
								seenStore = true
							}
							if call, ok := i2.(*ssa.Call); ok && an.CalleeIs(&call.Call, "session", "Session.start") {
								if seenStore {
									startAfter = true
								} else {
									startBefore = true
								}
							}
						}
						if !seenStore {
							continue
						}
						nPass++
						if startBefore {
							okDom = false
						}
						if startAfter {
							nStart++
						}
					}
					if nPass == 0 || nStart == 0 {
						okDom = false
					}
				}
				if okDom {
					ob.Ok("written by the Logon handler before start(): the timer goroutines are created afterwards, senders are ordered by the logon exchange")
				} else {
					ob.Fail("%s is replaced outside the Logon handler's pre-start section: concurrent senders and timer goroutines read it without synchronisation", key)
				}
			default:
				ob.Fail("field %s is written in %s outside its constructor but has no guard in the guarded-by table: a new shared mutable field needs a lock (or an entry with a reason)", key, an.NameOf(fn))
			}
		})
	}
	// fresh-message: a message handed to send is built for that send. Sent messages are retained by the message store and
	// serialized again by the resend path under DefaultHandler.mu only; re-stamping the same object from a timer goroutine
	// (under Session.mu) races with that read. Rule: a send inside a loop takes a message whose Build()/New() is inside the same loop.
	if s := newSess(c); s != nil {
		checkFreshMessages(c, s, "fresh-message")
	}
	// message-lock: the handler's send path touches the message object (outgoing handlers, which store it; ToBytes, which
	// rewrites its length, checksum and image) only with DefaultHandler.mu held — the resend path serializes stored objects under
	// the same mutex, so a window outside it lets a retransmission and the first transmission write one object at once.
	if hmu := c.Field("", "DefaultHandler", "mu"); c.Anchor("handler mutex", hmu != nil, "DefaultHandler.mu", token.NoPos) {
		n := 0
		for _, fn := range pkgFuncs(c.SSAPkg("")) {
			if fn.Signature.Recv() == nil || !an.TypeIs(fn.Signature.Recv().Type(), "simplefix-go", "DefaultHandler") {
				continue
			}
			an.AllInstrs(fn, func(in ssa.Instruction) {
				call, ok := in.(*ssa.Call)
				if !ok {
					return
				}
				what := ""
				if call.Call.IsInvoke() && call.Call.Method.Name() == "ToBytes" && an.TypeIs(call.Call.Value.Type(), "simplefix-go", "SendingMessage") {
					what = "serializes the outgoing message (ToBytes rewrites it)"
				}
				if cal := an.StaticCallee(&call.Call); cal != nil && an.FuncIs(cal, "simplefix-go", "OutgoingHandlerPool.Range") {
					what = "runs the outgoing handlers on the message"
				}
				if what == "" {
					return
				}
				n++
				ls := la.At[call]
				c.Check(ls.Holds(hmu, "h", an.ModeW), "message-lock", an.NameOf(fn), what+" under DefaultHandler.mu", call.Pos(), "held: "+ls.String(),
					an.NameOf(fn)+" "+what+" without DefaultHandler.mu (lockset "+ls.String()+"): a ResendRequest served meanwhile serializes the same stored object under that mutex — two goroutines write one message")
			})
		}
		// and nothing outside the handler serializes an outgoing message: package session hands messages to the handler (Send /
		// SendBatch), which serializes them under its mutex
		if sp := c.SSAPkg("session"); sp != nil {
			for _, fn := range pkgFuncs(sp) {
				an.AllInstrs(fn, func(in ssa.Instruction) {
					call, ok := in.(*ssa.Call)
					if !ok || !call.Call.IsInvoke() || call.Call.Method.Name() != "ToBytes" {
						return
					}
					t := call.Call.Value.Type()
					if an.TypeIs(t, "simplefix-go", "SendingMessage") || an.TypeIs(t, "messages", "Message") || an.TypeIs(t, "messages", "Builder") {
						c.Ob("message-lock", an.NameOf(fn), "serializes a message outside the handler", call.Pos()).Fail(
							"%s calls ToBytes on a message itself: ToBytes rewrites the object, and the handler serializes stored and outgoing messages only under DefaultHandler.mu — this call races with a send or resend of the same object", an.NameOf(fn))
					}
				})
			}
		}
		// what was handed to the writer goroutine is never written again
		checkImageFresh(c, "message-lock")
		c.Check(n >= 2, "message-lock", "", "message operations on the handler's send path found", token.NoPos, fmt.Sprint(n), fmt.Sprintf("only %d found (a Range call and ToBytes at least)", n))
	}
	// captured-variable: a local variable shared with a callback that another goroutine runs (event handler, AfterFunc, go,
	// registered message handler) is assigned only before the callback is created; a later assignment in the creating function
	// is an unsynchronised write to memory the callback reads.
	nCap := 0
	for _, fn := range fns {
		an.AllInstrs(fn, func(in ssa.Instruction) {
			mc, ok := in.(*ssa.MakeClosure)
			if !ok || !closureEscapesToOtherGoroutine(mc) {
				return
			}
			for i, b := range mc.Bindings {
				cell, isCell := b.(*ssa.Alloc)
				if !isCell {
					continue
				}
				nCap++
				fv := mc.Fn.(*ssa.Function).FreeVars[i]
				// does the closure read the variable?
				reads := false
				for _, f2 := range an.WithAnon(mc.Fn.(*ssa.Function)) {
					for _, v := range f2.FreeVars {
						if an.FreeVarBinding(v) == ssa.Value(cell) || v == fv {
							for _, ref := range *v.Referrers() {
								if u, isU := ref.(*ssa.UnOp); isU && u.Op == token.MUL {
									reads = true
								}
							}
						}
					}
				}
				if !reads {
					continue
				}
				late := ""
				for _, ref := range *cell.Referrers() {
					st, isSt := ref.(*ssa.Store)
					if !isSt || st.Addr != ssa.Value(cell) {
						continue
					}
					if an.Reaches(mc, st) {
						late = c.RelPos(st.Pos())
					}
				}
				c.Check(late == "", "captured-variable", an.NameOf(fn), "variable "+cell.Comment+" shared with "+mc.Fn.Name()+" is assigned before that callback exists", mc.Pos(), "all assignments precede the function literal",
					"variable "+cell.Comment+" is read by "+mc.Fn.Name()+", which another goroutine runs, and is assigned afterwards at "+late+" without synchronisation")
			}
		})
	}
	c.Extra["captured_cells"] = nCap
	c.Extra["functions"] = len(fns)
	c.Extra["guarded_accesses"] = nAcc
	// copylock: a mutex protects only if every party locks the same one. No struct that holds a sync.Mutex/RWMutex (or Once,
	// WaitGroup) by value is copied: no value receiver, parameter or result of such a type, and no load of a whole such struct
	{
		var holds func(t types.Type, depth int) string
		holds = func(t types.Type, depth int) string {
			if depth > 6 {
				return ""
			}
			if n, ok := t.(*types.Named); ok {
				if o := n.Obj(); o.Pkg() != nil && o.Pkg().Path() == "sync" {
					switch o.Name() {
					case "Mutex", "RWMutex", "Once", "WaitGroup", "Cond", "Map", "Pool":
						return "sync." + o.Name()
					}
				}
			}
			switch u := t.Underlying().(type) {
			case *types.Struct:
				for i := 0; i < u.NumFields(); i++ {
					if h := holds(u.Field(i).Type(), depth+1); h != "" {
						return h
					}
				}
			case *types.Array:
				return holds(u.Elem(), depth+1)
			}
			return ""
		}
		nTypes := 0
		seenT := map[string]bool{}
		for _, fn := range fns {
			sig := fn.Signature
			check := func(v *types.Var, what string) {
				if v == nil {
					return
				}
				if h := holds(v.Type(), 0); h != "" {
					c.Ob("copylock", an.NameOf(fn), what+" of "+an.NameOf(fn)+" is passed by value", fn.Pos()).Fail("%s of %s has type %s, which holds a %s by value: each call works on a copy of the lock, so callers no longer exclude each other (and a copy of a locked mutex stays locked for ever)", what, an.NameOf(fn), v.Type().String(), h)
				}
			}
			if fn.Synthetic == "" {
				check(sig.Recv(), "the receiver")
				for i := 0; i < sig.Params().Len(); i++ {
					check(sig.Params().At(i), "a parameter")
				}
				for i := 0; i < sig.Results().Len(); i++ {
					check(sig.Results().At(i), "a result")
				}
			}
			an.AllInstrs(fn, func(in ssa.Instruction) {
				if u, ok := in.(*ssa.UnOp); ok && u.Op == token.MUL {
					if h := holds(u.Type(), 0); h != "" {
						// loading a struct only to read one field of it (x := *p; x.f) does not occur in SSA form: a whole-struct
						// load is a copy
						c.Ob("copylock", an.NameOf(fn), "copy of "+an.Render(u.X), u.Pos()).Fail("a value of type %s (which holds a %s) is copied in %s", u.Type().String(), h, an.NameOf(fn))
					}
				}
				if al, ok := in.(*ssa.Alloc); ok {
					if h := holds(an.Deref(al.Type()), 0); h != "" && !seenT[an.Deref(al.Type()).String()] {
						seenT[an.Deref(al.Type()).String()] = true
						nTypes++
					}
				}
			})
		}
		c.Check(nTypes >= 3, "copylock", "", "lock-holding types found", token.NoPos, fmt.Sprint(nTypes), fmt.Sprintf("only %d lock-holding struct types allocated in the library", nTypes))
	}
	c.Explanation += " copylock: no struct holding a sync.Mutex/RWMutex/Once/WaitGroup by value is copied — no value receiver, parameter or result of such a type and no whole-struct load."
	// fresh-message (premise): constructors hand out objects of their own (a shared value object is written by the decoder on the
	// inbound goroutine and read by the senders); dispatch happens on the handler's own goroutine only
	checkFreshConstructors(c, "fresh-message")
	checkWhoDispatches(c, "fresh-message", libFuncs(c))
	c.RuleMin = map[string]int{"atomic": 7, "complete": 6, "fresh-message": 3, "lockset": 31, "message-lock": 3, "copylock": 1}
	c.MinObl = 30
}

func fieldOwner(f *types.Var) string {
	// find the named struct that declares f
	if f.Pkg() != nil {
		sc := f.Pkg().Scope()
		for _, n := range sc.Names() {
			if tn, ok := sc.Lookup(n).(*types.TypeName); ok {
				if st, ok := tn.Type().Underlying().(*types.Struct); ok {
					for i := 0; i < st.NumFields(); i++ {
						if st.Field(i) == f {
							return tn.Name()
						}
					}
				}
			}
		}
	}
	return "?"
}

func isLocalStruct(v ssa.Value) bool {
	// a struct value living in a local variable (e.g. errgroup.Group{}, a state literal), or an element of a local array /
	// of a literal that is being built (a table of struct values)
	switch x := v.(type) {
	case *ssa.Alloc:
		return !x.Heap || an.IsConstructorBase(x, x.Parent())
	case *ssa.IndexAddr:
		if al, ok := x.X.(*ssa.Alloc); ok {
			_ = al
			return true
		}
	}
	return false
}

func countStores(fn *ssa.Function) int {
	n := 0
	an.AllInstrs(fn, func(in ssa.Instruction) {
		if _, ok := in.(*ssa.Store); ok {
			n++
		}
	})
	return n
}

// checkFreshMessages: a message handed to a send primitive inside a loop is built (Build()/New()) inside the same loop — every
// message object is sent once, so what the store retains under a number is never re-stamped by a later send.
func checkFreshMessages(c *core.Ctx, s *sess, rule string) {
	nFresh := 0
	for _, fn := range s.allFuncs() {
		lps := loops(fn)
		an.AllInstrs(fn, func(in ssa.Instruction) {
			call, ok := in.(*ssa.Call)
			if !ok {
				return
			}
			cal := an.StaticCallee(&call.Call)
			if cal == nil || !s.isSendPrimitive(cal) {
				return
			}
			var lp []*ssa.BasicBlock
			for _, l := range lps {
				for _, b := range l {
					if b == call.Block() {
						lp = l
					}
				}
			}
			if lp == nil {
				return
			}
			nFresh++
			root := chainRoot(an.Unwrap(call.Call.Args[1]))
			inLp := false
			if ri, ok := root.(ssa.Instruction); ok {
				for _, b := range lp {
					if b == ri.Block() {
						inLp = true
					}
				}
			}
			rc, isCall := root.(*ssa.Call)
			okBuild := isCall && rc.Call.IsInvoke() && (rc.Call.Method.Name() == "Build" || rc.Call.Method.Name() == "New")
			c.Check(inLp && okBuild, rule, an.NameOf(fn), "each iteration sends a newly built message", call.Pos(), "Build() inside the loop",
				"the message sent in this loop is built outside it ("+an.Render(root)+"): the same object is stored for retransmission and re-stamped on the next iteration, unsynchronised with the resend path that serializes it")
		})
	}
	c.Check(nFresh >= 2, rule, "", "sends inside loops found", token.NoPos, fmt.Sprint(nFresh), "fewer looped sends than the two timer goroutines")
}

// closureEscapesToOtherGoroutine: the function literal is spawned with go, handed to time.AfterFunc, or registered as an event
// or message handler (those run on the handler's dispatch goroutine or a timer goroutine, not on the goroutine that creates them).
func closureEscapesToOtherGoroutine(mc *ssa.MakeClosure) bool {
	if mc.Referrers() == nil {
		return false
	}
	for _, ref := range *mc.Referrers() {
		var cc *ssa.CallCommon
		switch x := ref.(type) {
		case *ssa.Go:
			return true
		case *ssa.Call:
			cc = &x.Call
		case *ssa.MakeInterface, *ssa.ChangeType:
			// converted to a named func type before being passed on
			if v, ok := ref.(ssa.Value); ok && v.Referrers() != nil {
				for _, r2 := range *v.Referrers() {
					if call, isCall := r2.(*ssa.Call); isCall {
						cc = &call.Call
					}
				}
			}
		}
		if cc == nil {
			continue
		}
		name := ""
		if cc.IsInvoke() {
			name = cc.Method.Name()
		} else if cal := an.StaticCallee(cc); cal != nil {
			name = an.NameOf(cal)
			if cal.Pkg != nil && cal.Pkg.Pkg.Path() == "time" && name == "AfterFunc" {
				return true
			}
		}
		switch name {
		case "OnChangeState", "Handle", "HandleIncoming", "HandleOutgoing", "OnDisconnect", "OnConnect", "OnStopped":
			return true
		}
	}
	return false
}

// onlyCalledUnder: every use of fn in the library is a direct call from root or from functions that are themselves only called under root.
func onlyCalledUnder(fn, root *ssa.Function, fns []*ssa.Function, depth int) bool {
	if depth > 3 {
		return false
	}
	n := 0
	ok := true
	for _, caller := range fns {
		an.AllInstrs(caller, func(in ssa.Instruction) {
			cc := an.CallOf(in)
			for _, op := range in.Operands(nil) {
				if op != nil && *op == ssa.Value(fn) && (cc == nil || cc.Value != ssa.Value(fn)) {
					ok = false // used as a value
				}
			}
			if cc == nil || an.StaticCallee(cc) != fn {
				return
			}
			if _, isCall := in.(*ssa.Call); !isCall {
				ok = false // deferred or spawned
				return
			}
			n++
			if caller != root && !onlyCalledUnder(caller, root, fns, depth+1) {
				ok = false
			}
		})
	}
	return ok && n > 0
}
