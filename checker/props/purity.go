package props

import (
	"fmt"
	"go/token"
	"strings"

	"golang.org/x/tools/go/callgraph"
	"golang.org/x/tools/go/ssa"

	"sfcheck/an"
	"sfcheck/core"
)

// firstMutation looks for an instruction, in fn or in anything of the module it can call (static callees, and for interface
// calls every callee the VTA call graph gives the site), that writes memory fn did not allocate itself: a store through a
// parameter, a loaded pointer or a global, an update or delete on such a map, a copy into such a slice. It returns a
// description of the first one found ("" if there is none). Standard-library callees are taken to write only what they are
// handed by address; none of the callers in question hands them the message.
func firstMutation(c *core.Ctx, fn *ssa.Function, seen map[*ssa.Function]bool, depth int) string {
	if fn == nil || seen[fn] || len(fn.Blocks) == 0 || depth > 8 {
		return ""
	}
	seen[fn] = true
	local := func(addr ssa.Value) bool {
		for i := 0; i < 12; i++ {
			switch x := addr.(type) {
			case *ssa.FieldAddr:
				addr = x.X
			case *ssa.IndexAddr:
				addr = x.X
			case *ssa.Slice:
				addr = x.X
			case *ssa.Alloc, *ssa.MakeSlice, *ssa.MakeMap:
				return true
			case *ssa.Call:
				// append yields a slice of its own or of its first argument
				if b, ok := x.Call.Value.(*ssa.Builtin); ok && b.Name() == "append" {
					addr = x.Call.Args[0]
					continue
				}
				return false
			case *ssa.Phi:
				for _, e := range x.Edges {
					if e != ssa.Value(x) {
						addr = e
						break
					}
				}
			case *ssa.Const:
				return true // nil
			default:
				return false
			}
		}
		return false
	}
	var cgNode *callgraph.Node
	out := ""
	an.AllInstrs(fn, func(in ssa.Instruction) {
		if out != "" {
			return
		}
		where := func(what string) string {
			return fmt.Sprintf("%s in %s (%s)", what, an.NameOf(fn), c.RelPos(in.Pos()))
		}
		switch x := in.(type) {
		case *ssa.Store:
			if !local(x.Addr) {
				out = where("a store to " + an.Render(x.Addr))
			}
		case *ssa.MapUpdate:
			if !local(x.Map) {
				out = where("an update of the map " + an.Render(x.Map))
			}
		case *ssa.Send:
			out = where("a channel send")
		}
		cc := an.CallOf(in)
		if cc == nil || out != "" {
			return
		}
		if b, ok := cc.Value.(*ssa.Builtin); ok {
			switch b.Name() {
			case "copy", "delete":
				if !local(cc.Args[0]) {
					out = where(b.Name() + " into " + an.Render(cc.Args[0]))
				}
			}
			return
		}
		var callees []*ssa.Function
		if cal := an.StaticCallee(cc); cal != nil {
			callees = append(callees, cal)
		} else {
			if cgNode == nil {
				cgNode = c.CallGraph().Nodes[fn]
			}
			if cgNode != nil {
				for _, e := range cgNode.Out {
					if e.Site == in.(ssa.CallInstruction) {
						callees = append(callees, e.Callee.Func)
					}
				}
			}
		}
		for _, cal := range callees {
			if cal == nil || cal.Pkg == nil || !strings.HasPrefix(cal.Pkg.Pkg.Path(), core.ModPath) {
				continue
			}
			if m := firstMutation(c, cal, seen, depth+1); m != "" {
				out = m + ", reached from " + an.NameOf(fn)
				return
			}
		}
	})
	return out
}

// checkReadOnly: the named functions compute from the message without changing it (rule for C01.L2: between the moment the body
// length is measured and the moment the measured bytes are assembled, nothing may alter what is measured — including the two
// computations themselves).
func checkReadOnly(c *core.Ctx, rule string, fns ...*ssa.Function) {
	for _, fn := range fns {
		if fn == nil {
			continue
		}
		m := firstMutation(c, fn, map[*ssa.Function]bool{}, 0)
		c.Check(m == "", rule, an.NameOf(fn), "computes from the message without modifying it", fn.Pos(), "no store outside its own locals, transitively", m+": the message that is assembled is not the message that was measured")
	}
	_ = token.NoPos
}
