package props

import (
	"fmt"
	"go/token"
	"strings"

	"golang.org/x/tools/go/ssa"

	"sfcheck/an"
	"sfcheck/core"
)

func init() {
	register(&Check{ID: "C18", NeedSSA: true, Run: runC18})
}

var searchFuncs = map[string]int{ // name → index of the needle argument
	"Index": 1, "LastIndex": 1, "Contains": 1, "HasPrefix": 1, "HasSuffix": 1, "Equal": 1, "IndexByte": 1, "LastIndexByte": 1,
	"Split": 1, "SplitN": 1, "Count": 1, "Cut": 1, "IndexAny": 1, "ContainsAny": 1, "EqualFold": 1, "TrimPrefix": 1, "TrimSuffix": 1, "Fields": -1, "FieldsFunc": -1, "IndexFunc": -1,
}

// tagDerived reports whether a layout contains a tag-valued atom.
// tagParamSites: the needle of a search inside fn contains a parameter of fn — a helper introduced after the rules were written,
// not part of their vocabulary — and at every static call site of fn the argument for that parameter is itself tag-derived:
// the number of those call sites (0 if the atom is not such a parameter).
func tagParamSites(fn *ssa.Function, atom string) int {
	if fn == nil || fn.Pkg == nil || an.IsKnown(fn) {
		return 0
	}
	for i, prm := range fn.Params {
		if an.Render(prm) != atom {
			continue
		}
		n := 0
		for _, caller := range pkgFuncs(fn.Pkg) {
			bad := false
			an.AllInstrs(caller, func(in ssa.Instruction) {
				cc := an.CallOf(in)
				if cc == nil || an.StaticCallee(cc) != fn || i >= len(cc.Args) {
					return
				}
				ev := &an.SeqEval{}
				if tagDerivedIn(caller, ev.Eval(cc.Args[i]).Norm()) {
					n++
				} else {
					bad = true
				}
			})
			if bad {
				return 0
			}
		}
		return n
	}
	return 0
}

// tagDerivedIn is tagDerived for a needle built inside fn: a parameter that only ever receives tags counts as one.
func tagDerivedIn(fn *ssa.Function, s an.Seq) bool {
	if tagDerived(s) {
		return true
	}
	for _, p := range s {
		if p.Atom != "" && tagParamSites(fn, p.Atom) > 0 {
			return true
		}
	}
	return false
}

func tagDerived(s an.Seq) bool {
	for _, p := range s {
		if p.Atom == "" {
			continue
		}
		a := p.Atom
		if strings.HasSuffix(a, ".Key") || a == "tag" || strings.HasSuffix(a, "Tag()") || (strings.HasPrefix(a, "strconv.Itoa(") && strings.Contains(a, "Tags.")) {
			return true
		}
	}
	return false
}

func runC18(c *core.Ctx, o Options) {
	c.Explanation = "Needle-shape rule over every byte/string search call of the decoder (package fix/encoding), fix.ValueByTag and the connection reader: the needle's layout is inferred with the byte-layout engine. A needle that is derived from a tag must be SOH·tag·'=' when searched for inside a buffer, " +
		"or tag·'=' when compared against the start of a buffer that begins at a field boundary (the whole message, a segment returned by ReadBytes(SOH)); the repeating-group separator must be the prefix, up to and including '=', of a slice that starts at the position where the delimiter after the count field was found; " +
		"the end-of-message constant is compared only against the start of a segment. Packages root and session search raw bytes nowhere else (they go through ValueByTag/Unmarshal). Decides anchoring for every message content; which of several well-anchored occurrences is chosen (duplicate tags) is not decided."
	enc := c.SSAPkg("fix/encoding")
	if !c.Anchor("decoder package", enc != nil, "fix/encoding", token.NoPos) {
		return
	}
	var scope []*ssa.Function
	scope = append(scope, pkgFuncs(enc)...)
	if f := c.Func("fix", "ValueByTag"); f != nil {
		scope = append(scope, f)
	}
	// the checksum function is handed message bytes by the serializer and by the validation: a search for "10=" inside it is an
	// end-of-message detection like the reader's
	if f := c.Func("fix", "CalcCheckSum"); f != nil {
		scope = append(scope, f)
	}
	readerGroup := map[*ssa.Function]bool{}
	for _, g := range readerScope(c) {
		scope = append(scope, g)
		readerGroup[g] = true
	}
	nTag := needleCensus(c, "needle", scope)
	c.Check(nTag >= 6, "needle", "", "tag searches found", token.NoPos, fmt.Sprint(nTag), fmt.Sprintf("only %d tag-derived searches found; 6 were confirmed by reading", nTag))
	checkGroupSeparator(c, "needle")
	// end-of-message detection: the segment the CheckSum tag is compared with is a whole field — the reader consumes the stream
	// with one ReadBytes(SOH) site, keeps what it read, and a read error ends it (the framing rules C04·F1–F3): a byte-wise matcher
	// that restarts inside a tag, or a reader that resumes a field after a timeout, lets "10=" match in the middle of a field
	c.RulePrefix = "frame"
	framingRules(c, libFuncs(c))
	c.RulePrefix = ""
	// ---- the lookups the handler and the session make on raw bytes use the configured tags
	for _, pk := range []string{"", "session"} {
		pkg := c.SSAPkg(pk)
		for _, fn := range pkgFuncs(pkg) {
			an.AllInstrs(fn, func(in ssa.Instruction) {
				call, ok := in.(*ssa.Call)
				if !ok {
					return
				}
				cal := an.StaticCallee(&call.Call)
				if cal == nil || cal.Pkg == nil {
					return
				}
				if (cal.Pkg.Pkg.Path() == "bytes" || cal.Pkg.Pkg.Path() == "strings") && !readerGroup[fn] {
					if _, isSearch := searchFuncs[an.NameOf(cal)]; isSearch {
						// strings.Contains(err.Error(), …) is not a search on message bytes
						if strings.Contains(an.Render(call.Call.Args[0]), ".Error()") {
							return
						}
						c.Ob("raw", an.NameOf(fn), cal.Pkg.Pkg.Name()+"."+an.NameOf(cal)+" on "+an.Render(call.Call.Args[0]), call.Pos()).Fail("package %s searches bytes directly; raw messages must be inspected through fix.ValueByTag or the unmarshaller so that tags are recognised only at field boundaries", fn.Pkg.Pkg.Name())
					}
				}
				if an.FuncIs(cal, "fix", "ValueByTag") {
					tag := an.Render(call.Call.Args[1])
					ok := tag == "h.msgTypeTag" || strings.HasPrefix(tag, "strconv.Itoa(s.") && (strings.HasSuffix(tag, "Tags.MsgSeqNum)") || strings.HasSuffix(tag, "Tags.MsgType)"))
					c.Check(ok, "raw", an.NameOf(fn), "ValueByTag("+an.Render(call.Call.Args[0])+", "+tag+")", call.Pos(), "a configured tag", "ValueByTag is asked for "+tag)
				}
			})
		}
	}
	c.Explanation += " frame (= C04.F1–F3): the segment the end-of-message tag is compared with is a whole field — one ReadBytes(SOH) site, nothing read is dropped or re-used, a read error ends the reader."
	checkKeyValuePlain(c, "raw")
	c.RuleMin = map[string]int{"needle": 10, "raw": 4, "frame": 8}
	c.MinObl = 13
}

func isByte(p an.Part, b byte) bool { return p.Atom == "" && len(p.Bytes) == 1 && p.Bytes[0] == b }

func isParam(v ssa.Value) bool {
	_, ok := v.(*ssa.Parameter)
	return ok
}

// isReadSegment: v is result #0 of a bufio ReadBytes call.
func isReadSegment(v ssa.Value) bool {
	// the parameter of a predicate cut out of the reader stands for the argument at its only call site
	if p, isP := v.(*ssa.Parameter); isP && p.Parent() != nil {
		if w, has := an.OwnerSub(p.Parent())[p]; has && w != v {
			return isReadSegment(w)
		}
	}
	ex, ok := v.(*ssa.Extract)
	if !ok || ex.Index != 0 {
		return false
	}
	call, ok := ex.Tuple.(*ssa.Call)
	return ok && an.CalleeIs(&call.Call, "bufio", "Reader.ReadBytes")
}

// needleCensus applies the needle-shape rule to every byte/string search call of the given functions; it returns the number of tag-derived searches.
func needleCensus(c *core.Ctx, rule string, scope []*ssa.Function) int {
	nTag := 0
	for _, fn := range scope {
		an.AllInstrs(fn, func(in ssa.Instruction) {
			call, ok := in.(*ssa.Call)
			if !ok {
				return
			}
			cal := an.StaticCallee(&call.Call)
			if cal == nil || cal.Pkg == nil || (cal.Pkg.Pkg.Path() != "bytes" && cal.Pkg.Pkg.Path() != "strings") {
				return
			}
			ni, isSearch := searchFuncs[an.NameOf(cal)]
			if !isSearch {
				return
			}
			name := cal.Pkg.Pkg.Name() + "." + an.NameOf(cal)
			if ni < 0 {
				c.Ob(rule, an.NameOf(fn), name+" on raw message bytes", call.Pos()).Unknown("function-based search: cannot infer what is matched")
				return
			}
			ev := &an.SeqEval{}
			needle := ev.Eval(call.Call.Args[ni]).Norm()
			if strings.HasSuffix(an.NameOf(cal), "Byte") {
				if k, ok := an.ConstInt(call.Call.Args[ni]); ok {
					needle = an.Seq{{Bytes: []byte{byte(k)}}}
				}
			}
			hay := an.Render(call.Call.Args[0])
			shape := needle.String()
			parts := splitConst(needle)
			isTag := tagDerivedIn(fn, needle)
			isEOM := shape == "'10='"
			key := fmt.Sprintf("%s(%s, %s)", name, hay, shape)
			switch {
			case isTag:
				nTag++
				// a search in a helper that receives the tag stands for one search per call site of the helper
				if !tagDerived(needle) {
					for _, p := range needle {
						if k := tagParamSites(fn, p.Atom); p.Atom != "" && k > 1 {
							nTag += k - 1
						}
					}
				}
				ob := c.Ob(rule, an.NameOf(fn), key, call.Pos())
				anchored := len(parts) == 3 && isByte(parts[0], 1) && parts[1].Atom != "" && isByte(parts[2], '=')
				startForm := len(parts) == 2 && parts[0].Atom != "" && isByte(parts[1], '=')
				switch an.NameOf(cal) {
				case "Index":
					if anchored {
						ob.Ok("searched as SOH·tag·'='")
					} else {
						ob.Fail("the tag is searched as %s: without the leading SOH and the trailing '=' the match can lie inside another tag (1146= for 146=) or inside a value", shape)
					}
				case "HasPrefix":
					if startForm && (isParam(call.Call.Args[0]) || isReadSegment(call.Call.Args[0])) {
						ob.Ok("compared as tag·'=' with the start of a buffer that begins at a field boundary")
					} else {
						ob.Fail("start-of-buffer comparison with %s on %s: the needle must be tag·'=' and the buffer must begin at a field boundary", shape, hay)
					}
				case "Equal":
					// Equal(buf[:len(needle)], needle) is the hand-written form of HasPrefix (its bounds are C11's concern)
					okEq := false
					if sl, ok := call.Call.Args[0].(*ssa.Slice); ok && startForm && (isParam(sl.X) || isReadSegment(sl.X)) {
						lo := int64(0)
						if sl.Low != nil {
							lo, _ = an.ConstInt(sl.Low)
						}
						if lo == 0 && sl.High != nil && an.Render(sl.High) == "len("+an.Render(call.Call.Args[ni])+")" {
							okEq = true
						}
					}
					if okEq {
						ob.Ok("compared as tag·'=' with the first len(needle) bytes of a buffer that begins at a field boundary")
					} else {
						ob.Fail("bytes.Equal with a tag-derived needle %s on %s: only Equal(buf[:len(needle)], needle) on a buffer that begins at a field boundary is a start-anchored comparison", shape, hay)
					}
				default:
					ob.Fail("%s with a tag-derived needle %s: only an SOH-anchored Index or a start-of-buffer HasPrefix recognise a tag at a field boundary", name, shape)
				}
			case isEOM:
				nTag++
				ob := c.Ob(rule, an.NameOf(fn), key, call.Pos())
				// Equal(seg[0:3], "10=") or HasPrefix(seg, "10=")
				okStart := false
				if an.NameOf(cal) == "HasPrefix" && isReadSegment(call.Call.Args[0]) {
					okStart = true
				}
				if an.NameOf(cal) == "Equal" {
					if sl, ok := call.Call.Args[0].(*ssa.Slice); ok && isReadSegment(sl.X) {
						lo, hi := int64(0), int64(-1)
						if sl.Low != nil {
							lo, _ = an.ConstInt(sl.Low)
						}
						if sl.High != nil {
							hi, _ = an.ConstInt(sl.High)
						}
						okStart = lo == 0 && hi == 3
					}
				}
				if okStart {
					ob.Ok("the CheckSum tag is compared with the first three bytes of the segment that follows a delimiter")
				} else {
					ob.Fail("the end-of-message tag is matched with %s on %s: only a comparison with the start of the segment read up to the last delimiter recognises tag 10 at a field boundary (110=…, or a value containing 10=, would end the message early)", name, hay)
				}
			case an.NameOf(cal) == "HasSuffix" && len(parts) == 3 && isByte(parts[0], 1) && isByte(parts[2], 1) && strings.HasSuffix(parts[1].Atom, ".ToBytes()"):
				// the trailer test: a whole field, between its delimiters, compared with the end of the buffer
				c.Ob(rule, an.NameOf(fn), key, call.Pos()).Ok("a whole field with both delimiters compared with the end of the buffer")
			case shape == "'␁'":
				c.Check(an.NameOf(cal) == "Index" || an.NameOf(cal) == "IndexByte", rule, an.NameOf(fn), key, call.Pos(), "next delimiter", "the delimiter is located with "+name+": a value ends at the first delimiter after it")
			default:
				// data-derived or constant needles: the group separator and the '=' search are checked below
				if an.NameOf(cal) == "IndexByte" && shape == "'='" {
					return
				}
				if an.NameOf(cal) == "Index" && (shape == "'='" || (an.NameOf(fn) == "splitGroup" && call.Call.Args[ni] == ssa.Value(fn.Params[1]))) {
					return
				}
				if an.NameOf(cal) == "Equal" && strings.HasPrefix(shape, "⟨fix.CalcCheckSum(") {
					return // comparison of the declared with the recomputed checksum (C03.V2), not a search
				}
				c.Ob(rule, an.NameOf(fn), key, call.Pos()).Unknown("unclassified search on message bytes with needle %s", shape)
			}
		})
	}
	return nTag
}

// checkGroupSeparator: the repeating-group separator is SOH·firstTag·'=' taken at the delimiter after the count field, and
// splitGroup searches for the whole separator after the current entry's first byte.
func checkGroupSeparator(c *core.Ctx, rule string) {
	// ---- the repeating-group separator
	um := c.Func("fix/encoding", "state.unmarshal")
	sg := c.Func("fix/encoding", "splitGroup")
	if c.Anchor("group splitting", um != nil && sg != nil, "state.unmarshal / splitGroup", posOf(um)) {
		var call *ssa.Call
		var site *ssa.Call // where a helper cut out of the group case (holding the call) is called
		for _, fn := range pkgFuncs(um.Pkg) {
			if fn != um {
				if owner, chain := an.LogicalOwner(fn); owner != um || len(chain) != 1 {
					continue
				}
			}
			an.AllInstrs(fn, func(in ssa.Instruction) {
				if cl, ok := in.(*ssa.Call); ok && an.StaticCallee(&cl.Call) == sg {
					call = cl
					if fn != um {
						_, chain := an.LogicalOwner(fn)
						site = chain[0]
					}
				}
			})
		}
		ob := c.Ob(rule, "state.unmarshal", "group separator = SOH·firstTag·'=' taken at the delimiter after the count field", posOf(um))
		if call == nil {
			ob.Fail("splitGroup is not called")
		} else {
			sep, okS := call.Call.Args[1].(*ssa.Slice)
			line, okL := call.Call.Args[0].(*ssa.Slice)
			switch {
			case !okS || !okL || sep.X != ssa.Value(line) || sep.Low != nil:
				ob.Fail("the separator %s is not a prefix of the byte string being split", an.Render(call.Call.Args[1]))
			case line.High != nil || line.Low == nil:
				ob.Fail("the string being split is %s", an.Render(line))
			default:
				lo := an.Render(line.Low)
				base := an.Render(line.X)
				hi := an.Render(sep.High)
				// lo must be  (a + bytes.Index(base[a:], Delimiter))  and  hi  (bytes.Index(line, '=') + 1)
				okLo := false
				if bo, ok := line.Low.(*ssa.BinOp); ok && bo.Op == token.ADD {
					for _, pair := range [][2]ssa.Value{{bo.X, bo.Y}, {bo.Y, bo.X}} {
						if idx, ok := pair[1].(*ssa.Call); ok && an.CalleeIs(&idx.Call, "bytes", "Index") {
							ev := &an.SeqEval{}
							if ev.Eval(idx.Call.Args[1]).Norm().String() == "'␁'" && an.Render(idx.Call.Args[0]) == base+"["+an.Render(pair[0])+":]" {
								okLo = true
							}
						}
					}
				}
				// in a helper that is handed the data from the count field on (data[a:] at its call site): line = p[Index(p, SOH):]
				if idx, ok := line.Low.(*ssa.Call); ok && site != nil && an.CalleeIs(&idx.Call, "bytes", "Index") && idx.Call.Args[0] == line.X {
					if prm, isP := line.X.(*ssa.Parameter); isP {
						ev := &an.SeqEval{}
						for i, q := range prm.Parent().Params {
							if q == prm && i < len(site.Call.Args) {
								if arg, isSl := site.Call.Args[i].(*ssa.Slice); isSl && arg.Low != nil && arg.High == nil && ev.Eval(idx.Call.Args[1]).Norm().String() == "'␁'" {
									okLo = true
								}
							}
						}
					}
				}
				okHi := false
				if bo, ok := sep.High.(*ssa.BinOp); ok && bo.Op == token.ADD {
					if k, ok := an.ConstInt(bo.Y); ok && k == 1 {
						if idx, ok := bo.X.(*ssa.Call); ok && an.CalleeIs(&idx.Call, "bytes", "Index") && idx.Call.Args[0] == ssa.Value(line) {
							ev := &an.SeqEval{}
							if ev.Eval(idx.Call.Args[1]).Norm().String() == "'='" {
								okHi = true
							}
						}
						if idx, ok := bo.X.(*ssa.Call); ok && an.CalleeIs(&idx.Call, "bytes", "IndexByte") && idx.Call.Args[0] == ssa.Value(line) {
							if k, isK := an.ConstInt(idx.Call.Args[1]); isK && k == '=' {
								okHi = true
							}
						}
					}
				}
				if okLo && okHi {
					ob.Ok("separator = line[:Index(line,'=')+1] with line = data[a+Index(data[a:], SOH):]")
				} else {
					ob.Fail("the separator must start at the delimiter that follows the count field and end with the first '=' (line starts at %s, separator ends at %s): otherwise entries are also cut inside values and longer tags", lo, hi)
				}
			}
		}
		// splitGroup searches for the separator strictly after the first byte and cuts at the match
		okSplit := false
		an.AllInstrs(sg, func(in ssa.Instruction) {
			if cl, ok := in.(*ssa.Call); ok && an.CalleeIs(&cl.Call, "bytes", "Index") && cl.Call.Args[1] == ssa.Value(sg.Params[1]) {
				if sl, ok := cl.Call.Args[0].(*ssa.Slice); ok && sl.High == nil {
					if k, ok := an.ConstInt(sl.Low); ok && k == 1 {
						okSplit = true
					}
				}
			}
		})
		c.Check(okSplit, rule, "splitGroup", "the next entry is found by searching the whole separator after the current entry's first byte", sg.Pos(), "Index(line[1:], firstTag)", "splitGroup does not search Index(line[1:], separator)")
	}
}

// readerScope: Conn.runReader and the helpers cut out of it (a predicate for the end-of-message test belongs to the reader).
func readerScope(c *core.Ctx) []*ssa.Function {
	f := c.Func("", "Conn.runReader")
	if f == nil {
		return nil
	}
	out := []*ssa.Function{f}
	for _, g := range pkgFuncs(f.Pkg) {
		if owner, _ := an.LogicalOwner(g); owner == f && g != f {
			out = append(out, g)
		}
	}
	return out
}
