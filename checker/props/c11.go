package props

import (
	"bufio"
	"bytes"
	"fmt"
	"go/token"
	"go/types"
	"os/exec"
	"path/filepath"
	"regexp"
	"sort"
	"strings"

	"golang.org/x/tools/go/ssa"

	"sfcheck/an"
	"sfcheck/core"
)

func init() {
	register(&Check{ID: "C11", NeedSSA: true, Run: runC11})
}

// gcResidualBounds runs the Go compiler's bounds-check-elimination report: the sites it lists are the ones its prove pass could NOT discharge.
func gcResidualBounds(c *core.Ctx) (map[string]bool, error) {
	cmd := exec.Command("go", "build", "-gcflags="+core.ModPath+"/...=-d=ssa/check_bce/debug=1", "./...")
	cmd.Dir = c.Repo
	cmd.Env = core.GoEnv()
	if c.Cfg.Tags != "" {
		cmd.Args = append(cmd.Args[:2], append([]string{"-tags", c.Cfg.Tags}, cmd.Args[2:]...)...)
	}
	out, err := cmd.CombinedOutput()
	re := regexp.MustCompile(`^(.*\.go):(\d+):(\d+): Found (IsInBounds|IsSliceInBounds)`)
	res := map[string]bool{}
	sc := bufio.NewScanner(bytes.NewReader(out))
	n := 0
	for sc.Scan() {
		m := re.FindStringSubmatch(strings.TrimSpace(sc.Text()))
		if m == nil {
			continue
		}
		n++
		res[filepath.ToSlash(strings.TrimPrefix(m[1], "./"))+":"+m[2]+":"+m[3]] = true
	}
	if err != nil && n == 0 {
		return nil, fmt.Errorf("go build with the bounds-check report failed: %v: %s", err, string(out))
	}
	return res, nil
}

// preconditions of helper functions (each is proved at every call site and assumed inside).
var c11Preconds = map[string][]string{
	"splitGroup": {"len(line) >= 1", "len(firstTag) >= 1"},
}

func precondFacts(fn *ssa.Function) []an.Fact {
	var out []an.Fact
	for i, pc := range c11Preconds[an.NameOf(fn)] {
		// "len(x) >= k": the i-th precondition is about the i-th parameter, whatever it is called in the source
		var name string
		var k int64
		fmt.Sscanf(strings.ReplaceAll(pc, "len(", ""), "%s >= %d", &name, &k)
		name = strings.TrimSuffix(name, ")")
		if i < len(fn.Params) {
			name = an.Render(fn.Params[i])
		}
		l := an.LForm{C: map[string]int64{"len(" + name + ")": 1}, K: -k}
		out = append(out, an.Fact{L: l, Why: "precondition " + pc + " (proved at every call site)"})
	}
	return out
}

func runC11(c *core.Ctx, o Options) {
	c.Explanation = "Panic census over the decoder set (everything reachable, through the VTA call graph restricted to the module, from encoding.Unmarshal, DefaultUnmarshaller.Unmarshal, fix.ValueByTag and DefaultHandler.serve, plus the raw-bytes helpers of package session): every slice expression and index operation, every non-comma-ok type assertion and every explicit panic is an obligation. " +
		"A bounds obligation is discharged (1) by the Go compiler's prove pass (the site is absent from the bounds-check report -d=ssa/check_bce), or (2) by the linear-inequality engine: on every acyclic path to the site the goal 0 ≤ low ≤ high ≤ len is a non-negative combination of facts collected on that path (branch conditions, post-conditions of executed slice expressions, bytes.Index/HasPrefix/Join/make facts, range indices, tabled preconditions proved at each call site and loop invariants proved by induction), or (3) by a tabled exception whose premises are stated. " +
		"Type assertions are discharged by the codec table (Int.Value() returns int). Termination: every loop in the set is a range loop, a counted loop with an invariant bound, or has a variant (the exit flag is cleared or the loop-carried slice is re-sliced from an offset proved ≥ 1). " +
		"Not decided: recursion depth on pathological templates (finite by construction), memory use, nil fields inside application-built templates."
	c.Assume("message templates are well formed: the three framing tags are distinct and every KeyValue of a template has a non-nil Value")
	resid, err := gcResidualBounds(c)
	if err != nil {
		c.Ob("bounds", "", "compiler bounds-check report", token.NoPos).Unknown("%v", err)
		return
	}
	c.Extra["gc_residual_sites_total"] = len(resid)
	// ---- the decoder set
	cg := c.CallGraph()
	var entries []*ssa.Function
	for _, e := range []struct{ rel, name string }{{"fix/encoding", "Unmarshal"}, {"fix/encoding", "DefaultUnmarshaller.Unmarshal"}, {"fix", "ValueByTag"}, {"", "DefaultHandler.serve"}, {"session", "Session.RejectMessage"}, {"", "Conn.runReader"}} {
		fn := c.Func(e.rel, e.name)
		if c.Anchor("decoder entry "+e.name, fn != nil, e.name, posOf(fn)) {
			entries = append(entries, fn)
		}
	}
	if s := newSess(c); s != nil {
		for _, r := range s.regs {
			if r.In && r.Fn != nil {
				entries = append(entries, r.Fn)
			}
		}
	}
	set := map[*ssa.Function]bool{}
	work := append([]*ssa.Function(nil), entries...)
	for len(work) > 0 {
		f := work[0]
		work = work[1:]
		if f == nil || set[f] || f.Pkg == nil {
			continue
		}
		pp := f.Pkg.Pkg.Path()
		if !strings.HasPrefix(pp, core.ModPath) || strings.Contains(pp, "/tests") || strings.Contains(pp, "/examples") || strings.Contains(pp, "/generator") || strings.Contains(pp, "/storages") {
			continue
		}
		if len(f.Blocks) == 0 {
			continue
		}
		set[f] = true
		if n := cg.Nodes[f]; n != nil {
			for _, e := range n.Out {
				// dynamic dispatch to registered handlers is covered by listing the session's handlers as entries;
				// goroutines started from the inbound path (the timers) are not part of it
				if _, isGo := e.Site.(*ssa.Go); isGo {
					continue
				}
				work = append(work, e.Callee.Func)
			}
		}
	}
	var fns []*ssa.Function
	for f := range set {
		fns = append(fns, f)
	}
	sort.Slice(fns, func(i, j int) bool { return fns[i].String() < fns[j].String() })
	c.Extra["decoder_set_functions"] = len(fns)
	c.Check(len(fns) >= 40, "bounds", "", "decoder set enumerated", token.NoPos, fmt.Sprintf("%d functions", len(fns)), fmt.Sprintf("only %d functions reachable from the decoder entry points", len(fns)))

	nSites, nGC, nLin, nExc := 0, 0, 0, 0
	for _, fn := range fns {
		heads := an.LoopHeads(fn)
		var paths []*an.Path
		getPaths := func() []*an.Path {
			if paths == nil {
				paths, _ = an.EnumPaths(fn, 20000)
			}
			return paths
		}
		// loop invariants of this function, proved by induction: len(loop-carried slice) ≥ 1 where needed
		var inv []an.Fact
		inv = append(inv, precondFacts(fn)...)
		if an.NameOf(fn) == "splitGroup" {
			if f, why := proveLenInvariant(c, fn, heads, getPaths(), inv); why == "" {
				inv = append(inv, f...)
			} else {
				c.Ob("bounds", an.NameOf(fn), "loop invariant len(line) ≥ 1", fn.Pos()).Fail("%s", why)
			}
		}
		an.AllInstrs(fn, func(in ssa.Instruction) {
			switch x := in.(type) {
			case *ssa.Slice, *ssa.IndexAddr, *ssa.Index:
				// arrays with constant indices / literal construction are not obligations
				var goals []struct {
					what string
					mk   func(p *an.Prover) an.LForm
				}
				switch y := x.(type) {
				case *ssa.Slice:
					if al, ok := y.X.(*ssa.Alloc); ok && y.Low == nil && y.High == nil {
						_ = al
						return // slice of a literal array
					}
					if _, isStr := y.X.Type().Underlying().(interface{ String() string }); isStr {
					}
					goals = append(goals, struct {
						what string
						mk   func(p *an.Prover) an.LForm
					}{"low ≥ 0", func(p *an.Prover) an.LForm {
						if y.Low == nil {
							return an.LForm{C: map[string]int64{}}
						}
						return p.Lin(y.Low)
					}}, struct {
						what string
						mk   func(p *an.Prover) an.LForm
					}{"low ≤ high", func(p *an.Prover) an.LForm {
						lo := an.LForm{C: map[string]int64{}}
						if y.Low != nil {
							lo = p.Lin(y.Low)
						}
						var hi an.LForm
						if y.High != nil {
							hi = p.Lin(y.High)
						} else {
							hi = p.LenOf(y.X)
						}
						return hi.Add(lo, -1)
					}}, struct {
						what string
						mk   func(p *an.Prover) an.LForm
					}{"high ≤ len", func(p *an.Prover) an.LForm {
						if y.High == nil {
							return an.LForm{C: map[string]int64{}}
						}
						return p.LenOf(y.X).Add(p.Lin(y.High), -1)
					}})
				case *ssa.IndexAddr:
					if _, ok := y.X.(*ssa.Alloc); ok {
						if _, isC := y.Index.(*ssa.Const); isC {
							return // element of a literal array
						}
					}
					goals = append(goals, struct {
						what string
						mk   func(p *an.Prover) an.LForm
					}{"index ≥ 0", func(p *an.Prover) an.LForm { return idxLow(p, y.Index) }}, struct {
						what string
						mk   func(p *an.Prover) an.LForm
					}{"index < len", func(p *an.Prover) an.LForm {
						return p.LenOf(y.X).Add(p.Lin(y.Index), -1).Add(an.LForm{C: map[string]int64{}, K: 1}, -1)
					}})
				case *ssa.Index:
					goals = append(goals, struct {
						what string
						mk   func(p *an.Prover) an.LForm
					}{"index ≥ 0", func(p *an.Prover) an.LForm { return idxLow(p, y.Index) }}, struct {
						what string
						mk   func(p *an.Prover) an.LForm
					}{"index < len", func(p *an.Prover) an.LForm {
						return p.LenOf(y.X).Add(p.Lin(y.Index), -1).Add(an.LForm{C: map[string]int64{}, K: 1}, -1)
					}})
				}
				nSites++
				pos := c.RelPos(in.Pos())
				desc := an.Render(in.(ssa.Value))
				ob := c.Ob("bounds", an.NameOf(fn), desc, in.Pos())
				if !resid[pos] && in.Pos().IsValid() {
					nGC++
					ob.Ok("proved by the Go compiler's prove pass (not in the residual bounds-check report)")
					return
				}
				// linear engine on every path through the site
				var failed string
				nPaths := 0
				for _, p := range getPaths() {
					if !p.Passes(in) {
						continue
					}
					nPaths++
					pr := an.NewProver(fn, p, in, inv)
					for _, g := range goals {
						ok, _ := pr.Prove(g.mk(pr))
						if !ok {
							var fs []string
							for _, f := range pr.Facts {
								fs = append(fs, f.L.String()+" ≥ 0")
							}
							failed = fmt.Sprintf("%s is not implied on the path [%s] (goal %s ≥ 0; facts: %s)", g.what, p.CondString(), g.mk(pr).String(), strings.Join(fs, " | "))
							break
						}
					}
					if failed != "" {
						break
					}
				}
				// a second attempt on interprocedural paths: the site may sit in a helper cut out of its only caller (the
				// facts it needs were established there), or use what a helper of this function returned
				if failed != "" || nPaths == 0 {
					root, _ := an.LogicalOwner(fn)
					xp, over := an.EnumPathsX(root, 20000)
					xFailed, nx := "", 0
					for _, p := range xp {
						if over || p.Seq == nil || !p.Passes(in) {
							continue
						}
						nx++
						pr := an.NewProver(root, p, in, append(append([]an.Fact(nil), inv...), precondFacts(root)...))
						for _, g := range goals {
							if ok, _ := pr.Prove(g.mk(pr)); !ok {
								xFailed = g.what
								break
							}
						}
						if xFailed != "" {
							break
						}
					}
					// every path through the site must have been an interprocedural one (a path without helpers was already tried)
					plain := 0
					for _, p := range xp {
						if p.Seq == nil && p.Passes(in) {
							plain++
						}
					}
					if !over && nx > 0 && xFailed == "" && plain == 0 {
						nLin++
						ob.Ok("linear engine: all three bounds follow from the facts on each of %d interprocedural path(s) of %s", nx, an.NameOf(root))
						return
					}
				}
				switch {
				case failed == "" && nPaths > 0:
					nLin++
					ob.Ok("linear engine: all three bounds follow from the facts on each of %d path(s)", nPaths)
				case isBoundsException(fn, in):
					nExc++
					ob.Ok("tabled exception: %s", boundsExceptionReason)
				default:
					ob.Fail("the compiler cannot prove this access in range and neither can the linear engine: %s", failed)
				}
			case *ssa.MakeSlice:
				// make([]T, n, m) panics for n < 0, m < n or a size beyond the address space, and allocates whatever it is told:
				// sizes must be constants or sums of lengths of existing slices (bounded by the input) — never a number read from the wire
				_, lenConst := an.ConstInt(x.Len)
				_, capConst := an.ConstInt(x.Cap)
				if lenConst && capConst {
					return
				}
				ob := c.Ob("bounds", an.NameOf(fn), "allocation size of "+an.Render(x), x.Pos())
				var failed string
				nPaths := 0
				for _, p := range getPaths() {
					if !p.Passes(in) {
						continue
					}
					nPaths++
					pr := an.NewProver(fn, p, in, inv)
					for _, sz := range []struct {
						what string
						v    ssa.Value
					}{{"length", x.Len}, {"capacity", x.Cap}} {
						l := pr.Lin(sz.v)
						for term, coef := range l.C {
							if coef != 0 && (!strings.HasPrefix(term, "len(") || coef < 0) {
								failed = fmt.Sprintf("the %s %s depends on %s, which is not the length of an existing slice: a value taken from the message can be negative or huge (makeslice panics, or the process runs out of memory)", sz.what, l.String(), term)
							}
						}
						if l.K < 0 && failed == "" {
							if ok, _ := pr.Prove(l); !ok {
								failed = fmt.Sprintf("the %s %s is not known to be non-negative", sz.what, l.String())
							}
						}
					}
					if failed == "" {
						if ok, _ := pr.Prove(pr.Lin(x.Cap).Add(pr.Lin(x.Len), -1)); !ok {
							failed = "capacity ≥ length is not implied"
						}
					}
					if failed != "" {
						break
					}
				}
				if failed == "" && nPaths > 0 {
					ob.Ok("sizes are sums of lengths of existing slices and constants on each of %d path(s)", nPaths)
				} else {
					ob.Fail("%s", failed)
				}
			case *ssa.Call:
				// library calls that panic on a negative count: bytes.Repeat, strings.Repeat
				if cal := an.StaticCallee(&x.Call); cal != nil && cal.Pkg != nil && (cal.Pkg.Pkg.Path() == "bytes" || cal.Pkg.Pkg.Path() == "strings") && an.NameOf(cal) == "Repeat" && len(x.Call.Args) == 2 {
					if k, isK := an.ConstInt(x.Call.Args[1]); isK && k >= 0 {
						return
					}
					ob := c.Ob("bounds", an.NameOf(fn), "repeat count of "+an.Render(x), x.Pos())
					failed, nPaths := "", 0
					for _, p := range getPaths() {
						if !p.Passes(in) {
							continue
						}
						nPaths++
						pr := an.NewProver(fn, p, in, inv)
						if ok, _ := pr.Prove(pr.Lin(x.Call.Args[1])); !ok {
							failed = fmt.Sprintf("the count %s is not known to be non-negative on the path [%s]: %s.Repeat panics with a negative count", pr.Lin(x.Call.Args[1]).String(), p.CondString(), cal.Pkg.Pkg.Name())
							break
						}
					}
					if failed == "" && nPaths > 0 {
						ob.Ok("count ≥ 0 on each of %d path(s)", nPaths)
					} else {
						ob.Fail("%s", failed)
					}
				}
			case *ssa.MakeChan:
				if _, isC := an.ConstInt(x.Size); !isC {
					c.Ob("bounds", an.NameOf(fn), "buffer size of "+an.Render(x), x.Pos()).Fail("a channel is made with the non-constant size %s on the inbound path: a negative or huge size panics", an.Render(x.Size))
				}
			case *ssa.TypeAssert:
				if x.CommaOk {
					return
				}
				ob := c.Ob("assert", an.NameOf(fn), an.Render(x), x.Pos())
				if why := poolAssertSafe(c, fn, x); why != "" {
					ob.Ok("%s", why)
				} else if why := assertSafe(x); why != "" {
					ob.Ok("%s", why)
				} else {
					ob.Fail("a failing type assertion panics; the dynamic type of %s is not fixed by construction", an.Render(x.X))
				}
			case *ssa.Panic:
				if s, ok := an.ConstString(an.Unwrap(x.X)); ok && strings.HasPrefix(s, "blocking select") {
					return
				}
				c.Ob("panic", an.NameOf(fn), "explicit panic", x.Pos()).Fail("an explicit panic is reachable from the decoder")
			case *ssa.BinOp:
				if (x.Op == token.QUO || x.Op == token.REM) && isIntLike(x) {
					if k, ok := an.ConstInt(x.Y); !ok || k == 0 {
						c.Ob("div", an.NameOf(fn), an.Render(x), x.Pos()).Fail("integer division by a value not known to be non-zero")
					}
				}
			}
		})
		// preconditions at call sites
		an.AllInstrs(fn, func(in ssa.Instruction) {
			call, ok := in.(*ssa.Call)
			if !ok {
				return
			}
			cal := an.StaticCallee(&call.Call)
			if cal == nil || c11Preconds[an.NameOf(cal)] == nil || !set[cal] {
				return
			}
			for i, pc := range c11Preconds[an.NameOf(cal)] {
				ob := c.Ob("precond", an.NameOf(fn), "call of "+an.NameOf(cal)+": "+pc, call.Pos())
				bad := ""
				for _, p := range getPaths() {
					if !p.Passes(call) {
						continue
					}
					pr := an.NewProver(fn, p, call, inv)
					goal := pr.LenOf(call.Call.Args[i]).Add(an.LForm{C: map[string]int64{}, K: 1}, -1)
					if ok, _ := pr.Prove(goal); !ok {
						bad = "not implied on path [" + p.CondString() + "]"
					}
				}
				if bad == "" {
					ob.Ok("holds on every path to the call")
				} else {
					ob.Fail("%s", bad)
				}
			}
		})
		// termination (the connection reader's loop is meant to run for as long as the connection lives: it reads until the
		// socket fails — that it ends with the connection is C13's rule Z2)
		for _, lp := range loops(fn) {
			if an.NameOf(fn) == "runReader" {
				continue
			}
			ob := c.Ob("term", an.NameOf(fn), "loop at "+lp[len(lp)-1].Comment+" terminates", lp[len(lp)-1].Instrs[0].Pos())
			if why := loopTerminates(fn, lp, inv); why != "" {
				ob.Ok("%s", why)
			} else {
				ob.Fail("no variant found: the loop is neither a range/counted loop nor one that clears its exit flag or shortens its loop-carried slice by ≥ 1 on every iteration")
			}
		}
	}
	// ---- nil function fields on the inbound path: Session.LogonHandler is set only by the acceptor's constructor and is called,
	// unguarded, by the Logon handler in state WaitingLogon. So WaitingLogon must be a state only an accepting session can rest in:
	// every path of every entry point that ends with the state set to WaitingLogon has established the accepting side.
	if s := newSess(c); s != nil {
		nCalls := 0
		for _, r := range s.roots() {
			if r.Cat == "method" && an.NameOf(r.Fn) != "Run" {
				continue
			}
			for _, t := range s.tr.Traces(r.Fn, s.m.AllStates) {
				for _, e := range t.Events {
					if e.Kind == "check" && e.Name == "app" {
						nCalls++
						read, _ := s.entryRead(t)
						c.Check(read == s.m.Set("WaitingLogon"), "nilcall", r.Name(), "the application's logon callback is called only in state WaitingLogon", e.Pos, "state read {WaitingLogon}",
							"Session.LogonHandler (nil on an initiating session) is called on a path whose state read is "+s.m.SetString(read))
					}
				}
			}
		}
		c.Check(nCalls >= 1, "nilcall", "", "LogonHandler call found", token.NoPos, fmt.Sprint(nCalls), "no call of Session.LogonHandler found (anchor moved)")
		s.checkRestingSide("nilcall")
	}
	// ---- nil interface fields in the parser: a method call on an interface-typed struct field (u.Validator.Do(msg)) panics when the
	// field is nil. Either the call is behind a nil test of the field, or every construction of that struct inside the library
	// stores a non-nil value in the field on every path.
	checkInterfaceFieldsSet(c, "nilcall", fns)
	checkBuildersValidated(c, "nilcall", fns)
	c.Extra["bounds_sites"] = nSites
	c.Extra["discharged_by_compiler"] = nGC
	c.Extra["discharged_by_linear_engine"] = nLin
	c.Extra["tabled_exceptions"] = nExc
	// precond (premise): a retransmission never hands a nil message to the send path — the store's range lookup fails on a
	// missing entry instead of returning a list with holes
	checkStorageMessages(c, "precond")
	c.Explanation += " nilcall also: every message builder (field of MessageBuilders) that a function on the inbound path calls without a nil test is one that Opts.validate looks at (an optional builder the validation never reads can be nil)."
	c.Explanation += " nilcall also: every method call on an interface-typed struct field in the parser packages (fix, fix/encoding) is behind a nil test of the field, or every construction of that struct in the library stores a non-nil value in the field on every path (DefaultUnmarshaller.Validator)."
	c.Explanation += " The connection reader (Conn.runReader) is part of the panic census (bounds, assertions; its read loop is exempt from the termination rule — C13.Z2). precond premise: the store's range lookup fails on a missing entry, so no nil message reaches the send path."
	checkKeyValuePlain(c, "nilcall")
	c.RuleMin = map[string]int{"assert": 4, "bounds": 24, "precond": 2, "term": 8, "nilcall": 8}
	c.MinObl = 40
}

func isIntLike(v ssa.Value) bool {
	return strings.HasPrefix(v.Type().Underlying().String(), "int") || strings.HasPrefix(v.Type().Underlying().String(), "uint")
}

// idxLow: goal index ≥ 0; range indices are ≥ 0 by construction.
func idxLow(p *an.Prover, idx ssa.Value) an.LForm {
	if rangeIndexPhi(idx) != nil {
		return an.LForm{C: map[string]int64{}}
	}
	return p.Lin(idx)
}

var boundsExceptionReason = "d[:offset+length-1] in the raw validation: the upper bound len(d) − len(CheckSum field) − 2 is non-negative because the BodyLength field (found, else the function returned) and the CheckSum field are disjoint stretches of d when the framing tags are distinct (assumption); the bound never exceeds len(d)"

// isBoundsException: the one tabled site, identified structurally (slice of parameter d whose high bound is the mirror arithmetic len(d) − |CheckSum field| − 2).
func isBoundsException(fn *ssa.Function, in ssa.Instruction) bool {
	sl, ok := in.(*ssa.Slice)
	if !ok || sl.Low != nil || sl.High == nil {
		return false
	}
	// the raw validation itself or a step cut out of it (a comparison step that receives the input as its own parameter)
	if owner, _ := an.LogicalOwner(fn); an.NameOf(fn) != "validateRaw" && (owner == nil || an.NameOf(owner) != "validateRaw") {
		return false
	}
	p, ok := sl.X.(*ssa.Parameter)
	if !ok {
		return false
	}
	var root ssa.Value = p
	for i := 0; i < 4; i++ {
		q, isP := root.(*ssa.Parameter)
		if !isP || q.Parent() == nil {
			break
		}
		a, has := an.OwnerSub(q.Parent())[q]
		if !has || a == root {
			break
		}
		root = a
	}
	if an.Render(root) != "d" {
		return false
	}
	// premise: on every way to the slice the BodyLength value was tested not null (in the function or in a helper it calls)
	dominated := true
	xp, _ := an.EnumPathsX(fn, 4096)
	nx := 0
	for _, p := range xp {
		if !p.Passes(in) {
			continue
		}
		nx++
		tested := false
		for _, a := range p.Atoms {
			if a.Rel == "false" && strings.HasSuffix(a.L, ".IsNull()") {
				tested = true
			}
		}
		if !tested {
			dominated = false
		}
	}
	if nx == 0 {
		dominated = false
	}
	// premise: the result is only handed to the checksum function
	onlyChecksum := true
	for _, ref := range *sl.Referrers() {
		call, ok := ref.(*ssa.Call)
		if !ok {
			if _, isDbg := ref.(*ssa.DebugRef); !isDbg {
				onlyChecksum = false
			}
			continue
		}
		if an.CalleeIs(&call.Call, "fix", "CalcCheckSum") {
			continue
		}
		// … or to a helper cut out of the validation whose parameter goes nowhere but into the checksum function
		h := an.StaticCallee(&call.Call)
		okHelper := false
		if h != nil && !an.IsKnown(h) {
			if owner, _ := an.LogicalOwner(h); owner == fn {
				for i, a := range call.Call.Args {
					if a != ssa.Value(sl) || i >= len(h.Params) {
						continue
					}
					okHelper = true
					for _, r2 := range *h.Params[i].Referrers() {
						switch y := r2.(type) {
						case *ssa.DebugRef:
						case *ssa.Call:
							if !an.CalleeIs(&y.Call, "fix", "CalcCheckSum") {
								okHelper = false
							}
						default:
							okHelper = false
						}
					}
				}
			}
		}
		if !okHelper {
			onlyChecksum = false
		}
	}
	// premise: the bound is len(d) − len(<one other byte string>) − 2 on every path (the mirror arithmetic; any other expression
	// — a search result that may be −1, a parsed number — is not covered by the argument above)
	shape := true
	paths, _ := an.EnumPaths(fn, 4096)
	n := 0
	for _, p := range paths {
		if !p.Passes(in) {
			continue
		}
		n++
		l := an.NewProver(fn, p, in, nil).Lin(sl.High)
		pos, neg := 0, 0
		for term, coef := range l.C {
			switch {
			case coef == 0:
			case term == "len(d)" && coef == 1:
				pos++
			case strings.HasPrefix(term, "len(") && coef == -1:
				neg++
			default:
				shape = false
			}
		}
		if pos != 1 || neg != 1 || l.K != -2 {
			shape = false
		}
	}
	return dominated && onlyChecksum && shape && n > 0
}

// assertSafe: x is v.Value().(int) on a value constructed in the same function as *fix.Int.
func assertSafe(x *ssa.TypeAssert) string {
	call, ok := x.X.(*ssa.Call)
	if !ok || !call.Call.IsInvoke() && an.StaticCallee(&call.Call) == nil {
		return ""
	}
	want := types2(x.AssertedType.String())
	if cal := an.StaticCallee(&call.Call); cal != nil && an.NameOf(cal) == "Value" && cal.Signature.Recv() != nil {
		if an.TypeIs(cal.Signature.Recv().Type(), "fix", "Int") && want == "int" {
			return "Int.Value() returns the stored int (codec table)"
		}
	}
	if call.Call.IsInvoke() && call.Call.Method.Name() == "Value" {
		// receiver: field Value of a KeyValue built by NewKeyValue(k, &fix.Int{}) / NewInt in this function
		r := an.Render(call.Call.Value)
		if strings.HasPrefix(r, "fix.NewKeyValue(") && (strings.Contains(r, "&complit).Value") || strings.Contains(r, "fix.NewInt(")) && want == "int" {
			if kv, ok := rootCall(call.Call.Value); ok {
				if mi, ok := kv.Call.Args[1].(*ssa.MakeInterface); ok && an.TypeIs(mi.X.Type(), "fix", "Int") {
					return "the KeyValue was built here with a *fix.Int value, whose Value() returns int (codec table)"
				}
			}
		}
	}
	return ""
}

func types2(s string) string { return s }

func rootCall(v ssa.Value) (*ssa.Call, bool) {
	f, base := an.LoadedField(v)
	if f == nil {
		return nil, false
	}
	c, ok := base.(*ssa.Call)
	return c, ok
}

// proveLenInvariant proves, by induction, that the loop-carried slice of splitGroup has length ≥ 1 at the loop head.
func proveLenInvariant(c *core.Ctx, fn *ssa.Function, heads map[*ssa.BasicBlock]bool, paths []*an.Path, pre []an.Fact) ([]an.Fact, string) {
	var phi *ssa.Phi
	for h := range heads {
		for _, in := range h.Instrs {
			// the loop-carried byte slice that starts as the first parameter
			if p, ok := in.(*ssa.Phi); ok && p.Type().Underlying().String() == "[]byte" && len(fn.Params) > 0 {
				for _, e := range p.Edges {
					if e == ssa.Value(fn.Params[0]) {
						phi = p
					}
				}
			}
		}
	}
	if phi == nil {
		return nil, "no loop-carried slice that starts as the first parameter found"
	}
	name := "len(" + an.Render(phi) + ")"
	invFact := an.Fact{L: an.LForm{C: map[string]int64{name: 1}, K: -1}, Why: "loop invariant len(line) ≥ 1 (proved by induction)"}
	head := phi.Block()
	for i, pred := range head.Preds {
		v := phi.Edges[i]
		if !pred.Dominates(head) || !head.Dominates(pred) {
			// entry edge: must be the parameter, covered by the precondition
			if p, ok := v.(*ssa.Parameter); !ok || p != fn.Params[0] {
				if !head.Dominates(pred) {
					return nil, "the loop-carried slice does not start as the parameter line"
				}
			}
		}
		if head.Dominates(pred) {
			// back edge: prove len(v) ≥ 1 on every path from the head to pred, assuming the invariant
			proved := false
			for _, p := range paths {
				if !p.Loop {
					continue
				}
				last := p.Blocks[len(p.Blocks)-1]
				if last != pred {
					continue
				}
				pr := an.NewProver(fn, p, nil, append(append([]an.Fact{}, pre...), invFact))
				goal := pr.LenOf(v).Add(an.LForm{C: map[string]int64{}, K: 1}, -1)
				if ok, _ := pr.Prove(goal); !ok {
					return nil, fmt.Sprintf("cannot re-establish len(line) ≥ 1 on the way back to the loop head via [%s]: new length %s", p.CondString(), pr.LenOf(v).String())
				}
				proved = true
			}
			if !proved {
				return nil, "no path found for a back edge of the loop"
			}
		}
	}
	return []an.Fact{invFact}, ""
}

// loopTerminates explains why a loop of the decoder set terminates ("" if unknown).
func loopTerminates(fn *ssa.Function, lp []*ssa.BasicBlock, inv []an.Fact) string {
	in := map[*ssa.BasicBlock]bool{}
	for _, b := range lp {
		in[b] = true
	}
	for _, b := range lp {
		for _, i := range b.Instrs {
			if phi, ok := i.(*ssa.Phi); ok {
				if rangeIndexPhi(phi) != nil {
					return "range / counted loop over an index that increases by one up to a bound"
				}
			}
			if bo, ok := i.(*ssa.BinOp); ok && rangeIndexPhi(bo) != nil {
				return "range loop over a slice"
			}
			if _, ok := i.(*ssa.Next); ok {
				return "range loop over a map or string"
			}
		}
	}
	// flag-controlled loop with a shrinking slice: every way back to the head either stores false into the flag or re-slices the carried slice from ≥ 1
	var head *ssa.BasicBlock
	for _, b := range lp {
		for _, p := range b.Preds {
			if !in[p] {
				head = b
			}
		}
	}
	if head == nil {
		return ""
	}
	var flag, carried *ssa.Phi
	for _, i := range head.Instrs {
		if phi, ok := i.(*ssa.Phi); ok {
			switch phi.Type().Underlying().String() {
			case "bool":
				flag = phi
			case "[]byte":
				carried = phi
			}
		}
	}
	if carried == nil {
		return ""
	}
	// with a flag, the loop condition is the flag; without one (`for { … return … }`) every way back must shorten the slice
	if flag != nil {
		iff, ok := head.Instrs[len(head.Instrs)-1].(*ssa.If)
		if !ok || iff.Cond != ssa.Value(flag) {
			flag = nil
		}
	}
	paths, _ := an.EnumPaths(fn, 20000)
	okAll, n := true, 0
	for i, pred := range head.Preds {
		if !in[pred] {
			continue
		}
		for _, p := range paths {
			if !p.Loop || p.Blocks[len(p.Blocks)-1] != pred {
				continue
			}
			n++
			// the value the exit flag takes on this way round
			if flag != nil {
				fv := an.ResolveOnPath(flag.Edges[i], p)
				if k, isC := an.ConstBool(fv); isC && !k {
					continue // exit flag cleared: the loop ends after this iteration
				}
			}
			sl, isSl := an.ResolveOnPath(carried.Edges[i], p).(*ssa.Slice)
			if !isSl || sl.X != ssa.Value(carried) || sl.Low == nil || sl.High != nil {
				okAll = false
				continue
			}
			pr := an.NewProver(fn, p, nil, inv)
			if ok, _ := pr.Prove(pr.Lin(sl.Low).Add(an.LForm{C: map[string]int64{}, K: 1}, -1)); !ok {
				okAll = false
			}
		}
	}
	if okAll && n > 0 {
		return "variant: on every way back to the loop head the exit flag is cleared or the carried slice is re-sliced from an offset ≥ 1 (it gets strictly shorter)"
	}
	return ""
}

// poolAssertSafe: handle.(IncomingHandlerFunc) / handle.(OutgoingHandlerFunc) in the pools' Range methods. Tabled exception whose
// premises are checked: the only writer of HandlerPool.handlers is add(); the incoming pool is fed only through
// IncomingHandlerPool.Add (parameter type IncomingHandlerFunc) and the outgoing pool only through HandlerPool.Add (OutgoingHandlerFunc).
func poolAssertSafe(c *core.Ctx, fn *ssa.Function, x *ssa.TypeAssert) string {
	if an.NameOf(fn) != "Range" || fn.Signature.Recv() == nil {
		return ""
	}
	recv := an.NamedOf(fn.Signature.Recv().Type())
	if recv == nil {
		return ""
	}
	want := map[string]string{"IncomingHandlerPool": "IncomingHandlerFunc", "OutgoingHandlerPool": "OutgoingHandlerFunc"}[recv.Obj().Name()]
	if want == "" || !strings.HasSuffix(x.AssertedType.String(), "."+want) {
		return ""
	}
	root := c.SSAPkg("")
	handlers := c.Field("", "HandlerPool", "handlers")
	add := c.Func("", "HandlerPool.add")
	if root == nil || handlers == nil || add == nil {
		return ""
	}
	// only add() updates the map
	for _, f := range pkgFuncs(root) {
		bad := false
		for _, a := range an.FieldAccesses(f, func(v *types.Var) bool { return v == handlers }) {
			if a.Write && a.How == "mapupdate" && f != add && !an.IsConstructorBase(a.Base, f) {
				bad = true
			}
		}
		if bad {
			return ""
		}
	}
	// callers of add and what they pass
	okIn, okOut := false, false
	for _, f := range pkgFuncs(root) {
		bad := false
		an.AllInstrs(f, func(in ssa.Instruction) {
			call, ok := in.(*ssa.Call)
			if !ok || an.StaticCallee(&call.Call) != add {
				return
			}
			arg := an.Unwrap(call.Call.Args[2])
			t := arg.Type().String()
			switch {
			case an.NameOf(f) == "Add" && an.TypeIs(f.Signature.Recv().Type(), "simplefix-go", "IncomingHandlerPool") && strings.HasSuffix(t, ".IncomingHandlerFunc"):
				okIn = true
			case an.NameOf(f) == "Add" && an.TypeIs(f.Signature.Recv().Type(), "simplefix-go", "HandlerPool") && strings.HasSuffix(t, ".OutgoingHandlerFunc"):
				okOut = true
			default:
				bad = true
			}
		})
		if bad {
			return ""
		}
	}
	// DefaultHandler registers incoming handlers through the incoming pool's own Add and outgoing ones through HandlerPool.Add
	hi, ho := c.Func("", "DefaultHandler.HandleIncoming"), c.Func("", "DefaultHandler.HandleOutgoing")
	if hi == nil || ho == nil || !okIn || !okOut {
		return ""
	}
	callee := func(f *ssa.Function) string {
		name := ""
		an.AllInstrs(f, func(in ssa.Instruction) {
			if call, ok := in.(*ssa.Call); ok {
				if cal := an.StaticCallee(&call.Call); cal != nil && an.NameOf(cal) == "Add" {
					name = an.NamedOf(cal.Signature.Recv().Type()).Obj().Name() + "." + an.Render(call.Call.Args[0])
				}
			}
		})
		return name
	}
	if !strings.HasPrefix(callee(hi), "IncomingHandlerPool.") || !strings.Contains(callee(hi), "incomingHandlers") || !strings.HasPrefix(callee(ho), "HandlerPool.") || !strings.Contains(callee(ho), "outgoingHandlers") {
		return ""
	}
	return "tabled exception (premises checked): HandlerPool.handlers is written only by add(); the incoming pool is fed only by IncomingHandlerPool.Add(IncomingHandlerFunc) via HandleIncoming, the outgoing pool only by HandlerPool.Add(OutgoingHandlerFunc) via HandleOutgoing"
}

// checkInterfaceFieldsSet: see the call site in runC11.
func checkInterfaceFieldsSet(c *core.Ctx, rule string, fns []*ssa.Function) {
	type key struct {
		f *types.Var
	}
	sites := map[*types.Var][]*ssa.Call{}
	owner := map[*types.Var]*types.Named{}
	var order []*types.Var
	for _, fn := range fns {
		if fn.Pkg == nil {
			continue
		}
		if pp := fn.Pkg.Pkg.Path(); !strings.HasSuffix(pp, "/fix") && !strings.HasSuffix(pp, "/fix/encoding") {
			continue
		}
		an.AllInstrs(fn, func(in ssa.Instruction) {
			call, ok := in.(*ssa.Call)
			if !ok || !call.Call.IsInvoke() {
				return
			}
			var f *types.Var
			var base ssa.Value
			switch x := call.Call.Value.(type) {
			case *ssa.UnOp:
				f, base = an.LoadedField(x)
			case *ssa.Field:
				f, base = an.FieldOf(x), x.X
			}
			if f == nil || base == nil {
				return
			}
			n := an.NamedOf(an.Deref(base.Type()))
			if n == nil || n.Obj().Pkg() == nil || !strings.HasPrefix(n.Obj().Pkg().Path(), core.ModPath) {
				return
			}
			if nilGuarded(call) {
				return
			}
			if _, seen := sites[f]; !seen {
				order = append(order, f)
			}
			sites[f] = append(sites[f], call)
			owner[f] = n
		})
	}
	n := 0
	for _, f := range order {
		T := owner[f]
		call := sites[f][0]
		var bad []string
		nCons := 0
		for _, rel := range []string{"", "session", "fix", "fix/encoding", "utils", "storages/memory"} {
			pkg := c.SSAPkg(rel)
			if pkg == nil {
				continue
			}
			for _, g := range an.PkgFuncs(pkg) {
				var allocs []*ssa.Alloc
				an.AllInstrs(g, func(in ssa.Instruction) {
					if al, ok := in.(*ssa.Alloc); ok && an.NamedOf(an.Deref(al.Type())) == T {
						allocs = append(allocs, al)
					}
				})
				if len(allocs) == 0 {
					continue
				}
				paths, _ := an.EnumPaths(g, 2048)
				for _, al := range allocs {
					// a local that only receives a copy of another value (*al = *p) is not a construction
					copied := false
					for _, ref := range *al.Referrers() {
						if st, ok := ref.(*ssa.Store); ok && st.Addr == ssa.Value(al) {
							copied = true
						}
					}
					if copied {
						continue
					}
					nCons++
					for _, p := range paths {
						if p.Return == nil || !p.Passes(al) {
							continue
						}
						set := false
						for _, in := range p.InstrSeq() {
							if st, ok := in.(*ssa.Store); ok {
								if fa, ok := st.Addr.(*ssa.FieldAddr); ok && fa.X == ssa.Value(al) && an.FieldOf(fa) == f && !an.IsNilConst(st.Val) {
									set = true
								}
							}
						}
						if !set {
							bad = append(bad, fmt.Sprintf("%s constructs a %s without setting %s under [%s]", an.NameOf(g), T.Obj().Name(), f.Name(), p.CondString()))
							break
						}
					}
				}
			}
		}
		n++
		ob := c.Ob(rule, T.Obj().Name()+"."+f.Name(), "an interface field called without a nil test is set by every construction in the library", call.Pos())
		switch {
		case len(bad) > 0:
			ob.Fail("%s: the unguarded call %s in %s then panics with a nil pointer dereference — for exactly the inputs that parse completely", bad[0], an.Render(call), an.NameOf(call.Parent()))
		default:
			ob.Ok("%d construction(s) in the library, %d unguarded call site(s)", nCons, len(sites[f]))
		}
	}
	c.Check(n >= 1, rule, "", "unguarded interface-field calls in the parser found", token.NoPos, fmt.Sprint(n), "no method call on an interface field found in the parser (anchor moved)")
}

// nilGuarded: the call's block is dominated by the true edge of a `field != nil` test (or the false edge of `== nil`) on the same load.
func nilGuarded(call *ssa.Call) bool {
	v := call.Call.Value
	for b := call.Block(); b != nil; b = b.Idom() {
		idom := b.Idom()
		if idom == nil || len(idom.Instrs) == 0 {
			continue
		}
		iff, ok := idom.Instrs[len(idom.Instrs)-1].(*ssa.If)
		if !ok {
			continue
		}
		bo, ok := iff.Cond.(*ssa.BinOp)
		if !ok || (bo.Op != token.NEQ && bo.Op != token.EQL) {
			continue
		}
		var other ssa.Value
		switch {
		case an.IsNilConst(bo.Y):
			other = bo.X
		case an.IsNilConst(bo.X):
			other = bo.Y
		default:
			continue
		}
		if an.Render(other) != an.Render(v) {
			continue
		}
		if bo.Op == token.NEQ && idom.Succs[0] == b && len(b.Preds) == 1 {
			return true
		}
		if bo.Op == token.EQL && idom.Succs[1] == b && len(b.Preds) == 1 {
			return true
		}
	}
	return false
}

// checkBuildersValidated: the message builders are interfaces supplied by the application; Opts.validate refuses options in which
// a required one is nil. A builder that the inbound path calls without a nil test must at least be read by Opts.validate.
func checkBuildersValidated(c *core.Ctx, rule string, fns []*ssa.Function) {
	val := c.Func("session", "Opts.validate")
	if !c.Anchor("option validation", val != nil, "(*Opts).validate", token.NoPos) {
		return
	}
	read := map[*types.Var]bool{}
	for _, f := range append([]*ssa.Function{val}, pkgHelpersOf(val)...) {
		an.AllInstrs(f, func(in ssa.Instruction) {
			switch x := in.(type) {
			case *ssa.FieldAddr:
				read[an.FieldOf(x)] = true
			case *ssa.Field:
				read[an.FieldOf(x)] = true
			}
		})
	}
	type site struct {
		call *ssa.Call
		fn   *ssa.Function
	}
	used := map[*types.Var]site{}
	var order []*types.Var
	for _, fn := range fns {
		if fn.Pkg == nil || fn.Pkg != val.Pkg {
			continue
		}
		an.AllInstrs(fn, func(in ssa.Instruction) {
			call, ok := in.(*ssa.Call)
			if !ok || !call.Call.IsInvoke() {
				return
			}
			var f *types.Var
			var base ssa.Value
			switch x := call.Call.Value.(type) {
			case *ssa.UnOp:
				f, base = an.LoadedField(x)
			case *ssa.Field:
				f, base = an.FieldOf(x), x.X
			}
			if f == nil || base == nil {
				return
			}
			n := an.NamedOf(an.Deref(base.Type()))
			if n == nil || n.Obj().Name() != "MessageBuilders" || nilGuarded(call) {
				return
			}
			if _, seen := used[f]; !seen {
				order = append(order, f)
				used[f] = site{call, fn}
			}
		})
	}
	for _, f := range order {
		st := used[f]
		c.Check(read[f], rule, "MessageBuilders."+f.Name(), "a builder called without a nil test on the inbound path is checked by Opts.validate", st.call.Pos(), "read by Opts.validate",
			an.NameOf(st.fn)+" calls MessageBuilders."+f.Name()+" without a nil test, and Opts.validate never looks at that field: with options that leave it unset (it is optional) the inbound path panics with a nil pointer dereference")
	}
	c.Check(len(order) >= 3, rule, "", "builders used on the inbound path found", token.NoPos, fmt.Sprint(len(order)), fmt.Sprintf("only %d builders found on the inbound path", len(order)))
}
