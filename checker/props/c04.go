package props

import (
	"fmt"
	"go/token"
	"go/types"
	"strings"

	"golang.org/x/tools/go/ssa"

	"sfcheck/an"
	"sfcheck/core"
)

func init() {
	register(&Check{ID: "C04", NeedSSA: true, Run: runC04})
}

// inLoop reports whether block b lies on a CFG cycle.
func inLoop(b *ssa.BasicBlock) bool {
	seen := map[*ssa.BasicBlock]bool{}
	work := append([]*ssa.BasicBlock(nil), b.Succs...)
	for len(work) > 0 {
		x := work[0]
		work = work[1:]
		if x == b {
			return true
		}
		if seen[x] {
			continue
		}
		seen[x] = true
		work = append(work, x.Succs...)
	}
	return false
}

func isFreshEmpty(v ssa.Value) bool {
	switch x := v.(type) {
	case *ssa.Const:
		return x.Value == nil
	case *ssa.Slice:
		if al, ok := x.X.(*ssa.Alloc); ok && x.Low == nil {
			_ = al
			return true // slice of a freshly allocated array: []byte{} / make
		}
	case *ssa.MakeSlice:
		return true
	}
	return false
}

// selectRecvValue: for a select state index i, the extracted received value and ok flag.
func selectExtracts(sel *ssa.Select, state int) (val, ok ssa.Value) {
	// tuple: (index, recvOk, r_0 … r_{n-1}) with one r per receive state, in state order
	ri := 0
	for i, st := range sel.States {
		if st.Dir == 2 /* RecvOnly */ {
			if i == state {
				break
			}
			ri++
		}
	}
	for _, ref := range *sel.Referrers() {
		if ex, isEx := ref.(*ssa.Extract); isEx {
			if ex.Index == 1 {
				ok = ex
			}
			if ex.Index == 2+ri {
				val = ex
			}
		}
	}
	return
}

func runC04(c *core.Ctx, o Options) {
	c.Explanation = "The quantifier over all partitions of the inbound byte stream is decided through one library contract: the only primitive that reads the socket is bufio.Reader.ReadBytes(SOH) on one reader per connection, whose results do not depend on how the transport chunks the stream. " +
		"F1: no other read of the net.Conn or of the bufio.Reader exists; the reader is created once, outside the read loop, delimiter SOH. F2: the partial-message buffer is a local of the reader; on every way back to the loop head the bytes just read have been appended to it, " +
		"or the accumulated message (including the last segment) has been handed off on Conn.reader and the buffer re-bound to a fresh allocation — never dropped, never re-sliced. F3: the hand-off happens exactly when the segment read starts with the CheckSum tag and '='. " +
		"F4: single producer / single consumer on each hand-off (Conn.reader, DefaultHandler.incoming, out); Conn.Write is called once per dequeued message with that message and writes it with one net.Conn.Write. F5: no go statement anywhere on the inbound dispatch path down to the session's handlers. " +
		"F6: each accepted connection gets the net.Conn returned by Accept in the same iteration, a fresh Conn and a fresh handler with fresh channels; nothing is cached on the Acceptor. F7: every message received from Reader() is passed to ServeIncoming and every message received from incoming to serve. " +
		"Not decided: timing; the kernel or a custom net.Conn."
	fns := libFuncs(c)
	if !framingRules(c, fns) {
		return
	}
	// ---- F4 producers / consumers
	census := func(field string, typ string) (senders, receivers []string) {
		f := c.Field("", typ, field)
		for _, fn := range fns {
			an.AllInstrs(fn, func(in ssa.Instruction) {
				switch x := in.(type) {
				case *ssa.Send:
					if g, _ := an.LoadedField(x.Chan); g == f && f != nil {
						senders = append(senders, an.NameOf(fn))
					}
				case *ssa.Select:
					for _, st := range x.States {
						if g, _ := an.LoadedField(st.Chan); g == f && f != nil {
							if st.Dir == 1 {
								senders = append(senders, an.NameOf(fn))
							} else {
								receivers = append(receivers, an.NameOf(fn))
							}
						}
					}
				case *ssa.UnOp:
					if x.Op == token.ARROW {
						if g, _ := an.LoadedField(x.X); g == f && f != nil {
							receivers = append(receivers, an.NameOf(fn))
						}
					}
				}
			})
		}
		return
	}
	snd, rcv := census("reader", "Conn")
	c.Check(len(snd) == 1 && snd[0] == "runReader" && len(rcv) == 0, "F4", "Conn.reader", "only the reader sends; consumers go through Reader()", token.NoPos, "sender runReader", fmt.Sprintf("senders %v, direct receivers %v", snd, rcv))
	snd, rcv = census("incoming", "DefaultHandler")
	okRcv := true
	runNames := map[string]bool{"Run": true, "processRemainingIncoming": true}
	if run := c.Func("", "DefaultHandler.Run"); run != nil {
		for f := range sameGoroutineReach(run) { // steps cut out of Run (a listen loop, the two ways it ends) receive on its behalf
			if f.Signature.Recv() != nil && an.TypeIs(f.Signature.Recv().Type(), "simplefix-go", "DefaultHandler") && !an.IsKnown(f) {
				runNames[an.NameOf(f)] = true
			}
		}
	}
	for _, r := range rcv {
		if !runNames[r] {
			okRcv = false
		}
	}
	c.Check(len(snd) == 1 && snd[0] == "ServeIncoming" && okRcv && len(rcv) >= 1, "F4", "DefaultHandler.incoming", "ServeIncoming is the only producer; Run (and its drain helper) the only consumer", token.NoPos, fmt.Sprintf("senders %v receivers %v", snd, rcv), fmt.Sprintf("senders %v, receivers %v", snd, rcv))
	sitesOf := checkSinglePumps(c, "F4", fns)
	_ = sitesOf
	// writer closures: Write(msg) with the dequeued message; forwarders: ServeIncoming(msg) with the received one (F7)
	for _, sf := range []string{"Acceptor.serve", "Initiator.Serve"} {
		fn := c.Func("", sf)
		if fn == nil {
			continue
		}
		for _, cl := range serveBodies(fn, fns) {
			an.AllInstrs(cl, func(in ssa.Instruction) {
				sel, ok := in.(*ssa.Select)
				if !ok {
					return
				}
				for i, st := range sel.States {
					if st.Dir != 2 {
						continue
					}
					src := an.Render(st.Chan)
					var wantCallee string
					switch {
					case strings.HasSuffix(src, ".Outgoing()"):
						wantCallee = "Write"
					case strings.HasSuffix(src, ".Reader()"):
						wantCallee = "ServeIncoming"
					default:
						continue
					}
					val, okv := selectExtracts(sel, i)
					// every path on which the receive succeeded passes a call wantCallee(val)
					var sink ssa.Instruction
					an.AllInstrs(cl, func(i2 ssa.Instruction) {
						if call, ok := i2.(*ssa.Call); ok {
							name := ""
							if call.Call.IsInvoke() {
								name = call.Call.Method.Name()
							} else if cal := an.StaticCallee(&call.Call); cal != nil {
								name = an.NameOf(cal)
							}
							if name == wantCallee {
								arg := call.Call.Args[len(call.Call.Args)-1]
								if arg == val {
									sink = call
								}
							}
						}
					})
					rule := "F7"
					if wantCallee == "Write" {
						rule = "F4"
					}
					ob := c.Ob(rule, an.NameOf(cl), "each message received from "+src[strings.LastIndex(src, ".")+1:]+" is passed whole to "+wantCallee, sel.Pos())
					if sink == nil || val == nil {
						ob.Fail("no call %s(<the received message>) in this goroutine", wantCallee)
						continue
					}
					ps, _ := an.EnumPaths(cl, 1024)
					dropped := ""
					nOK := 0
					for _, p := range ps {
						if !p.Has(fmt.Sprintf("%s#0 == %d", an.Render(sel), i)) {
							continue
						}
						if okv != nil && !p.Has(an.Render(okv)) {
							continue // channel closed
						}
						if p.Passes(sink) {
							nOK++
						} else {
							dropped = p.CondString()
						}
					}
					calls := 0
					an.AllInstrs(cl, func(i2 ssa.Instruction) {
						if call, ok := i2.(*ssa.Call); ok {
							if (call.Call.IsInvoke() && call.Call.Method.Name() == wantCallee) || (an.StaticCallee(&call.Call) != nil && an.StaticCallee(&call.Call).Name() == wantCallee && an.StaticCallee(&call.Call).Pkg == cl.Pkg) {
								calls++
							}
						}
					})
					switch {
					case dropped != "":
						ob.Fail("a received message is dropped on a path: %s", dropped)
					case calls != 1:
						ob.Fail("%d calls of %s per dequeued message (need exactly one)", calls, wantCallee)
					case nOK == 0:
						ob.Fail("no path delivers the message")
					default:
						ob.Ok("%d delivering path(s)", nOK)
					}
				}
			})
		}
	}
	checkConnWrite(c, "F4")
	// ---- F5 no go on the dispatch path
	for _, name := range []string{"DefaultHandler.ServeIncoming", "DefaultHandler.Run", "DefaultHandler.processRemainingIncoming", "DefaultHandler.serve", "IncomingHandlerPool.Range", "HandlerPool.handlersByMsgType"} {
		fn := c.Func("", name)
		if !c.Anchor("dispatch path "+name, fn != nil, name, posOf(fn)) {
			continue
		}
		spawn := false
		for _, f := range an.WithAnon(fn) {
			if f != fn && name == "DefaultHandler.Run" {
				continue
			}
			if hasGo(f) {
				spawn = true
			}
		}
		c.Check(!spawn, "F5", name, "dispatch is sequential (no go statement)", fn.Pos(), "none", "a go statement on the inbound dispatch path: messages of one connection would be handled concurrently and out of order")
	}
	for _, sf := range []string{"Acceptor.serve", "Initiator.Serve"} {
		if fn := c.Func("", sf); fn != nil {
			for _, cl := range fn.AnonFuncs {
				c.Check(!hasGo(cl), "F5", an.NameOf(cl)+"@"+sf, "connection goroutine spawns nothing", cl.Pos(), "none", "a goroutine of the connection spawns further goroutines: hand-offs would no longer be ordered")
			}
		}
	}
	if s := newSess(c); s != nil {
		for _, r := range s.roots() {
			if r.Cat != "inbound" {
				continue
			}
			spawned := false
			for _, t := range s.tr.Traces(r.Fn, s.m.AllStates) {
				for _, e := range t.Events {
					if e.Kind == "spawn" && !(strings.HasPrefix(e.Name, "start$")) {
						spawned = true
					}
				}
			}
			c.Check(!spawned, "F5", r.Name(), "inbound handler works synchronously", r.Fn.Pos(), "no go statement", "the handler spawns a goroutine")
		}
	}
	// ---- F6 isolation
	if ls := c.Func("", "Acceptor.ListenAndServe"); c.Anchor("accept loop", ls != nil, "Acceptor.ListenAndServe", posOf(ls)) {
		var accept *ssa.Call
		var serveGo *ssa.Go
		// the accept loop: a function literal of ListenAndServe or an unexported function of the package it starts with `go`
		group := an.WithAnon(ls)
		an.AllInstrs(ls, func(in ssa.Instruction) {
			if g, ok := in.(*ssa.Go); ok {
				if cal := an.StaticCallee(&g.Call); cal != nil && cal.Pkg == ls.Pkg && cal.Parent() == nil && !an.IsKnown(cal) {
					group = append(group, an.WithAnon(cal)...)
				}
			}
		})
		for _, f := range group {
			an.AllInstrs(f, func(in ssa.Instruction) {
				if call, ok := in.(*ssa.Call); ok && call.Call.IsInvoke() && call.Call.Method.Name() == "Accept" {
					accept = call
				}
				if g, ok := in.(*ssa.Go); ok {
					if cal := an.StaticCallee(&g.Call); cal != nil && an.FuncIs(cal, "simplefix-go", "Acceptor.serve") {
						serveGo = g
					}
				}
			})
		}
		ob := c.Ob("F6", "Acceptor.ListenAndServe", "each accepted socket is handed to its own serve goroutine", ls.Pos())
		switch {
		case accept == nil:
			ob.Fail("no Accept call found")
		case serveGo == nil:
			// serve may be called from a closure: then its connection argument must not come from a shared variable
			found := false
			for _, f := range group {
				an.AllInstrs(f, func(in ssa.Instruction) {
					if cc := an.CallOf(in); cc != nil {
						if cal := an.StaticCallee(cc); cal != nil && an.FuncIs(cal, "simplefix-go", "Acceptor.serve") {
							found = true
							arg := cc.Args[len(cc.Args)-1]
							if al := an.CellOf(arg); al != nil && len(an.CellStores(al)) > 0 {
								ob.Fail("the connection given to serve is read from variable %s, which the accept loop re-assigns: a goroutine started for one connection can serve a later one", al.Comment)
							} else {
								ob.Unknown("serve is not started directly by a go statement with the accepted connection")
							}
						}
					}
				})
			}
			if !found {
				ob.Fail("serve is never started")
			}
		default:
			arg := serveGo.Call.Args[len(serveGo.Call.Args)-1]
			if ex, ok := arg.(*ssa.Extract); ok && ex.Tuple == ssa.Value(accept) && ex.Index == 0 {
				ob.Ok("go s.serve(ctx, <result of Accept in this iteration>)")
			} else {
				ob.Fail("the connection given to serve is %s, not the value Accept returned in this iteration", an.Render(arg))
			}
		}
	}
	if sv := c.Func("", "Acceptor.serve"); c.Anchor("Acceptor.serve", sv != nil, "Acceptor.serve", posOf(sv)) {
		var nc, mh *ssa.Call
		an.AllInstrs(sv, func(in ssa.Instruction) {
			if call, ok := in.(*ssa.Call); ok {
				if an.CalleeIs(&call.Call, "simplefix-go", "NewConn") {
					nc = call
				}
				if call.Call.IsInvoke() && call.Call.Method.Name() == "MakeHandler" {
					mh = call
				}
			}
		})
		if nc == nil {
			// a small constructor helper of the acceptor (s.newConn(ctx, netConn)) called once from serve
			for _, h := range pkgHelpersOf(sv) {
				if owner, _ := an.LogicalOwner(h); owner != sv {
					continue
				}
				an.AllInstrs(h, func(in ssa.Instruction) {
					if call, ok := in.(*ssa.Call); ok && an.CalleeIs(&call.Call, "simplefix-go", "NewConn") {
						nc = call
					}
				})
			}
		}
		okSock := false
		if nc != nil && len(nc.Call.Args) > 1 {
			var sock ssa.Value = nc.Call.Args[1]
			if p, isP := sock.(*ssa.Parameter); isP && p.Parent() != sv {
				if a, has := an.OwnerSub(p.Parent())[p]; has {
					sock = a
				}
			}
			okSock = sock == ssa.Value(sv.Params[2])
		}
		c.Check(nc != nil && !inLoop(nc.Block()) && okSock, "F6", "Acceptor.serve", "a fresh Conn wraps this connection's socket", sv.Pos(), "NewConn(…, netConn, …)", "serve does not create its own Conn over the socket it was given")
		c.Check(mh != nil && an.Render(mh.Call.Value) == "s.factory", "F6", "Acceptor.serve", "the handler comes from the factory for this connection", sv.Pos(), "s.factory.MakeHandler(ctx)", "the handler is not obtained from the factory per connection")
		stores := 0
		for _, f := range an.WithAnon(sv) {
			an.AllInstrs(f, func(in ssa.Instruction) {
				if st, ok := in.(*ssa.Store); ok {
					if fa, ok := st.Addr.(*ssa.FieldAddr); ok && an.TypeIs(fa.X.Type(), "simplefix-go", "Acceptor") {
						stores++
					}
				}
			})
		}
		c.Check(stores == 0, "F6", "Acceptor.serve", "nothing per-connection is stored on the Acceptor", sv.Pos(), "no stores to Acceptor fields", fmt.Sprintf("%d stores to Acceptor fields in serve: state shared between connections", stores))
	}
	if mk := c.Func("", "AcceptorHandlerFactory.MakeHandler"); c.Anchor("default factory", mk != nil, "AcceptorHandlerFactory.MakeHandler", posOf(mk)) {
		ps, _ := an.EnumPaths(mk, 8)
		ok := len(ps) == 1 && len(ps[0].Results) == 1 && strings.HasPrefix(ps[0].Results[0], "simplefixgo.NewAcceptorHandler(")
		c.Check(ok, "F6", "AcceptorHandlerFactory.MakeHandler", "returns a new handler on every call", mk.Pos(), "NewAcceptorHandler(...)", "MakeHandler does not construct a new handler per call")
		nh := an.Delegate(c.Func("", "NewAcceptorHandler")) // the function that holds the constructor's body
		if nh != nil {
			chans := 0
			an.AllInstrs(nh, func(in ssa.Instruction) {
				if _, ok := in.(*ssa.MakeChan); ok {
					chans++
				}
			})
			c.Check(chans == 3, "F6", "NewAcceptorHandler", "fresh out/incoming/errors channels per handler", nh.Pos(), "3 make(chan)", fmt.Sprintf("%d channels created", chans))
			// nothing a handler dispatches through is shared between handlers: every store to a channel or pool field of
			// DefaultHandler, anywhere, stores something made for that handler (make / New…Pool()), never a value taken from elsewhere
			perHandler := map[string]bool{"out": true, "incoming": true, "errors": true, "incomingHandlers": true, "outgoingHandlers": true, "eventHandlers": true}
			nSt := 0
			for _, fn := range fns {
				an.AllInstrs(fn, func(in ssa.Instruction) {
					st, ok := in.(*ssa.Store)
					if !ok {
						return
					}
					fa, ok := st.Addr.(*ssa.FieldAddr)
					if !ok || !an.TypeIs(fa.X.Type(), "simplefix-go", "DefaultHandler") || !perHandler[an.FieldName(an.FieldOf(fa))] {
						return
					}
					nSt++
					fresh := false
					switch v := an.Unwrap(st.Val).(type) {
					case *ssa.MakeChan:
						fresh = true
					case *ssa.Call:
						if cal := an.StaticCallee(&v.Call); cal != nil && strings.HasPrefix(an.NameOf(cal), "New") && strings.HasSuffix(an.NameOf(cal), "Pool") {
							fresh = true
						}
					}
					c.Check(fresh, "F6", an.NameOf(fn), "handler."+an.FieldName(an.FieldOf(fa))+" is made for this handler", st.Pos(), "make(chan) / New…Pool()",
						"DefaultHandler."+an.FieldName(an.FieldOf(fa))+" is set to "+an.Render(st.Val)+": a queue or handler registry taken from elsewhere is shared between connections — one connection's handlers then see another connection's messages")
				})
			}
			c.Check(nSt >= 6, "F6", "DefaultHandler", "stores to the per-handler queues and registries found", token.NoPos, fmt.Sprint(nSt), fmt.Sprintf("only %d stores found (6 per constructor were confirmed)", nSt))
		}
	}
	// F5 (outbound): nothing between a sender and the outgoing queue runs in another goroutine — a message parked in a goroutine
	// is overtaken by the next one
	if s := newSess(c); s != nil {
		checkSendChainNoSpawn(c, s, "F5")
	}
	checkNoMessageDropped(c, "F7")
	checkServeIncomingHandsOver(c, "F7")
	checkReaderQueue(c, "F8", fns)
	checkBatchUnit(c, "F9")
	// F11: the reader's own end (the peer hung up) does not cancel the connection's context. What the reader has handed over may
	// still be on its way to the handler; with the context cancelled, the handler's answer to an earlier message fails in
	// Conn.Write (ErrConnClosed), the outbound pump's tear-down cancels the handler, and the inbound pump drops the message it holds.
	if rr := c.Func("", "Conn.runReader"); rr != nil {
		cancels := ""
		var where token.Pos = rr.Pos()
		for _, f := range an.WithAnon(rr) {
			an.AllInstrs(f, func(in ssa.Instruction) {
				cc := an.CallOf(in)
				if cc == nil {
					return
				}
				if fld, _ := an.LoadedField(cc.Value); fld != nil && an.FieldName(fld) == "cancel" {
					kind := "calls"
					if _, isD := in.(*ssa.Defer); isD {
						kind = "defers"
					}
					cancels = kind + " " + an.Render(cc.Value) + "()"
					where = in.Pos()
				}
			})
		}
		c.Check(cancels == "", "F11", "Conn.runReader", "the reader's end does not cancel the connection's context", where, "no cancel in runReader (Close cancels)",
			"runReader "+cancels+": when the peer hangs up after sending, the connection's context is cancelled while framed messages are still on their way; an answer the handler sends to an earlier one then fails in Conn.Write, the outbound pump's tear-down cancels the handler, and the inbound pump drops the message it holds")
	}
	// F10: the bytes handed to the outgoing queue are not written again — every Prepare builds its image in fresh memory (a message
	// object that is sent twice must not overwrite the image still waiting in the queue)
	checkImageFresh(c, "F10")
	checkWhoDispatches(c, "F5", fns)
	c.Explanation += " F11: Conn.runReader neither calls nor defers the connection's cancel function (recorded finding D21: it defers it)." + " F5 also: DefaultHandler.serve is called only from Run and the drain helper Run calls (one dispatching goroutine). F10 (= C05.K9): every Prepare builds its image in fresh memory." + " F8 also: the handler's errors channel is unbuffered — StopWithError is a rendezvous with Run, which drains the inbound queue before the reporter's tear-down can cancel the pump. F9: SendBatch takes the send mutex once, outside its loop, and hands each element to the unexported send inside the loop with no lock operation in between — a batch is handed over as a unit, so a message handed over later cannot appear in the middle of it."
	c.Explanation += " F4 counts goroutines through helpers shared by both serve functions (a literal inside such a helper runs for each caller; an unexported method or method value handed to errgroup.Go is a goroutine of its caller). F7 also covers every receive from a byte-message channel in the root package: on each path on which the receive succeeded the value is passed on (to a call, a send, a store or the result) before the function returns or loops — a message that is only measured and dropped is lost."
	c.Explanation += " F8: the capacity of Conn.reader is NewConn's size parameter and that argument is zero at every call site (a constant 0 or a field nothing assigns) — what the reader has queued when the connection ends is not delivered, so nothing may be queued there; no len()/cap() of a channel decides anything in the transport. (The initiating side passes the caller's bufSize: recorded finding D19.)"
	// F4 also: the only socket option the transport sets is the write deadline; F5 also: each message is offered once per pool
	checkNoSocketOptionSurprises(c, "F4", fns)
	checkPoolRange(c, "F5", "Incoming")
	c.Explanation += " F4 also: no SetDeadline/SetReadDeadline/SetLinger anywhere in the transport (the read side stays un-armed, Close does not discard unsent output). F5 also: IncomingHandlerPool.Range walks the handlers of the requested type only (= C19.H2)."
	c.RuleMin = map[string]int{"F1": 3, "F2": 3, "F3": 1, "F4": 6, "F5": 22, "F6": 12, "F7": 8, "F8": 5, "F9": 2, "F10": 1, "F11": 1}
	c.MinObl = 40
}

func blockReachable(from, to *ssa.BasicBlock) bool {
	seen := map[*ssa.BasicBlock]bool{}
	work := append([]*ssa.BasicBlock(nil), from.Succs...)
	for len(work) > 0 {
		x := work[0]
		work = work[1:]
		if x == to {
			return true
		}
		if seen[x] {
			continue
		}
		seen[x] = true
		work = append(work, x.Succs...)
	}
	return false
}

// goroutineOwners names the goroutine bodies that execute fn, as (top-level function, body) pairs: a function literal is its own
// body under its enclosing top-level function; an unexported plain function of the package belongs to the bodies that call it
// (or, where it is spawned with go, is itself a body under the spawning function); anything else is its own root.
// checkSinglePumps (C04.F4, C05.K11): per connection there is one goroutine that writes the socket (Conn.Write), one that takes
// input from the reader (Conn.Reader) and one that hands it to the handler (ServeIncoming) — exactly one goroutine body of each
// serve function each — and the writer is not the forwarder. Two writers reorder the stream; a writer that also forwards stalls
// one direction while it waits in the other.
func checkSinglePumps(c *core.Ctx, rule string, fns []*ssa.Function) map[string]map[string][]string {
	// callers of Reader(), ServeIncoming, Conn.Write: one closure per serve function
	sitesOf := map[string]map[string][]string{}
	for _, m := range []struct{ what, method string }{{"Conn.Reader", "Reader"}, {"ServeIncoming", "ServeIncoming"}, {"Conn.Write", "Write"}} {
		sites := map[string][]string{}
		sitesOf[m.method] = sites
		for _, fn := range fns {
			an.AllInstrs(fn, func(in ssa.Instruction) {
				cc := an.CallOf(in)
				if cc == nil {
					return
				}
				hit := false
				if cal := an.StaticCallee(cc); cal != nil && an.FuncIs(cal, "simplefix-go", "Conn."+m.method) {
					hit = true
				}
				if cc.IsInvoke() && cc.Method.Name() == m.method && m.method == "ServeIncoming" {
					hit = true
				}
				if hit {
					for _, o := range goroutineOwners(fn, fns, 0) {
						sites[o[0]] = append(sites[o[0]], o[1])
					}
				}
			})
		}
		ok := len(sites) == 2 && len(sites["serve"]) == 1 && len(sites["Serve"]) == 1
		c.Check(ok, rule, m.what, "called from exactly one goroutine closure of each serve function", token.NoPos, fmt.Sprint(sites), fmt.Sprintf("call sites %v; expected one closure in Acceptor.serve and one in Initiator.Serve", sites))
	}
	// the inbound pump and the outbound pump are different goroutines: the hand-off to the handler (which can wait for the handler
	// loop) must never keep the outgoing queue from being drained, and a slow socket write must never keep input from being handed on
	for _, root := range []string{"serve", "Serve"} {
		shared := ""
		for _, w := range sitesOf["Write"][root] {
			for _, r := range sitesOf["ServeIncoming"][root] {
				if w == r {
					shared = w
				}
			}
		}
		c.Check(shared == "" && len(sitesOf["Write"][root]) > 0 && len(sitesOf["ServeIncoming"][root]) > 0, rule, root, "inbound hand-off and outbound write run in different goroutines", token.NoPos,
			fmt.Sprintf("writer %v, forwarder %v", sitesOf["Write"][root], sitesOf["ServeIncoming"][root]),
			fmt.Sprintf("goroutine %s both writes to the socket and hands input to the handler: while it waits in one, the other direction stalls (a handler answering from its loop then deadlocks with a full queue), and further input is never delivered", shared))
	}
	return sitesOf
}

func goroutineOwners(fn *ssa.Function, fns []*ssa.Function, depth int) [][2]string {
	if fn.Parent() != nil {
		root := fn
		for root.Parent() != nil {
			root = root.Parent()
		}
		// a literal inside a helper that the serve functions share (an unexported function every use of which is a plain
		// call) runs for each of the helper's callers
		if depth < 4 {
			ros := goroutineOwners(root, fns, depth+1)
			if !(len(ros) == 1 && ros[0][0] == an.NameOf(root) && ros[0][1] == an.NameOf(root)) {
				var out [][2]string
				seen := map[[2]string]bool{}
				for _, ro := range ros {
					o := [2]string{ro[0], an.NameOf(fn)}
					// spawned by the helper itself: the literal is its own goroutine; otherwise it runs in the caller's
					if !isSpawned(fn) {
						o[1] = ro[1]
					}
					if !seen[o] {
						seen[o] = true
						out = append(out, o)
					}
				}
				return out
			}
		}
		return [][2]string{{an.NameOf(root), an.NameOf(fn)}}
	}
	self := [][2]string{{an.NameOf(fn), an.NameOf(fn)}}
	if depth > 4 || fn.Object() == nil || fn.Object().Exported() || an.IsKnown(fn) {
		return self
	}
	var out [][2]string
	seen := map[[2]string]bool{}
	escapes := false
	for _, caller := range fns {
		if caller.Synthetic != "" {
			continue
		}
		an.AllInstrs(caller, func(in ssa.Instruction) {
			cc := an.CallOf(in)
			// the function (or the method value x.fn) handed to errgroup.Group.Go is a goroutine started by the caller
			spawned := false
			if call, ok := in.(*ssa.Call); ok && an.CalleeIs(&call.Call, "errgroup", "Group.Go") && len(call.Call.Args) == 2 {
				if _, lit := an.Unwrap(call.Call.Args[1]).(*ssa.MakeClosure); an.ClosureFn(call.Call.Args[1]) == fn && (fn.Parent() == nil || !lit) {
					spawned = true
				}
			}
			if mc, ok := in.(*ssa.MakeClosure); ok && !spawned {
				if w, ok := mc.Fn.(*ssa.Function); ok && w != fn && an.BoundTarget(w) == fn {
					// a method value: fine when its only use is as the argument of errgroup.Group.Go (handled at that call)
					for _, ref := range *mc.Referrers() {
						if call, ok := ref.(*ssa.Call); !ok || !an.CalleeIs(&call.Call, "errgroup", "Group.Go") {
							escapes = true
						}
					}
				}
			}
			for _, op := range in.Operands(nil) {
				if op != nil && *op == ssa.Value(fn) && (cc == nil || cc.Value != ssa.Value(fn)) && !spawned {
					escapes = true
				}
			}
			if !spawned && (cc == nil || an.StaticCallee(cc) != fn) {
				return
			}
			var os [][2]string
			if _, isGo := in.(*ssa.Go); isGo || spawned {
				root := caller
				for root.Parent() != nil {
					root = root.Parent()
				}
				os = [][2]string{{an.NameOf(root), an.NameOf(fn)}}
			} else {
				os = goroutineOwners(caller, fns, depth+1)
			}
			for _, o := range os {
				if !seen[o] {
					seen[o] = true
					out = append(out, o)
				}
			}
		})
	}
	if escapes || len(out) == 0 {
		return self
	}
	return out
}

// serveBodies lists the function literals of a serve function together with the unexported plain functions that only they execute.
func serveBodies(fn *ssa.Function, fns []*ssa.Function) []*ssa.Function {
	out := an.WithAnon(fn)
	for _, h := range fns {
		if h.Parent() != nil || h == fn || h.Pkg != fn.Pkg || len(h.Blocks) == 0 {
			continue
		}
		os := goroutineOwners(h, fns, 0)
		mine := len(os) > 0
		for _, o := range os {
			if o[0] != an.NameOf(fn) || o[1] == an.NameOf(h) && o[0] == an.NameOf(h) {
				mine = false
			}
		}
		if mine {
			out = append(out, h)
		}
	}
	return out
}

// isSpawned: the function literal is started as a goroutine where it is created (go func(){…}() or errgroup's Go(func…)).
func isSpawned(fn *ssa.Function) bool {
	p := fn.Parent()
	if p == nil {
		return false
	}
	spawned := false
	an.AllInstrs(p, func(in ssa.Instruction) {
		if g, ok := in.(*ssa.Go); ok && an.StaticCallee(&g.Call) == fn {
			spawned = true
		}
		if call, ok := in.(*ssa.Call); ok && an.CalleeIs(&call.Call, "errgroup", "Group.Go") && len(call.Call.Args) == 2 && an.ClosureFn(call.Call.Args[1]) == fn {
			spawned = true
		}
	})
	return spawned
}

// checkNoMessageDropped (C04.F7, C14.Q6, C05.K11): a message taken from a byte-message channel of the transport (the connection's
// reader, the handler's incoming and outgoing queues — any `chan []byte` received from in the root package) is gone from the
// queue; on every path on which the receive succeeded the value must be handed on (passed to a call, sent, stored or returned)
// before the function returns or goes round its loop. A path that only measures it and lets it go loses a message.
func checkNoMessageDropped(c *core.Ctx, rule string) {
	pkg := c.SSAPkg("")
	if !c.Anchor("root package", pkg != nil, "simplefixgo", token.NoPos) {
		return
	}
	isMsgChan := func(t types.Type) bool {
		ch, ok := t.Underlying().(*types.Chan)
		if !ok {
			return false
		}
		sl, ok := ch.Elem().Underlying().(*types.Slice)
		if !ok {
			return false
		}
		b, ok := sl.Elem().Underlying().(*types.Basic)
		return ok && b.Kind() == types.Uint8
	}
	n := 0
	for _, fn := range pkgFuncs(pkg) {
		type recv struct {
			at  ssa.Instruction
			val ssa.Value // the received message
			ok  ssa.Value // the comma-ok result (nil if not taken)
		}
		var recvs []recv
		an.AllInstrs(fn, func(in ssa.Instruction) {
			switch x := in.(type) {
			case *ssa.Select:
				k := 0
				for _, st := range x.States {
					if st.Dir != types.RecvOnly {
						continue
					}
					idx := 2 + k
					k++
					if !isMsgChan(st.Chan.Type()) {
						continue
					}
					r := recv{at: x}
					for _, ref := range *x.Referrers() {
						if ex, isEx := ref.(*ssa.Extract); isEx {
							if ex.Index == idx {
								r.val = ex
							}
							if ex.Index == 1 {
								r.ok = ex
							}
						}
					}
					recvs = append(recvs, r)
				}
			case *ssa.UnOp:
				if x.Op == token.ARROW && isMsgChan(x.X.Type()) {
					r := recv{at: x, val: x}
					if x.CommaOk {
						r.val, r.ok = nil, nil
						for _, ref := range *x.Referrers() {
							if ex, isEx := ref.(*ssa.Extract); isEx {
								if ex.Index == 0 {
									r.val = ex
								} else {
									r.ok = ex
								}
							}
						}
					}
					recvs = append(recvs, r)
				}
			}
		})
		if len(recvs) == 0 {
			continue
		}
		paths, over := an.EnumPaths(fn, 4096)
		for _, r := range recvs {
			n++
			ob := c.Ob(rule, an.NameOf(fn), "a message received from "+an.Render(recvChan(r.at))+" is handed on", r.at.Pos())
			if over {
				ob.Unknown("too many paths")
				continue
			}
			if r.val == nil {
				// the value is never looked at: a drain (only legitimate where nothing can be queued; tabled by name)
				if an.NameOf(fn) == "processRemainingErrors" {
					ob.Ok("drain")
				} else {
					ob.Fail("the received message is discarded")
				}
				continue
			}
			bad := ""
			for _, p := range paths {
				if !p.Passes(r.at) || p.Panic {
					continue
				}
				// the receive succeeded on this path (for a select: this case was chosen and, if tested, ok is true)
				chosen := true
				for _, a := range p.Atoms {
					if r.ok != nil && a.Val == r.ok && !a.Taken {
						chosen = false
					}
					if r.ok != nil {
						if u, isU := a.Val.(*ssa.UnOp); isU && u.Op == token.NOT && u.X == r.ok && a.Taken {
							chosen = false
						}
					}
					if sel, isSel := r.at.(*ssa.Select); isSel {
						// index test: extract #0 == k
						if bo, isB := a.Val.(*ssa.BinOp); isB && bo.Op == token.EQL {
							if ex, isEx := bo.X.(*ssa.Extract); isEx && ex.Tuple == ssa.Value(sel) && ex.Index == 0 {
								if k, isK := an.ConstInt(bo.Y); isK {
									mine := selectIndexOf(sel, r.val)
									if (int(k) == mine) != a.Taken && int(k) == mine {
										chosen = false
									}
									if int(k) != mine && a.Taken {
										chosen = false
									}
								}
							}
						}
					}
				}
				if !chosen {
					continue
				}
				// forward flow of the value along the path
				taint := map[ssa.Value]bool{r.val: true}
				consumed := false
				after := false
				for _, in := range p.InstrSeq() {
					if in == r.at {
						after = true
						continue
					}
					if !after {
						continue
					}
					uses := false
					for _, op := range in.Operands(nil) {
						if op != nil && *op != nil && taint[*op] {
							uses = true
						}
					}
					if !uses {
						continue
					}
					switch x := in.(type) {
					case *ssa.Call:
						if b, isB := x.Call.Value.(*ssa.Builtin); isB {
							if b.Name() == "append" || b.Name() == "copy" {
								taint[x] = true
								if b.Name() == "copy" {
									taint[x.Call.Args[0]] = true
								}
							}
							continue
						}
						consumed = true
					case *ssa.Send, *ssa.Store, *ssa.Return, *ssa.MapUpdate, *ssa.Go, *ssa.Defer:
						consumed = true
					case ssa.Value:
						taint[x] = true
					}
				}
				if !consumed {
					end := "returns"
					if p.Loop {
						end = "goes round its loop"
					}
					bad = "under [" + p.CondString() + "] the function " + end + " without having handed the received message on"
					break
				}
			}
			if bad != "" {
				ob.Fail("%s: the message is lost", bad)
			} else {
				ob.Ok("handed on (or the receive did not succeed) on every path")
			}
		}
	}
	c.Check(n >= 4, rule, "", "message receives found", token.NoPos, fmt.Sprint(n), fmt.Sprintf("only %d receives from byte-message channels found in the root package; 5 were confirmed by reading", n))
}

func recvChan(in ssa.Instruction) ssa.Value {
	switch x := in.(type) {
	case *ssa.UnOp:
		return x.X
	case *ssa.Select:
		for _, st := range x.States {
			if st.Dir == types.RecvOnly {
				if ch, ok := st.Chan.Type().Underlying().(*types.Chan); ok {
					if _, isSl := ch.Elem().Underlying().(*types.Slice); isSl {
						return st.Chan
					}
				}
			}
		}
	}
	return nil
}

// selectIndexOf: the index of the select state whose received value is v (an extract of the select).
func selectIndexOf(sel *ssa.Select, v ssa.Value) int {
	ex, ok := v.(*ssa.Extract)
	if !ok {
		return -1
	}
	k := 0
	for i, st := range sel.States {
		if st.Dir != types.RecvOnly {
			continue
		}
		if 2+k == ex.Index {
			return i
		}
		k++
	}
	return -1
}

// checkReaderQueue (C04.F8): when a connection ends, the inbound pump of both serve functions leaves its loop as soon as the
// connection's context is done; whatever the reader has framed and queued in Conn.reader by then is never handed to the handler.
// With an unbuffered queue nothing can be waiting there (the reader's hand-off is a rendezvous with the pump, and what the pump
// has taken is in the handler's own queue, which the handler drains when it stops). So: the capacity given to Conn.reader is the
// size parameter of NewConn, and that argument is zero at every call site — a constant 0 or a field nothing ever assigns. Also no
// len()/cap() of a channel decides anything on the inbound path (a queue's length says nothing about a sender blocked on it).
func checkReaderQueue(c *core.Ctx, rule string, fns []*ssa.Function) {
	nc := c.Func("", "NewConn")
	rf := c.Field("", "Conn", "reader")
	if !c.Anchor("connection constructor", nc != nil && rf != nil && len(nc.Params) >= 3, "NewConn, Conn.reader", posOf(nc)) {
		return
	}
	// the reader queue's capacity is NewConn's size parameter
	okCap := false
	an.AllInstrs(nc, func(in ssa.Instruction) {
		st, ok := in.(*ssa.Store)
		if !ok {
			return
		}
		fa, ok := st.Addr.(*ssa.FieldAddr)
		if !ok || an.FieldOf(fa) != rf {
			return
		}
		if mk, ok := st.Val.(*ssa.MakeChan); ok {
			if mk.Size == ssa.Value(nc.Params[2]) {
				okCap = true
			}
			if k, isK := an.ConstInt(mk.Size); isK && k == 0 {
				okCap = true
			}
		}
	})
	c.Check(okCap, rule, "NewConn", "Conn.reader is made with the size NewConn is given", nc.Pos(), "make(chan []byte, msgBuffSize)", "the capacity of Conn.reader is not NewConn's size parameter (or 0)")
	neverAssigned := func(f *types.Var) bool {
		assigned := false
		for _, fn := range fns {
			an.AllInstrs(fn, func(in ssa.Instruction) {
				if st, ok := in.(*ssa.Store); ok {
					if fa, ok := st.Addr.(*ssa.FieldAddr); ok && an.FieldOf(fa) == f {
						if k, isK := an.ConstInt(st.Val); !isK || k != 0 {
							assigned = true
						}
					}
				}
			})
		}
		return !assigned
	}
	n := 0
	for _, fn := range fns {
		an.AllInstrs(fn, func(in ssa.Instruction) {
			call, ok := in.(*ssa.Call)
			if !ok || an.StaticCallee(&call.Call) != nc || len(call.Call.Args) < 3 {
				return
			}
			n++
			arg := call.Call.Args[2]
			okArg, why := false, ""
			if k, isK := an.ConstInt(arg); isK {
				okArg = k == 0
				why = fmt.Sprintf("the constant %d", k)
			} else if f, _ := an.LoadedField(arg); f != nil {
				okArg = neverAssigned(f)
				why = "the field " + an.FieldName(f) + ", which is assigned a non-zero value somewhere"
			} else {
				why = an.Render(arg) + ", a value chosen by the caller"
			}
			c.Check(okArg, rule, an.NameOf(fn), "the connection's reader queue is unbuffered", call.Pos(), "NewConn(…, 0, …) (or a size field nothing assigns)",
				"the reader queue of this connection gets the capacity "+why+": messages the reader has framed and queued when the connection ends (the peer sends and hangs up) are still in that queue when the inbound pump leaves on the cancelled context, and are never given to the handler")
		})
	}
	c.Check(n >= 2, rule, "", "NewConn call sites found", token.NoPos, fmt.Sprint(n), fmt.Sprintf("%d call sites of NewConn", n))
	// the handler's error hand-off is a rendezvous: the serving goroutine reports the end of the connection with StopWithError
	// and tears the connection down (cancel) right after; with an unbuffered errors channel StopWithError returns only once Run
	// has taken the error, and Run drains the inbound queue — including the message the pump is holding — before the tear-down
	// can cancel the pump. A buffered channel lets the tear-down overtake the drain and the held message is dropped.
	if ef := c.Field("", "DefaultHandler", "errors"); c.Anchor("handler error channel", ef != nil, "DefaultHandler.errors", nc.Pos()) {
		for _, fn := range fns {
			an.AllInstrs(fn, func(in ssa.Instruction) {
				st, ok := in.(*ssa.Store)
				if !ok {
					return
				}
				fa, ok := st.Addr.(*ssa.FieldAddr)
				if !ok || an.FieldOf(fa) != ef {
					return
				}
				mk, isMk := st.Val.(*ssa.MakeChan)
				k, isK := int64(-1), false
				if isMk {
					k, isK = an.ConstInt(mk.Size)
				}
				c.Check(isMk && isK && k == 0, rule, an.NameOf(fn), "the handler's error hand-off is a rendezvous (unbuffered errors channel)", st.Pos(), "make(chan error)",
					"the handler's errors channel is "+an.Render(st.Val)+": StopWithError returns before Run has taken the error, the caller's tear-down cancels the inbound pump while it still holds a message read from the socket, and that message is never given to the handler")
			})
		}
	}
	// no len()/cap() of a channel in the transport
	for _, fn := range fns {
		if fn.Pkg == nil || fn.Pkg != nc.Pkg {
			continue
		}
		an.AllInstrs(fn, func(in ssa.Instruction) {
			call, ok := in.(*ssa.Call)
			if !ok {
				return
			}
			if b, isB := call.Call.Value.(*ssa.Builtin); isB && (b.Name() == "len" || b.Name() == "cap") && len(call.Call.Args) == 1 {
				if _, isCh := call.Call.Args[0].Type().Underlying().(*types.Chan); isCh {
					c.Ob(rule, an.NameOf(fn), b.Name()+"() of a channel", call.Pos()).Fail("%s decides on %s(%s): the length of a queue does not count a sender that is blocked on it (with an unbuffered queue it is always 0), so a message that is being handed over is taken for absent", an.NameOf(fn), b.Name(), an.Render(call.Call.Args[0]))
				}
			}
		})
	}
}

// checkBatchUnit: the messages of one SendBatch call are handed to the connection as a unit — the send mutex is taken once, before
// the loop, every element goes to the unexported send while it is held, and no lock operation happens inside the loop.
func checkBatchUnit(c *core.Ctx, rule string) {
	sb, hsend := c.Func("", "DefaultHandler.SendBatch"), c.Func("", "DefaultHandler.send")
	hmu := c.Field("", "DefaultHandler", "mu")
	if !c.Anchor("batch send", sb != nil && hsend != nil && hmu != nil, "DefaultHandler.SendBatch, send, mu", posOf(sb)) {
		return
	}
	locksOutside, opsInLoop, sendsInLoop, otherSends := 0, 0, 0, ""
	an.AllInstrs(sb, func(in ssa.Instruction) {
		cc := an.CallOf(in)
		if cc == nil {
			return
		}
		if id, op, ok := an.LockOp(cc); ok && id.Field == hmu {
			if _, isDefer := in.(*ssa.Defer); isDefer {
				return
			}
			if inLoop(in.Block()) {
				opsInLoop++
			} else if op == "Lock" {
				locksOutside++
			}
			return
		}
		callee := an.StaticCallee(cc)
		if callee == hsend && inLoop(in.Block()) {
			sendsInLoop++
		} else if callee != nil && callee != hsend && callee.Pkg == sb.Pkg && callee.Signature.Recv() != nil && inLoop(in.Block()) {
			// another method of the handler called per element: Send and SendRaw take the mutex per call
			an.AllInstrs(callee, func(in2 ssa.Instruction) {
				if c2 := an.CallOf(in2); c2 != nil {
					if id, op, ok := an.LockOp(c2); ok && id.Field == hmu && op == "Lock" {
						otherSends = an.NameOf(callee)
					}
				}
			})
		}
	})
	c.Check(locksOutside >= 1 && opsInLoop == 0, rule, "DefaultHandler.SendBatch", "the send mutex is taken once, before the loop, and not touched inside it", sb.Pos(), "mu.Lock(); for … { send }",
		fmt.Sprintf("%d Lock outside the loop, %d lock operations inside it: between two elements of the batch another goroutine's message can take the mutex and is enqueued in the middle of the batch", locksOutside, opsInLoop))
	c.Check(sendsInLoop >= 1 && otherSends == "", rule, "DefaultHandler.SendBatch", "each element goes to the unexported send under that mutex", sb.Pos(), "h.send(m) in the loop",
		fmt.Sprintf("%d direct calls of send in the loop; per-element call of %s, which takes and releases the mutex itself: the batch is not handed over as a unit", sendsInLoop, otherSends))
}

// framingRules (F1–F3): the connection reader consumes the stream with one ReadBytes(SOH) site, never drops or re-slices what it
// has read, and hands a message off exactly when the segment read starts with the CheckSum tag and '='. C16 runs them as a premise
// (a damaged administrative message must not swallow the valid message that follows it).
func framingRules(c *core.Ctx, fns []*ssa.Function) bool {
	rr := c.Func("", "Conn.runReader")
	if !c.Anchor("connection reader", rr != nil, "(*Conn).runReader", posOf(rr)) {
		return false
	}
	readerF := c.Field("", "Conn", "reader")
	// ---- F1
	var newReader, read *ssa.Call
	nNew, nRead := 0, 0
	for _, fn := range fns {
		an.AllInstrs(fn, func(in ssa.Instruction) {
			cc := an.CallOf(in)
			if cc == nil {
				return
			}
			if cc.IsInvoke() && an.TypeIs(cc.Value.Type(), "net", "Conn") && strings.HasPrefix(cc.Method.Name(), "Read") {
				c.Ob("F1", an.NameOf(fn), "direct read of the socket", in.Pos()).Fail("net.Conn.%s bypasses the connection's buffered reader: bytes would be taken out of the framed stream", cc.Method.Name())
			}
			cal := an.StaticCallee(cc)
			if cal == nil || cal.Pkg == nil || cal.Pkg.Pkg.Path() != "bufio" {
				return
			}
			call, _ := in.(*ssa.Call)
			switch {
			case an.NameOf(cal) == "NewReader" || an.NameOf(cal) == "NewReaderSize":
				nNew++
				newReader = call
			case cal.Signature.Recv() != nil && an.TypeIs(cal.Signature.Recv().Type(), "bufio", "Reader") && (strings.HasPrefix(an.NameOf(cal), "Read") || an.NameOf(cal) == "Peek" || an.NameOf(cal) == "Discard" || an.NameOf(cal) == "WriteTo"):
				nRead++
				read = call
				c.Check(an.NameOf(cal) == "ReadBytes", "F1", an.NameOf(fn), "stream is consumed with ReadBytes", in.Pos(), "bufio.Reader.ReadBytes", "the stream is consumed with bufio.Reader."+an.NameOf(cal)+": unlike ReadBytes it can fail on, truncate or alias a long field")
			}
		})
	}
	okNR := nNew == 1 && newReader != nil && newReader.Parent() == rr && !inLoop(newReader.Block()) && an.Render(newReader.Call.Args[0]) == "c.conn"
	c.Check(okNR, "F1", "Conn.runReader", "one buffered reader per connection, created outside the read loop, on the connection's socket", posOf(rr), "bufio.NewReader(c.conn) once, before the loop",
		fmt.Sprintf("%d bufio readers; the reader must be created once in runReader, outside the loop, over c.conn (a reader created per iteration drops buffered bytes)", nNew))
	okRd := nRead == 1 && read != nil && read.Parent() == rr && newReader != nil && read.Call.Args[0] == ssa.Value(newReader)
	delim, isC := int64(-1), false
	if read != nil && len(read.Call.Args) == 2 {
		delim, isC = an.ConstInt(read.Call.Args[1])
	}
	c.Check(okRd && isC && delim == 1, "F1", "Conn.runReader", "single read site: ReadBytes(SOH) on that reader", posOf(rr), "r.ReadBytes(1)", fmt.Sprintf("%d read sites / delimiter %d", nRead, delim))
	if read == nil || read.Parent() != rr {
		return false
	}
	// ---- F2
	var msgPhi *ssa.Phi
	var appendCall *ssa.Call
	an.AllInstrs(rr, func(in ssa.Instruction) {
		call, ok := in.(*ssa.Call)
		if !ok {
			return
		}
		if b, isB := call.Call.Value.(*ssa.Builtin); isB && b.Name() == "append" && len(call.Call.Args) == 2 {
			if ex, ok := call.Call.Args[1].(*ssa.Extract); ok && ex.Tuple == ssa.Value(read) && ex.Index == 0 {
				if phi, ok := call.Call.Args[0].(*ssa.Phi); ok {
					msgPhi, appendCall = phi, call
				}
			}
		}
	})
	if !c.Anchor("partial-message buffer", msgPhi != nil, "loop-carried local appended with the bytes read", posOf(rr)) {
		return false
	}
	// the hand-off
	var sendSel *ssa.Select
	sendState := -1
	an.AllInstrs(rr, func(in ssa.Instruction) {
		if sel, ok := in.(*ssa.Select); ok {
			for i, st := range sel.States {
				if st.Dir == 1 {
					if f, _ := an.LoadedField(st.Chan); f == readerF {
						sendSel, sendState = sel, i
					}
				}
			}
		}
		if snd, ok := in.(*ssa.Send); ok {
			if f, _ := an.LoadedField(snd.Chan); f == readerF {
				c.Ob("F2", "Conn.runReader", "hand-off is a select case", snd.Pos()).Fail("bare send on Conn.reader (C13.Z1)")
			}
		}
	})
	if !c.Anchor("hand-off on Conn.reader", sendSel != nil, "select case sending on c.reader", posOf(rr)) {
		return false
	}
	c.Check(sendSel.States[sendState].Send == ssa.Value(appendCall), "F2", "Conn.runReader", "the message handed off is the accumulated buffer including the segment just read", sendSel.Pos(),
		"c.reader <- append(msg, buff...)", "the value sent on Conn.reader is "+an.Render(sendSel.States[sendState].Send)+", not the buffer with the last segment appended")
	head := msgPhi.Block()
	var bad []string
	for i, pred := range head.Preds {
		v := msgPhi.Edges[i]
		if !blockReachable(read.Block(), pred) && pred != read.Block() {
			// entry edge
			if !isFreshEmpty(v) {
				bad = append(bad, "the buffer does not start empty: "+an.Render(v))
			}
			continue
		}
		switch {
		case v == ssa.Value(appendCall):
			// segment appended, loop continues
		case isFreshEmpty(v):
			// allowed only after the hand-off succeeded on this edge
			if !(sendSel.Block().Dominates(pred) && pred != sendSel.Block()) {
				bad = append(bad, "the buffer is reset on a way back to the loop head that does not pass the hand-off: the message read so far is dropped")
			}
		case v == ssa.Value(msgPhi):
			bad = append(bad, fmt.Sprintf("a way back to the loop head (from block %s) keeps the old buffer: the bytes ReadBytes returned on that iteration are dropped", pred.Comment))
		default:
			bad = append(bad, "after a hand-off the buffer is re-bound to "+an.Render(v)+", which is not a fresh allocation: the next message can overwrite the one just delivered")
		}
	}
	ob := c.Ob("F2", "Conn.runReader", "bytes read are never dropped; after a hand-off the buffer is a fresh allocation", head.Instrs[0].Pos())
	if len(bad) > 0 {
		ob.Fail("%s", bad[0])
	} else {
		ob.Ok("%d ways into the loop head: 1 initial, others append the segment or follow the hand-off with a fresh buffer", len(head.Preds))
	}
	// the error path leaves the loop
	paths, _ := an.EnumPaths(rr, 4096)
	errLoops := false
	readErr := an.Render(read) + "#1 != nil"
	for _, p := range paths {
		if p.Loop && p.Has(readErr) {
			errLoops = true
		}
	}
	c.Check(!errLoops, "F2", "Conn.runReader", "a read error ends the reader", read.Pos(), "err != nil → return", "the loop continues after a read error: ReadBytes returns the bytes consumed so far together with the error, and they are lost")
	// ---- F3 end-of-message test
	seg := an.Render(read) + "#0"
	okF3, seenSend := true, false
	why := ""
	for _, p := range paths {
		if !p.Passes(sendSel) {
			continue
		}
		seenSend = true
		form1 := p.Has("3 <= len("+seg+")") && p.Has(`bytes.Equal(`+seg+`[0:3], []byte("10="))`)
		form2 := p.Has(`bytes.HasPrefix(` + seg + `, []byte("10="))`)
		if !form1 && !form2 {
			okF3 = false
			why = p.CondString()
		}
	}
	c.Check(okF3 && seenSend, "F3", "Conn.runReader", "hand-off exactly when the segment starts with the CheckSum tag and '='", sendSel.Pos(), `len(seg) ≥ 3 ∧ seg[0:3] == "10="`, "the end-of-message test is not a start-anchored comparison of the segment with \"10=\": "+why)
	// and conversely: a segment that passes the test is always handed off (no path with the test true that loops without the select)
	for _, p := range paths {
		if p.Loop && !p.Passes(sendSel) && (p.Has(`bytes.Equal(`+seg+`[0:3], []byte("10="))`) || p.Has(`bytes.HasPrefix(`+seg+`, []byte("10="))`)) {
			c.Ob("F3", "Conn.runReader", "a complete message is always handed off", sendSel.Pos()).Fail("a path recognises the end of a message but continues reading without the hand-off: %s", p.CondString())
		}
	}
	return true
}

// checkConnWrite: Conn.Write writes its argument with exactly one net.Conn.Write, not in a loop (a partial write followed by a
// second attempt puts the head of the message on the stream twice), nil is returned only after that write, nothing is spawned.
func checkConnWrite(c *core.Ctx, rule string) {
	cw := c.Func("", "Conn.Write")
	if !c.Anchor("Conn.Write", cw != nil, "(*Conn).Write", posOf(cw)) {
		return
	}
	nW := 0
	okArg, looped := true, false
	var wcall *ssa.Call
	for _, f := range append([]*ssa.Function{cw}, pkgHelpersOf(cw)...) {
		an.AllInstrs(f, func(in ssa.Instruction) {
			if call, ok := in.(*ssa.Call); ok && call.Call.IsInvoke() && call.Call.Method.Name() == "Write" && an.TypeIs(call.Call.Value.Type(), "net", "Conn") {
				nW++
				wcall = call
				if f == cw && call.Call.Args[0] != ssa.Value(cw.Params[1]) {
					okArg = false
				}
				if inLoop(call.Block()) {
					looped = true
				}
			}
		})
	}
	okSucc := false
	if wcall != nil && wcall.Parent() == cw {
		ps, _ := an.EnumPaths(cw, 64)
		okSucc = true
		for _, p := range ps {
			if p.Return != nil && len(p.Results) == 1 && p.Results[0] == "nil" && !p.Passes(wcall) {
				okSucc = false
			}
		}
	}
	c.Check(nW == 1 && okArg && okSucc && !looped && !hasGo(cw), rule, "Conn.Write", "writes the whole message with one net.Conn.Write on its success path", cw.Pos(), "conn.Write(msg) once, not in a loop",
		fmt.Sprintf("%d socket writes; argument is the message: %v; success implies written: %v; inside a loop: %v (a second attempt after a partial write repeats the head of the message on the stream)", nW, okArg, okSucc, looped))
}

// checkServeIncomingHandsOver: ServeIncoming hands every message to the handler's queue; the only other way out is the handler's
// own context being done (one blocking select with exactly these two cases — a default branch or a timer drops messages that
// arrive while the handler is busy).
func checkServeIncomingHandsOver(c *core.Ctx, rule string) {
	si := c.Func("", "DefaultHandler.ServeIncoming")
	inc := c.Field("", "DefaultHandler", "incoming")
	if !c.Anchor("inbound hand-over", si != nil && inc != nil && len(si.Params) == 2, "DefaultHandler.ServeIncoming, incoming", posOf(si)) {
		return
	}
	nSel, ok, plain := 0, false, false
	an.AllInstrs(si, func(in ssa.Instruction) {
		switch x := in.(type) {
		case *ssa.Select:
			nSel++
			sends, dones := 0, 0
			for _, st := range x.States {
				if st.Dir == 1 && st.Send == ssa.Value(si.Params[1]) {
					if f, _ := an.LoadedField(st.Chan); f == inc {
						sends++
					}
				}
				if st.Dir == 2 && doneContext(st.Chan) != "" {
					dones++
				}
			}
			ok = x.Blocking && sends == 1 && dones == len(x.States)-1
		case *ssa.Send:
			if f, _ := an.LoadedField(x.Chan); f == inc && x.X == ssa.Value(si.Params[1]) {
				plain = true
			}
		}
	})
	c.Check((nSel == 1 && ok) || (nSel == 0 && plain), rule, "DefaultHandler.ServeIncoming", "waits for room in the handler's queue (or for the handler to stop); never drops", si.Pos(), "blocking select {incoming <- msg; <-ctx.Done()}",
		fmt.Sprintf("ServeIncoming's hand-over is not one blocking select on the incoming queue and the handler's context (%d selects): with a default branch or a timeout, messages that arrive while the handler is busy are dropped before any handler sees them", nSel))
}

// checkWhoDispatches (C04.F5, C20): DefaultHandler.serve runs on the handler's own goroutine only — it is called from Run and
// from what Run reaches through plain static calls, never from the pump side (ServeIncoming) or anywhere else.
func checkWhoDispatches(c *core.Ctx, rule string, fns []*ssa.Function) {
	// F5 (who may dispatch): DefaultHandler.serve runs on the handler's own goroutine only — it is called from Run and from the
	// drain helper Run ends with, never from the pump side (ServeIncoming) or anywhere else
	if sv, run := c.Func("", "DefaultHandler.serve"), c.Func("", "DefaultHandler.Run"); c.Anchor("dispatcher", sv != nil && run != nil, "DefaultHandler.serve, Run", posOf(sv)) {
		runSide := sameGoroutineReach(run)
		n := 0
		for _, fn := range fns {
			an.AllInstrs(fn, func(in ssa.Instruction) {
				cc := an.CallOf(in)
				if cc == nil || an.StaticCallee(cc) != sv {
					return
				}
				n++
				root := fn
				for root.Parent() != nil {
					root = root.Parent()
				}
				okCaller := runSide[root]
				_, isGo := in.(*ssa.Go)
				c.Check(okCaller && !isGo, rule, an.NameOf(fn), "messages are dispatched by the handler's own goroutine (Run and its drain helper) only", in.Pos(), "called from Run / processRemainingIncoming",
					an.NameOf(fn)+" calls DefaultHandler.serve: the message is dispatched on another goroutine than Run's, concurrently with and ahead of the messages still waiting in the handler's queue")
			})
		}
		c.Check(n >= 2, rule, "DefaultHandler.serve", "call sites of serve found", sv.Pos(), fmt.Sprint(n), fmt.Sprintf("%d call sites of serve", n))
	}
}

// sameGoroutineReach: fn and everything it reaches through plain static calls inside its package (helpers, steps cut out of
// its select arms) — not what it starts with go.
func sameGoroutineReach(fn *ssa.Function) map[*ssa.Function]bool {
	set := map[*ssa.Function]bool{}
	work := []*ssa.Function{fn}
	for len(work) > 0 {
		f := work[0]
		work = work[1:]
		if f == nil || set[f] || f.Blocks == nil || f.Pkg != fn.Pkg {
			continue
		}
		set[f] = true
		an.AllInstrs(f, func(in ssa.Instruction) {
			if _, isGo := in.(*ssa.Go); isGo {
				return
			}
			if cc := an.CallOf(in); cc != nil {
				work = append(work, an.StaticCallee(cc))
			}
		})
	}
	return set
}
