package props

import (
	"fmt"
	"go/token"
	"go/types"
	"strings"

	"golang.org/x/tools/go/ssa"

	"sfcheck/an"
	"sfcheck/core"
)

func init() {
	register(&Check{ID: "C17", NeedSSA: true, Run: runC17})
}

func runC17(c *core.Ctx, o Options) {
	c.Explanation = "P1 (writer/reader agreement): the ordered list of message parts the serializer places between MsgType and the CheckSum field equals the list Message.Items() offers to the parser there (header, body…, trailer); P2: the length function counts the same parts (C01.L2). " +
		"V1: every exported value constructor yields a populated value holding its argument. V2: Set / FromBytes maintain the populated flag and store the value; a Float that is Set drops the source bytes kept from parsing; ToBytes is the canonical text of the stored value and nil when null (codec table). " +
		"S: leaf producers — a null KeyValue emits nothing, a populated one exactly key·'='·value with its own key; Items/Component/Group iterate their own slice in index order, skip exactly the elements whose bytes are nil, join with the delimiter and modify nothing; a group emits noTag=len(entries) first and nothing when it has no entries; " +
		"no map iteration or sorting anywhere on the serialization path. Not decided: canonical text beyond the codec table; entries of a group whose members are all unset (excluded by FIX itself)."
	// ---- P1
	bwc := c.Func("fix", "Message.BytesWithoutChecksum")
	items := c.Func("fix", "Message.Items")
	if c.Anchor("serializer and item list", bwc != nil && items != nil, "Message.BytesWithoutChecksum, Message.Items", posOf(bwc)) {
		// parts emitted on the richest path
		emitted := map[string]bool{}
		var order []string
		for _, il := range layoutsOf(bwc) {
			seq := splitConst(il.Seq)
			var cur []string
			for _, p := range seq {
				if p.Atom != "" && strings.HasSuffix(p.Atom, ".ToBytes()") {
					cur = append(cur, strings.TrimSuffix(p.Atom, ".ToBytes()"))
				}
			}
			for _, a := range cur {
				emitted[a] = true
			}
			if len(cur) > len(order) {
				order = cur
			}
		}
		// Items(): literal prefix, body..., literal suffix
		var offered []string
		paths, _ := an.EnumPaths(items, 8)
		if len(paths) == 1 && len(paths[0].ResVals) == 1 {
			offered = flattenAppend(paths[0].ResVals[0])
		}
		c.Extra["parts_emitted"] = order
		c.Extra["parts_offered_to_parser"] = offered
		ob := c.Ob("P1", "Message.Items", "item list is beginString, bodyLength, msgType, header, body…, trailer, checkSum", items.Pos())
		want := []string{"msg.beginString", "msg.bodyLength", "msg.msgType", "msg.header", "msg.body...", "msg.trailer", "msg.checkSum"}
		if strings.Join(offered, ",") == strings.Join(want, ",") {
			ob.Ok("%v", offered)
		} else {
			ob.Fail("Items() offers %v to the parser; expected %v", offered, want)
		}
		// order of emitted parts
		wantOrder := []string{"msg.beginString", "msg.bodyLength", "msg.msgType", "msg.header", "msg.body"}
		okOrder := len(order) >= len(wantOrder)
		for i, w := range wantOrder {
			if i >= len(order) || order[i] != w {
				okOrder = false
			}
		}
		c.Check(okOrder, "P1", "Message.BytesWithoutChecksum", "parts are emitted in the order of the message definition", bwc.Pos(), fmt.Sprint(order), fmt.Sprintf("emitted order %v", order))
		for _, part := range offered {
			name := strings.TrimSuffix(part, "...")
			if name == "msg.checkSum" {
				continue // emitted by Prepare (C01.L1)
			}
			c.Check(emitted[name], "P1", "Message.BytesWithoutChecksum", strings.TrimPrefix(name, "msg.")+" reaches the wire", bwc.Pos(), "emitted",
				fmt.Sprintf("Items() lists %s (the parser fills it, setters populate it) but the serializer never emits it: a populated %s field is silently dropped", name, strings.TrimPrefix(name, "msg.")))
		}
		for a := range emitted {
			found := false
			for _, part := range offered {
				if strings.TrimSuffix(part, "...") == a {
					found = true
				}
			}
			c.Check(found, "P1", "Message.Items", a+" is offered to the parser", items.Pos(), "listed", "the serializer emits "+a+" but Items() does not list it: it can never be parsed back")
		}
	}
	checkCodecs(c, "V", nil)
	checkLeafProducers(c, "S")
	// KeyValues.ToBytes (used by applications with flat lists)
	if fn := c.Func("fix", "KeyValues.ToBytes"); fn != nil {
		col := analyseCollector(fn)
		c.Check(len(col.Problems) == 0 && col.Over == "kvs", "S", "KeyValues.ToBytes", "emits the populated key-values of the list in order", fn.Pos(), "range kvs; append kv.ToBytes() iff it has bytes", strings.Join(col.Problems, "; ")+" over "+col.Over)
	}
	// no map iteration / sorting on the serialization path
	fixPkg := c.SSAPkg("fix")
	for _, fn := range pkgFuncs(fixPkg) {
		if !strings.Contains(an.NameOf(fn), "ToBytes") && an.NameOf(fn) != "Prepare" && an.NameOf(fn) != "BytesWithoutChecksum" && an.NameOf(fn) != "CalcBodyLength" && an.NameOf(fn) != "joinBody" && an.NameOf(fn) != "makeTagValue" {
			continue
		}
		an.AllInstrs(fn, func(in ssa.Instruction) {
			if r, ok := in.(*ssa.Range); ok {
				if _, isMap := r.X.Type().Underlying().(*types.Map); isMap {
					c.Ob("S", an.NameOf(fn), "no map iteration in the serializer", r.Pos()).Fail("iteration over a map has no defined order: the field order on the wire would vary")
				}
			}
			if call, ok := in.(*ssa.Call); ok {
				if cal := an.StaticCallee(&call.Call); cal != nil && cal.Pkg != nil && (cal.Pkg.Pkg.Path() == "sort" || cal.Pkg.Pkg.Path() == "slices") {
					c.Ob("S", an.NameOf(fn), "no sorting in the serializer", call.Pos()).Fail("fields are re-ordered (%s.%s); the wire order must be the order of the message definition", cal.Pkg.Pkg.Name(), an.NameOf(cal))
				}
			}
		})
	}
	// accessors that hand out entry storage: Group.Entries / AddEntry / Component.Set* operate on the group's own slices
	checkEntryStorage(c, "S")
	// T: entries and nested items created from templates keep their own tags: what AsTemplate builds is what is later serialized
	checkTemplateRebuild(c, "T")
	// P2: the bytes handed out for one serialization are not rewritten by the next one of the same message object
	checkImageFresh(c, "P2")
	// D (premise for "populated by parsing"): the decoder puts each value of the message into its own field of its own entry
	// (the rules R3–R8 of C02): a nested group read from the wrong slice populates fields the message never carried
	c.RulePrefix = "D"
	decoderRules(c)
	c.RulePrefix = ""
	c.Explanation += " D (premise, = C02.R3–R8): the decoder puts each value into its own field of its own entry — Item switch, per-entry loop fed by the split pieces, exact value extraction, anchored separator and needles, partition, item loops."
	// P1 (setters of the structure replace, they do not merge): Message.SetBody/SetHeader/SetTrailer put their argument into the
	// part they name and KeyValue.Set keeps the given value object — on the one path through the setter (an unexported helper it
	// delegates to included) there is one store to that field, of the argument or of an ordered copy of it, and nothing else
	// happens. (A body that is appended to keeps the fields of the previous body; a value updated "in place" through Value() loses
	// its populated flag.)
	for _, sp := range []struct{ rel, fn, typ, field string }{{"fix", "Message.SetBody", "Message", "body"}, {"fix", "Message.SetHeader", "Message", "header"}, {"fix", "Message.SetTrailer", "Message", "trailer"}, {"fix", "KeyValue.Set", "KeyValue", "Value"}} {
		fn := c.Func(sp.rel, sp.fn)
		f := c.Field(sp.rel, sp.typ, sp.field)
		if !c.Anchor("plain setter "+sp.fn, fn != nil && f != nil && len(fn.Params) == 2, sp.fn, posOf(fn)) {
			continue
		}
		bad := plainSetterProblem(fn, f, sp.typ+"."+sp.field, 0)
		c.Check(bad == "", "P1", sp.fn, "puts its argument into "+sp.typ+"."+sp.field+" and does nothing else", fn.Pos(), "one store of the parameter",
			sp.fn+" does not simply replace "+sp.typ+"."+sp.field+" with its argument ("+bad+"): what was there before leaks into the serialized message, or what is given is not what is kept")
	}
	c.Explanation += " P1 also: Message.SetBody/SetHeader/SetTrailer and KeyValue.Set are plain replacing setters (one store of the argument, or of an ordered copy of it, on the one interprocedural path; nothing else)."
	// P3 (premise, = C02.R2): entries built from a template get value objects of their own — a field populated in one group entry does
	// not appear in the others
	checkTypedTemplates(c, "P3")
	c.Explanation += " P3 (= C02.R2): KeyValue.AsTemplate returns a fresh KeyValue with a fresh empty value of the same type. S also: the collectors (Items/Component/Group.ToBytes) have no return that bypasses their loop while there are items."
	checkFreshConstructors(c, "V")
	checkAddEntryPlain(c, "P1")
	c.Explanation += " V also: constructors hand out fresh objects. P1 also: Group.AddEntry appends the entry it is given on every path."
	c.RuleMin = map[string]int{"P1": 14, "S": 18, "V": 43, "T": 2, "P2": 2, "P3": 1, "D": 18}
	c.MinObl = 60
}

// flattenAppend renders the elements of nested append(...) calls building a slice: literal elements and spread slices ("x...").
func flattenAppend(v ssa.Value) []string {
	switch x := v.(type) {
	case *ssa.Call:
		if b, ok := x.Call.Value.(*ssa.Builtin); ok && b.Name() == "append" && len(x.Call.Args) == 2 {
			out := flattenAppend(x.Call.Args[0])
			if elems, ok := an.SliceElems(x.Call.Args[1]); ok {
				for _, e := range elems {
					out = append(out, an.Render(e))
				}
			} else {
				out = append(out, an.Render(x.Call.Args[1])+"...")
			}
			return out
		}
	case *ssa.Slice:
		if elems, ok := an.SliceElems(x); ok {
			var out []string
			for _, e := range elems {
				out = append(out, an.Render(e))
			}
			return out
		}
	case *ssa.ChangeType:
		return flattenAppend(x.X)
	case *ssa.Const:
		if x.Value == nil {
			return nil
		}
	}
	return []string{"?" + an.Render(v)}
}

// checkEntryStorage: what the application populates is what is serialized — Entries() returns the group's own entry slices,
// AddEntry stores the slice it is given, the Component setters write into the component's own item slice.
func checkEntryStorage(c *core.Ctx, rule string) {
	if fn := c.Func("fix", "Group.Entries"); fn != nil {
		ps, _ := an.EnumPaths(fn, 4)
		ok := len(ps) == 1 && len(ps[0].Results) == 1 && ps[0].Results[0] == "g.items"
		c.Check(ok, rule, "Group.Entries", "hands out the group's own entries (setters on them reach the wire)", fn.Pos(), "g.items", "Entries() returns copies: a group or component set on an entry obtained from it is not serialized")
	}
	if fn := c.Func("fix", "Group.AddEntry"); fn != nil {
		ok := false
		an.AllInstrs(fn, func(in ssa.Instruction) {
			if st, isSt := in.(*ssa.Store); isSt {
				if fa, isFa := st.Addr.(*ssa.FieldAddr); isFa && an.FieldName(an.FieldOf(fa)) == "items" {
					if call, isCall := st.Val.(*ssa.Call); isCall {
						if elems, okE := an.SliceElems(call.Call.Args[1]); okE && len(elems) == 1 && elems[0] == ssa.Value(fn.Params[1]) && an.Render(call.Call.Args[0]) == "g.items" {
							ok = true
						}
					}
				}
			}
		})
		c.Check(ok, rule, "Group.AddEntry", "appends the entry it is given to the group's entries", fn.Pos(), "g.items = append(g.items, v)", "AddEntry does not append its argument to g.items")
	}
	for _, m := range []string{"Set", "SetField", "SetGroup", "SetComponent"} {
		fn := c.Func("fix", "Component."+m)
		if fn == nil {
			continue
		}
		ok := false
		an.AllInstrs(fn, func(in ssa.Instruction) {
			if st, isSt := in.(*ssa.Store); isSt {
				if ia, isIa := st.Addr.(*ssa.IndexAddr); isIa && an.Render(ia.X) == "c.items" && ia.Index == ssa.Value(fn.Params[1]) && an.Unwrap(st.Val) == ssa.Value(fn.Params[2]) {
					ok = true
				}
			}
		})
		c.Check(ok, rule, "Component."+m, "replaces item id of the component's own item list with its argument", fn.Pos(), "c.items[id] = v", "Component."+m+" does not store its argument at c.items[id]")
	}
	if fn := c.Func("fix", "Component.Items"); fn != nil {
		ps, _ := an.EnumPaths(fn, 4)
		ok := len(ps) == 1 && len(ps[0].Results) == 1 && ps[0].Results[0] == "c.items"
		c.Check(ok, rule, "Component.Items", "hands out the component's own items", fn.Pos(), "c.items", "Items() returns a copy")
	}
}

var _ = token.NoPos

// plainSetterProblem: fn(recv, arg) has one path on which it stores arg (or an ordered copy of it) into field f of recv, once,
// and does nothing else — or hands both on, unchanged, to a function of the package for which that holds. "" if so.
func plainSetterProblem(fn *ssa.Function, f *types.Var, what string, depth int) string {
	if fn == nil || len(fn.Params) != 2 || depth > 3 {
		return "the setter's shape is not (receiver, argument)"
	}
	ps, _ := an.EnumPaths(fn, 16)
	var ret []*an.Path
	for _, p := range ps {
		if p.Return != nil {
			ret = append(ret, p)
		}
	}
	if len(ret) != 1 {
		return fmt.Sprintf("%d paths through %s (a plain setter has one)", len(ret), an.NameOf(fn))
	}
	p := ret[0]
	stores, delegated := 0, false
	for _, in := range p.InstrSeq() {
		switch x := in.(type) {
		case *ssa.Store:
			if _, isLocal := x.Addr.(*ssa.Alloc); isLocal {
				continue
			}
			fa, ok := x.Addr.(*ssa.FieldAddr)
			val := an.ResolveOnPath(x.Val, p)
			switch {
			case ok && an.FieldOf(fa) == f && fa.X == ssa.Value(fn.Params[0]) && an.Unwrap(val) == ssa.Value(fn.Params[1]):
				stores++
			case ok && an.FieldOf(fa) == f && fa.X == ssa.Value(fn.Params[0]) && isOrderedCopy(val, an.Render(fn.Params[1]), p):
				stores++
			default:
				return an.NameOf(fn) + " stores " + an.RenderOnPath(x.Val, p) + " to " + an.RenderOnPath(x.Addr, p)
			}
		case *ssa.Call:
			if b, isB := x.Call.Value.(*ssa.Builtin); isB && (b.Name() == "append" || b.Name() == "copy" || b.Name() == "len") {
				continue
			}
			cal := an.StaticCallee(&x.Call)
			if cal != nil && cal.Pkg == fn.Pkg && len(x.Call.Args) == 2 && x.Call.Args[0] == ssa.Value(fn.Params[0]) && an.Unwrap(x.Call.Args[1]) == ssa.Value(fn.Params[1]) && !delegated {
				if why := plainSetterProblem(cal, f, what, depth+1); why != "" {
					return why
				}
				delegated = true
				continue
			}
			return an.NameOf(fn) + " calls " + an.Render(x)
		case *ssa.Go, *ssa.Defer, *ssa.MapUpdate, *ssa.Send:
			return an.NameOf(fn) + " does more than store"
		}
	}
	if delegated && stores == 0 || !delegated && stores == 1 {
		return ""
	}
	return fmt.Sprintf("%d stores of the argument to %s in %s", stores, what, an.NameOf(fn))
}
