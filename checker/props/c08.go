package props

import (
	"fmt"
	"go/token"
	"strings"

	"golang.org/x/tools/go/ssa"

	"sfcheck/an"
	"sfcheck/core"
)

func init() {
	register(&Check{ID: "C08", NeedSSA: true, Run: runC08})
	register(&Check{ID: "C09", NeedSSA: true, Run: runC09})
}

// timerUse is a call of a utils.Timer method on a timer variable.
type timerUse struct {
	Method string
	Cell   *ssa.Alloc
	Call   ssa.Instruction
}

// wiring describes Session.start: its timers, handlers and goroutines.
type wiring struct {
	s        *sess
	start    *ssa.Function
	timers   map[*ssa.Alloc]*ssa.Call // timer variable → NewTimer call
	inAll    *ssa.Function
	outAll   *ssa.Function
	routines []*ssa.Function
	group    []*ssa.Function // start and the helpers cut out of it
}

func (w *wiring) inGroup(fn *ssa.Function) bool {
	for _, g := range w.group {
		if g == fn {
			return true
		}
	}
	return false
}

// spawnArgCell maps a parameter of a named function that start spawns (and nothing else calls) to the variable of start whose
// value is passed for it in the go statement.
var spawnArgCell = map[*ssa.Parameter]*ssa.Alloc{}

func timerUses(fn *ssa.Function) []timerUse {
	var out []timerUse
	an.AllInstrs(fn, func(in ssa.Instruction) {
		cc := an.CallOf(in)
		if cc == nil {
			return
		}
		cal := an.StaticCallee(cc)
		if cal == nil || cal.Signature.Recv() == nil || !an.TypeIs(cal.Signature.Recv().Type(), "utils", "Timer") || len(cc.Args) == 0 {
			return
		}
		cell := an.CellOf(cc.Args[0])
		if p, ok := cc.Args[0].(*ssa.Parameter); ok && cell == nil {
			cell = spawnArgCell[p] // the timer variable of start handed to a named goroutine function at its only call site
		}
		// a parameter of a helper cut out of start, kept in a local of its own because a function literal captures it
		if cell != nil {
			if sts := an.CellStores(cell); len(sts) == 1 {
				if p, ok := sts[0].(*ssa.Parameter); ok && spawnArgCell[p] != nil {
					cell = spawnArgCell[p]
				}
			}
		}
		out = append(out, timerUse{Method: an.NameOf(cal), Cell: cell, Call: in})
	})
	return out
}

func newWiring(c *core.Ctx) *wiring {
	s := newSess(c)
	if s == nil {
		return nil
	}
	w := &wiring{s: s, start: s.m.Method("start"), timers: map[*ssa.Alloc]*ssa.Call{}}
	if !c.Anchor("timer start function", w.start != nil, "(*Session).start", posOf(w.start)) {
		return nil
	}
	// start together with the helpers cut out of it (see an.LogicalOwner)
	w.group = []*ssa.Function{w.start}
	for _, fn := range s.allFuncs() {
		if fn.Parent() != nil || fn == w.start {
			continue
		}
		if owner, chain := an.LogicalOwner(fn); owner == w.start && len(chain) > 0 {
			w.group = append(w.group, fn)
			site := chain[len(chain)-1]
			for i, a := range site.Call.Args {
				if cell := an.CellOf(a); cell != nil && i < len(fn.Params) {
					spawnArgCell[fn.Params[i]] = cell
				}
			}
		}
	}
	// the NewTimer call a stored value comes from: directly, or as the one non-nil value a helper of the group returns there
	var timerOrigin func(v ssa.Value, depth int) *ssa.Call
	timerOrigin = func(v ssa.Value, depth int) *ssa.Call {
		ex, ok := v.(*ssa.Extract)
		if !ok || depth > 3 {
			return nil
		}
		call, ok := ex.Tuple.(*ssa.Call)
		if !ok {
			return nil
		}
		if an.CalleeIs(&call.Call, "utils", "NewTimer") {
			if ex.Index == 0 {
				return call
			}
			return nil
		}
		cal := an.StaticCallee(&call.Call)
		if cal == nil || !w.inGroup(cal) {
			return nil
		}
		var origin *ssa.Call
		paths, _ := an.EnumPaths(cal, 256)
		for _, p := range paths {
			if p.Return == nil || ex.Index >= len(p.ResVals) {
				continue
			}
			rv := an.ResolveOnPath(p.ResVals[ex.Index], p)
			if an.IsNilConst(rv) {
				continue
			}
			o := timerOrigin(rv, depth+1)
			if o == nil || origin != nil && o != origin {
				return nil
			}
			origin = o
		}
		return origin
	}
	for _, gf := range w.group {
		an.AllInstrs(gf, func(in ssa.Instruction) {
			st, ok := in.(*ssa.Store)
			if !ok {
				return
			}
			al, ok := st.Addr.(*ssa.Alloc)
			if !ok {
				return
			}
			if call := timerOrigin(st.Val, 0); call != nil {
				w.timers[al] = call
			}
		})
	}
	for _, r := range s.regs {
		if r.Parent == w.start && r.Key == "ALL" {
			if r.In {
				w.inAll = r.Fn
			} else {
				w.outAll = r.Fn
			}
		}
	}
	for _, gf := range w.group {
		an.AllInstrs(gf, func(in ssa.Instruction) {
			if g, ok := in.(*ssa.Go); ok {
				if f := an.StaticCallee(&g.Call); f != nil {
					w.routines = append(w.routines, f)
					if f.Parent() == nil {
						// a named function: bind its parameters to start's variables if this go statement is its only use
						uses := 0
						for _, fn := range s.allFuncs() {
							an.AllInstrs(fn, func(i2 ssa.Instruction) {
								for _, op := range i2.Operands(nil) {
									if op != nil && *op == ssa.Value(f) {
										uses++
									}
								}
							})
						}
						if uses == 1 {
							for i, a := range g.Call.Args {
								if cell := an.CellOf(a); cell != nil && i < len(f.Params) {
									spawnArgCell[f.Params[i]] = cell
								}
							}
						}
					}
				}
			}
		})
	}
	c.Anchor("timers created in start", len(w.timers) == 2, fmt.Sprintf("%d NewTimer results stored in variables", len(w.timers)), w.start.Pos())
	c.Anchor("timer goroutines", len(w.routines) == 2, fmt.Sprintf("%d go statements in start", len(w.routines)), w.start.Pos())
	// every timer variable is assigned exactly once
	for al := range w.timers {
		if n := len(an.CellStores(al)); n != 1 {
			c.Ob("wiring", "start", "timer variable "+al.Comment+" assigned once", al.Pos()).Fail("%d assignments: the goroutine and the handlers may look at different timers", n)
		}
	}
	return w
}

// routineSending returns the goroutine body that sends the given message kind.
func (w *wiring) routineSending(kind string) *ssa.Function {
	for _, f := range w.routines {
		for _, t := range w.s.tr.Traces(f, w.s.m.AllStates) {
			if len(sendsOfKind(t, kind)) > 0 {
				return f
			}
		}
	}
	return nil
}

// waitedTimer returns the timer variable a goroutine calls TakeTimeout on (nil if none or several).
func waitedTimer(fn *ssa.Function) (*ssa.Alloc, int) {
	var cell *ssa.Alloc
	n := 0
	for _, u := range timerUses(fn) {
		if u.Method == "TakeTimeout" {
			n++
			cell = u.Cell
		}
	}
	return cell, n
}

func checkTimerType(c *core.Ctx, rule string) {
	nt := c.Func("utils", "NewTimer")
	rf := c.Func("utils", "Timer.Refresh")
	tt := c.Func("utils", "Timer.TakeTimeout")
	if !c.Anchor("utils.Timer", nt != nil && rf != nil && tt != nil, "NewTimer, Timer.Refresh, Timer.TakeTimeout", posOf(nt)) {
		return
	}
	// NewTimer: timeout and checkingTimeout = timeout/10 stored in the returned timer
	okT, okC := false, false
	an.AllInstrs(nt, func(in ssa.Instruction) {
		st, ok := in.(*ssa.Store)
		if !ok {
			return
		}
		fa, ok := st.Addr.(*ssa.FieldAddr)
		if !ok {
			return
		}
		switch an.FieldName(an.FieldOf(fa)) {
		case "timeout":
			okT = st.Val == ssa.Value(nt.Params[0])
		case "checkingTimeout":
			okC = an.Render(st.Val) == "(timeout / 10)"
		}
	})
	c.Check(okT, rule, "NewTimer", "the period is the constructor's argument", nt.Pos(), "timeout ← argument", "Timer.timeout is not the duration given to NewTimer")
	c.Check(okC, rule, "NewTimer", "the polling period is a tenth of the timeout", nt.Pos(), "checkingTimeout ← timeout / 10", "the polling granularity is not timeout/10 (the property's bound is N + N/10)")
	// Refresh: lastUpdate ← time.Now()
	okR := false
	an.AllInstrs(rf, func(in ssa.Instruction) {
		if st, ok := in.(*ssa.Store); ok {
			if fa, ok := st.Addr.(*ssa.FieldAddr); ok && an.FieldName(an.FieldOf(fa)) == "lastUpdate" && an.Render(st.Val) == "time.Now()" && st.Block() == rf.Blocks[0] {
				okR = true
			}
		}
	})
	c.Check(okR, rule, "Timer.Refresh", "records the current time", rf.Pos(), "lastUpdate ← time.Now()", "Refresh does not unconditionally store time.Now() in lastUpdate")
	// TakeTimeout
	var sel *ssa.Select
	var first *ssa.Call
	nSel := 0
	an.AllInstrs(tt, func(in ssa.Instruction) {
		if x, ok := in.(*ssa.Select); ok {
			sel = x
			nSel++
		}
	})
	for _, in := range tt.Blocks[0].Instrs {
		if call, ok := in.(*ssa.Call); ok {
			first = call
			break
		}
	}
	c.Check(first != nil && an.CalleeIs(&first.Call, "utils", "Timer.Refresh") && first.Call.Args[0] == ssa.Value(tt.Params[0]), rule, "Timer.TakeTimeout", "starts a fresh period on entry", tt.Pos(),
		"Refresh() is the first call", "TakeTimeout does not restart the period on entry: a wait that begins after an expiry would end at once")
	ob := c.Ob(rule, "Timer.TakeTimeout", "returns only when timeout has elapsed since the last refresh, or on Close", tt.Pos())
	if sel == nil || nSel != 1 || !sel.Blocking || len(sel.States) != 2 {
		ob.Unknown("expected one blocking select over the ticker and the timer's context")
		return
	}
	chans := []string{an.Render(sel.States[0].Chan), an.Render(sel.States[1].Chan)}
	tickIdx, doneIdx := -1, -1
	for i, ch := range chans {
		if ch == "time.NewTicker(t.checkingTimeout).C" {
			tickIdx = i
		}
		if ch == "t.ctx.Done()" {
			doneIdx = i
		}
	}
	if tickIdx < 0 || doneIdx < 0 {
		ob.Unknown("select waits on [%s]; expected the polling ticker (period checkingTimeout) and t.ctx.Done()", strings.Join(chans, ", "))
		return
	}
	// path conditions of all returns
	paths, _ := an.EnumPaths(tt, 64)
	selIdx := an.Render(sel) + "#0"
	var bad []string
	nExp, nDone := 0, 0
	for _, p := range paths {
		if p.Return == nil {
			if p.Panic || p.Loop {
				continue
			}
		}
		if p.Return == nil {
			continue
		}
		if p.Has(fmt.Sprintf("%s == %d", selIdx, tickIdx)) {
			expired := p.Has("time.Until(t.lastUpdate.Add(t.timeout)) <= 0")
			for _, a := range p.Atoms {
				// the same comparison made on the result of a side-effect-free helper that returns that expression
				if bo, ok := a.Val.(*ssa.BinOp); ok && a.Rel == "<=" && a.R == "0" {
					if ex, ok := an.ExpandGetter(bo.X, modulePrefix); ok && ex == "time.Until(t.lastUpdate.Add(t.timeout))" {
						expired = true
					}
				}
			}
			if expired {
				nExp++
			} else {
				bad = append(bad, "returns on a tick without (time.Until(lastUpdate + timeout) <= 0): "+p.CondString())
			}
		} else if p.Has(fmt.Sprintf("%s == %d", selIdx, doneIdx)) {
			nDone++
		} else {
			bad = append(bad, "returns under "+p.CondString())
		}
	}
	// not-yet-expired ticks loop back
	loops := false
	for _, p := range paths {
		if !p.Loop || !p.Has(fmt.Sprintf("%s == %d", selIdx, tickIdx)) {
			continue
		}
		if p.Has("0 < time.Until(t.lastUpdate.Add(t.timeout))") {
			loops = true
		}
		for _, a := range p.Atoms {
			if bo, ok := a.Val.(*ssa.BinOp); ok && a.Rel == "<" && a.L == "0" {
				for _, side := range []ssa.Value{bo.X, bo.Y} {
					if ex, ok := an.ExpandGetter(side, modulePrefix); ok && ex == "time.Until(t.lastUpdate.Add(t.timeout))" {
						loops = true
					}
				}
			}
		}
	}
	switch {
	case len(bad) > 0:
		ob.Fail("%s", bad[0])
	case nExp != 1 || nDone != 1 || !loops:
		ob.Fail("expiry returns: %d, close returns: %d, keeps waiting while time remains: %v", nExp, nDone, loops)
	default:
		ob.Ok("tick ∧ Until(lastUpdate+timeout) ≤ 0 → return; tick ∧ time remains → wait on; ctx done → return")
	}
}

func runC08(c *core.Ctx, o Options) {
	c.Explanation = "Timer wiring of Session.start, decided on SSA value identity. W1: the all-types outgoing handler registered when the timers start refreshes the very timer variable the heartbeat goroutine waits on, on every path, and returns true " +
		"(it is registered with HandleOutgoing(AllMsgTypes), so every message that passes DefaultHandler.send — session sends, application sends through the handler, retransmissions — postpones the heartbeat). " +
		"W2: every iteration of the heartbeat goroutine is TakeTimeout → leave if the session context is done → send Heartbeat, with no other wait and no path that skips the send. " +
		"W3: that timer's period is time.Second × HeartBtInt of the negotiated settings. W4: utils.Timer — Refresh stores time.Now(); TakeTimeout starts a fresh period, polls every timeout/10 and returns only when " +
		"time.Until(lastUpdate+timeout) ≤ 0 or on Close. Necessary conditions for the bound N + N/10 + slack and for 'traffic postpones heartbeats'; the timing bound itself (scheduler, blocking inside send) is not decided."
	w := newWiring(c)
	if w == nil {
		return
	}
	hb := w.routineSending("Heartbeat")
	if !c.Anchor("heartbeat goroutine", hb != nil, "the goroutine of start that sends Heartbeat", w.start.Pos()) {
		return
	}
	cell, n := waitedTimer(hb)
	c.Check(n == 1 && cell != nil && w.timers[cell] != nil, "W2", an.NameOf(hb), "waits on exactly one timer created in start", hb.Pos(), "one TakeTimeout on a start() timer", fmt.Sprintf("%d TakeTimeout calls / unknown timer", n))
	if cell == nil || w.timers[cell] == nil {
		return
	}
	// W1
	if w.outAll == nil {
		c.Ob("W1", "start", "an all-types outgoing handler refreshes the heartbeat timer", w.start.Pos()).Fail("start registers no HandleOutgoing(AllMsgTypes, …) handler: messages that do not pass through it (retransmissions, application sends through the handler) would not postpone the heartbeat")
	} else {
		refreshOK := true
		paths, _ := an.EnumPaths(w.outAll, 64)
		var refresh ssa.Instruction
		for _, u := range timerUses(w.outAll) {
			if u.Method == "Refresh" && u.Cell == cell {
				refresh = u.Call
			}
		}
		retTrue := true
		for _, p := range paths {
			if p.Return == nil {
				continue
			}
			if refresh == nil || !p.Passes(refresh) {
				refreshOK = false
			}
			if len(p.Results) != 1 || p.Results[0] != "true" {
				retTrue = false
			}
		}
		c.Check(refresh != nil && refreshOK, "W1", w.outAll.Name(), "every outbound message refreshes the heartbeat goroutine's timer", w.outAll.Pos(),
			"Refresh on "+cell.Comment+" on every path", "the all-types outgoing handler does not refresh "+cell.Comment+" (the timer the heartbeat goroutine waits on) on every path: traffic would not postpone heartbeats")
		c.Check(retTrue, "W1", w.outAll.Name(), "the refresh handler never vetoes a message", w.outAll.Pos(), "returns true", "the handler can return false and block the send")
	}
	// W2
	var bad []string
	nSend := 0
	for _, t := range w.s.tr.Traces(hb, w.s.m.AllStates) {
		last := t.Events[len(t.Events)-1]
		hasSend := len(sendsOfKind(t, "Heartbeat")) == 1 && len(sends(t)) == 1
		switch last.Kind {
		case "loopback":
			if !hasSend {
				bad = append(bad, "an iteration ends without sending a Heartbeat: "+traceStr(t))
			} else {
				nSend++
			}
		case "return":
			// only the session-context exit, right after the wait
			sawSelect := false
			for _, e := range t.Events {
				if e.Kind == "select" {
					sawSelect = true
				}
				if e.Kind == "send" {
					bad = append(bad, "the goroutine ends after a send: "+traceStr(t))
				}
			}
			if !sawSelect {
				bad = append(bad, "the goroutine can end without testing the session context: "+traceStr(t))
			}
		}
		waits := 0
		for _, e := range t.Events {
			if e.Kind == "timer" && e.Name == "TakeTimeout" {
				waits++
			}
			if e.Kind == "call" && strings.Contains(e.Name, "Sleep") {
				waits++
			}
			if e.Kind == "state" {
				bad = append(bad, "the heartbeat goroutine changes the session state")
			}
		}
		if waits != 1 {
			bad = append(bad, fmt.Sprintf("%d waits in one iteration", waits))
		}
	}
	ob := c.Ob("W2", an.NameOf(hb), "each iteration: wait for expiry, leave on session cancellation, else send one Heartbeat", hb.Pos())
	if len(bad) > 0 || nSend == 0 {
		ob.Fail("%s", strings.Join(append(bad, fmt.Sprintf("(%d sending iterations)", nSend)), "; "))
	} else {
		ob.Ok("%d sending iteration path(s)", nSend)
	}
	// W3
	{
		// as a linear form over the negotiated interval, on every interprocedural path of start through the timer's creation
		call := w.timers[cell]
		paths, _ := an.EnumPathsX(w.start, 4096)
		n, arg := 0, ""
		for _, p := range paths {
			if !p.Passes(call) {
				continue
			}
			n++
			if tol, bad := periodTolerance(an.NewProver(w.start, p, call, nil), call.Call.Args[0], p); bad != "" || tol != "0" {
				arg = "the heartbeat timer's period is " + an.RenderOnPath(call.Call.Args[0], p) + " (" + bad + tol + ")"
			}
		}
		c.Check(arg == "" && n > 0, "W3", "start", "heartbeat period is time.Second × negotiated HeartBtInt", call.Pos(), fmt.Sprintf("%d path(s)", n), arg)
	}
	checkTimerType(c, "W4")
	// the timer is closed when the goroutine ends (no leak of the polling ticker's goroutine) — informational in C13
	// W1 premises in the handler pool: a refused message does not reach the refreshing handler (the outgoing chain stops at the
	// first refusal), and a registered handler stays registered (the session's refresh handler shares the application's pool)
	checkPoolRange(c, "W1", "Outgoing")
	checkPoolGrowOnly(c, "W1")
	w.checkTimerClosers("W2")
	w.checkStartAlwaysArms("W3")
	w.checkSettingsFixedAfterArming("W3")
	w.checkAcceptorArms("W3")
	// W3 (premise): N is the number the peer wrote — Int.FromBytes is the exact decimal inverse of the formatter (base 10, no prefixes)
	checkCodecs(c, "W3", map[string]bool{"frombytes": true, "type:Int": true})
	c.Explanation += " W3 also: on no path of any entry point is Session.LogonSettings (or a field of it) assigned after the timers have been armed on that path (start() called or the logon event triggered): the interval the session reports is the interval it heartbeats with."
	// W1 (premise): retransmissions pass the outgoing handlers too — SendBatch hands every element to DefaultHandler.send
	checkBatchDelivery(c, "W1")
	// W1 (premise): a message that passed the refreshing handler is transmitted — after the two handler ranges only a failing
	// serialization keeps it from the queue (a size limit or a filter placed behind the handlers re-arms the heartbeat timer for
	// messages that never leave)
	checkSendPathOrder(c, "W1")
	// W2 (premise): the heartbeat goroutine can send at all — no function of the session returns with Session.mu (or any other
	// mutex it took) still locked
	checkLocksReleased(c, "W2", libFuncs(c), "the next sender — the heartbeat goroutine included — blocks for ever (the message store's mutex is taken by every send when it saves)")
	w.s.checkHandlersNeverCancel("W2", "the heartbeat goroutine leaves at its next wake-up although the session can be logged on again on the same connection, and never emits a Heartbeat again")
	c.Explanation += " W2 premise: no registered message handler cancels the session context or stops the router on any path (the timers' goroutines end with the session, not with a message)."
	c.Explanation += " W1 premise: SendBatch hands every element to DefaultHandler.send (retransmissions pass the refreshing handler too). W2 premise: no function of the library (session, handler, pools, bundled store) returns with a mutex it took still locked."
	// W2 (premise): the session's context — whose end stops the heartbeat goroutine — is put on a deadline by Stop only after a
	// Logout has gone out: a Stop that arms the deadline without having said goodbye (a Logout() that returns early while a probe is
	// outstanding) ends the timers of a session the peer's next message restores to logged-on
	if stop := w.s.m.Method("Stop"); stop != nil {
		bad, n := "", 0
		for _, t := range w.s.tr.Traces(stop, w.s.m.AllStates) {
			sent := false
			for _, e := range t.Events {
				if e.Kind == "send" && hasKind(e.Kinds, "Logout") {
					sent = true
				}
				if e.Kind == "afterfunc" || e.Kind == "cancel" {
					n++
					if !sent {
						bad = "Stop arms the close deadline (or cancels) without having sent a Logout on path: " + traceStr(t)
					}
				}
			}
		}
		c.Check(bad == "" && n > 0, "W2", "Stop", "the session is put on its close deadline only after a Logout was sent", stop.Pos(), "send(Logout) precedes time.AfterFunc on every path", bad)
	}
	// W3 (premise): the interval the initiator announces in its Logon is the interval its timers are built from — the operand of
	// SetFieldHeartBtInt in LogonRequest is s.LogonSettings.HeartBtInt itself (a clamped or defaulted value on the wire makes the
	// peer expect another N than the one this side heartbeats with)
	if lr := w.s.m.Method("LogonRequest"); lr != nil {
		bad, n := "", 0
		for _, t := range w.s.tr.Traces(lr, w.s.m.AllStates) {
			for _, e := range eventsOf(t, "set") {
				if e.Name != "SetFieldHeartBtInt" || len(e.Args) < 2 {
					continue
				}
				n++
				if r := e.R(e.Args[1]); r != "s.LogonSettings.HeartBtInt" {
					bad = "SetFieldHeartBtInt operand is " + r
				}
			}
		}
		c.Check(bad == "" && n > 0, "W3", "LogonRequest", "the Logon request announces the configured HeartBtInt", lr.Pos(), "SetFieldHeartBtInt(s.LogonSettings.HeartBtInt)", bad+": the timers of start() are built from s.LogonSettings.HeartBtInt, so the session heartbeats with another interval than the one it announced")
	}
	// W3 (premise): the initiator's timers are started by the EventLogon subscriber Run registered first — subscribers run in
	// registration order
	checkEventPoolOrder(c, "W3")
	c.RuleMin = map[string]int{"W1": 12, "W2": 4, "W3": 3, "W4": 5}
	c.MinObl = 10
}

func runC09(c *core.Ctx, o Options) {
	c.Explanation = "X1: the all-types incoming handler registered when the timers start refreshes, on every path, the very timer variable the probe goroutine waits on, restores WaitingTestReqAnswer→SuccessfulLogged (without event) and returns true; it runs before the type handlers (C19.H4). " +
		"X2: that timer's period is time.Second × (HeartBtInt + max(1, HeartBtInt/20)) with integer division. X3: probe goroutine, per expiry: leave if the session context is done; state read as WaitingTestReqAnswer ⇒ changeState(Disconnect, true) and end; " +
		"state read as SuccessfulLogged ⇒ changeState(WaitingTestReqAnswer) then exactly one TestRequest; otherwise nothing. X4: changeState maps Disconnect to the disconnect event; Run registers for it a callback that cancels the session and stops the handler; " +
		"DefaultHandler.Stop cancels the handler context, DefaultHandler.Run returns on it, and both serve functions run, on every exit of every goroutine of the connection, a cancel function that closes the socket. W4: utils.Timer as in C08. " +
		"Necessary conditions; 'a peer that sends at least every N seconds is never probed or disconnected' depends on arrival times and is not decided."
	w := newWiring(c)
	if w == nil {
		return
	}
	m := w.s.m
	pr := w.routineSending("TestRequest")
	if !c.Anchor("probe goroutine", pr != nil, "the goroutine of start that sends TestRequest", w.start.Pos()) {
		return
	}
	cell, n := waitedTimer(pr)
	c.Check(n == 1 && cell != nil && w.timers[cell] != nil, "X3", an.NameOf(pr), "waits on exactly one timer created in start", pr.Pos(), "one TakeTimeout", fmt.Sprintf("%d TakeTimeout calls / unknown timer", n))
	if cell == nil || w.timers[cell] == nil {
		return
	}
	// X1
	if w.inAll == nil {
		c.Ob("X1", "start", "an all-types incoming handler refreshes the probe timer", w.start.Pos()).Fail("start registers no HandleIncoming(AllMsgTypes, …) handler: inbound traffic would not postpone the TestRequest/disconnect")
	} else {
		var refresh ssa.Instruction
		for _, u := range timerUses(w.inAll) {
			if u.Method == "Refresh" && u.Cell == cell {
				refresh = u.Call
			}
		}
		paths, _ := an.EnumPaths(w.inAll, 64)
		refreshOK, retTrue := true, true
		for _, p := range paths {
			if p.Return == nil {
				continue
			}
			if refresh == nil || !p.Passes(refresh) {
				refreshOK = false
			}
			if len(p.Results) != 1 || p.Results[0] != "true" {
				retTrue = false
			}
		}
		c.Check(refresh != nil && refreshOK, "X1", w.inAll.Name(), "every inbound message refreshes the probe goroutine's timer", w.inAll.Pos(),
			"Refresh on "+cell.Comment+" on every path", "the all-types incoming handler does not refresh "+cell.Comment+" (the timer the probe goroutine waits on) on every path")
		c.Check(retTrue, "X1", w.inAll.Name(), "the handler lets dispatch continue", w.inAll.Pos(), "returns true", "the handler can return false and stop the dispatch of the message")
		s := w.s
		s.checkRestore("X1", w.inAll)
		// the other all-types incoming handlers the library registers run in the same chain (Range stops at the first false):
		// they may stop it only when the store failed, otherwise the message would never reach the refreshing handler
		for _, r := range s.regs {
			if !r.In || r.Key != "ALL" || r.Fn == nil || r.Fn == w.inAll {
				continue
			}
			why := stopsChainWithoutStoreFailure(r.Fn)
			c.Check(why == "", "X1", an.NameOf(r.Fn), "an earlier all-types incoming handler stops the dispatch only on a store failure", r.Fn.Pos(), "returns true, or (store error) == nil",
				"this all-types incoming handler can return false — "+why+" — and IncomingHandlerPool.Range then skips the handler that refreshes the probe timer and cancels the pending disconnect: that inbound message does not count as a sign of life")
		}
	}
	// X1 (converse): only inbound messages count as a sign of life — the probe timer is refreshed by inbound handlers alone
	{
		inbound := map[*ssa.Function]bool{}
		for _, r := range w.s.regs {
			if r.In && r.Fn != nil {
				inbound[r.Fn] = true
			}
		}
		nRef := 0
		for _, fn := range w.s.allFuncs() {
			for _, u := range timerUses(fn) {
				if u.Method != "Refresh" || u.Cell != cell {
					continue
				}
				nRef++
				c.Check(inbound[fn], "X1", an.NameOf(fn), "the probe timer is refreshed only by inbound message handlers", u.Call.Pos(), "registered with HandleIncoming",
					an.NameOf(fn)+" refreshes "+cell.Comment+" (the timer the probe goroutine waits on) but is not an inbound message handler: the session's own traffic would count as a sign of life from the peer, and a silent peer is never probed or disconnected")
			}
		}
		c.Check(nRef >= 1, "X1", "start", "refresh sites of the probe timer found", w.start.Pos(), fmt.Sprint(nRef), "no Refresh of the probe timer found")
	}
	// X2: period = time.Second × (H + T) with T = max(1, H/20), H the negotiated HeartBtInt (integer division)
	{
		H := "s.LogonSettings.HeartBtInt"
		call := w.timers[cell]
		ob := c.Ob("X2", "start", "probe period is time.Second × (HeartBtInt + max(1, HeartBtInt/20))", call.Pos())
		paths, _ := an.EnumPathsX(w.start, 4096)
		bad, n := "", 0
		for _, p := range paths {
			if !p.Passes(call) {
				continue
			}
			n++
			arg := an.RenderOnPath(call.Call.Args[0], p)
			t, why := periodTolerance(an.NewProver(w.start, p, call, nil), call.Call.Args[0], p)
			if why != "" {
				bad = "the period is " + arg + " (" + why + ")"
				break
			}
			q := "(" + H + " / 20)"
			d := an.PathDBM(p)
			// H ≤ 20 ⇒ H/20 ≤ 1 and H ≥ 20 ⇒ H/20 ≥ 1 (integer division of a non-negative interval)
			qLE1 := d.Entails(an.Lin{Term: q}, an.Lin{K: 1}, false) || d.Entails(an.Lin{Term: H}, an.Lin{K: 20}, false)
			qGE1 := d.Entails(an.Lin{K: 1}, an.Lin{Term: q}, false) || d.Entails(an.Lin{K: 20}, an.Lin{Term: H}, false)
			switch {
			case t == "int(math.Max(float64("+q+"), 1))":
			case t == "1" && qLE1:
			case t == q && qGE1:
			default:
				bad = "the tolerance added to the interval is " + t + " under [" + p.CondString() + "]; expected max(1, HeartBtInt/20)"
			}
		}
		if bad != "" || n == 0 {
			ob.Fail("%s", bad)
		} else {
			ob.Ok("%d path(s): time.Second × (HeartBtInt + max(1, HeartBtInt/20))", n)
		}
	}
	// X3
	var bad []string
	nDisc, nProbe, nIdle := 0, 0, 0
	WT, SL := m.Set("WaitingTestReqAnswer"), m.Set("SuccessfulLogged")
	for _, t := range w.s.tr.Traces(pr, m.AllStates) {
		last := t.Events[len(t.Events)-1]
		read, has := w.s.guardSet(t)
		sawSelect := false
		for _, e := range t.Events {
			if e.Kind == "select" {
				sawSelect = true
			}
		}
		if !has {
			// the context exit
			if last.Kind != "return" || !sawSelect || len(sends(t)) > 0 || countKind(t, "state") > 0 {
				bad = append(bad, "a path without any state test does something: "+traceStr(t))
			}
			continue
		}
		switch {
		case read == WT:
			nDisc++
			okD := false
			for _, e := range t.Events {
				if e.Kind == "state" && e.Name == "Disconnect" && e.Trigger == 1 {
					okD = true
				}
			}
			if !okD || last.Kind != "return" || len(sends(t)) > 0 {
				bad = append(bad, "second expiry without an answer does not raise the disconnect event and end: "+traceStr(t))
			}
		case read == SL:
			nProbe++
			st := eventsOf(t, "state")
			snd := sends(t)
			if len(st) != 1 || st[0].Name != "WaitingTestReqAnswer" || len(snd) != 1 || !hasKind(snd[0].Kinds, "TestRequest") || last.Kind != "loopback" {
				bad = append(bad, "first expiry does not (only) enter WaitingTestReqAnswer and send one TestRequest: "+traceStr(t))
			} else {
				// the state is entered before the probe leaves: an answer processed between the two would find the state still
				// SuccessfulLogged, reset nothing, and the next expiry would disconnect a peer that answered
				iSt, iSnd := -1, -1
				for i, e := range t.Events {
					if e.Kind == "state" && iSt < 0 {
						iSt = i
					}
					if e.Kind == "send" && iSnd < 0 {
						iSnd = i
					}
				}
				if iSt > iSnd {
					bad = append(bad, "the TestRequest is sent before the session enters WaitingTestReqAnswer (an answer that is processed in between resets nothing, and the next expiry disconnects a peer that answered): "+traceStr(t))
				}
			}
		case read&(WT|SL) == 0:
			nIdle++
			if len(sends(t)) > 0 || countKind(t, "state") > 0 {
				bad = append(bad, "a session that is neither logged on nor awaiting a test-request answer is probed or changed: "+traceStr(t))
			}
		default:
			bad = append(bad, fmt.Sprintf("a path does not separate WaitingTestReqAnswer from SuccessfulLogged (state read as %s): %s", m.SetString(read), traceStr(t)))
		}
		waits := 0
		for _, e := range t.Events {
			if e.Kind == "timer" && e.Name == "TakeTimeout" {
				waits++
			}
		}
		if waits != 1 {
			bad = append(bad, fmt.Sprintf("%d waits per iteration", waits))
		}
	}
	ob := c.Ob("X3", an.NameOf(pr), "expiry in WaitingTestReqAnswer ⇒ disconnect event and end; in SuccessfulLogged ⇒ WaitingTestReqAnswer + one TestRequest", pr.Pos())
	if len(bad) > 0 {
		ob.Fail("%s", bad[0])
	} else if nDisc == 0 || nProbe == 0 {
		ob.Fail("disconnect paths: %d, probe paths: %d (need both): a silent peer would never be disconnected / probed", nDisc, nProbe)
	} else {
		ob.Ok("%d disconnect, %d probe, %d idle path(s)", nDisc, nProbe, nIdle)
	}
	// X3 (who may disconnect): the disconnect state is entered by the probe goroutine's second expiry only; anything else that
	// enters it must have excluded the logged-on states (a logon deadline that tests !IsLogged() fires while the session's own
	// probe is outstanding and cuts off a peer whose answer is still due)
	{
		nD := 0
		for _, r := range w.s.roots() {
			if r.Fn == pr {
				continue
			}
			if _, isWriter := m.StateWriters[r.Fn]; isWriter {
				continue
			}
			if r.Cat == "method" && !isExported(an.NameOf(r.Fn)) && w.s.inPkgCallers(r.Fn) > 0 {
				continue
			}
			for _, t := range w.s.tr.Traces(r.Fn, m.AllStates) {
				for _, e := range t.Events {
					if e.Kind != "state" || e.Name != "Disconnect" {
						continue
					}
					nD++
					c.Check(e.Pre&(WT|SL) == 0, "X3", r.Name(), "only the probe goroutine disconnects a logged-on session", e.Pos, "state ∉ {SuccessfulLogged, WaitingTestReqAnswer} where Disconnect is entered",
						r.Name()+" enters Disconnect with the state possibly "+m.SetString(e.Pre&(WT|SL))+": a session whose probe is outstanding is disconnected before the second period has elapsed, whatever the peer sends")
				}
			}
		}
		c.Extra["disconnect_sites_outside_probe"] = nD
	}
	// X4
	w.s.checkEventMapping("M1", map[string]string{"Disconnect": "EventDisconnect"})
	run := m.Method("Run")
	if run != nil {
		var cb *ssa.Function
		regOnAll := true
		for _, t := range w.s.tr.Traces(run, m.AllStates) {
			last := t.Events[len(t.Events)-1]
			if last.Kind == "return" && last.Ret != "nil" {
				continue
			}
			found := false
			for _, e := range t.Events {
				if e.Kind == "register" && e.Name == "EventDisconnect" {
					found = true
					cb = an.ClosureFn(e.Args[2])
				}
			}
			if !found {
				regOnAll = false
			}
		}
		okCb := cb != nil
		if cb != nil {
			for _, t := range w.s.tr.Traces(cb, m.AllStates) {
				c1, c2 := false, false
				for _, e := range t.Events {
					if e.Kind == "cancel" && e.Name == "s.cancel" {
						c1 = true
					}
					if e.Kind == "cancel" && e.Name == "Router.Stop" {
						c2 = true
					}
				}
				if !c1 || !c2 || !returnsTrue(t) {
					okCb = false
				}
			}
		}
		c.Check(regOnAll && okCb, "X4", "Run", "the disconnect event cancels the session and stops the handler", run.Pos(), "Run registers for EventDisconnect a callback calling s.cancel and Router.Stop on every path", "Run does not (always) register a disconnect callback that cancels the session and stops the handler")
	}
	checkCloseChain(c, "X4")
	checkTimerType(c, "W4")
	// X1 premises in the handler pool: the incoming chain walks all handlers of a type in order while they return true, and a
	// registered handler stays registered
	checkPoolRange(c, "X1", "Incoming")
	checkPoolGrowOnly(c, "X1")
	w.checkTimerClosers("X3")
	w.checkStartAlwaysArms("X2")
	// X4 (premise): the session's own disconnect subscriber (cancel + Router.Stop) runs: subscribers run in registration order
	checkEventPoolOrder(c, "X4")
	c.Explanation += " X4 premise: event subscribers run in registration order (utils.EventHandlerPool appends; Trigger walks front to back)."
	c.Explanation += " X3 also: on the probe trace the change to WaitingTestReqAnswer precedes the send of the TestRequest. X1 converse: the timer the probe goroutine waits on is refreshed only by functions registered with HandleIncoming."
	c.Explanation += " X3 also: no entry point other than the probe goroutine enters Disconnect with the state possibly SuccessfulLogged or WaitingTestReqAnswer. X4 also: Conn.Close holds no mutex when it closes the socket."
	// X2 (premise): N is the number the peer wrote; X1 (premises): every inbound message reaches the handler (framing), the socket's
	// read side is never armed with a deadline
	checkCodecs(c, "X2", map[string]bool{"frombytes": true, "type:Int": true})
	c.RulePrefix = "X5"
	framingRules(c, libFuncs(c))
	c.RulePrefix = ""
	checkNoSocketOptionSurprises(c, "X4", libFuncs(c))
	c.Explanation += " X2 premise: exact Int parser. X5 premise (= C04.F1–F3): the reader hands over every message whatever its size. X4 also: no read deadline is ever armed on the socket."
	c.RuleMin = map[string]int{"M1": 3, "W4": 5, "X1": 11, "X2": 1, "X3": 4, "X4": 6}
	c.MinObl = 14
}

// checkRestore: the all-types incoming handler restores WaitingTestReqAnswer → SuccessfulLogged without event.
func (s *sess) checkRestore(rule string, fn *ssa.Function) {
	ok := false
	bad := ""
	WT := s.m.Set("WaitingTestReqAnswer")
	for _, t := range s.tr.Traces(fn, s.m.AllStates) {
		read, has := s.entryRead(t)
		st := eventsOf(t, "state")
		if has && read == WT {
			if len(st) == 1 && st[0].Name == "SuccessfulLogged" && st[0].Trigger == 0 {
				ok = true
			} else {
				bad = "in WaitingTestReqAnswer the handler does not restore SuccessfulLogged: " + traceStr(t)
			}
		} else if len(st) > 0 {
			bad = "the handler changes the state outside WaitingTestReqAnswer: " + traceStr(t)
		}
		if len(sends(t)) > 0 {
			bad = "the handler sends"
		}
	}
	s.c.Check(ok && bad == "", rule, an.NameOf(fn), "any inbound message cancels the pending disconnect (WaitingTestReqAnswer → SuccessfulLogged, no event)", fn.Pos(),
		"restores only from WaitingTestReqAnswer", "no restoration path / "+bad)
}

// checkCloseChain: Stop cancels the handler context; Run returns on it; every goroutine of the serve functions runs the shared cancel, which closes the socket.
func checkCloseChain(c *core.Ctx, rule string) {
	stop := c.Func("", "DefaultHandler.Stop")
	if c.Anchor("handler stop", stop != nil, "DefaultHandler.Stop", posOf(stop)) {
		ps, _ := an.EnumPaths(stop, 8)
		ok := len(ps) > 0
		an.AllInstrs(stop, func(in ssa.Instruction) {})
		calls := 0
		an.AllInstrs(stop, func(in ssa.Instruction) {
			if call, okc := in.(*ssa.Call); okc && an.Render(call.Call.Value) == "h.cancel" && call.Block() == stop.Blocks[0] {
				calls++
			}
		})
		c.Check(ok && calls == 1, rule, "DefaultHandler.Stop", "cancels the handler context", stop.Pos(), "h.cancel()", "Stop does not unconditionally call h.cancel")
	}
	run := c.Func("", "DefaultHandler.Run")
	if c.Anchor("handler loop", run != nil, "DefaultHandler.Run", posOf(run)) {
		// a select state receiving from h.ctx.Done() whose branch returns
		okDone, retOnDone := false, false
		ps, _ := an.EnumPathsX(run, 512)
		var runBodies []*ssa.Function // Run and the steps cut out of it (a listen loop called once)
		for f := range sameGoroutineReach(run) {
			if f == run || !an.IsKnown(f) {
				runBodies = append(runBodies, f)
			}
		}
		forAllInstrs(runBodies, func(in ssa.Instruction) {
			sel, ok := in.(*ssa.Select)
			if !ok {
				return
			}
			for i, st := range sel.States {
				if an.Render(st.Chan) != "h.ctx.Done()" {
					continue
				}
				okDone = true
				want := fmt.Sprintf("%s#0 == %d", an.Render(sel), i)
				for _, p := range ps {
					if p.Return != nil && p.Has(want) {
						retOnDone = true
					}
				}
			}
		})
		c.Check(okDone && retOnDone, rule, "DefaultHandler.Run", "leaves its loop when the handler context is cancelled", run.Pos(), "case <-h.ctx.Done(): … return", "Run does not select on h.ctx.Done() and return")
	}
	for _, sf := range []struct{ name, closeRender string }{{"Acceptor.serve", ""}, {"Initiator.Serve", ""}} {
		fn := c.Func("", sf.name)
		if !c.Anchor("serve function "+sf.name, fn != nil, sf.name, posOf(fn)) {
			continue
		}
		// every eg.Go closure defers a call that reaches Conn.Close
		n, bad := 0, ""
		an.AllInstrs(fn, func(in ssa.Instruction) {
			call, ok := in.(*ssa.Call)
			if !ok || !an.CalleeIs(&call.Call, "errgroup", "Group.Go") {
				return
			}
			cl := an.ClosureFn(call.Call.Args[1])
			if cl == nil {
				bad = "eg.Go argument is not a function literal"
				return
			}
			n++
			// first instruction of the closure (after loads) must be a defer whose callee reaches Conn.Close
			var d *ssa.Defer
			for _, i2 := range cl.Blocks[0].Instrs {
				if dd, ok := i2.(*ssa.Defer); ok {
					d = dd
					break
				}
				if _, isCall := i2.(*ssa.Call); isCall {
					break
				}
			}
			if d == nil || !reachesConnClose(d) {
				bad = fmt.Sprintf("the goroutine %s does not defer the connection's cancel/close as its first action: when it ends, its siblings and the socket stay open", an.NameOf(cl))
			}
		})
		c.Check(n >= 4 && bad == "", rule, sf.name, "every goroutine of the connection closes it when it ends", fn.Pos(), fmt.Sprintf("%d goroutines, each defers the shared cancel first", n), bad+fmt.Sprintf(" (%d goroutines)", n))
	}
	cc := c.Func("", "Conn.Close")
	if c.Anchor("connection close", cc != nil, "Conn.Close", posOf(cc)) {
		closes, cancels := false, false
		for _, f := range closeBodies(cc) {
			an.AllInstrs(f, func(in ssa.Instruction) {
				if call, ok := in.(*ssa.Call); ok {
					if call.Call.IsInvoke() && call.Call.Method.Name() == "Close" && strings.HasSuffix(an.Render(call.Call.Value), ".conn") {
						closes = true
					}
					if strings.HasSuffix(an.Render(call.Call.Value), ".cancel") {
						cancels = true
					}
				}
			})
		}
		c.Check(closes && cancels, rule, "Conn.Close", "closes the socket and cancels the connection context", cc.Pos(), "net.Conn.Close and c.cancel", "Conn.Close does not both close the socket and cancel the context")
		// on every path: a reader blocked in a read is released only by closing the socket (cancelling the context does not wake it)
		mustClose := true
		nPaths := 0
		for _, f := range closeBodies(cc) {
			has := false
			an.AllInstrs(f, func(in ssa.Instruction) {
				if call, ok := in.(*ssa.Call); ok && call.Call.IsInvoke() && call.Call.Method.Name() == "Close" && strings.HasSuffix(an.Render(call.Call.Value), ".conn") {
					has = true
				}
			})
			if !has {
				continue
			}
			ps, _ := an.EnumPaths(f, 256)
			for _, p := range ps {
				if p.Return == nil {
					continue
				}
				nPaths++
				passes := false
				for _, b := range p.Blocks {
					for _, in := range b.Instrs {
						if call, ok := in.(*ssa.Call); ok && call.Call.IsInvoke() && call.Call.Method.Name() == "Close" && strings.HasSuffix(an.Render(call.Call.Value), ".conn") {
							passes = true
						}
					}
				}
				if !passes {
					mustClose = false
				}
			}
		}
		// … and without waiting for anything a stuck writer holds: closing the socket is what releases a Write blocked on a peer
		// that no longer reads, so the close must not queue behind that Write's mutex
		waits := ""
		for _, f := range closeBodies(cc) {
			an.AllInstrs(f, func(in ssa.Instruction) {
				call, ok := in.(*ssa.Call)
				if !ok || !call.Call.IsInvoke() || call.Call.Method.Name() != "Close" || !strings.HasSuffix(an.Render(call.Call.Value), ".conn") {
					return
				}
				for k := range an.HeldAt(f, call) {
					waits = k
				}
			})
		}
		c.Check(waits == "", rule, "Conn.Close", "the socket is closed without taking a mutex first", cc.Pos(), "no lock held at net.Conn.Close",
			"Conn.Close takes "+waits+" before it closes the socket: a Write blocked on a peer that no longer reads holds that mutex until its deadline, so the close — and with it the end of the connection after the disconnect event — waits for the very thing it is meant to release")
		c.Check(mustClose && nPaths > 0, rule, "Conn.Close", "the socket is closed on every path of the close", cc.Pos(), "net.Conn.Close on each path", "a path of Conn.Close returns without closing the socket (a half-close, a deferred close elsewhere): a reader blocked in Read on an idle peer is never released, so the connection's goroutines and Serve never end")
	}
}

// reachesConnClose: the deferred call is Conn.Close / Initiator.Close or a closure that calls Conn.Close.
func reachesConnClose(d *ssa.Defer) bool {
	seen := map[*ssa.Function]bool{}
	var visit func(fn *ssa.Function) bool
	visit = func(fn *ssa.Function) bool {
		if fn == nil || seen[fn] {
			return false
		}
		seen[fn] = true
		if an.FuncIs(fn, "simplefix-go", "Conn.Close") {
			return true
		}
		found := false
		an.AllInstrs(fn, func(in ssa.Instruction) {
			if cc := an.CallOf(in); cc != nil {
				if cal := an.StaticCallee(cc); cal != nil && cal.Pkg == fn.Pkg {
					if visit(cal) {
						found = true
					}
				}
			}
		})
		return found
	}
	cal := an.StaticCallee(&d.Call)
	if cal == nil {
		// deferred call of a function variable (cancelFun): resolve the cell
		if v := an.CellValue(d.Call.Value); v != nil {
			cal = an.ClosureFn(v)
		}
		if cal == nil {
			if al := an.CellOf(d.Call.Value); al != nil {
				for _, sv := range an.CellStores(al) {
					if f := an.ClosureFn(sv); f != nil && visit(f) {
						return true
					}
				}
			}
			return false
		}
	}
	return visit(cal)
}

var _ = token.NoPos

// stopsChainWithoutStoreFailure inspects every returning path of an incoming handler: the result is the constant true, or false /
// `err == nil` where err is the error of a call on the counter or message store (a failing store is an environment fault), or
// `err == nil` with err already known to be nil on the path. It returns a description of the first other way to return false.
func stopsChainWithoutStoreFailure(fn *ssa.Function) string {
	isStoreErr := func(v ssa.Value) bool {
		v = an.Unspill(v)
		var call *ssa.Call
		switch x := v.(type) {
		case *ssa.Call:
			call = x
		case *ssa.Extract:
			call, _ = x.Tuple.(*ssa.Call)
		}
		if call == nil || !call.Call.IsInvoke() {
			return false
		}
		t := call.Call.Value.Type()
		return an.TypeIs(t, "session", "CounterStorage") || an.TypeIs(t, "session", "MessageStorage")
	}
	paths, _ := an.EnumPaths(fn, 1024)
	for _, p := range paths {
		if p.Return == nil || len(p.ResVals) != 1 {
			continue
		}
		res := an.Unspill(an.ResolveOnPath(p.ResVals[0], p))
		if b, isC := an.ConstBool(res); isC {
			if b {
				continue
			}
			// constant false: some test on the path must be the failure of a store call
			ok := false
			for _, a := range p.Atoms {
				if bo, isB := a.Val.(*ssa.BinOp); isB && a.Rel == "!=" && a.R == "nil" && (isStoreErr(an.ResolveOnPath(bo.X, p)) || isStoreErr(an.ResolveOnPath(bo.Y, p))) {
					ok = true
				}
			}
			if !ok {
				return "returns false under [" + p.CondString() + "]"
			}
			continue
		}
		bo, isB := res.(*ssa.BinOp)
		if !isB || bo.Op != token.EQL {
			return "returns " + an.Render(res)
		}
		x := an.ResolveOnPath(bo.X, p)
		if k, isK := bo.X.(*ssa.Const); isK && k.Value == nil {
			x = an.ResolveOnPath(bo.Y, p)
		}
		if isStoreErr(x) {
			continue
		}
		// already known nil on this path?
		known := false
		for _, a := range p.Atoms {
			if a.Rel == "==" && a.R == "nil" && a.L == an.Render(x) {
				known = true
			}
		}
		if !known {
			return "returns " + an.RenderOnPath(res, p) + ", which is not the outcome of a store call"
		}
	}
	return ""
}

// checkTimerClosers: utils.Timer.TakeTimeout returns when the timer is closed exactly as it does on expiry, and the waiting
// goroutines treat every return as an expiry unless the session context is done. So within package session a timer may be closed
// only by the goroutine that waits on it, in a defer (when that goroutine ends); a Close from anywhere else makes the waiter send a
// TestRequest / Heartbeat, or raise the disconnect event, although no period has elapsed.
func (w *wiring) checkTimerClosers(rule string) {
	c := w.s.c
	n := 0
	for _, fn := range w.s.allFuncs() {
		for _, u := range timerUses(fn) {
			if u.Method != "Close" {
				continue
			}
			n++
			_, isDefer := u.Call.(*ssa.Defer)
			own := false
			for _, r := range w.routines {
				if r == fn {
					if cell, k := waitedTimer(fn); k == 1 && cell != nil && cell == u.Cell {
						own = true
					}
				}
			}
			c.Check(isDefer && own, rule, an.NameOf(fn), "a timer is closed only by its own waiting goroutine, when that goroutine ends", u.Call.Pos(), "defer timer.Close() in the goroutine that calls timer.TakeTimeout()",
				"Timer.Close is called outside a defer of the goroutine that waits on that timer: the waiter's TakeTimeout returns as if the period had expired, so a live peer is probed or disconnected (or a Heartbeat is sent early)")
		}
	}
	c.Check(n >= 1, rule, "start", "timer Close sites found", w.start.Pos(), fmt.Sprint(n), "no Timer.Close call found in package session (the timers would leak; anchor moved)")
}

// checkStartAlwaysArms: every successful return of start has created both timers (with the periods of the settings in force now)
// and spawned both goroutines — no early success that keeps the timers of an earlier logon, whose interval may differ.
// checkSettingsFixedAfterArming: the interval the timers are armed with is the interval the session goes on with — on no path
// of any entry point is Session.LogonSettings (or a field of it) assigned after the timers have been started on that path
// (start() called, or the logon event triggered, whose subscriber calls start() on the initiating side).
func (w *wiring) checkSettingsFixedAfterArming(rule string) {
	s := w.s
	c := s.c
	SL := s.m.StateVals["SuccessfulLogged"]
	n, bad := 0, ""
	var where token.Pos
	for _, r := range s.roots() {
		for _, t := range s.tr.Traces(r.Fn, s.m.AllStates) {
			armed := ""
			for _, e := range t.Events {
				switch {
				case e.Kind == "check" && e.Name == "start":
					armed = "start()"
				case e.Kind == "state" && e.To == SL && e.Trigger != 0:
					armed = "the logon event"
				case e.Kind == "trigger" && e.Name == "EventLogon":
					armed = "the logon event"
				case e.Kind == "setfield" && (e.Name == "LogonSettings" || strings.HasPrefix(e.Name, "LogonSettings.")) && armed != "":
					bad = fmt.Sprintf("%s assigns %s after %s has started the timers with the previous value: the session reports one interval and heartbeats with another", r.Name(), e.Name, armed)
					where = e.Pos
				}
			}
			n++
		}
	}
	c.Check(bad == "" && n > 0, rule, "LogonSettings", "the negotiated settings are not changed after the timers have been armed with them", where, fmt.Sprintf("%d paths", n), bad)
}

func (w *wiring) checkStartAlwaysArms(rule string) {
	c := w.s.c
	var need []ssa.Instruction
	for _, gf := range w.group {
		an.AllInstrs(gf, func(in ssa.Instruction) {
			switch x := in.(type) {
			case *ssa.Go:
				need = append(need, x)
			case *ssa.Call:
				if an.CalleeIs(&x.Call, "utils", "NewTimer") {
					need = append(need, x)
				}
			}
		})
	}
	paths, _ := an.EnumPathsX(w.start, 4096)
	bad := ""
	n := 0
	for _, p := range paths {
		if p.Return == nil || len(p.Results) != 1 || p.Results[0] != "nil" {
			continue
		}
		n++
		for _, in := range need {
			if !p.Passes(in) {
				bad = "start returns nil under [" + p.CondString() + "] without creating its timers / starting its goroutines: the session keeps running on the timers of an earlier logon, whose interval may differ from the one just negotiated"
			}
		}
	}
	c.Check(bad == "" && n > 0 && len(need) >= 4, rule, "start", "every successful start arms both timers with the current settings", w.start.Pos(), fmt.Sprintf("%d success path(s) pass %d timer/goroutine sites", n, len(need)), bad)
}

// checkAcceptorArms: on the accepting side the Logon handler itself calls start() on every path that reports the session logged
// on — not an event subscriber, which an application handler registered earlier for the same event can keep from running (the
// event pool stops at the first false).
func (w *wiring) checkAcceptorArms(rule string) {
	s := w.s
	c := s.c
	lf := s.one(true, "Logon")
	if lf == nil {
		return
	}
	SL := s.m.StateVals["SuccessfulLogged"]
	n, bad := 0, ""
	for _, t := range s.tr.Traces(lf, s.m.AllStates) {
		read, _ := s.entryRead(t)
		if read != s.m.Set("WaitingLogon") {
			continue
		}
		logged, started := false, false
		for _, e := range t.Events {
			if e.Kind == "state" && e.To == SL {
				logged = true
			}
			if e.Kind == "check" && e.Name == "start" {
				started = true
			}
		}
		if !logged {
			continue
		}
		n++
		if !started {
			bad = "the accepting side reports logged on without calling start() on path: " + traceStr(t)
		}
	}
	c.Check(bad == "" && n > 0, rule, "inbound:Logon", "the acceptor's Logon handler arms the timers itself", lf.Pos(), fmt.Sprintf("%d approving path(s) call start()", n), bad)
	// … and only for a Logon the application approved: start() is not a check, it arms the timers and spawns the heartbeat
	// goroutine with the interval of this Logon — called before the verdict, a refused Logon leaves a heartbeat goroutine behind
	// that runs with the refused interval next to the one of the Logon accepted later
	early, nStart := "", 0
	for _, t := range s.tr.Traces(lf, s.m.AllStates) {
		approved := false
		for _, e := range t.Events {
			if e.Kind == "check" && e.Name == "app" && e.Outcome == "ok" {
				approved = true
			}
			if e.Kind == "check" && e.Name == "start" {
				nStart++
				if read, _ := s.entryRead(t); read == s.m.Set("WaitingLogon") && !approved {
					early = "start() is called before the application's verdict on path: " + traceStr(t)
				}
			}
		}
	}
	c.Check(early == "" && nStart > 0, rule, "inbound:Logon", "the timers are armed only after the application approved the Logon", lf.Pos(), "check:app=ok precedes start()", early)
}

// periodTolerance reads a timer period as a linear form over the negotiated interval: period = time.Second × (H + T). It
// returns T rendered ("0", "1", an expression) or a reason why the period is not of that form. Helpers that compute the period
// are read through (the prover works on the interprocedural path).
func periodTolerance(pr *an.Prover, period ssa.Value, p *an.Path) (string, string) {
	const H = "s.LogonSettings.HeartBtInt"
	const sec = int64(1000000000)
	l := pr.Lin(period)
	if l.C[H] != sec {
		return "", fmt.Sprintf("the coefficient of the negotiated interval is %d ns, not one second", l.C[H])
	}
	rest := l.Add(an.LForm{C: map[string]int64{H: sec}}, -1)
	switch {
	case rest.IsConst() && rest.K%sec == 0:
		return fmt.Sprint(rest.K / sec), ""
	case rest.K == 0 && len(rest.C) == 1:
		for term, coef := range rest.C {
			if coef == sec {
				return term, ""
			}
			return "", fmt.Sprintf("the tolerance term %s is scaled by %d ns, not by one second", term, coef)
		}
	}
	return "", "the period is not time.Second × (HeartBtInt + tolerance): " + l.String()
}

// closeBodies: the function, its literals, the methods it passes as method values (closeOnce.Do(c.shutdown)) and the unexported
// helpers it calls directly — the code that runs when it is called.
func closeBodies(fn *ssa.Function) []*ssa.Function {
	out := an.WithAnon(fn)
	seen := map[*ssa.Function]bool{}
	for _, f := range out {
		seen[f] = true
	}
	an.AllInstrs(fn, func(in ssa.Instruction) {
		if mc, ok := in.(*ssa.MakeClosure); ok {
			if w, ok := mc.Fn.(*ssa.Function); ok {
				if t := an.BoundTarget(w); t != nil && t != w && !seen[t] && t.Blocks != nil {
					seen[t] = true
					out = append(out, an.WithAnon(t)...)
				}
			}
		}
	})
	for _, h := range pkgHelpersOf(fn) {
		if !seen[h] {
			seen[h] = true
			out = append(out, an.WithAnon(h)...)
		}
	}
	return out
}

func forAllInstrs(fns []*ssa.Function, f func(ssa.Instruction)) {
	for _, fn := range fns {
		an.AllInstrs(fn, f)
	}
}
