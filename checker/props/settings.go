package props

import (
	"go/token"
	"sort"
	"strings"

	"golang.org/x/tools/go/ssa"

	"sfcheck/an"
)

// ---------------------------------------------------------------------------
// The settings a Logon handler installs: a small symbolic evaluation of the one object that replaces Session.LogonSettings.
// Along every path of the handler it tracks, per field of that object, the expression it was last assigned — through the
// composite literal (built in the handler or in a constructor helper of the package that returns it), through later stores to
// s.LogonSettings.<f>, and through loads of the object's own fields (so a swap reads what was there before). The result is,
// per path, the side the path belongs to (the test of s.side it passed) and the final source of every field, in the handler's terms.
// ---------------------------------------------------------------------------

type settingsEnv struct {
	Side  string // "acceptor", "initiator" or "any"
	Env   map[string]string
	Early string // a send made after the replacement while sender/target were not yet mirrored (acceptor paths)
}

func (e settingsEnv) key() string {
	var ks []string
	for k, v := range e.Env {
		ks = append(ks, k+"="+v)
	}
	sort.Strings(ks)
	return e.Side + "|" + e.Early + "|" + strings.Join(ks, ";")
}

type settingsFlowResult struct {
	Envs    []settingsEnv
	Store   *ssa.Store // the replacement store in the handler
	Problem string     // non-empty if the flow could not be followed
}

var settingsFlowCache = map[*ssa.Function]*settingsFlowResult{}

func isSessionSettingsAddr(v ssa.Value) bool {
	fa, ok := v.(*ssa.FieldAddr)
	return ok && an.FieldOf(fa) != nil && an.FieldName(an.FieldOf(fa)) == "LogonSettings" && an.TypeIs(fa.X.Type(), "session", "Session")
}

// objSim simulates stores and loads on one settings object along a sequence of blocks.
type objSim struct {
	obj      *ssa.Alloc // the literal (may be nil in the handler when it was built by a helper)
	replaced bool       // loads of s.LogonSettings now denote the object
	env      map[string]string
	loadVal  map[ssa.Value]string
	sub      map[ssa.Value]ssa.Value
}

func (o *objSim) isObj(base ssa.Value) bool {
	if o.obj != nil && base == ssa.Value(o.obj) {
		return true
	}
	if ld, ok := base.(*ssa.UnOp); ok && ld.Op == token.MUL && isSessionSettingsAddr(ld.X) {
		return o.replaced
	}
	return false
}

func (o *objSim) sym(v ssa.Value) string {
	if s, ok := o.loadVal[v]; ok {
		return s
	}
	return an.RenderSubst(v, o.sub)
}

// step processes one instruction; it returns true when the instruction is the replacement store s.LogonSettings = <obj>.
func (o *objSim) step(in ssa.Instruction) {
	switch x := in.(type) {
	case *ssa.UnOp:
		if x.Op == token.MUL {
			if fa, ok := x.X.(*ssa.FieldAddr); ok && o.isObj(fa.X) {
				o.loadVal[x] = o.env[an.FieldName(an.FieldOf(fa))]
			}
		}
	case *ssa.Store:
		if fa, ok := x.Addr.(*ssa.FieldAddr); ok && o.isObj(fa.X) {
			o.env[an.FieldName(an.FieldOf(fa))] = o.sym(x.Val)
		}
	}
}

func copyEnv(m map[string]string) map[string]string {
	o := map[string]string{}
	for k, v := range m {
		o[k] = v
	}
	return o
}

// settingsFlow evaluates the Logon handler lf.
func (s *sess) settingsFlow(lf *ssa.Function) *settingsFlowResult {
	if r, ok := settingsFlowCache[lf]; ok {
		return r
	}
	res := &settingsFlowResult{}
	settingsFlowCache[lf] = res
	// the replacement store
	an.AllInstrs(lf, func(in ssa.Instruction) {
		if st, ok := in.(*ssa.Store); ok && isSessionSettingsAddr(st.Addr) {
			if res.Store != nil {
				res.Problem = "Session.LogonSettings is replaced more than once in the Logon handler"
			}
			res.Store = st
		}
	})
	if res.Store == nil {
		// not in the handler itself: follow the helpers it calls (the replacement may live in an acceptLogon-style method)
		s.settingsFlowX(lf, res)
		return res
	}
	if res.Problem != "" {
		return res
	}
	// where the object is built
	type start struct {
		side string
		env  map[string]string
	}
	var starts []start
	var obj *ssa.Alloc
	switch v := res.Store.Val.(type) {
	case *ssa.Alloc:
		obj = v
		starts = []start{{side: "", env: map[string]string{}}}
	case *ssa.Call:
		helper := an.StaticCallee(&v.Call)
		if helper == nil || helper.Pkg != lf.Pkg || len(helper.Blocks) == 0 {
			res.Problem = "the new settings come from " + an.Render(v) + ", which cannot be followed"
			return res
		}
		sub := map[ssa.Value]ssa.Value{}
		for i, p := range helper.Params {
			if i < len(v.Call.Args) {
				sub[p] = v.Call.Args[i]
			}
		}
		hp, _ := an.EnumPaths(helper, 256)
		for _, p := range hp {
			if p.Return == nil || len(p.ResVals) != 1 {
				continue
			}
			al, ok := an.Unspill(p.ResVals[0]).(*ssa.Alloc)
			if !ok {
				res.Problem = "the constructor " + an.NameOf(helper) + " does not return a literal it builds"
				return res
			}
			sim := &objSim{obj: al, env: map[string]string{}, loadVal: map[ssa.Value]string{}, sub: sub}
			for _, b := range p.Blocks {
				for _, in := range b.Instrs {
					sim.step(in)
				}
			}
			// which side does this path of the constructor serve: a test of s.side, directly or through a bool parameter
			side := s.sideOfPath(p, sub)
			starts = append(starts, start{side: side, env: sim.env})
		}
		if len(starts) == 0 {
			res.Problem = "the constructor " + an.NameOf(helper) + " has no returning path"
			return res
		}
	default:
		res.Problem = "the new settings are " + an.Render(res.Store.Val) + ": neither a literal nor the result of a constructor of the package"
		return res
	}
	seen := map[string]bool{}
	paths, _ := an.EnumPaths(lf, 4096)
	for _, p := range paths {
		if p.Return == nil || !p.Passes(res.Store) {
			continue
		}
		pside := s.sideOfPath(p, nil)
		for _, st0 := range starts {
			side := pside
			if st0.side != "" {
				if side != "" && side != st0.side {
					continue // contradictory
				}
				side = st0.side
			}
			if side == "" {
				side = "any"
			}
			sim := &objSim{obj: obj, env: copyEnv(st0.env), loadVal: map[ssa.Value]string{}}
			early := ""
			for _, b := range p.Blocks {
				for _, in := range b.Instrs {
					if in == ssa.Instruction(res.Store) {
						sim.replaced = true
						continue
					}
					sim.step(in)
					if call, ok := in.(*ssa.Call); ok && sim.replaced && side != "initiator" && early == "" {
						if cal := an.StaticCallee(&call.Call); cal != nil && (s.isSendPrimitive(cal) || an.NameOf(cal) == "RejectMessage") && !mirrored(sim.env) {
							early = "a message is sent at " + s.c.RelPos(call.Pos()) + " after the peer's settings were adopted but before sender/target were mirrored: it leaves with the peer's own identifiers"
						}
					}
				}
			}
			e := settingsEnv{Side: side, Env: sim.env, Early: early}
			if k := e.key(); !seen[k] {
				seen[k] = true
				res.Envs = append(res.Envs, e)
			}
		}
	}
	if len(res.Envs) == 0 {
		res.Problem = "no returning path of the Logon handler passes the replacement of the settings"
	}
	return res
}

// mirrored: TargetCompID comes from the peer's SenderCompID and SenderCompID from the peer's TargetCompID, both read from the same message.
func mirrored(env map[string]string) bool {
	t, sd := env["TargetCompID"], env["SenderCompID"]
	const sfxS, sfxT = ".HeaderBuilder().SenderCompID()", ".HeaderBuilder().TargetCompID()"
	return strings.HasSuffix(t, sfxS) && strings.HasSuffix(sd, sfxT) && strings.TrimSuffix(t, sfxS) == strings.TrimSuffix(sd, sfxT)
}

// fieldSource returns the source all paths agree on for a field ("" if they differ or there is none).
func (r *settingsFlowResult) fieldSource(f string) string {
	out := ""
	for i, e := range r.Envs {
		if i == 0 {
			out = e.Env[f]
		} else if e.Env[f] != out {
			return ""
		}
	}
	return out
}

// sideOfPath classifies a path by the test of Session.side it passed ("acceptor", "initiator" or "" if none): the test is a
// comparison of a load of the field `side` with the constant sideAcceptor, made directly or passed in as a bool argument.
func (s *sess) sideOfPath(p *an.Path, sub map[ssa.Value]ssa.Value) string {
	acc := int64(0)
	if k, ok := s.m.Pkg.Members["sideAcceptor"].(*ssa.NamedConst); ok {
		if v, isInt := an.ConstInt(k.Value); isInt {
			acc = v
		}
	}
	// isSideTest: v is (side == const) or (side != const); returns whether it holds exactly on the accepting side
	isSideTest := func(v ssa.Value) (onAcceptor bool, ok bool) {
		bo, isB := v.(*ssa.BinOp)
		if !isB || (bo.Op != token.EQL && bo.Op != token.NEQ) {
			return false, false
		}
		for _, pr := range [][2]ssa.Value{{bo.X, bo.Y}, {bo.Y, bo.X}} {
			k, isK := an.ConstInt(pr[1])
			if !isK {
				continue
			}
			f, _ := an.LoadedField(an.Unspill(pr[0]))
			if f == nil || an.FieldName(f) != "side" {
				continue
			}
			return (bo.Op == token.EQL) == (k == acc), true
		}
		return false, false
	}
	side := ""
	for _, a := range p.Atoms {
		v := a.Val
		if par, isPar := v.(*ssa.Parameter); isPar && sub != nil {
			if arg, has := sub[par]; has {
				v = arg
			}
		}
		onAcc, ok := isSideTest(v)
		if !ok {
			continue
		}
		if onAcc == a.Taken {
			side = "acceptor"
		} else {
			side = "initiator"
		}
	}
	return side
}

// settingsFlowX is settingsFlow over the handler's interprocedural paths (helpers outside the pinned vocabulary expanded).
func (s *sess) settingsFlowX(lf *ssa.Function, res *settingsFlowResult) {
	paths, _ := an.EnumPathsX(lf, 4096)
	seen := map[string]bool{}
	for _, p := range paths {
		if p.Return == nil {
			continue
		}
		seq := p.InstrSeq()
		var st *ssa.Store
		for _, in := range seq {
			if x, ok := in.(*ssa.Store); ok && isSessionSettingsAddr(x.Addr) {
				st = x
				break
			}
		}
		if st == nil {
			continue
		}
		if res.Store == nil {
			res.Store = st
		}
		obj, _ := an.Unspill(an.ResolveOnPath(st.Val, p)).(*ssa.Alloc)
		if obj == nil {
			res.Problem = "the new settings are " + an.RenderOnPath(st.Val, p) + ": not a literal that can be followed"
			return
		}
		side := s.sideOfPath(p, p.Sub)
		if side == "" {
			side = "any"
		}
		sim := &objSim{obj: obj, env: map[string]string{}, loadVal: map[ssa.Value]string{}, sub: p.Sub}
		early := ""
		for _, in := range seq {
			if in == ssa.Instruction(st) {
				sim.replaced = true
				continue
			}
			sim.step(in)
			if call, ok := in.(*ssa.Call); ok && sim.replaced && side != "initiator" && early == "" {
				if cal := an.StaticCallee(&call.Call); cal != nil && (s.isSendPrimitive(cal) || an.NameOf(cal) == "RejectMessage") && !mirrored(sim.env) {
					early = "a message is sent at " + s.c.RelPos(call.Pos()) + " after the peer's settings were adopted but before sender/target were mirrored: it leaves with the peer's own identifiers"
				}
			}
		}
		e := settingsEnv{Side: side, Env: sim.env, Early: early}
		if k := e.key(); !seen[k] {
			seen[k] = true
			res.Envs = append(res.Envs, e)
		}
	}
	if res.Store == nil {
		res.Problem = "the Logon handler does not replace Session.LogonSettings (neither itself nor in a helper it calls)"
	} else if len(res.Envs) == 0 && res.Problem == "" {
		res.Problem = "no returning path of the Logon handler passes the replacement of the settings"
	}
}
