package props

import (
	"fmt"
	"go/token"
	"go/types"
	"strings"

	"golang.org/x/tools/go/ssa"

	"sfcheck/an"
	"sfcheck/core"
)

// ---------------------------------------------------------------------------
// Shared rules about the serializer's leaf producers (C01.S2, C17.S).
// ---------------------------------------------------------------------------

// collector describes a leaf producer of the form
//
//	var msg [][]byte; [msg = append(msg, prefix)]; for _, x := range S { b := x.ToBytes(); if b != nil { msg = append(msg, b) } }; return joinBody(msg...)
type collector struct {
	Fn       *ssa.Function
	Over     string      // rendered slice ranged over
	Elem     string      // rendered element producer
	Prefix   []ssa.Value // elements appended before the loop
	Problems []string
	EmptyNil bool // returns nil when nothing was collected / slice empty
}

// analyseCollector checks the loop shape of a leaf producer.
func analyseCollector(fn *ssa.Function) *collector {
	col := &collector{Fn: fn}
	bad := func(f string, a ...interface{}) { col.Problems = append(col.Problems, fmt.Sprintf(f, a...)) }
	lps := loops(fn)
	if len(lps) != 1 {
		bad("%d loops (expected exactly one range loop over the items)", len(lps))
		return col
	}
	in := map[*ssa.BasicBlock]bool{}
	for _, b := range lps[0] {
		in[b] = true
	}
	// the range index and the slice
	var idx ssa.Value
	var idxPhi *ssa.Phi
	var elemAddr *ssa.IndexAddr
	for _, b := range lps[0] {
		for _, i := range b.Instrs {
			if ia, ok := i.(*ssa.IndexAddr); ok {
				if phi := rangeIndexPhi(ia.Index); phi != nil {
					idx, idxPhi, elemAddr = ia.Index, phi, ia
				}
			}
		}
	}
	if elemAddr == nil {
		bad("no element access items[i] with a range index")
		return col
	}
	col.Over = an.Render(elemAddr.X)
	// bound: idx < len(S)
	okBound := false
	for _, ref := range *idx.Referrers() {
		if bo, ok := ref.(*ssa.BinOp); ok && bo.Op == token.LSS && bo.X == idx {
			if call, ok := bo.Y.(*ssa.Call); ok {
				if b, ok := call.Call.Value.(*ssa.Builtin); ok && b.Name() == "len" && an.Render(call.Call.Args[0]) == col.Over {
					okBound = true
				}
			}
		}
	}
	if !okBound {
		bad("the loop does not run over the whole slice %s (index from 0 while i < len)", col.Over)
	}
	_ = idxPhi
	// accumulator phi in the loop head
	var acc *ssa.Phi
	for _, i := range idxPhi.Block().Instrs {
		if phi, ok := i.(*ssa.Phi); ok && phi != idxPhi {
			if _, isSlice := phi.Type().Underlying().(*types.Slice); isSlice {
				acc = phi
			}
		}
	}
	if acc == nil {
		bad("no accumulator slice carried by the loop")
		return col
	}
	// init edge
	head := acc.Block()
	for i, pred := range head.Preds {
		v := acc.Edges[i]
		if in[pred] {
			continue
		}
		// nil or append(nil, prefix...)
		for {
			if c, ok := v.(*ssa.Const); ok && c.Value == nil {
				break
			}
			// make([][]byte, 0, n): empty, with room
			if mk, isMk := v.(*ssa.MakeSlice); isMk {
				if k, isK := an.ConstInt(mk.Len); isK && k == 0 {
					break
				}
			}
			call, ok := v.(*ssa.Call)
			if !ok {
				bad("the accumulator starts as %s, not empty", an.Render(v))
				break
			}
			b, ok := call.Call.Value.(*ssa.Builtin)
			if !ok || b.Name() != "append" {
				bad("the accumulator starts as %s", an.Render(v))
				break
			}
			elems, ok := an.SliceElems(call.Call.Args[1])
			if !ok {
				bad("prefix of the accumulator is not a literal list")
				break
			}
			col.Prefix = append(elems, col.Prefix...)
			v = call.Call.Args[0]
		}
	}
	// back edges
	elemRender := ""
	for i, pred := range head.Preds {
		if !in[pred] {
			continue
		}
		v := acc.Edges[i]
		if v == ssa.Value(acc) {
			// element skipped: must be under the "bytes are nil/empty" condition — checked below via the guard
			continue
		}
		call, ok := v.(*ssa.Call)
		if !ok {
			bad("the accumulator is updated with %s", an.Render(v))
			continue
		}
		b, ok := call.Call.Value.(*ssa.Builtin)
		if !ok || b.Name() != "append" || call.Call.Args[0] != ssa.Value(acc) {
			bad("the accumulator is updated with %s, not append(acc, element bytes)", an.Render(v))
			continue
		}
		elems, ok := an.SliceElems(call.Call.Args[1])
		if !ok || len(elems) != 1 {
			bad("not exactly one element appended per iteration")
			continue
		}
		elemRender = an.Render(elems[0])
	}
	col.Elem = elemRender
	if elemRender == "" {
		bad("no iteration appends the element's bytes")
	} else if !strings.Contains(elemRender, ".ToBytes()") {
		bad("the bytes appended are %s, not the element's ToBytes()", elemRender)
	} else {
		// the producer must be applied to the current element: items[i]
		cur := an.Render(elemAddr)[1:] // strip &
		if !strings.HasPrefix(elemRender, cur+".ToBytes()") && !strings.HasPrefix(elemRender, cur+".") {
			bad("the bytes appended (%s) do not come from the current element %s", elemRender, cur)
		}
	}
	// the skip edge is guarded by a nil/empty test of the element's bytes
	paths, _ := an.EnumPaths(fn, 2048)
	for _, p := range paths {
		if !p.Loop {
			continue
		}
		// which edge does this path take back to the head? last block before the repeated head
		last := p.Blocks[len(p.Blocks)-1]
		for i, pred := range head.Preds {
			if pred != last || !in[pred] {
				continue
			}
			if acc.Edges[i] == ssa.Value(acc) {
				okGuard := false
				for _, a := range p.Atoms {
					if strings.Contains(a.L, ".ToBytes()") && ((a.Rel == "==" && a.R == "nil") || a.Rel == "<=" && a.R == "0") {
						okGuard = true
					}
					if a.Rel == "<=" && strings.HasPrefix(a.L, "len(") && strings.Contains(a.L, ".ToBytes()") && a.R == "0" {
						okGuard = true
					}
				}
				if !okGuard {
					bad("an element is skipped on a path that does not establish that its bytes are nil/empty: %s", p.CondString())
				}
			}
		}
	}
	// result: joinBody(acc...) / bytes.Join(acc, Delimiter); nil allowed when empty
	okRes := false
	for _, p := range paths {
		if p.Return == nil || len(p.Results) != 1 {
			continue
		}
		r := p.Results[0]
		switch {
		case r == "nil":
			col.EmptyNil = true
		case strings.HasPrefix(r, "fix.joinBody(") || strings.HasPrefix(r, "bytes.Join("):
			okRes = true
			if rv, ok := p.ResVals[0].(*ssa.Call); ok {
				if an.ResolveOnPath(rv.Call.Args[0], p) != ssa.Value(acc) && rv.Call.Args[0] != ssa.Value(acc) {
					bad("the result joins %s, not the collected list", an.Render(rv.Call.Args[0]))
				}
				// a direct bytes.Join must use the field delimiter (joinBody's own separator is checked where it is defined)
				if strings.HasPrefix(r, "bytes.Join(") && (len(rv.Call.Args) != 2 || an.Render(rv.Call.Args[1]) != "Delimiter") {
					bad("the collected parts are joined with %s, not with the field delimiter", an.Render(rv.Call.Args[len(rv.Call.Args)-1]))
				}
			}
		default:
			bad("unexpected result %s", r)
		}
	}
	if !okRes {
		bad("no path returns the delimiter-join of the collected list")
	}
	// purity: no stores outside locals, no map updates, no sends, no go
	an.AllInstrs(fn, func(i ssa.Instruction) {
		switch x := i.(type) {
		case *ssa.Store:
			switch a := x.Addr.(type) {
			case *ssa.Alloc:
			case *ssa.IndexAddr:
				if _, ok := a.X.(*ssa.Alloc); !ok {
					bad("writes into a slice it does not own (%s): serialization must not modify the message", an.Render(a.X))
				}
			default:
				bad("stores to %s: serialization must not modify the message (it is evaluated twice per Prepare)", an.Render(x.Addr))
			}
		case *ssa.MapUpdate, *ssa.Send, *ssa.Go:
			bad("side effect in a serializer")
		case *ssa.Slice:
			// re-slicing receiver state and appending to it aliases the message's own storage
			if _, ok := x.X.(*ssa.Alloc); !ok && x.High != nil {
				for _, ref := range *x.Referrers() {
					if call, ok := ref.(*ssa.Call); ok {
						if b, ok := call.Call.Value.(*ssa.Builtin); ok && b.Name() == "append" && call.Call.Args[0] == ssa.Value(x) {
							bad("appends into a re-slice of %s: this overwrites the message's own storage, so two serializations differ", an.Render(x.X))
						}
					}
				}
			}
		}
	})
	return col
}

// checkLeafProducers records the S-rules for Items/Component/Group/KeyValue(s).ToBytes.
func checkLeafProducers(c *core.Ctx, rule string) {
	for _, leaf := range []struct{ typ, over string }{{"Items", "v"}, {"Component", "c.items"}, {"Group", "g.items"}} {
		fn := c.Func("fix", leaf.typ+".ToBytes")
		if !c.Anchor("leaf producer "+leaf.typ+".ToBytes", fn != nil, leaf.typ+".ToBytes", posOf(fn)) {
			continue
		}
		col := analyseCollector(fn)
		name := leaf.typ + ".ToBytes"
		c.Check(len(col.Problems) == 0, rule, name, "emits the non-nil ToBytes() of every element of "+leaf.over+", in slice order, delimiter-joined, without modifying anything", fn.Pos(),
			fmt.Sprintf("range %s; append %s iff non-nil; joinBody", col.Over, col.Elem), strings.Join(col.Problems, "; "))
		c.Check(col.Over == leaf.over, rule, name, "iterates its own items", fn.Pos(), col.Over, "iterates "+col.Over+", expected "+leaf.over)
		// no way around the loop: a return that does not pass the collector loop is taken only when there are no items (an
		// "is it empty?" shortcut that looks at some kinds of item only drops the others with their content)
		{
			heads := an.LoopHeads(fn)
			ps, _ := an.EnumPaths(fn, 512)
			around := ""
			for _, p := range ps {
				if p.Return == nil {
					continue
				}
				through := false
				for _, b := range p.Blocks {
					if heads[b] {
						through = true
					}
				}
				if !through && an.PathFeasible(p, an.Atom{L: "0", Rel: "<", R: "len(" + leaf.over + ")"}) {
					around = p.CondString()
				}
			}
			c.Check(around == "", rule, name, "every result is collected from the items (no return that bypasses the loop while there are items)", fn.Pos(), "all returns pass the collector loop or have len(items) == 0",
				name+" returns without looking at its items under ["+around+"]: whatever that test does not see (a repeating group inside a component, say) vanishes from the wire with its count field")
		}
		if leaf.typ == "Group" {
			// prefix: exactly the count field NewKeyValue(noTag, NewInt(len(items))).ToBytes(); nothing when there are no entries
			okP := len(col.Prefix) == 1 && an.Render(col.Prefix[0]) == "fix.NewKeyValue(g.noTag, fix.NewInt(len(g.items))).ToBytes()"
			got := "none"
			if len(col.Prefix) > 0 {
				got = an.Render(col.Prefix[0])
			}
			c.Check(okP, rule, name, "the count field noTag=len(entries) precedes the entries", fn.Pos(), got, "the group does not start with exactly one count field noTag=len(items): "+got)
			paths, _ := an.EnumPaths(fn, 256)
			// every returning path that an empty entry list can take returns nil (any spelling of the emptiness test), and there is one
			okEmpty, nNil := true, 0
			for _, p := range paths {
				if p.Return == nil || len(p.Results) != 1 || !an.PathFeasible(p, an.Atom{L: "len(g.items)", Rel: "==", R: "0"}) {
					continue
				}
				if p.Results[0] == "nil" {
					nNil++
				} else {
					okEmpty = false
				}
			}
			okEmpty = okEmpty && nNil > 0
			c.Check(okEmpty, rule, name, "a group without entries emits nothing", fn.Pos(), "len(items) == 0 → nil", "a group without entries does not return nil")
		}
	}
	// KeyValue.ToBytes
	if fn := c.Func("fix", "KeyValue.ToBytes"); c.Anchor("leaf producer KeyValue.ToBytes", fn != nil, "KeyValue.ToBytes", posOf(fn)) {
		paths, _ := an.EnumPaths(fn, 64)
		var bad []string
		nEmit := 0
		for _, p := range paths {
			if p.Return == nil {
				continue
			}
			if p.Results[0] == "nil" {
				continue
			}
			nEmit++
			ev := &an.SeqEval{Path: p}
			seq := ev.Eval(p.ResVals[0])
			want := an.Seq{{Atom: "[]byte(kv.Key)"}, {Bytes: []byte{'='}}, {Atom: "kv.Value.ToBytes()"}}
			if !seq.Equal(want) {
				// accept the atom rendered without the conversion wrapper
				want2 := an.Seq{{Atom: "kv.Key"}, {Bytes: []byte{'='}}, {Atom: "kv.Value.ToBytes()"}}
				if !seq.Equal(want2) {
					bad = append(bad, "emits "+seq.String()+" instead of key·'='·value")
				}
			}
			if !p.Has("!kv.Value.IsNull()") {
				bad = append(bad, "emits a field without checking that the value is populated: "+p.CondString())
			}
			if !p.Has("kv.Value.ToBytes() != nil") {
				bad = append(bad, "emits a field whose value bytes may be nil (an empty tag= field)")
			}
		}
		c.Check(len(bad) == 0 && nEmit == 1, rule, "KeyValue.ToBytes", "null ⇒ nothing; populated ⇒ exactly its own key, '=', the value's bytes", fn.Pos(), "key·'='·value behind !IsNull and bytes != nil",
			strings.Join(append(bad, fmt.Sprintf("(%d emitting paths)", nEmit)), "; "))
	}
	// joinBody joins with the delimiter
	// (where the helper exists; collectors that call bytes.Join themselves are checked for the separator above)
	if fn := c.Func("fix", "joinBody"); fn != nil {
		ps, _ := an.EnumPaths(fn, 4)
		ok := len(ps) == 1 && len(ps[0].Results) == 1 && ps[0].Results[0] == "bytes.Join(values, Delimiter)"
		c.Check(ok, rule, "joinBody", "joins with the delimiter", fn.Pos(), "bytes.Join(values, Delimiter)", "joinBody is not bytes.Join(values, Delimiter)")
	}
	checkDelimiter(c, rule)
}

// checkDelimiter: fix.Delimiter is []byte{1} and never assigned.
func checkDelimiter(c *core.Ctx, rule string) {
	pkg := c.SSAPkg("fix")
	if pkg == nil {
		return
	}
	g, _ := pkg.Members["Delimiter"].(*ssa.Global)
	if !c.Anchor("fix.Delimiter", g != nil, "package variable Delimiter", token.NoPos) {
		return
	}
	stores := 0
	okInit := false
	for _, p := range c.Prog.AllPackages() {
		if p.Pkg == nil || !strings.HasPrefix(p.Pkg.Path(), core.ModPath) {
			continue
		}
		for _, mem := range p.Members {
			fn, ok := mem.(*ssa.Function)
			if !ok {
				continue
			}
			for _, f := range an.WithAnon(fn) {
				an.AllInstrs(f, func(in ssa.Instruction) {
					if st, ok := in.(*ssa.Store); ok && st.Addr == ssa.Value(g) {
						stores++
						ev := &an.SeqEval{}
						if an.NameOf(f) == "init" && ev.Eval(st.Val).String() == "'␁'" {
							okInit = true
						}
					}
					// element writes through the global
					if ia, ok := in.(*ssa.IndexAddr); ok {
						if u, ok := ia.X.(*ssa.UnOp); ok && u.X == ssa.Value(g) {
							for _, r := range *ia.Referrers() {
								if _, isSt := r.(*ssa.Store); isSt {
									stores += 10
								}
							}
						}
					}
				})
			}
		}
		// methods too
	}
	c.Check(okInit && stores == 1, rule, "fix.Delimiter", "is the single byte SOH and is never reassigned", g.Pos(), "initialised to {1}, no other store in the module", fmt.Sprintf("initialised to SOH: %v; stores: %d", okInit, stores))
}
