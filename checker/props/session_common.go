package props

import (
	"fmt"
	"go/token"
	"go/types"
	"sort"
	"strings"

	"golang.org/x/tools/go/ssa"

	"sfcheck/an"
	"sfcheck/core"
)

// sess bundles the session model, the registrations and a tracer.
type sess struct {
	c    *core.Ctx
	m    *an.SessionModel
	regs []an.Registration
	tr   *an.Tracer
}

func newSess(c *core.Ctx) *sess {
	pkg := c.SSAPkg("session")
	if !c.Anchor("package session", pkg != nil, "SSA package", token.NoPos) {
		return nil
	}
	m, err := an.NewSessionModel(pkg)
	if err != nil {
		c.Anchor("session model", false, err.Error(), token.NoPos)
		return nil
	}
	s := &sess{c: c, m: m, regs: m.Registrations(), tr: &an.Tracer{M: m}}
	var readers, writers []string
	for fn, k := range m.StateReaders {
		readers = append(readers, fmt.Sprintf("%s(kind %d)", an.NameOf(fn), k))
	}
	for fn := range m.StateWriters {
		writers = append(writers, an.NameOf(fn))
	}
	sort.Strings(readers)
	sort.Strings(writers)
	c.Anchors["Session.state readers"] = strings.Join(readers, ", ")
	c.Anchors["Session.state writers"] = strings.Join(writers, ", ")
	return s
}

// handler finds the unique registration with the given direction and key inside function parent (by name; "" = any).
func (s *sess) handlers(in bool, key, parent string) []an.Registration {
	var out []an.Registration
	for _, r := range s.regs {
		if r.In == in && r.Key == key && (parent == "" || an.NameOf(r.Parent) == parent) {
			out = append(out, r)
		}
	}
	return out
}

// one returns the single handler for key, recording the anchor.
func (s *sess) one(in bool, key string) *ssa.Function {
	hs := s.handlers(in, key, "")
	dir := "outgoing"
	if in {
		dir = "incoming"
	}
	role := fmt.Sprintf("%s handler for %s", dir, key)
	if len(hs) != 1 || hs[0].Fn == nil {
		s.c.Anchor(role, false, fmt.Sprintf("%d registrations found, need exactly one with a function literal", len(hs)), token.NoPos)
		return nil
	}
	s.c.Anchor(role, true, an.FuncShort(hs[0].Fn), hs[0].Fn.Pos())
	return hs[0].Fn
}

func traceStr(t *an.Trace) string {
	var parts []string
	for _, e := range t.Events {
		if (e.Kind == "return" && e.Depth > 0) || e.Kind == "enter" {
			continue
		}
		parts = append(parts, e.String())
	}
	return strings.Join(parts, " → ")
}

// sends returns the send events of a trace.
func sends(t *an.Trace) []an.Event {
	var out []an.Event
	for _, e := range t.Events {
		if e.Kind == "send" {
			out = append(out, e)
		}
	}
	return out
}

func eventsOf(t *an.Trace, kind string) []an.Event {
	var out []an.Event
	for _, e := range t.Events {
		if e.Kind == kind {
			out = append(out, e)
		}
	}
	return out
}

func hasKind(kinds []string, k string) bool {
	for _, x := range kinds {
		if x == k {
			return true
		}
	}
	return false
}

func init() {
	register(&Check{ID: "TRACE", NeedSSA: true, Run: func(c *core.Ctx, o Options) {
		s := newSess(c)
		if s == nil {
			return
		}
		for _, r := range s.regs {
			dir := "out"
			if r.In {
				dir = "in"
			}
			fmt.Printf("== %s %s registered in %s: %v\n", dir, r.Key, an.NameOf(r.Parent), r.Fn)
			if r.Fn == nil {
				continue
			}
			for _, t := range s.tr.Traces(r.Fn, s.m.AllStates) {
				fmt.Printf("   %s   final=%s\n", traceStr(t), s.m.SetString(t.Final))
			}
		}
		for _, name := range []string{"Run", "start", "Stop", "Logout", "LogonRequest", "RejectMessage", "send", "processIncSeq", "checkLogonParams", "setStorageCallbacks"} {
			fn := s.m.Method(name)
			fmt.Printf("== method %s\n", name)
			for _, f := range an.WithAnon(fn) {
				if f != fn {
					isReg := false
					for _, r := range s.regs {
						if r.Fn == f {
							isReg = true
						}
					}
					if isReg {
						continue
					}
					fmt.Printf(" -- closure %s\n", an.NameOf(f))
				}
				for _, t := range s.tr.Traces(f, s.m.AllStates) {
					fmt.Printf("   %s   final=%s\n", traceStr(t), s.m.SetString(t.Final))
				}
			}
		}
	}})
}

// root is an entry point of package session for the trace engine.
type root struct {
	Cat  string // inbound outbound event goroutine afterfunc method
	Key  string
	Fn   *ssa.Function
	Site ssa.Instruction
}

func (r root) Name() string { return r.Cat + ":" + r.Key }

// allFuncs lists every function of package session including closures.
func (s *sess) allFuncs() []*ssa.Function {
	var fns []*ssa.Function
	seen := map[*ssa.Function]bool{}
	add := func(fn *ssa.Function) {
		for _, f := range an.WithAnon(fn) {
			if !seen[f] && len(f.Blocks) > 0 {
				seen[f] = true
				fns = append(fns, f)
			}
		}
	}
	var names []string
	for name := range s.m.Pkg.Members {
		names = append(names, name)
	}
	sort.Strings(names)
	for _, name := range names {
		switch mem := s.m.Pkg.Members[name].(type) {
		case *ssa.Function:
			add(mem)
		case *ssa.Type:
			for _, t := range []types.Type{mem.Type(), types.NewPointer(mem.Type())} {
				ms := s.m.Pkg.Prog.MethodSets.MethodSet(t)
				for i := 0; i < ms.Len(); i++ {
					if fn := s.m.Pkg.Prog.MethodValue(ms.At(i)); fn != nil && fn.Pkg == s.m.Pkg && fn.Synthetic == "" {
						add(fn)
					}
				}
			}
		}
	}
	return fns
}

// roots finds the entry points: registered handlers, event callbacks, goroutine bodies, AfterFunc callbacks and all methods/functions.
func (s *sess) roots() []root {
	var out []root
	isClosureRoot := map[*ssa.Function]bool{}
	for _, r := range s.regs {
		if r.Fn == nil {
			continue
		}
		cat := "outbound"
		if r.In {
			cat = "inbound"
		}
		out = append(out, root{Cat: cat, Key: r.Key + "@" + an.NameOf(r.Parent), Fn: r.Fn, Site: r.Site})
		isClosureRoot[r.Fn] = true
	}
	for _, fn := range s.allFuncs() {
		an.AllInstrs(fn, func(in ssa.Instruction) {
			cc := an.CallOf(in)
			if cc == nil {
				return
			}
			if g, ok := in.(*ssa.Go); ok {
				if cf := an.StaticCallee(&g.Call); cf != nil && cf.Pkg == s.m.Pkg {
					out = append(out, root{Cat: "goroutine", Key: an.NameOf(cf), Fn: cf, Site: in})
					isClosureRoot[cf] = true
				}
				return
			}
			if cal := an.StaticCallee(cc); cal != nil {
				switch {
				case an.FuncIs(cal, "session", "Session.OnChangeState"), an.FuncIs(cal, "utils", "EventHandlerPool.Handle"):
					if cf := an.ClosureFn(cc.Args[2]); cf != nil && cf.Pkg == s.m.Pkg {
						out = append(out, root{Cat: "event", Key: evName(cc.Args[1]) + "@" + an.NameOf(fn), Fn: cf, Site: in})
						isClosureRoot[cf] = true
					}
				case an.FuncIs(cal, "time", "AfterFunc"):
					if cf := an.ClosureFn(cc.Args[1]); cf != nil && cf.Pkg == s.m.Pkg {
						out = append(out, root{Cat: "afterfunc", Key: an.NameOf(cf), Fn: cf, Site: in})
						isClosureRoot[cf] = true
					}
				}
			}
		})
	}
	for _, fn := range s.allFuncs() {
		if fn.Parent() == nil {
			// an unexported method that is registered as a handler / callback / goroutine body is analysed in that role only
			if isClosureRoot[fn] && !isExported(an.NameOf(fn)) {
				continue
			}
			out = append(out, root{Cat: "method", Key: an.NameOf(fn), Fn: fn})
		} else if !isClosureRoot[fn] {
			// a closure that is neither registered nor spawned: treat it as its own root so that nothing escapes the census
			out = append(out, root{Cat: "closure", Key: an.NameOf(fn), Fn: fn})
		}
	}
	return out
}

func evName(v ssa.Value) string {
	names := []string{"EventDisconnect", "EventConnect", "EventStopped", "EventLogon", "EventRequest", "EventLogout"}
	if c, ok := an.ConstInt(v); ok && c >= 0 && int(c) < len(names) {
		return names[c]
	}
	return "?"
}

// entryRead returns what the first read of Session.state on the trace is known to have returned
// (after all tests of that read), and whether there was a read at all.
func (s *sess) entryRead(t *an.Trace) (an.StateSet, bool) {
	var first ssa.Value
	set := s.m.AllStates
	found := false
	for _, e := range t.Events {
		if e.Kind == "state" && !found {
			return s.m.AllStates, false // an own write precedes every read
		}
		if e.Kind != "guard" {
			continue
		}
		if first == nil {
			first = e.ReadVal
			found = true
		}
		if e.ReadVal == first {
			set = e.Read
		}
	}
	return set, found
}

// unmarshalOutcome returns "ok", "fail", "" (not branched) or "none".
func unmarshalOutcome(t *an.Trace) (string, *an.Event) {
	for i, e := range t.Events {
		if e.Kind == "unmarshal" {
			return e.Outcome, &t.Events[i]
		}
	}
	return "none", nil
}

// returnsTrue reports whether the root function of the trace returns the constant true.
func returnsTrue(t *an.Trace) bool {
	for i := len(t.Events) - 1; i >= 0; i-- {
		if t.Events[i].Kind == "return" && t.Events[i].Depth == 0 {
			return t.Events[i].Ret == "true"
		}
	}
	return false
}

func countKind(t *an.Trace, kind string) int { return len(eventsOf(t, kind)) }

// rawReject reports whether the trace contains the raw-bytes reject (RejectMessage spliced in): a ValueByTag lookup followed by a Reject send.
func isRejectSend(e an.Event) bool {
	return e.Kind == "send" && len(e.Kinds) == 1 && e.Kinds[0] == "Reject"
}

// guardSet intersects what all (non-stale) state tests before the first own state change or send have established.
func (s *sess) guardSet(t *an.Trace) (an.StateSet, bool) {
	set := s.m.AllStates
	found := false
	for _, e := range t.Events {
		if e.Kind == "state" || e.Kind == "send" {
			break
		}
		if e.Kind == "guard" && !e.Stale {
			set &= e.Read
			found = true
		}
	}
	return set, found
}

// modulePrefix is the import-path prefix of the library's own packages.
const modulePrefix = "github.com/b2broker/simplefix-go"

// checkRestingSide: WaitingLogon is a state of an accepting session and WaitingLogonAnswer a state of an initiating one — the
// Logon handler trusts that (in WaitingLogon it calls the acceptor's LogonHandler, nil on an initiator; in WaitingLogonAnswer it
// accepts the Logon unchecked as the answer to its own). Every path of every entry point driven by the peer or by the library's
// timers, and of Run, that ends with the state set to one of the two has tested the matching side somewhere on the path.
func (s *sess) checkRestingSide(rule string) {
	c := s.c
	wl, wla := s.m.StateVals["WaitingLogon"], s.m.StateVals["WaitingLogonAnswer"]
	n := 0
	for _, r := range s.roots() {
		if r.Cat == "method" && an.NameOf(r.Fn) != "Run" {
			continue
		}
		reported := map[string]bool{}
		for _, t := range s.tr.Traces(r.Fn, s.m.AllStates) {
			side := ""
			last := int64(-2)
			var lastEv *an.Event
			for i, e := range t.Events {
				switch e.Kind {
				case "side":
					side = e.Name
				case "state":
					last, lastEv = e.To, &t.Events[i]
				}
			}
			want := ""
			switch last {
			case wl:
				want = "acceptor"
			case wla:
				want = "initiator"
			default:
				continue
			}
			n++
			if side == want || reported[want] {
				if side == want {
					continue
				}
			}
			if side != want {
				reported[want] = true
				c.Ob(rule, r.Name(), "a path that leaves the session in "+s.m.StateNames[last]+" has established the "+want+" side", lastEv.Pos).Fail(
					"this path leaves the session in %s without having tested that it is the %s side (side on the path: %q): %s", s.m.StateNames[last], want, side,
					map[string]string{"acceptor": "an initiating session has no LogonHandler, so the peer's next Logon calls a nil function", "initiator": "an accepting session resting in WaitingLogonAnswer accepts the next Logon unchecked, as if it were the answer to its own"}[want]+" ("+traceStr(t)+")")
			}
		}
	}
	c.Check(n >= 2, rule, "", "paths that end in WaitingLogon / WaitingLogonAnswer found", 0, fmt.Sprint(n), fmt.Sprintf("only %d such paths (anchor moved)", n))
}

// checkStateReadAfterDecode: an inbound handler branches on the session state as it is after the message has been decoded — on
// no trace does a call of the (pluggable, arbitrarily slow) unmarshaller lie between the read of the state and the branch that
// uses it. A snapshot taken before the decode lets a Stop()/Logout() that lands meanwhile go unseen: the handler then answers
// the peer's Logout a second time instead of completing the local one.
func (s *sess) checkStateReadAfterDecode(rule string) {
	c := s.c
	n := 0
	for _, r := range s.roots() {
		if r.Cat != "inbound" {
			continue
		}
		bad := ""
		for _, t := range s.tr.Traces(r.Fn, s.m.AllStates) {
			readAt := map[ssa.Value]int{}
			for i, e := range t.Events {
				switch e.Kind {
				case "stateread":
					if e.Val != nil {
						readAt[e.Val] = i
					}
				case "guard":
					j, ok := readAt[e.ReadVal]
					if !ok {
						continue
					}
					for k := j + 1; k < i; k++ {
						if t.Events[k].Kind == "unmarshal" {
							bad = "the state tested at " + c.RelPos(e.Pos) + " was read before the message was decoded: a state change made by another goroutine during the decode is missed"
						}
					}
				}
			}
		}
		n++
		c.Check(bad == "", rule, r.Name(), "the state the handler branches on is read after the decode", r.Fn.Pos(), "no unmarshal between the read and the test", bad)
	}
	c.Check(n >= 5, rule, "", "inbound handlers found", token.NoPos, fmt.Sprint(n), fmt.Sprintf("only %d inbound handlers", n))
}

// checkCallbacksOutsideStateLock: the event subscribers and the application's logon callback are application code that may
// look at the session (IsLogged, a state change of its own): they are called with none of the session's own mutexes held —
// otherwise the first callback that reads the state blocks for ever on the non-reentrant lock, and with it the goroutine that
// dispatches inbound messages.
func (s *sess) checkCallbacksOutsideStateLock(rule string) {
	c := s.c
	n := 0
	for _, fn := range s.allFuncs() {
		an.AllInstrs(fn, func(in ssa.Instruction) {
			call, ok := in.(*ssa.Call)
			if !ok {
				return
			}
			what := ""
			switch {
			case an.CalleeIs(&call.Call, "utils", "EventHandlerPool.Trigger"):
				what = "EventHandlerPool.Trigger"
			case !call.Call.IsInvoke() && an.StaticCallee(&call.Call) == nil:
				if f, base := an.LoadedField(call.Call.Value); f != nil && base != nil && s.m.IsSessionVal(base) && an.FieldName(f) == "LogonHandler" {
					what = "Session.LogonHandler"
				}
			}
			if what == "" {
				return
			}
			n++
			held := an.HeldAt(fn, call)
			bad := ""
			for _, k := range an.SortedKeys(held) {
				bad = k
			}
			c.Check(bad == "", rule, an.NameOf(fn), what+" is called with no mutex of the session held", call.Pos(), "lock released before the callbacks run",
				fmt.Sprintf("%s is called in %s while %s is held: a subscriber that reads or changes the session state (IsLogged, Stop, Logout) blocks for ever, and the goroutine that triggered the event with it", what, an.NameOf(fn), bad))
		})
	}
	c.Check(n >= 2, rule, "", "callback invocations found", token.NoPos, fmt.Sprint(n), fmt.Sprintf("only %d calls of Trigger/LogonHandler found in package session", n))
}

// checkLocksReleased: no function of fns returns with a mutex it has taken still locked (every returning path is replayed over
// the lock operations, deferred unlocks included). Returns the number of locking functions examined.
func checkLocksReleased(c *core.Ctx, rule string, fns []*ssa.Function, consequence string) int {
	nLock := 0
	for _, fn := range fns {
		takes := false
		an.AllInstrs(fn, func(in ssa.Instruction) {
			if cc := an.CallOf(in); cc != nil {
				if _, op, ok := an.LockOp(cc); ok && (op == "Lock" || op == "RLock") {
					takes = true
				}
			}
		})
		if !takes {
			continue
		}
		nLock++
		held := an.HeldAtReturn(fn)
		ob := c.Ob(rule, an.NameOf(fn), "every mutex taken is released on every return", fn.Pos())
		if len(held) == 0 {
			ob.Ok("balanced on every returning path")
		} else {
			k := an.SortedKeys(held)[0]
			ob.Fail("%s returns with %s still locked under [%s]: %s", an.NameOf(fn), k, held[k], consequence)
		}
	}
	return nLock
}

// checkHandlersNeverCancel: no registered message handler (inbound or outbound, any type, any state) cancels the session's context
// or stops the router on any path — the session's goroutines end with the session (disconnect event, Stop's chain), never
// because of a message: a session that is logged on again after a peer's Logout would otherwise run without its timers.
func (s *sess) checkHandlersNeverCancel(rule, consequence string) {
	n := 0
	for _, r := range s.roots() {
		if r.Cat != "inbound" && r.Cat != "outbound" {
			continue
		}
		n++
		bad := ""
		for _, t := range s.tr.Traces(r.Fn, s.m.AllStates) {
			for _, e := range t.Events {
				if e.Kind == "cancel" {
					bad = e.String() + " on path: " + traceStr(t)
				}
			}
		}
		s.c.Check(bad == "", rule, r.Name(), "no message handler cancels the session context or stops the router", r.Fn.Pos(), "no cancel", bad+": "+consequence)
	}
	s.c.Check(n >= 8, rule, "", "registered message handlers found", token.NoPos, fmt.Sprint(n), fmt.Sprintf("only %d registered handlers found", n))
}

// checkApprovalIsTheCallbacks: the verdict the Logon handler acts on is the verdict of the application's callback.
// (a) Session.LogonHandler is only ever assigned a parameter of the function that assigns it (the callback as the application
// handed it over, not a wrapper that answers in its place — a cache, a default); (b) no function of the package recovers from a
// panic without storing a non-nil error into its own error result (a recovered panic of the callback would otherwise turn into
// the zero result: approval).
func (s *sess) checkApprovalIsTheCallbacks(rule string) {
	c := s.c
	lh := c.Field("session", "Session", "LogonHandler")
	if c.Anchor("logon callback field", lh != nil, "Session.LogonHandler", token.NoPos) {
		n := 0
		for _, fn := range s.allFuncs() {
			an.AllInstrs(fn, func(in ssa.Instruction) {
				st, ok := in.(*ssa.Store)
				if !ok {
					return
				}
				fa, ok := st.Addr.(*ssa.FieldAddr)
				if !ok || an.FieldOf(fa) != lh {
					return
				}
				n++
				v := st.Val
				if ct, isCT := v.(*ssa.ChangeType); isCT {
					v = ct.X
				}
				_, isParam := v.(*ssa.Parameter)
				c.Check(isParam || an.IsNilConst(v), rule, an.NameOf(fn), "the logon callback installed is the one the application handed over", st.Pos(), "Session.LogonHandler ← parameter",
					"Session.LogonHandler ← "+an.Render(st.Val)+": something else than the application's callback gives the verdict on a Logon (a cached or default answer approves a Logon the application would refuse)")
			})
		}
		c.Check(n >= 1, rule, "Session.LogonHandler", "assignment of the logon callback found", token.NoPos, fmt.Sprint(n), "no store to Session.LogonHandler found")
	}
	for _, fn := range s.allFuncs() {
		var rec *ssa.Call
		an.AllInstrs(fn, func(in ssa.Instruction) {
			if call, ok := in.(*ssa.Call); ok {
				if b, isB := call.Call.Value.(*ssa.Builtin); isB && b.Name() == "recover" {
					rec = call
				}
			}
		})
		if rec == nil {
			continue
		}
		// the function whose results the recovering closure can set
		parent := fn.Parent()
		hasErrResult := false
		if parent != nil {
			res := parent.Signature.Results()
			for i := 0; i < res.Len(); i++ {
				if types.Identical(res.At(i).Type(), types.Universe.Lookup("error").Type()) {
					hasErrResult = true
				}
			}
		}
		if !hasErrResult {
			continue
		}
		setsErr := false
		an.AllInstrs(fn, func(in ssa.Instruction) {
			st, ok := in.(*ssa.Store)
			if !ok {
				return
			}
			if fv, isFV := st.Addr.(*ssa.FreeVar); isFV && !an.IsNilConst(st.Val) {
				if pt, isP := fv.Type().Underlying().(*types.Pointer); isP && types.Identical(pt.Elem(), types.Universe.Lookup("error").Type()) {
					setsErr = true
				}
			}
		})
		c.Check(setsErr, rule, an.NameOf(fn), "a recovered panic is reported as an error of the recovering function", rec.Pos(), "err = fmt.Errorf(…) in the recover branch",
			an.NameOf(parent)+" recovers from a panic without setting its error result: a panic of the code it wraps (the application's logon callback) comes back as a nil error — approval")
	}
}

// checkAllTypesHandlersPassive: the all-types inbound handlers the session registers (sequence tracking, timer refresh) run in
// front of every type handler. They stop the dispatch only when a store fails (otherwise the handler that restores the logged-on
// state from a pending probe is skipped and the type handler sees the wrong state), and they answer nothing themselves (the type
// handler still runs — DefaultHandler.serve offers the message to it regardless — so a Reject sent here is a second Reject).
func (s *sess) checkAllTypesHandlersPassive(rule string) {
	n := 0
	for _, r := range s.regs {
		if !r.In || r.Key != "ALL" || r.Fn == nil {
			continue
		}
		n++
		why := stopsChainWithoutStoreFailure(r.Fn)
		s.c.Check(why == "", rule, an.NameOf(r.Fn), "an all-types incoming handler stops the dispatch only on a store failure", r.Fn.Pos(), "returns true, or (store error) == nil",
			"this all-types incoming handler can return false — "+why+" — and IncomingHandlerPool.Range then skips the later all-types handlers (the one that restores SuccessfulLogged from a pending probe): the type handler judges the message in the wrong state")
		sent := ""
		for _, t := range s.tr.Traces(r.Fn, s.m.AllStates) {
			for _, e := range sends(t) {
				sent = strings.Join(e.Kinds, "|") + " on path: " + traceStr(t)
			}
		}
		s.c.Check(sent == "", rule, an.NameOf(r.Fn), "an all-types incoming handler sends nothing", r.Fn.Pos(), "no send", "this all-types incoming handler sends "+sent+": the handler of the message's own type runs as well and answers a second time")
	}
	s.c.Check(n >= 2, rule, "", "all-types incoming handlers found", token.NoPos, fmt.Sprint(n), fmt.Sprintf("only %d all-types incoming handlers registered by the session", n))
}
