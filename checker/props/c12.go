package props

import (
	"fmt"
	"go/ast"
	"go/constant"
	"go/parser"
	"go/token"
	"go/types"
	"regexp"
	"sort"
	"strings"
	"text/template/parse"

	"golang.org/x/tools/go/ssa"

	"sfcheck/an"
	"sfcheck/core"
)

func init() {
	register(&Check{ID: "C12", NeedSSA: true, Run: runC12})
}

// templateVars returns the package-level string variables of package generator with their constant text.
func templateVars(c *core.Ctx) map[string]string {
	out := map[string]string{}
	pkg := c.Pkg("generator")
	for _, f := range pkg.Syntax {
		for _, d := range f.Decls {
			gd, ok := d.(*ast.GenDecl)
			if !ok || gd.Tok != token.VAR {
				continue
			}
			for _, sp := range gd.Specs {
				vs := sp.(*ast.ValueSpec)
				for i, n := range vs.Names {
					if i < len(vs.Values) {
						if tv, ok := pkg.TypesInfo.Types[vs.Values[i]]; ok && tv.Value != nil && tv.Value.Kind() == constant.String {
							out[n.Name] = constant.StringVal(tv.Value)
						}
					}
				}
			}
		}
	}
	return out
}

// templateFields lists the .X fields a template text references.
func templateFields(text string) ([]string, error) {
	trees, err := parse.Parse("t", text, "{{", "}}", map[string]interface{}{"ne": true, "eq": true})
	if err != nil {
		return nil, err
	}
	seen := map[string]bool{}
	var walk func(n parse.Node)
	walk = func(n parse.Node) {
		switch x := n.(type) {
		case *parse.ListNode:
			if x != nil {
				for _, c := range x.Nodes {
					walk(c)
				}
			}
		case *parse.ActionNode:
			walk(x.Pipe)
		case *parse.PipeNode:
			if x != nil {
				for _, cmd := range x.Cmds {
					walk(cmd)
				}
			}
		case *parse.CommandNode:
			for _, a := range x.Args {
				walk(a)
			}
		case *parse.FieldNode:
			seen[x.Ident[0]] = true
		case *parse.IfNode:
			walk(x.Pipe)
			walk(x.List)
			walk(x.ElseList)
		case *parse.RangeNode:
			walk(x.Pipe)
			walk(x.List)
			walk(x.ElseList)
		case *parse.WithNode:
			walk(x.Pipe)
			walk(x.List)
			walk(x.ElseList)
		}
	}
	for _, t := range trees {
		walk(t.Root)
	}
	var out []string
	for k := range seen {
		out = append(out, k)
	}
	sort.Strings(out)
	return out, nil
}

func structFields(t types.Type) map[string]bool {
	out := map[string]bool{}
	st, ok := an.Deref(t).Underlying().(*types.Struct)
	if !ok {
		return out
	}
	for i := 0; i < st.NumFields(); i++ {
		f := st.Field(i)
		out[f.Name()] = true
		if f.Embedded() {
			for k := range structFields(f.Type()) {
				out[k] = true
			}
		}
	}
	return out
}

var placeholder = regexp.MustCompile(`\{\{\.([A-Za-z]+)\}\}`)

func runC12(c *core.Ctx, o Options) {
	c.Level = "translation_validation"
	c.Explanation = "(h) Schema-to-package validation: source/fix44.xml and source/types.xml are read as data and the shipped package tests/fix44 as typed syntax; declaration by declaration (field-number and message-type constants; for every message, component, header, trailer and group: members in schema order with the mapped fix value type; " +
		"per member a getter and a setter bound to the member's own position and Go type; populating constructors taking exactly the required members; SetFieldX wrappers bound to their own setter; no constant without a schema origin) the package must equal what the schema says. " +
		"Generator lints on package generator (necessary conditions for every schema): (a) every {{.X}} of every template is a field of the struct it is executed with; (b) getter and setter of each accessor template use the same .Index, .Name and .Type; " +
		"(c) index lock-step: the index given to the accessor template equals the number of constructor entries appended before it on every path through the member loops; a member is a constructor argument iff required == \"Y\", and then gets argument and setter call together; " +
		"(c′) constant names and values come from the same schema element; (d) no map iteration whose order can reach emitted text (tabled: one file per key; error text; sorted keys); (e) the package clause comes from filepath.Base of the output directory; " +
		"(f) a duplicate field number or message type makes prepare return an error and Execute returns it before writing; (g) the type table agrees with package fix (fix.K exists, Value() has the mapped Go type). " +
		"Not decided: that an arbitrary accepted schema yields a package that compiles, and that the shipped package is byte-for-byte the generator's output — both need running the generator."
	c.Assume("tests/fix44 is the reference package generated from source/fix44.xml with source/types.xml")
	checkSchemaPackage(c, "h")
	gen := c.SSAPkg("generator")
	if !c.Anchor("generator package", gen != nil, "generator", token.NoPos) {
		return
	}
	gpkg := c.Pkg("generator")
	tvars := templateVars(c)
	// ---- (a)
	must := c.Func("generator", "Generator.mustExecuteTemplate")
	nTpl := 0
	if c.Anchor("template executor", must != nil, "Generator.mustExecuteTemplate", posOf(must)) {
		for _, fn := range pkgFuncs(gen) {
			an.AllInstrs(fn, func(in ssa.Instruction) {
				call, ok := in.(*ssa.Call)
				if !ok || an.StaticCallee(&call.Call) != must {
					return
				}
				nTpl++
				// the format: a load of a package variable, or a concatenation of such
				var names []string
				var collect func(v ssa.Value) bool
				collect = func(v ssa.Value) bool {
					switch x := v.(type) {
					case *ssa.UnOp:
						if g, ok := x.X.(*ssa.Global); ok {
							names = append(names, g.Name())
							return true
						}
					case *ssa.BinOp:
						if x.Op == token.ADD {
							return collect(x.X) && collect(x.Y)
						}
					case *ssa.Phi:
						for _, e := range x.Edges {
							if !collect(e) {
								return false
							}
						}
						return true
					}
					return false
				}
				ob := c.Ob("a", an.NameOf(fn), "template fields exist in the data type", call.Pos())
				if !collect(call.Call.Args[1]) {
					ob.Unknown("the template text is not a package-level template variable: %s", an.Render(call.Call.Args[1]))
					return
				}
				data := an.Unwrap(call.Call.Args[2])
				fields := structFields(data.Type())
				var missing []string
				for _, n := range names {
					text, ok := tvars[n]
					if !ok {
						missing = append(missing, "template "+n+" has no constant text")
						continue
					}
					used, err := templateFields(text)
					if err != nil {
						missing = append(missing, n+": "+err.Error())
						continue
					}
					for _, u := range used {
						if !fields[u] {
							missing = append(missing, fmt.Sprintf("%s uses .%s, which %s does not have", n, u, types.TypeString(data.Type(), func(p *types.Package) string { return "" })))
						}
					}
				}
				if len(missing) > 0 {
					ob.Fail("%s — executing the template panics or prints <no value>", strings.Join(missing, "; "))
				} else {
					ob.Ok("%s with %s", strings.Join(names, "+"), types.TypeString(data.Type(), func(p *types.Package) string { return "" }))
				}
			})
		}
	}
	c.Check(nTpl >= 15, "a", "", "template executions found", token.NoPos, fmt.Sprint(nTpl), fmt.Sprintf("only %d mustExecuteTemplate calls", nTpl))
	// ---- (b) accessor templates: getter and setter share Index / Name / Type
	for _, tn := range []string{"fieldGetterSetterTemplateFormat", "groupGetterSetterTemplateFormat", "componentGetterSetterTemplateFormat"} {
		text, ok := tvars[tn]
		if !c.Anchor("accessor template "+tn, ok, tn, token.NoPos) {
			continue
		}
		src := "package p\n" + placeholder.ReplaceAllString(text, "PH_$1")
		f, err := parser.ParseFile(token.NewFileSet(), "t.go", src, 0)
		ob := c.Ob("b", tn, "getter and setter are bound to the same index, name and type", token.NoPos)
		if err != nil {
			ob.Fail("the template text is not valid Go once placeholders are identifiers: %v", err)
			continue
		}
		var getter, setter *ast.FuncDecl
		for _, d := range f.Decls {
			if fd, ok := d.(*ast.FuncDecl); ok {
				if fd.Name.Name == "PH_Name" {
					getter = fd
				}
				if fd.Name.Name == "SetPH_Name" {
					setter = fd
				}
			}
		}
		if getter == nil || setter == nil {
			ob.Fail("the template does not declare {{.Name}} and Set{{.Name}}")
			continue
		}
		idxOf := func(fd *ast.FuncDecl) []string {
			var out []string
			ast.Inspect(fd.Body, func(n ast.Node) bool {
				if call, ok := n.(*ast.CallExpr); ok {
					if sel, ok := call.Fun.(*ast.SelectorExpr); ok && (sel.Sel.Name == "Get" || sel.Sel.Name == "Set") && len(call.Args) > 0 && types.ExprString(sel.X) == "PH_ComponentName" {
						out = append(out, types.ExprString(call.Args[0]))
					}
				}
				return true
			})
			return out
		}
		gi, si := idxOf(getter), idxOf(setter)
		var bad []string
		if len(gi) != 1 || gi[0] != "PH_Index" {
			bad = append(bad, fmt.Sprintf("getter reads position %v", gi))
		}
		if len(si) != 1 || si[0] != "PH_Index" {
			bad = append(bad, fmt.Sprintf("setter writes position %v", si))
		}
		gt := ""
		if getter.Type.Results != nil && len(getter.Type.Results.List) == 1 {
			gt = strings.TrimPrefix(types.ExprString(getter.Type.Results.List[0].Type), "*")
		}
		st := ""
		if len(setter.Type.Params.List) == 1 {
			st = strings.TrimPrefix(types.ExprString(setter.Type.Params.List[0].Type), "*")
		}
		if gt != "PH_Type" || st != "PH_Type" {
			bad = append(bad, fmt.Sprintf("getter returns %s, setter takes %s", gt, st))
		}
		// receivers
		for _, fd := range []*ast.FuncDecl{getter, setter} {
			if fd.Recv == nil || strings.TrimPrefix(types.ExprString(fd.Recv.List[0].Type), "*") != "PH_ComponentType" {
				bad = append(bad, "receiver is not {{.ComponentType}}")
			}
		}
		if tn == "fieldGetterSetterTemplateFormat" {
			// the getter asserts {{.Type}}, the setter passes its parameter to Set
			okAssert := false
			ast.Inspect(getter.Body, func(n ast.Node) bool {
				if ta, ok := n.(*ast.TypeAssertExpr); ok && types.ExprString(ta.Type) == "PH_Type" {
					okAssert = true
				}
				return true
			})
			okSet := false
			ast.Inspect(setter.Body, func(n ast.Node) bool {
				if call, ok := n.(*ast.CallExpr); ok {
					if sel, ok := call.Fun.(*ast.SelectorExpr); ok && sel.Sel.Name == "Set" && len(call.Args) == 1 && types.ExprString(call.Args[0]) == "PH_LocalName" {
						okSet = true
					}
				}
				return true
			})
			if !okAssert || !okSet {
				bad = append(bad, "the field getter does not assert {{.Type}} or the setter does not Set its parameter")
			}
		}
		if len(bad) > 0 {
			ob.Fail("%s", strings.Join(bad, "; "))
		} else {
			ob.Ok("both use {{.Index}}, {{.Name}}, {{.Type}} on {{.ComponentType}}")
		}
	}
	// ---- (c) index lock-step and required ⇔ argument+setter
	for _, name := range []string{"makeComponent", "makeMessage", "makeGroupConstructor"} {
		fn := c.Func("generator", "Generator."+name)
		if !c.Anchor("member loop "+name, fn != nil, "Generator."+name, posOf(fn)) {
			continue
		}
		checkLockStep(c, "c", fn, name != "makeGroupConstructor")
	}
	// ---- (c′) constants
	if fn := c.Func("generator", "Generator.makeFieldTypes"); c.Anchor("field constants", fn != nil, "Generator.makeFieldTypes", posOf(fn)) {
		ok := false
		an.AllInstrs(fn, func(in ssa.Instruction) {
			if call, isCall := in.(*ssa.Call); isCall && an.CalleeIs(&call.Call, "generator", "Generator.makeStringConst") {
				n, v := an.Render(call.Call.Args[1]), an.Render(call.Call.Args[2])
				if strings.HasPrefix(n, `("Field" + `) && strings.HasSuffix(n, ".Name)") && strings.HasSuffix(v, ".Number") && strings.TrimSuffix(strings.TrimPrefix(n, `("Field" + `), ".Name)") == strings.TrimSuffix(v, ".Number") {
					ok = true
				}
			}
		})
		c.Check(ok, "c′", "makeFieldTypes", "constant Field<Name> gets the Number of the same field element", fn.Pos(), `"Field"+field.Name = field.Number`, "the field constants are not named and valued from the same schema element")
		// it iterates the schema's field list (a slice), not a map
		usesSlice := false
		an.AllInstrs(fn, func(in ssa.Instruction) {
			if ia, okIa := in.(*ssa.IndexAddr); okIa && strings.HasSuffix(an.Render(ia.X), ".doc.Fields") {
				usesSlice = true
			}
		})
		c.Check(usesSlice, "c′", "makeFieldTypes", "iterates the schema's field list in document order", fn.Pos(), "range g.doc.Fields", "the constants are not produced from the ordered field list")
	}
	if fn := c.Func("generator", "Generator.makeMessage"); fn != nil {
		// messageTemplate literal: Name ← message.Name, MsgType ← message.MsgType
		ok := false
		an.AllInstrs(fn, func(in ssa.Instruction) {
			if al, isAl := in.(*ssa.Alloc); isAl && an.TypeIs(al.Type(), "generator", "messageTemplate") {
				lit, _ := an.StructLit(al)
				if lit["Name"] != nil && lit["MsgType"] != nil && an.Render(lit["Name"]) == "message.Name" && an.Render(lit["MsgType"]) == "message.MsgType" {
					ok = true
				}
			}
		})
		c.Check(ok, "c′", "makeMessage", "MsgType<Name> gets the msgtype of the same message element", fn.Pos(), "Name: message.Name, MsgType: message.MsgType", "message name and type constant do not come from the same schema element")
	}
	// ---- (c″) every group of the schema, at any nesting depth, is collected (otherwise its constructor is referenced but never generated)
	if gg := c.Func("generator", "Generator.grabGroups"); c.Anchor("group collection", gg != nil, "Generator.grabGroups", posOf(gg)) {
		var rec *ssa.Call
		an.AllInstrs(gg, func(in ssa.Instruction) {
			if call, ok := in.(*ssa.Call); ok && an.StaticCallee(&call.Call) == gg && inLoop(call.Block()) {
				rec = call
			}
		})
		okRec := rec != nil
		if rec != nil {
			ps, _ := an.EnumPaths(gg, 1024)
			for _, p := range ps {
				if p.Loop && !p.Passes(rec) {
					okRec = false
				}
			}
			if ia, ok := unload(rec.Call.Args[1]).(*ssa.IndexAddr); !ok || rangeIndexPhi(ia.Index) == nil || !strings.HasSuffix(an.Render(ia.X), ".Members") {
				okRec = false
			}
		}
		c.Check(okRec, "c″", "grabGroups", "descends into every member of every member (groups at any depth are registered)", gg.Pos(), "recursive call on each member inside the loop",
			"grabGroups does not recurse into every member: a group nested more than two levels deep is used by its parent's constructor but never generated, so the emitted package does not compile")
		// every group found is registered
		nApp := 0
		an.AllInstrs(gg, func(in ssa.Instruction) {
			if call, ok := in.(*ssa.Call); ok && an.CalleeIs(&call.Call, "generator", "Generator.appendGroup") {
				nApp++
			}
		})
		c.Check(nApp >= 1, "c″", "grabGroups", "registers the groups it finds", gg.Pos(), fmt.Sprintf("%d appendGroup calls", nApp), "grabGroups never registers a group")
	}
	if pr := c.Func("generator", "Generator.prepare"); pr != nil {
		// prepare walks messages, components, header and trailer
		srcs := map[string]bool{}
		for _, fn := range pkgFuncs(gen) {
			// prepare itself and the sequential steps cut out of it
			if owner, _ := an.LogicalOwner(fn); owner != pr && fn != pr {
				continue
			}
			an.AllInstrs(fn, func(in ssa.Instruction) {
				if call, ok := in.(*ssa.Call); ok && an.CalleeIs(&call.Call, "generator", "Generator.grabGroups") {
					r := an.Render(call.Call.Args[1])
					for _, k := range []string{"doc.Messages", "doc.Components", "doc.Header", "doc.Trailer"} {
						if strings.Contains(r, k) {
							srcs[k] = true
						}
					}
				}
			})
		}
		c.Check(len(srcs) == 4, "c″", "prepare", "collects groups from messages, components, header and trailer", pr.Pos(), fmt.Sprint(srcs), fmt.Sprintf("groups are collected only from %v", srcs))
	}
	// ---- (d) determinism: map ranges
	allowed := map[string]string{
		"Execute":                "one output file per key (the file's content does not depend on the order)",
		"validateRequiredFields": "membership test and text of an error",
		"validateHeader":         "copy into another map",
		"initTypes":              "text of a panic message",
		"sortedMapKeys":          "keys are sorted before use",
	}
	for _, fn := range pkgFuncs(gen) {
		an.AllInstrs(fn, func(in ssa.Instruction) {
			r, ok := in.(*ssa.Range)
			if !ok {
				return
			}
			if _, isMap := r.X.Type().Underlying().(*types.Map); !isMap {
				return
			}
			// a helper cut out of a tabled function (unexported, one call site) stands for that function
			owner, _ := an.LogicalOwner(fn)
			ownerName := an.NameOf(owner)
			why, okA := allowed[ownerName]
			ob := c.Ob("d", ownerName, "range over map "+an.Render(r.X), r.Pos())
			if !okA {
				ob.Fail("iteration over a map in the generator outside the tabled places: its order is random per run, so anything derived from it (which definition of a group wins, the order of emitted text) makes generation non-deterministic")
				return
			}
			if ownerName == "Execute" {
				// premise: the loop body only writes one file named after the element
				okBody := true
				for _, b := range fn.Blocks {
					for _, i2 := range b.Instrs {
						if st, isSt := i2.(*ssa.Store); isSt {
							if _, isField := st.Addr.(*ssa.FieldAddr); isField {
								okBody = false
							}
						}
					}
				}
				if !okBody {
					ob.Fail("Execute mutates generator state while iterating a map")
					return
				}
			}
			if ownerName == "sortedMapKeys" {
				sorted := false
				an.AllInstrs(fn, func(i2 ssa.Instruction) {
					if call, isCall := i2.(*ssa.Call); isCall {
						if cal := an.StaticCallee(&call.Call); cal != nil && cal.Pkg != nil && cal.Pkg.Pkg.Path() == "sort" {
							sorted = true
						}
					}
				})
				if !sorted {
					ob.Fail("the keys collected from the map are not sorted")
					return
				}
			}
			ob.Ok("tabled: %s", why)
		})
	}
	// the required header fields are emitted through sortedMapKeys
	if mh := c.Func("generator", "Generator.makeHeader"); mh != nil {
		ok := false
		an.AllInstrs(mh, func(in ssa.Instruction) {
			if call, isCall := in.(*ssa.Call); isCall && an.CalleeIs(&call.Call, "generator", "sortedMapKeys") {
				ok = true
			}
		})
		c.Check(ok, "d", "makeHeader", "pipeline setters are emitted in sorted key order", mh.Pos(), "sortedMapKeys(RequiredHeaderFields)", "the header's pipeline setters are emitted in map order")
	}
	// ---- (d′) the parsed schema is read-only for the generator: a second run over the same document (another output
	// directory, a determinism check) must see the document the first run saw
	checkSchemaReadOnly(c, "d", gen)
	// ---- (d″) a generated file is what this run produced and nothing else: the writer truncates (os.Create / os.WriteFile /
	// OpenFile with O_TRUNC), otherwise the tail of a longer file from an earlier run survives and the output depends on the directory
	if wf := c.Func("generator", "Generator.write"); c.Anchor("file writer", wf != nil, "Generator.write", posOf(wf)) {
		nOpen := 0
		for _, f := range an.WithAnon(wf) {
			an.AllInstrs(f, func(in ssa.Instruction) {
				call, ok := in.(*ssa.Call)
				if !ok {
					return
				}
				cal := an.StaticCallee(&call.Call)
				if cal == nil || cal.Pkg == nil || cal.Pkg.Pkg.Path() != "os" {
					return
				}
				switch cal.Name() {
				case "Create", "WriteFile":
					nOpen++
					c.Ob("d", "write", "os."+cal.Name()+" truncates", call.Pos()).Ok("os.%s replaces the file's content", cal.Name())
				case "OpenFile":
					nOpen++
					flags, isK := an.ConstInt(call.Call.Args[1])
					const oTrunc, oAppend = 0x200, 0x400 // syscall.O_TRUNC, O_APPEND on linux
					c.Check(isK && flags&oTrunc != 0 && flags&oAppend == 0, "d", "write", "os.OpenFile truncates", call.Pos(), "O_TRUNC set, O_APPEND clear",
						fmt.Sprintf("the output file is opened with flags %#x (O_TRUNC missing or O_APPEND set): what a previous run left in the file survives, so the emitted package depends on the directory's history", flags))
				}
			})
		}
		c.Check(nOpen >= 1, "d", "write", "the writer opens its file", wf.Pos(), fmt.Sprint(nOpen), "Generator.write does not open a file through package os (anchor moved)")
	}
	// ---- (g′) decisions about a field's Go type go through the type mapping, never through the schema's type names: the mapping
	// is an input (the quantifier changes it), so a literal type name is right only for the shipped mapping
	for _, fn := range pkgFuncs(gen) {
		if c.Fset.Position(fn.Pos()).Filename != "" && strings.HasSuffix(c.Fset.Position(fn.Pos()).Filename, "type_caster.go") {
			continue
		}
		an.AllInstrs(fn, func(in ssa.Instruction) {
			bo, ok := in.(*ssa.BinOp)
			if !ok || (bo.Op != token.EQL && bo.Op != token.NEQ) {
				return
			}
			for _, pr := range [][2]ssa.Value{{bo.X, bo.Y}, {bo.Y, bo.X}} {
				if _, isStr := an.ConstString(pr[1]); !isStr {
					continue
				}
				if f, _ := an.LoadedField(pr[0]); f != nil && an.FieldName(f) == "Type" && f.Pkg() == gen.Pkg {
					lit, _ := an.ConstString(pr[1])
					if owner := fieldOwner(f); owner == "Field" {
						c.Ob("g", an.NameOf(fn), "schema type name compared with the literal "+strconvQuote(lit), bo.Pos()).Fail(
							"a field's schema type is compared with the literal %q: which Go type a schema type maps to is decided by the type mapping (typeCast), so this is right only for the shipped mapping — with another mapping flags become enums, or enums flags", lit)
					}
				}
			}
		})
	}
	// ---- (c‴) membership in a table that has nil entries is tested with the comma-ok form: DefaultFlowFields maps pipeline
	// messages without extra setters to nil, and such a message still gets its New()/Build() — testing the value for nil drops them
	{
		nilEntry := map[*ssa.Global]bool{}
		for _, fn := range pkgFuncs(gen) {
			if an.NameOf(fn) != "init" {
				continue
			}
			an.AllInstrs(fn, func(in ssa.Instruction) {
				mu, ok := in.(*ssa.MapUpdate)
				if !ok {
					return
				}
				k, isNil := mu.Value.(*ssa.Const)
				if !isNil || k.Value != nil {
					return
				}
				// the map being filled is stored into a global afterwards: find it through the stores of the init function
				an.AllInstrs(fn, func(i2 ssa.Instruction) {
					if st, ok := i2.(*ssa.Store); ok && st.Val == mu.Map {
						if g, isG := st.Addr.(*ssa.Global); isG {
							nilEntry[g] = true
						}
					}
				})
			})
		}
		nLook := 0
		for _, fn := range pkgFuncs(gen) {
			an.AllInstrs(fn, func(in ssa.Instruction) {
				lk, ok := in.(*ssa.Lookup)
				if !ok {
					return
				}
				ld, ok := lk.X.(*ssa.UnOp)
				if !ok {
					return
				}
				g, ok := ld.X.(*ssa.Global)
				if !ok || !nilEntry[g] {
					return
				}
				nLook++
				c.Check(lk.CommaOk, "c", an.NameOf(fn), "lookup in "+g.Name()+" tests presence, not the value", lk.Pos(), "v, ok := "+g.Name()+"[k]",
					g.Name()+" has entries whose value is nil (pipeline messages without extra setters); "+an.NameOf(fn)+" looks a key up without the comma-ok form, so a present-but-nil entry is taken for absent and the message loses its New()/Build() methods")
			})
		}
		c.Check(len(nilEntry) >= 1 && nLook >= 1, "c", "", "tables with nil entries and their lookups found", token.NoPos, fmt.Sprintf("%d tables, %d lookups", len(nilEntry), nLook), fmt.Sprintf("%d tables with nil entries, %d lookups (DefaultFlowFields and its lookup in makeMessage were confirmed)", len(nilEntry), nLook))
	}
	// ---- (d) determinism across runs in one process: nothing the generator computes is remembered in package-level state (a cache
	// keyed by a field or group name outlives the Generator and its type mapping: the second schema gets the first one's answers)
	{
		rooted := func(v ssa.Value) *ssa.Global {
			for i := 0; i < 10; i++ {
				switch x := v.(type) {
				case *ssa.Global:
					return x
				case *ssa.UnOp:
					v = x.X
				case *ssa.FieldAddr:
					v = x.X
				case *ssa.IndexAddr:
					v = x.X
				case *ssa.Field:
					v = x.X
				default:
					return nil
				}
			}
			return nil
		}
		nFn := 0
		for _, fn := range pkgFuncs(gen) {
			if fn.Name() == "init" || strings.HasPrefix(fn.Name(), "init#") {
				continue
			}
			nFn++
			an.AllInstrs(fn, func(in ssa.Instruction) {
				var g *ssa.Global
				how := ""
				switch x := in.(type) {
				case *ssa.Store:
					g, how = rooted(x.Addr), "assigned"
				case *ssa.MapUpdate:
					g, how = rooted(x.Map), "updated"
					// a memo table of a function of the key alone (parsed templates by their text) is harmless: what is stored
					// must not be computed from the Generator (its schema, its type mapping)
					if g != nil {
						sl := newBackSlice(gen)
						sl.noCallers = true
						sl.follow(x.Value)
						fromGen := false
						for _, prm := range sl.params {
							if an.TypeIs(prm.Type(), "generator", "Generator") {
								fromGen = true
							}
						}
						if !fromGen {
							g = nil
						}
					}
				}
				if cc := an.CallOf(in); cc != nil && g == nil {
					if cal := an.StaticCallee(cc); cal != nil && cal.Pkg != nil && cal.Pkg.Pkg.Path() == "sync" && len(cc.Args) > 0 {
						switch cal.Name() {
						case "Store", "LoadOrStore", "Swap", "CompareAndSwap", "Do":
							g, how = rooted(cc.Args[0]), "written through sync."+cal.Name()
						}
					}
				}
				if g != nil && g.Pkg == gen {
					c.Ob("d", an.NameOf(fn), "package-level variable "+g.Name()+" is not written during generation", in.Pos()).Fail("the package-level variable %s is %s in %s: what one generation computes is seen by the next one in the same process (another schema, another type mapping), so the output depends on what was generated before", g.Name(), how, an.NameOf(fn))
				}
			})
		}
		c.Check(nFn >= 30, "d", "", "generator functions scanned for package-level writes", token.NoPos, fmt.Sprint(nFn), fmt.Sprintf("only %d functions", nFn))
	}
	// ---- (g) one derivation per derived name: every place that builds <base>+"Grp" or <base>+"Entry" from a group's name uses the
	// same transformation of the name (declaration and references are generated in different functions; two spellings that agree
	// on NoXxx disagree on TotNoXxx, and the package no longer compiles)
	{
		shapes := map[string]map[string]token.Pos{} // suffix → shape → first site
		for _, fn := range pkgFuncs(gen) {
			an.AllInstrs(fn, func(in ssa.Instruction) {
				bo, ok := in.(*ssa.BinOp)
				if !ok || bo.Op != token.ADD {
					return
				}
				suffix, isK := an.ConstString(bo.Y)
				if !isK || (suffix != "Grp" && suffix != "Entry") {
					return
				}
				call, ok := bo.X.(*ssa.Call)
				shape := an.Render(bo.X)
				if ok {
					if cal := an.StaticCallee(&call.Call); cal != nil && cal.Pkg != nil && cal.Pkg.Pkg.Path() == "strings" {
						var parts []string
						for _, a := range call.Call.Args {
							if k, isC := a.(*ssa.Const); isC {
								parts = append(parts, an.Render(k))
							} else {
								parts = append(parts, "·")
							}
						}
						shape = "strings." + cal.Name() + "(" + strings.Join(parts, ", ") + ")"
					}
				} else if phi, isPhi := bo.X.(*ssa.Phi); isPhi {
					shape = "φ:" + phi.Comment
				}
				// a local that holds the derived base: its single definition
				if ld := an.Unspill(bo.X); ld != bo.X {
					if call, ok := ld.(*ssa.Call); ok {
						if cal := an.StaticCallee(&call.Call); cal != nil && cal.Pkg != nil && cal.Pkg.Pkg.Path() == "strings" {
							var parts []string
							for _, a := range call.Call.Args {
								if k, isC := a.(*ssa.Const); isC {
									parts = append(parts, an.Render(k))
								} else {
									parts = append(parts, "·")
								}
							}
							shape = "strings." + cal.Name() + "(" + strings.Join(parts, ", ") + ")"
						}
					}
				}
				if shapes[suffix] == nil {
					shapes[suffix] = map[string]token.Pos{}
				}
				if _, dup := shapes[suffix][shape]; !dup {
					shapes[suffix][shape] = bo.Pos()
				}
			})
		}
		all := map[string]token.Pos{}
		for _, m := range shapes {
			for sh, pos := range m {
				all[sh] = pos
			}
		}
		ob := c.Ob("g", "group type names", "the names <base>Grp and <base>Entry are derived from the group name in one way", token.NoPos)
		switch {
		case len(shapes["Grp"]) == 0 || len(shapes["Entry"]) == 0:
			ob.Unknown("no derivation of the group type names found (anchor moved)")
		case len(all) > 1:
			ks := an.SortedKeys(all)
			ob.Fail("the group type names are derived in %d different ways (%s at %s; %s at %s): they agree on names that start with \"No\" and differ on others, so a declaration and its references get different names", len(all), ks[0], c.RelPos(all[ks[0]]), ks[1], c.RelPos(all[ks[1]]))
		default:
			ob.Ok("%s", an.SortedKeys(all)[0])
		}
	}
	// ---- (i) every package qualifier the generator can emit is imported: the templates and the Go types of the type mapping
	// mention packages (fix., messages., time.); makeFile adds an import for a qualifier exactly when the rendered text mentions it
	if mf := c.Func("generator", "Generator.makeFile"); c.Anchor("file assembler", mf != nil, "Generator.makeFile", posOf(mf)) {
		quals := map[string]string{}
		qre := regexp.MustCompile(`\b([a-z][a-z0-9]*)\.[A-Z]`)
		// identifiers in front of a dot that are package names (of this module or of the standard library), not variables
		isPkgName := map[string]bool{"fix": true, "messages": true, "utils": true, "session": true, "encoding": true, "simplefixgo": true,
			"time": true, "fmt": true, "strconv": true, "strings": true, "bytes": true, "errors": true, "sort": true, "math": true, "context": true, "sync": true, "io": true, "os": true}
		for name, text := range tvars {
			for _, m := range qre.FindAllStringSubmatch(text, -1) {
				if isPkgName[m[1]] {
					quals[m[1]] = "template " + name
				}
			}
		}
		for _, fn := range pkgFuncs(gen) {
			if fn.Name() != "init" {
				continue
			}
			an.AllInstrs(fn, func(in ssa.Instruction) {
				if mu, ok := in.(*ssa.MapUpdate); ok {
					if v, isS := an.ConstString(mu.Value); isS {
						for _, m := range qre.FindAllStringSubmatch(v, -1) {
							if isPkgName[m[1]] {
								quals[m[1]] = "Go type " + v + " of the type mapping"
							}
						}
					}
				}
			})
		}
		tested := map[string]bool{}
		an.AllInstrs(mf, func(in ssa.Instruction) {
			call, ok := in.(*ssa.Call)
			if !ok || !an.CalleeIs(&call.Call, "strings", "Contains") {
				return
			}
			if needle, isS := an.ConstString(call.Call.Args[1]); isS && strings.HasSuffix(needle, ".") {
				q := strings.TrimSuffix(needle, ".")
				// the import appended under this test names that package
				okImp := false
				an.AllInstrs(mf, func(i2 ssa.Instruction) {
					if k, isK := i2.(*ssa.Store); isK {
						if v, isS := an.ConstString(k.Val); isS && (strings.HasSuffix(v, "/"+q+`"`) || v == `"`+q+`"`) {
							okImp = true
						}
					}
				})
				if okImp {
					tested[q] = true
				}
			}
		})
		// table form: the qualifier/import pairs live in a package-level table and makeFile (or a helper cut out of it) walks it
		// with strings.Contains(data, <entry's qualifier>) — the pairs are read from the table's initialisation
		{
			tableWalk := false
			for _, f := range append([]*ssa.Function{mf}, pkgHelpersOf(mf)...) {
				an.AllInstrs(f, func(in ssa.Instruction) {
					if call, ok := in.(*ssa.Call); ok && an.CalleeIs(&call.Call, "strings", "Contains") {
						if _, isS := an.ConstString(call.Call.Args[1]); !isS && inLoop(call.Block()) {
							tableWalk = true
						}
					}
				})
			}
			if init := mf.Pkg.Func("init"); tableWalk && init != nil {
				// consecutive constant stores into fields of one table element: qualifier, then import line
				type pair struct{ q, line string }
				byElem := map[ssa.Value][]string{}
				var order []ssa.Value
				an.AllInstrs(init, func(in ssa.Instruction) {
					st, ok := in.(*ssa.Store)
					if !ok {
						return
					}
					v, isS := an.ConstString(st.Val)
					fa, isFA := st.Addr.(*ssa.FieldAddr)
					if !isS || !isFA {
						return
					}
					if _, seen := byElem[fa.X]; !seen {
						order = append(order, fa.X)
					}
					byElem[fa.X] = append(byElem[fa.X], v)
				})
				for _, e := range order {
					vals := byElem[e]
					for _, a := range vals {
						if !strings.HasSuffix(a, ".") {
							continue
						}
						q := strings.TrimSuffix(a, ".")
						for _, b := range vals {
							if strings.HasSuffix(b, "/"+q+`"`) || b == `"`+q+`"` {
								tested[q] = true
							}
						}
					}
				}
			}
		}
		for _, q := range an.SortedKeys(quals) {
			c.Check(tested[q], "i", "makeFile", "package "+q+" is imported when the generated text mentions it", mf.Pos(), `strings.Contains(data, "`+q+`.") ⇒ import`,
				"generated code can mention "+q+". ("+quals[q]+") but makeFile never adds an import for it: with a schema or type mapping that makes it appear, the emitted package does not compile")
		}
		c.Check(len(quals) >= 2, "i", "", "package qualifiers found in the templates", token.NoPos, fmt.Sprint(len(quals)), "no package qualifier found in the templates (anchor moved)")
	}
	// ---- (b′) a nested component is instantiated through its argument-free maker: the exported constructor New<Name> takes the
	// component's required members as arguments, so a call without arguments stops compiling as soon as a schema has one
	{
		nComp := 0
		cre := regexp.MustCompile(`([A-Za-z]+)\{\{\.Name\}\}\(\)\.Component`)
		for _, name := range an.SortedKeys(tvars) {
			for _, m := range cre.FindAllStringSubmatch(tvars[name], -1) {
				nComp++
				c.Check(m[1] == "make", "b", name, "nested components are built with make<Name>()", token.NoPos, "make{{.Name}}().Component",
					"template "+name+" instantiates a nested component with "+m[1]+"{{.Name}}() — the exported constructor, whose parameters are the component's required members: for a schema where a nested component has a required member the emitted package does not compile")
			}
		}
		c.Check(nComp >= 1, "b", "", "nested-component instantiation found in the templates", token.NoPos, fmt.Sprint(nComp), "no template instantiates a nested component (anchor moved)")
	}
	// ---- (c″) which definition of a group name wins is fixed: appendGroup records every definition it is given (the last one
	// wins; the reference package was generated that way — see finding D14)
	if ag := c.Func("generator", "Generator.appendGroup"); c.Anchor("group table writer", ag != nil, "Generator.appendGroup", posOf(ag)) {
		var upd *ssa.MapUpdate
		an.AllInstrs(ag, func(in ssa.Instruction) {
			if mu, ok := in.(*ssa.MapUpdate); ok {
				upd = mu
			}
		})
		okAll := upd != nil
		if upd != nil {
			ps, _ := an.EnumPaths(ag, 64)
			for _, p := range ps {
				if p.Return != nil && !p.Passes(upd) {
					okAll = false
				}
			}
		}
		c.Check(okAll, "c″", "appendGroup", "every definition of a group is recorded (the last one wins)", ag.Pos(), "g.groups[name] = group on every path",
			"appendGroup does not record a definition on every path: for a group name defined more than once the generated type gets another definition's members than before, and the shipped package no longer corresponds to the generator")
	}
	// ---- (e) package name
	ex := c.Func("generator", "Generator.Execute")
	if c.Anchor("Execute", ex != nil, "Generator.Execute", posOf(ex)) {
		var ck *ssa.Call
		for _, fn := range pkgFuncs(gen) {
			if owner, _ := an.LogicalOwner(fn); owner != ex {
				continue
			}
			an.AllInstrs(fn, func(in ssa.Instruction) {
				if call, ok := in.(*ssa.Call); ok && an.CalleeIs(&call.Call, "generator", "Generator.checkName") {
					ck = call
				}
			})
		}
		r := ""
		if ck != nil {
			r = an.RenderSubst(ck.Call.Args[1], an.OwnerSub(ck.Parent()))
		}
		okE := r == `strings.ReplaceAll(filepath.Base(filepath.Clean(outputDirPath)), "-", "_")` || r == `strings.ReplaceAll(filepath.Base(outputDirPath), "-", "_")`
		c.Check(okE, "e", "Execute", "the package name is the base name of the output directory", ex.Pos(), r, "the package name is derived as "+r+": it depends on where the output directory is located, not only on its name")
		// (e) … and the files go to the directory that was asked for: the directory part of every path handed to write reaches it
		// without a case or character transformation (lower-casing the joined path "works" for ./fix44 and fails, or writes
		// elsewhere, under /home/Alice/…)
		if wf := c.Func("generator", "Generator.write"); wf != nil {
			nW := 0
			for _, fn := range pkgFuncs(gen) {
				an.AllInstrs(fn, func(in ssa.Instruction) {
					call, ok := in.(*ssa.Call)
					if !ok || an.StaticCallee(&call.Call) != wf || len(call.Call.Args) < 2 {
						return
					}
					nW++
					sl := newBackSlice(gen)
					sl.follow(call.Call.Args[1])
					bad := ""
					for _, t := range sl.calls {
						cal := an.StaticCallee(&t.Call)
						if cal == nil || cal.Pkg == nil || cal.Pkg.Pkg.Path() != "strings" {
							continue
						}
						// what the transformation is applied to
						inner := newBackSlice(gen)
						for _, a := range t.Call.Args {
							inner.follow(a)
						}
						for _, u := range inner.calls {
							if uc := an.StaticCallee(&u.Call); uc != nil && uc.Pkg != nil && uc.Pkg.Pkg.Path() == "path/filepath" {
								bad = "strings." + cal.Name() + " is applied to a value built by filepath." + uc.Name()
							}
						}
						for _, prm := range inner.params {
							if prm.Parent() == ex {
								bad = "strings." + cal.Name() + " is applied to a value derived from Execute's " + prm.Name()
							}
						}
					}
					c.Check(bad == "", "e", an.NameOf(fn), "the output directory reaches write untransformed", call.Pos(), "only the file name is lower-cased", bad+": the files land in (or are looked for in) a directory other than the one given when its path contains characters the transformation changes")
				})
			}
			c.Check(nW >= 1, "e", "write", "write call sites found", token.NoPos, fmt.Sprint(nW), "no call of Generator.write found")
		}
		// (f) prepare's error is returned before the first write
		var prep *ssa.Call
		var writes []*ssa.Call
		writeFn := c.Func("generator", "Generator.write")
		// reaches: the function writes a file, directly or through functions of the package
		memo := map[*ssa.Function]int{}
		var reaches func(f *ssa.Function) bool
		reaches = func(f *ssa.Function) bool {
			if f == nil || len(f.Blocks) == 0 {
				return false
			}
			if f == writeFn {
				return true
			}
			if v, ok := memo[f]; ok {
				return v == 1
			}
			memo[f] = 0
			found := false
			an.AllInstrs(f, func(in ssa.Instruction) {
				if cc := an.CallOf(in); cc != nil {
					if cal := an.StaticCallee(cc); cal != nil && cal.Pkg == f.Pkg && reaches(cal) {
						found = true
					}
					if cal := an.StaticCallee(cc); cal != nil && cal.Pkg != nil && cal.Pkg.Pkg.Path() == "os" && (an.NameOf(cal) == "WriteFile" || an.NameOf(cal) == "Create" || an.NameOf(cal) == "OpenFile") {
						found = true
					}
				}
			})
			if found {
				memo[f] = 1
			}
			return found
		}
		an.AllInstrs(ex, func(in ssa.Instruction) {
			if call, ok := in.(*ssa.Call); ok {
				if an.CalleeIs(&call.Call, "generator", "Generator.prepare") {
					prep = call
					return
				}
				if cal := an.StaticCallee(&call.Call); cal != nil && reaches(cal) {
					writes = append(writes, call)
				}
			}
		})
		okF := prep != nil && len(writes) > 0
		for _, w := range writes {
			if prep == nil || !an.Dominates(prep, w) {
				okF = false
			}
		}
		if okF {
			ps, _ := an.EnumPaths(ex, 4096)
			for _, p := range ps {
				for _, w := range writes {
					if p.Passes(w) && !p.Has(an.Render(prep)+" == nil") {
						okF = false
					}
				}
				if p.Return != nil && p.Has(an.Render(prep)+" != nil") && p.Results[0] != an.Render(prep) {
					okF = false
				}
			}
		}
		c.Check(okF, "f", "Execute", "schema validation precedes and guards every write", ex.Pos(), "prepare() == nil dominates write", "files are written without (or before) a successful prepare()")
	}
	// ---- (f) duplicates
	if pr := c.Func("generator", "Generator.prepare"); c.Anchor("prepare", pr != nil, "Generator.prepare", posOf(pr)) {
		ps, _ := an.EnumPathsX(pr, 20000)
		for _, what := range []struct{ key, label string }{{".Number]#1", "field number"}, {".MsgType]#1", "message type"}} {
			okDup, seen := true, false
			for _, p := range ps {
				for _, a := range p.Atoms {
					if strings.HasSuffix(a.L, what.key) && a.Rel == "true" {
						seen = true
						if p.Return == nil || p.Results[0] == "nil" {
							okDup = false
						}
					}
				}
			}
			c.Check(okDup && seen, "f", "prepare", "a duplicate "+what.label+" is an error", pr.Pos(), "seen before ⇒ return error", "a schema with a duplicate "+what.label+" is not (always) rejected")
		}
	}
	// ---- (g) type table
	checkTypeTable(c, "g", gpkg.Types)
	// ---- (j) the protocol version constant: "<type>.<major>.<minor>" of the schema's root attributes, in that order (both shipped
	// schemas are 4.4, so a swap is invisible in the reference package)
	checkVersionString(c, "j", gen)
	checkPackageNameTest(c, "e", gen)
	checkTableKeysAgree(c, "g", gen)
	checkComponentSharesItems(c, "b")
	// ---- (k) the syntax gate: go/format.Source is the only thing that parses the rendered text before it is written; when it
	// fails, generation fails (panic or error) — a schema whose names do not render to valid Go is not "accepted"
	{
		nFmt := 0
		for _, fn := range an.PkgFuncs(gen) {
			an.AllInstrs(fn, func(in ssa.Instruction) {
				call, ok := in.(*ssa.Call)
				if !ok || !an.CalleeIs(&call.Call, "go/format", "Source") {
					return
				}
				nFmt++
				failing := an.Render(call) + "#1 != nil"
				bad := ""
				paths, _ := an.EnumPaths(fn, 256)
				nFail := 0
				for _, p := range paths {
					if !p.Passes(call) || !p.Has(failing) {
						continue
					}
					nFail++
					if p.Panic {
						continue
					}
					okErr := false
					if p.Return != nil {
						for i, r := range p.Results {
							if r != "nil" && i < fn.Signature.Results().Len() && types.Identical(fn.Signature.Results().At(i).Type(), types.Universe.Lookup("error").Type()) {
								okErr = true
							}
						}
					}
					if !okErr {
						bad = "when go/format rejects the rendered text " + an.NameOf(fn) + " carries on (" + strings.Join(p.Results, ", ") + ")"
					}
				}
				c.Check(bad == "" && nFail > 0, "k", an.NameOf(fn), "text that does not parse as Go stops the generation", call.Pos(), "panic / error on format.Source failure",
					bad+": a package that does not compile is emitted for a schema the generator reports as accepted")
			})
		}
		c.Check(nFmt >= 1, "k", "", "the formatting step was found", token.NoPos, fmt.Sprint(nFmt), "no call of go/format.Source in the generator: nothing parses the rendered text before it is written")
	}
	c.Explanation += " (d) also: no function of the generator writes a package-level variable with something computed from the Generator (a memo keyed by a name outlives the schema and the type mapping; a memo of a function of the key alone, such as parsed templates by their text, is accepted). (e) also: on the way to Generator.write no strings.* transformation is applied to a value built by filepath.* or derived from Execute's parameter (interprocedural backward slice inside the package). (g) also: every <base>+\"Grp\" / <base>+\"Entry\" is built from the group name by one and the same transformation."
	c.Explanation += " (k) every path on which go/format.Source fails ends in a panic or a non-nil error result: the formatter is the only syntax gate between the templates and the files."
	c.Explanation += " (j) the text rendered for the beginString variable is the schema's type, major and minor attribute in that order, separated by dots (Sprintf arguments matched to their verbs, or a concatenation)."
	c.Explanation += " (i) every package qualifier the templates or the type mapping can emit (fix., messages., time.) has its strings.Contains test and import in makeFile. (b) also: a nested component is instantiated with make<Name>(), never with the exported constructor whose parameters depend on the schema. (c″) also: appendGroup records every definition on every path (last one wins)."
	c.RuleMin = map[string]int{"a": 15, "b": 5, "c": 3, "c′": 3, "c″": 4, "d": 8, "e": 3, "f": 3, "g": 7, "h": 121, "i": 4, "j": 1, "k": 2}
	c.MinObl = 150
}

// checkLockStep: rule (c) for one member loop.
func checkLockStep(c *core.Ctx, rule string, fn *ssa.Function, hasArgs bool) {
	paths, _ := an.EnumPaths(fn, 20000)
	var fieldsPhi *ssa.Phi
	for _, b := range fn.Blocks {
		for _, in := range b.Instrs {
			if phi, ok := in.(*ssa.Phi); ok && phi.Comment == "goFields" {
				fieldsPhi = phi
			}
		}
	}
	ob := c.Ob(rule, an.NameOf(fn), "accessor index = number of constructor entries before it, on every path through the member loop", fn.Pos())
	if fieldsPhi == nil {
		ob.Unknown("no loop-carried goFields")
		return
	}
	head := fieldsPhi.Block()
	// the index variable: counter phi or the range index
	var bad []string
	nIter := 0
	for _, p := range paths {
		if !p.Loop || len(p.Blocks) < 2 {
			continue
		}
		// consider only ways round the member loop
		idxHead := -1
		for i, b := range p.Blocks {
			if b == head {
				idxHead = i
				break
			}
		}
		if idxHead < 0 {
			continue
		}
		last := p.Blocks[len(p.Blocks)-1]
		isBack := false
		for _, pr := range head.Preds {
			if pr == last && head.Dominates(pr) {
				isBack = true
			}
		}
		if !isBack {
			continue
		}
		nIter++
		appendsFields, accessorCalls, argAppends, setterAppends := 0, 0, 0, 0
		var idxArg ssa.Value
		reqTrue := false
		for _, a := range p.Atoms {
			if strings.HasSuffix(a.String(), `.Required == "Y"`) {
				reqTrue = true
			}
		}
		for _, b := range p.Blocks[idxHead:] {
			for _, in := range b.Instrs {
				call, ok := in.(*ssa.Call)
				if !ok {
					continue
				}
				if bi, ok := call.Call.Value.(*ssa.Builtin); ok && bi.Name() == "append" {
					switch ph := call.Call.Args[0].(type) {
					case *ssa.Phi:
						switch ph.Comment {
						case "goFields":
							appendsFields++
						case "goArgs":
							argAppends++
						case "goSettersCalls":
							setterAppends++
						}
					}
				}
				if an.CalleeIs(&call.Call, "generator", "Generator.makeSetterGetterField") {
					accessorCalls++
					idxArg = call.Call.Args[3]
				}
			}
		}
		if appendsFields != accessorCalls || appendsFields > 1 {
			bad = append(bad, fmt.Sprintf("a way round the loop appends %d constructor entries but emits %d accessor pairs", appendsFields, accessorCalls))
		}
		if hasArgs && (argAppends != setterAppends || (reqTrue && appendsFields == 1 && argAppends != 1) || (!reqTrue && argAppends != 0)) {
			bad = append(bad, fmt.Sprintf("required=%v: %d constructor arguments, %d setter calls (a member must be an argument iff required == \"Y\", with its setter call)", reqTrue, argAppends, setterAppends))
		}
		if accessorCalls == 1 {
			// the index: range index of this loop when every iteration appends; else a counter incremented exactly on the appending paths
			if rangeIndexPhi(idxArg) != nil {
				// then no iteration may skip the append
				continue
			}
			phi, ok := idxArg.(*ssa.Phi)
			if !ok || phi.Block() != head {
				bad = append(bad, "the accessor index is "+an.Render(idxArg)+", neither the loop index nor a counter carried by the loop")
				continue
			}
			// counter: on this path the back-edge value must be phi + 1
			for i, pr := range head.Preds {
				if pr == last {
					if bo, ok := phi.Edges[i].(*ssa.BinOp); !ok || bo.Op != token.ADD || bo.X != ssa.Value(phi) || an.Render(bo.Y) != "1" {
						bad = append(bad, "the counter is not incremented by one on a path that appends a constructor entry")
					}
				}
			}
		} else {
			// skipping path: a counter must stay unchanged; a range index would drift
			for _, in := range head.Instrs {
				if phi, ok := in.(*ssa.Phi); ok && phi.Comment == "counter" {
					for i, pr := range head.Preds {
						if pr == last && phi.Edges[i] != ssa.Value(phi) {
							bad = append(bad, "the counter changes on a path that appends nothing")
						}
					}
				}
			}
		}
	}
	// if some path skips the append, the index must not be the range index
	skips, usesRange := false, false
	for _, p := range paths {
		if !p.Loop {
			continue
		}
		n, acc := 0, 0
		var idx ssa.Value
		for _, b := range p.Blocks {
			for _, in := range b.Instrs {
				if call, ok := in.(*ssa.Call); ok {
					if bi, ok := call.Call.Value.(*ssa.Builtin); ok && bi.Name() == "append" {
						if ph, ok := call.Call.Args[0].(*ssa.Phi); ok && ph.Comment == "goFields" {
							n++
						}
					}
					if an.CalleeIs(&call.Call, "generator", "Generator.makeSetterGetterField") {
						acc++
						idx = call.Call.Args[3]
					}
				}
			}
		}
		if n == 0 && p.Blocks[len(p.Blocks)-1] != head {
			last := p.Blocks[len(p.Blocks)-1]
			for _, pr := range head.Preds {
				if pr == last && head.Dominates(pr) {
					skips = true
				}
			}
		}
		if acc == 1 && rangeIndexPhi(idx) != nil {
			usesRange = true
		}
	}
	if skips && usesRange {
		bad = append(bad, "some members are skipped (no constructor entry) but the accessor index is the loop index: every later accessor points one position too far")
	}
	if len(bad) > 0 {
		ob.Fail("%s", bad[0])
	} else if nIter == 0 {
		ob.Unknown("no way round the member loop found")
	} else {
		ob.Ok("%d ways round the loop", nIter)
	}
}

// checkTypeTable: rule (g).
func checkTypeTable(c *core.Ctx, rule string, gen *types.Package) {
	pkg := c.Pkg("generator")
	fixPkg := c.Pkg("fix")
	var table map[string]string
	for _, f := range pkg.Syntax {
		ast.Inspect(f, func(n ast.Node) bool {
			vs, ok := n.(*ast.ValueSpec)
			if !ok || len(vs.Names) != 1 || vs.Names[0].Name != "allowedTypes" || len(vs.Values) != 1 {
				return true
			}
			cl, ok := vs.Values[0].(*ast.CompositeLit)
			if !ok {
				return true
			}
			table = map[string]string{}
			for _, e := range cl.Elts {
				kv, ok := e.(*ast.KeyValueExpr)
				if !ok {
					continue
				}
				k, v := pkg.TypesInfo.Types[kv.Key], pkg.TypesInfo.Types[kv.Value]
				if k.Value != nil && v.Value != nil {
					table[constant.StringVal(k.Value)] = constant.StringVal(v.Value)
				}
			}
			return false
		})
	}
	if !c.Anchor("type table", len(table) >= 6, "generator.allowedTypes", token.NoPos) {
		return
	}
	for _, k := range an.SortedKeys(table) {
		goT := table[k]
		tn, _ := fixPkg.Types.Scope().Lookup(k).(*types.TypeName)
		ok := tn != nil
		got := ""
		for _, sp := range codecTable {
			if sp.Type == k {
				got = sp.GoType
			}
		}
		c.Check(ok && got == goT, rule, "allowedTypes", fmt.Sprintf("%s ↦ %s agrees with fix.%s", k, goT, k), token.NoPos, "fix."+k+".Value() has Go type "+got,
			fmt.Sprintf("the generator maps %s to Go type %s but fix.%s holds %s: generated getters would assert the wrong type and panic", k, goT, k, got))
	}
}

// checkSchemaReadOnly: no function of package generator outside the XML decoding writes to memory of the parsed document: no store
// to a field of a schema struct, no store to an element of a schema slice, and no append onto a re-slice of a schema slice (the
// in-place filter idiom s[:0], which overwrites the elements the document still refers to). Schema types are the struct types
// declared in the file that declares Doc; a slice counts as the document's unless it was made in the same function.
func checkSchemaReadOnly(c *core.Ctx, rule string, gen *ssa.Package) {
	docObj := gen.Pkg.Scope().Lookup("Doc")
	if !c.Anchor("schema document type", docObj != nil, "generator.Doc", token.NoPos) {
		return
	}
	schemaFile := c.Fset.Position(docObj.Pos()).Filename
	isSchemaType := func(t types.Type) bool {
		for {
			switch u := t.(type) {
			case *types.Pointer:
				t = u.Elem()
				continue
			case *types.Slice:
				t = u.Elem()
				continue
			}
			break
		}
		n, ok := t.(*types.Named)
		if !ok || n.Obj().Pkg() != gen.Pkg {
			return false
		}
		if _, isStruct := n.Underlying().(*types.Struct); !isStruct {
			return false
		}
		return c.Fset.Position(n.Obj().Pos()).Filename == schemaFile
	}
	// fresh: the slice was made in this function (make, nil, literal, append chain onto a fresh slice)
	var fresh func(v ssa.Value, depth int) bool
	fresh = func(v ssa.Value, depth int) bool {
		if depth > 10 {
			return false
		}
		switch x := v.(type) {
		case *ssa.MakeSlice:
			return true
		case *ssa.Const:
			return true
		case *ssa.Slice:
			if al, ok := x.X.(*ssa.Alloc); ok && al.Heap {
				return true
			}
			return fresh(x.X, depth+1)
		case *ssa.Phi:
			for _, e := range x.Edges {
				if e != v && !fresh(e, depth+1) {
					return false
				}
			}
			return true
		case *ssa.Call:
			if b, ok := x.Call.Value.(*ssa.Builtin); ok && b.Name() == "append" {
				return fresh(x.Call.Args[0], depth+1)
			}
		case *ssa.UnOp:
			if al, ok := x.X.(*ssa.Alloc); ok && x.Op == token.MUL {
				// a local variable: fresh if every value stored into it is
				okAll, n := true, 0
				for _, ref := range *al.Referrers() {
					if st, isSt := ref.(*ssa.Store); isSt && st.Addr == ssa.Value(al) {
						n++
						if !fresh(st.Val, depth+1) {
							okAll = false
						}
					}
				}
				return okAll && n > 0
			}
		}
		return false
	}
	nFn, nSites := 0, 0
	for _, fn := range pkgFuncs(gen) {
		if c.Fset.Position(fn.Pos()).Filename == schemaFile {
			continue // the XML decoding itself
		}
		nFn++
		an.AllInstrs(fn, func(in ssa.Instruction) {
			switch x := in.(type) {
			case *ssa.Store:
				switch a := x.Addr.(type) {
				case *ssa.FieldAddr:
					if isSchemaType(a.X.Type()) && !an.IsConstructorBase(a.X, fn) {
						nSites++
						c.Ob(rule, an.NameOf(fn), "store to schema field "+an.Render(a), x.Pos()).Fail("the generator writes to the parsed document (%s): a second generation from the same document sees a different schema", an.Render(a))
					}
				case *ssa.IndexAddr:
					if isSchemaType(a.X.Type()) && !fresh(a.X, 0) {
						nSites++
						c.Ob(rule, an.NameOf(fn), "store to schema slice element "+an.Render(a), x.Pos()).Fail("the generator overwrites an element of a slice of the parsed document")
					}
				}
			case *ssa.Call:
				b, ok := x.Call.Value.(*ssa.Builtin)
				if !ok || b.Name() != "append" || !isSchemaType(x.Type()) {
					return
				}
				// the base of the append chain, through loop-carried variables
				var findReslice func(v ssa.Value, depth int, seen map[ssa.Value]bool) *ssa.Slice
				findReslice = func(v ssa.Value, depth int, seen map[ssa.Value]bool) *ssa.Slice {
					if depth > 10 || seen[v] {
						return nil
					}
					seen[v] = true
					switch y := v.(type) {
					case *ssa.Slice:
						if al, isAl := y.X.(*ssa.Alloc); isAl && al.Heap {
							return nil
						}
						if !fresh(y.X, 0) {
							return y
						}
					case *ssa.Phi:
						for _, e := range y.Edges {
							if r := findReslice(e, depth+1, seen); r != nil {
								return r
							}
						}
					case *ssa.Call:
						if b2, isB := y.Call.Value.(*ssa.Builtin); isB && b2.Name() == "append" {
							return findReslice(y.Call.Args[0], depth+1, seen)
						}
					case *ssa.UnOp:
						if al, isAl := y.X.(*ssa.Alloc); isAl && y.Op == token.MUL {
							for _, ref := range *al.Referrers() {
								if st, isSt := ref.(*ssa.Store); isSt && st.Addr == ssa.Value(al) {
									if r := findReslice(st.Val, depth+1, seen); r != nil {
										return r
									}
								}
							}
						}
					}
					return nil
				}
				if sl := findReslice(x.Call.Args[0], 0, map[ssa.Value]bool{}); sl != nil {
					nSites++
					c.Ob(rule, an.NameOf(fn), "append onto a re-slice of a schema slice "+an.Render(sl), x.Pos()).Fail(
						"append(%s, …) writes into the backing array of a slice that belongs to the parsed document (in-place filtering): the document's members are shifted and duplicated, so generating again from the same document — another output directory, a determinism check — fails or produces a different package", an.Render(sl))
				}
			}
		})
	}
	c.Check(nFn >= 30, rule, "", "generator functions scanned for writes to the document", token.NoPos, fmt.Sprintf("%d functions, %d writing sites", nFn, nSites), fmt.Sprintf("only %d functions scanned", nFn))
}

func strconvQuote(s string) string { return fmt.Sprintf("%q", s) }

// backSlice collects what a value is computed from, inside one package: calls and parameters reached by walking operands
// backwards through arithmetic, conversions, phis, standard-library calls (their arguments), module calls (their returned
// values), parameters (the arguments at every static call site in the package) and field loads (every value stored to that field
// in the package).
type backSlice struct {
	pkg    *ssa.Package
	seen   map[ssa.Value]bool
	calls  []*ssa.Call
	params []*ssa.Parameter
	steps  int
	// noCallers: parameters are recorded but not followed to the arguments at the call sites
	noCallers bool
}

func newBackSlice(pkg *ssa.Package) *backSlice {
	return &backSlice{pkg: pkg, seen: map[ssa.Value]bool{}}
}

func (b *backSlice) follow(v ssa.Value) {
	if v == nil || b.seen[v] || b.steps > 4000 {
		return
	}
	b.seen[v] = true
	b.steps++
	switch x := v.(type) {
	case *ssa.Const, *ssa.Global, *ssa.Function, *ssa.Builtin:
	case *ssa.Parameter:
		b.params = append(b.params, x)
		if b.noCallers {
			return
		}
		fn := x.Parent()
		idx := -1
		for i, p := range fn.Params {
			if p == x {
				idx = i
			}
		}
		for _, caller := range pkgFuncs(b.pkg) {
			an.AllInstrs(caller, func(in ssa.Instruction) {
				if cc := an.CallOf(in); cc != nil && an.StaticCallee(cc) == fn && idx >= 0 && idx < len(cc.Args) {
					b.follow(cc.Args[idx])
				}
			})
		}
	case *ssa.Call:
		b.calls = append(b.calls, x)
		cal := an.StaticCallee(&x.Call)
		if cal != nil && cal.Pkg == b.pkg && len(cal.Blocks) > 0 {
			an.AllInstrs(cal, func(in ssa.Instruction) {
				if r, ok := in.(*ssa.Return); ok {
					for _, rv := range r.Results {
						b.follow(rv)
					}
				}
			})
			if b.noCallers {
				// (what the callee was given, too: its parameters are not followed back to here)
				for _, a := range x.Call.Args {
					b.follow(a)
				}
			}
			return
		}
		for _, a := range x.Call.Args {
			b.follow(a)
		}
		if x.Call.IsInvoke() {
			b.follow(x.Call.Value)
		}
	case *ssa.Extract:
		if call, ok := x.Tuple.(*ssa.Call); ok {
			if cal := an.StaticCallee(&call.Call); cal != nil && cal.Pkg == b.pkg && len(cal.Blocks) > 0 {
				b.calls = append(b.calls, call)
				an.AllInstrs(cal, func(in ssa.Instruction) {
					if r, ok := in.(*ssa.Return); ok && x.Index < len(r.Results) {
						b.follow(r.Results[x.Index])
					}
				})
				return
			}
		}
		b.follow(x.Tuple)
	case *ssa.UnOp:
		if x.Op == token.MUL {
			switch a := x.X.(type) {
			case *ssa.FieldAddr:
				f := an.FieldOf(a)
				for _, fn := range pkgFuncs(b.pkg) {
					an.AllInstrs(fn, func(in ssa.Instruction) {
						if st, ok := in.(*ssa.Store); ok {
							if fa, ok := st.Addr.(*ssa.FieldAddr); ok && an.FieldOf(fa) == f {
								b.follow(st.Val)
							}
						}
					})
				}
				return
			case *ssa.Alloc:
				for _, sv := range an.CellStores(a) {
					b.follow(sv)
				}
				return
			case *ssa.IndexAddr:
				b.follow(a.X)
				return
			}
		}
		b.follow(x.X)
	default:
		if in, ok := v.(ssa.Instruction); ok {
			for _, op := range in.Operands(nil) {
				if op != nil && *op != nil {
					b.follow(*op)
				}
			}
		}
	}
}

// checkVersionString (j): wherever the generator renders text from Doc.Major and Doc.Minor, the pieces are type "." major "." minor.
func checkVersionString(c *core.Ctx, rule string, gpkg *ssa.Package) {
	docField := func(v ssa.Value) string {
		f, _ := an.LoadedField(an.Unwrap(v))
		if f == nil {
			if fl, ok := an.Unwrap(v).(*ssa.Field); ok {
				f = an.FieldOf(fl)
			}
		}
		if f == nil {
			return ""
		}
		switch an.FieldName(f) {
		case "Type", "Major", "Minor":
			return "<" + an.FieldName(f) + ">"
		}
		return ""
	}
	// pieces of a rendered string: literals and <Field> markers; "" when the shape is not understood
	var pieces func(v ssa.Value, depth int) []string
	pieces = func(v ssa.Value, depth int) []string {
		if depth > 8 {
			return nil
		}
		if s, ok := an.ConstString(v); ok {
			return []string{s}
		}
		if d := docField(v); d != "" {
			return []string{d}
		}
		switch x := v.(type) {
		case *ssa.BinOp:
			if x.Op == token.ADD {
				l, r := pieces(x.X, depth+1), pieces(x.Y, depth+1)
				if l == nil || r == nil {
					return nil
				}
				return append(append([]string{}, l...), r...)
			}
		case *ssa.Call:
			if an.CalleeIs(&x.Call, "fmt", "Sprintf") && len(x.Call.Args) == 2 {
				format, ok := an.ConstString(x.Call.Args[0])
				elems, ok2 := an.SliceElems(x.Call.Args[1])
				if !ok || !ok2 {
					return nil
				}
				var out []string
				rest, i := format, 0
				for {
					k := strings.Index(rest, "%")
					if k < 0 || k+1 >= len(rest) {
						out = append(out, rest)
						break
					}
					if rest[k+1] == '%' {
						out = append(out, rest[:k+1])
						rest = rest[k+2:]
						continue
					}
					if rest[k+1] != 's' && rest[k+1] != 'v' || i >= len(elems) {
						return nil
					}
					out = append(out, rest[:k])
					if d := docField(elems[i]); d != "" {
						out = append(out, d)
					} else {
						out = append(out, "<?>")
					}
					i++
					rest = rest[k+2:]
				}
				return out
			}
		}
		return nil
	}
	n := 0
	for _, fn := range an.PkgFuncs(gpkg) {
		an.AllInstrs(fn, func(in ssa.Instruction) {
			v, ok := in.(ssa.Value)
			if !ok {
				return
			}
			// outermost renderings only: a Sprintf call, or the top of a concatenation chain
			switch x := in.(type) {
			case *ssa.Call:
				if !an.CalleeIs(&x.Call, "fmt", "Sprintf") {
					return
				}
			case *ssa.BinOp:
				if x.Op != token.ADD {
					return
				}
				if refs := x.Referrers(); refs != nil {
					for _, r := range *refs {
						if b, isB := r.(*ssa.BinOp); isB && b.Op == token.ADD {
							return
						}
					}
				}
			default:
				return
			}
			// does it mention Major or Minor at all?
			mentions := false
			var walk func(w ssa.Value, d int)
			walk = func(w ssa.Value, d int) {
				if d > 8 || w == nil {
					return
				}
				if f := docField(w); f == "<Major>" || f == "<Minor>" {
					mentions = true
				}
				switch y := w.(type) {
				case *ssa.BinOp:
					walk(y.X, d+1)
					walk(y.Y, d+1)
				case *ssa.Call:
					if an.CalleeIs(&y.Call, "fmt", "Sprintf") && len(y.Call.Args) == 2 {
						if elems, ok := an.SliceElems(y.Call.Args[1]); ok {
							for _, e := range elems {
								walk(e, d+1)
							}
						}
					}
				}
			}
			walk(v, 0)
			if !mentions {
				return
			}
			n++
			ps := pieces(v, 0)
			joined := strings.Join(ps, "")
			ob := c.Ob(rule, an.NameOf(fn), "the version text is <type>.<major>.<minor>", in.Pos())
			switch {
			case ps == nil:
				ob.Fail("the text built from the schema's version attributes in %s is not a Sprintf with %%s verbs or a concatenation: %s", an.NameOf(fn), an.Render(v))
			case !strings.Contains(joined, "<Type>.<Major>.<Minor>"):
				ob.Fail("%s renders %q: the generated beginString is not the schema's type.major.minor (for a FIX 4.2 schema every generated message would carry 8=FIX.2.4)", an.NameOf(fn), joined)
			default:
				ob.Ok("%q", joined)
			}
		})
	}
	c.Check(n >= 1, rule, "", "rendering of the schema's version attributes found", token.NoPos, fmt.Sprint(n), "no text built from Doc.Major/Doc.Minor found (anchor moved)")
}
