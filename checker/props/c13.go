package props

import (
	"fmt"
	"go/token"
	"go/types"
	"sort"
	"strings"

	"golang.org/x/tools/go/callgraph"
	"golang.org/x/tools/go/ssa"

	"sfcheck/an"
	"sfcheck/core"
)

func init() {
	register(&Check{ID: "C13", NeedSSA: true, Run: runC13})
}

// doneContext: if ch is <ctxexpr>.Done() returns the rendered context expression.
func doneContext(ch ssa.Value) string {
	call, ok := ch.(*ssa.Call)
	if !ok || !call.Call.IsInvoke() || call.Call.Method.Name() != "Done" || !an.TypeIs(call.Call.Value.Type(), "context", "Context") {
		return ""
	}
	return an.Render(call.Call.Value)
}

// sccs returns the strongly connected components (loops) of a function's CFG with more than one block or a self edge.
func loops(fn *ssa.Function) [][]*ssa.BasicBlock {
	index := map[*ssa.BasicBlock]int{}
	low := map[*ssa.BasicBlock]int{}
	on := map[*ssa.BasicBlock]bool{}
	var stack []*ssa.BasicBlock
	var out [][]*ssa.BasicBlock
	n := 0
	var strong func(b *ssa.BasicBlock)
	strong = func(b *ssa.BasicBlock) {
		n++
		index[b], low[b] = n, n
		stack = append(stack, b)
		on[b] = true
		for _, s := range b.Succs {
			if index[s] == 0 {
				strong(s)
				if low[s] < low[b] {
					low[b] = low[s]
				}
			} else if on[s] && index[s] < low[b] {
				low[b] = index[s]
			}
		}
		if low[b] == index[b] {
			var comp []*ssa.BasicBlock
			for {
				x := stack[len(stack)-1]
				stack = stack[:len(stack)-1]
				on[x] = false
				comp = append(comp, x)
				if x == b {
					break
				}
			}
			self := false
			for _, s := range b.Succs {
				if s == b {
					self = true
				}
			}
			if len(comp) > 1 || self {
				out = append(out, comp)
			}
		}
	}
	for _, b := range fn.Blocks {
		if index[b] == 0 {
			strong(b)
		}
	}
	return out
}

func runC13(c *core.Ctx, o Options) {
	c.Explanation = "All blocking operations and goroutine bodies of the library packages (root, session, utils) are enumerated. Z1: every channel send is a select case with a sibling receive from the Done() channel of a context stored on the same object (c.ctx, h.ctx), " +
		"except two tabled sends whose premises are checked (errors: a drainer is started on every exit of Run, loops until the channel is closed, and both serve functions defer the close; listenErr: buffered, one send then return). " +
		"Z2: every loop in a goroutine body has a cancellation-governed exit: a select case on a context's Done() that returns, a closed-channel test that returns, or an error return of a blocking call on a resource the close path closes. " +
		"Z3: every goroutine of the two serve functions defers the shared cancel first; the shared cancel closes the socket and cancels the connection scopes. Z4: DefaultHandler.Run triggers the stopped event before returning on cancellation and the disconnect event for errors wrapping ErrConnClosed; read errors reach StopWithError wrapped with ErrConnClosed; StopWithError is called only from the tabled sites. " +
		"Z5: termination reaches every scope a sender can wait on: the acceptor's handler context is a child of the connection scope; Initiator.Close stops its handler; Stop cancels the handler context. Z6: the timer goroutines test the session context after every wake-up. " +
		"Z7: the order in which the library's mutexes are acquired (through all resolved call edges) is acyclic, and nothing a library-registered event callback reaches takes the write lock of the pool it is triggered from. Settling time and relative timing of cause and traffic are not decided."
	fns := libFuncs(c)
	var lib []*ssa.Function
	for _, f := range fns {
		if f.Pkg != nil && !strings.HasSuffix(f.Pkg.Pkg.Path(), "/storages/memory") {
			lib = append(lib, f)
		}
	}
	// ---- Z1
	nSends := 0
	for _, fn := range lib {
		an.AllInstrs(fn, func(in ssa.Instruction) {
			switch x := in.(type) {
			case *ssa.Send:
				nSends++
				chName := an.Render(x.Chan)
				ob := c.Ob("Z1", an.NameOf(fn), "bare send on "+chName, x.Pos())
				switch {
				case chName == "h.errors" && an.NameOf(fn) == "StopWithError":
					if why := errorsDrainerPremises(c); why == "" {
						ob.Ok("tabled exception: Run starts a drainer on every exit, the drainer receives until the channel is closed, both serve functions defer CloseErrorChan")
					} else {
						ob.Fail("the errors channel is unbuffered and its exception premise fails: %s", why)
					}
				case chName == "listenErr":
					// buffered with constant capacity >= 1, the send is followed by return, not in a loop that continues
					okBuf := false
					chv := x.Chan
					if p, isP := chv.(*ssa.Parameter); isP {
						// the accept loop as a function of its own: the channel is the argument at its only (go) call site
						if a := argAtOnlySite(p, lib); a != nil {
							chv = a
							if ct, isCT := chv.(*ssa.ChangeType); isCT { // chan error → chan<- error
								chv = ct.X
							}
						}
					}
					if mc, ok := an.CellValue(chv).(*ssa.MakeChan); ok {
						if n, ok := an.ConstInt(mc.Size); ok && n >= 1 {
							okBuf = true
						}
					}
					_, retNext := x.Block().Instrs[len(x.Block().Instrs)-1].(*ssa.Return)
					if okBuf && retNext {
						ob.Ok("tabled exception: buffered channel (capacity ≥ 1), the goroutine returns right after its single send")
					} else {
						ob.Fail("listenErr must be buffered and sent to once, immediately before the accept goroutine returns (buffered=%v, returns=%v)", okBuf, retNext)
					}
				default:
					ob.Fail("a bare channel send blocks forever once the receiver has stopped; hand-offs must be select cases with the owning context's Done()")
				}
			case *ssa.Select:
				for _, st := range x.States {
					if st.Dir != 1 {
						continue
					}
					nSends++
					chName := an.Render(st.Chan)
					ob := c.Ob("Z1", an.NameOf(fn), "select send on "+chName, x.Pos())
					ctxs := []string{}
					for _, st2 := range x.States {
						if st2.Dir == 2 {
							if cx := doneContext(st2.Chan); cx != "" {
								ctxs = append(ctxs, cx)
							}
						}
					}
					base := chName
					if i := strings.LastIndex(chName, "."); i >= 0 {
						base = chName[:i]
					}
					okCtx := false
					for _, cx := range ctxs {
						if cx == base+".ctx" {
							okCtx = true
						}
					}
					if !x.Blocking {
						ob.Ok("non-blocking select")
					} else if okCtx {
						ob.Ok("sibling case <-%s.ctx.Done()", base)
					} else {
						ob.Fail("the blocking send on %s has no sibling case on %s.ctx.Done() (cases on: %v): it cannot be released when the connection ends", chName, base, ctxs)
					}
				}
			}
		})
	}
	c.Check(nSends >= 5, "Z1", "", "channel sends found", token.NoPos, fmt.Sprintf("%d", nSends), "fewer channel sends than confirmed by reading")
	// bare receives outside select (UnOp ARROW): must be on Done()/closed-channel tests or tabled
	for _, fn := range lib {
		an.AllInstrs(fn, func(in ssa.Instruction) {
			u, ok := in.(*ssa.UnOp)
			if !ok || u.Op != token.ARROW {
				return
			}
			src := an.Render(u.X)
			ob := c.Ob("Z1", an.NameOf(fn), "bare receive from "+src, u.Pos())
			switch {
			case doneContext(u.X) != "":
				ob.Ok("waits for cancellation")
			case src == "h.errors" && strings.HasPrefix(an.NameOf(fn), "processRemainingErrors$"):
				ob.Ok("the drainer: ends when the channel is closed (comma-ok test), which both serve functions defer")
			case src == "ch" && fn.Parent() == nil && an.NameOf(fn) == "WaitWithTimeout":
				ob.Ok("inside a select with a timeout")
			default:
				ob.Fail("a bare channel receive can block forever; receive in a select with the owning context's Done()")
			}
		})
	}
	// Z1 (condition variables): sync.Cond.Wait blocks until another goroutine signals; no context, closed channel or closed
	// socket releases it, so a wait whose signal depends on traffic (a state change) never returns once the connection is gone
	for _, fn := range lib {
		an.AllInstrs(fn, func(in ssa.Instruction) {
			call, ok := in.(*ssa.Call)
			if !ok {
				return
			}
			cal := an.StaticCallee(&call.Call)
			if cal == nil || cal.Pkg == nil || cal.Pkg.Pkg.Path() != "sync" || an.NameOf(cal) != "Wait" || cal.Signature.Recv() == nil || !an.TypeIs(cal.Signature.Recv().Type(), "sync", "Cond") {
				return
			}
			c.Ob("Z1", an.NameOf(fn), "wait on a condition variable", call.Pos()).Fail("%s waits on a sync.Cond: the end of a connection cancels contexts and closes channels, neither of which wakes a condition variable, so the caller (a send call, a callback) blocks for ever once nothing signals any more", an.NameOf(fn))
		})
	}
	// ---- Z2 goroutine bodies
	type body struct {
		fn      *ssa.Function
		kind    string
		spawner *ssa.Function
		site    ssa.Instruction
	}
	var bodies []body
	seenBody := map[*ssa.Function]bool{}
	for _, fn := range lib {
		an.AllInstrs(fn, func(in ssa.Instruction) {
			if g, ok := in.(*ssa.Go); ok {
				if cal := an.StaticCallee(&g.Call); cal != nil && !seenBody[cal] {
					seenBody[cal] = true
					bodies = append(bodies, body{cal, "go in " + an.NameOf(fn), fn, in})
				} else if cal == nil {
					c.Ob("Z2", an.NameOf(fn), "go statement with a dynamic callee", g.Pos()).Unknown("cannot enumerate the goroutine body")
				}
			}
			if call, ok := in.(*ssa.Call); ok && an.CalleeIs(&call.Call, "errgroup", "Group.Go") {
				if cl := an.ClosureFn(call.Call.Args[1]); cl != nil && !seenBody[cl] {
					seenBody[cl] = true
					bodies = append(bodies, body{cl, "eg.Go in " + an.NameOf(fn), fn, in})
				} else if bound, ok := call.Call.Args[1].(*ssa.MakeClosure); ok {
					if bf, ok := bound.Fn.(*ssa.Function); ok && !seenBody[bf] {
						seenBody[bf] = true
						bodies = append(bodies, body{bf, "eg.Go in " + an.NameOf(fn), fn, in})
					}
				}
			}
		})
	}
	c.Check(len(bodies) >= 13, "Z2", "", "goroutine bodies enumerated", token.NoPos, fmt.Sprintf("%d bodies", len(bodies)), fmt.Sprintf("only %d goroutine bodies found; 13 were confirmed by reading", len(bodies)))
	for _, b := range bodies {
		// transitive same-package callees that contain loops are part of the body (runReader via serve; Run; TakeTimeout)
		todo := []*ssa.Function{b.fn}
		seen := map[*ssa.Function]bool{}
		for len(todo) > 0 {
			f := todo[0]
			todo = todo[1:]
			if seen[f] || len(f.Blocks) == 0 {
				continue
			}
			seen[f] = true
			for _, lp := range loops(f) {
				name := b.fn.Name()
				if f != b.fn {
					name += "→" + an.NameOf(f)
				}
				ob := c.Ob("Z2", name, fmt.Sprintf("loop at %s has a cancellation-governed exit", lp[len(lp)-1].Comment), lp[len(lp)-1].Instrs[0].Pos())
				why := loopExit(f, lp)
				if why != "" {
					ob.Ok("%s", why)
					// an exit through the error of Accept is governed by cancellation only if the function that started the goroutine
					// closes the listener whenever it returns
					if strings.Contains(why, "blocking Accept") && f == b.fn {
						bad := listenerNotClosed(b.spawner, b.site)
						c.Check(bad == "", "Z2", an.NameOf(b.spawner), "the listener the accept goroutine blocks on is closed on every return", b.site.Pos(), "defer listener.Close()",
							bad+": the accept goroutine has no other exit than an error of Accept, so it stays blocked after the acceptor has been closed, the port stays bound and later clients are still accepted and dropped")
					}
				} else {
					ob.Fail("no exit of this loop is governed by a context's Done(), a closed-channel test or an error of a blocking call: the goroutine (%s) can outlive the connection", b.kind)
				}
			}
			an.AllInstrs(f, func(in ssa.Instruction) {
				if cc := an.CallOf(in); cc != nil {
					if _, isGo := in.(*ssa.Go); isGo {
						return
					}
					if cal := an.StaticCallee(cc); cal != nil && cal.Pkg != nil && strings.HasPrefix(cal.Pkg.Pkg.Path(), core.ModPath) {
						todo = append(todo, cal)
					}
					// the handler loop is reached through an interface from the serve closures
					if cc.IsInvoke() && cc.Method.Name() == "Run" {
						if r := c.Func("", "DefaultHandler.Run"); r != nil {
							todo = append(todo, r)
						}
					}
				}
			})
		}
	}
	// Z2 (scope): a goroutine of one accepted connection that watches a context watches that connection's own — the one derived in
	// Acceptor.serve and cancelled by every sibling when it ends — not the acceptor-wide context serve was given: such a goroutine
	// outlives its connection until the whole acceptor is closed (and keeps serve from returning)
	{
		nDone := 0
		// what runs on behalf of one accepted connection: Acceptor.serve, its literals and what they call in the module
		perConn := map[*ssa.Function]bool{}
		if sv := c.Func("", "Acceptor.serve"); sv != nil {
			work := an.WithAnon(sv)
			for len(work) > 0 {
				f := work[0]
				work = work[1:]
				if perConn[f] || len(f.Blocks) == 0 {
					continue
				}
				perConn[f] = true
				work = append(work, f.AnonFuncs...)
				an.AllInstrs(f, func(in ssa.Instruction) {
					if cc := an.CallOf(in); cc != nil {
						if cal := an.StaticCallee(cc); cal != nil && cal.Pkg != nil && strings.HasPrefix(cal.Pkg.Pkg.Path(), core.ModPath) {
							work = append(work, cal)
						}
					}
				})
			}
		}
		for _, fn := range lib {
			an.AllInstrs(fn, func(in ssa.Instruction) {
				// a bare wait `<-ctx.Done()` (a watcher goroutine) is subject to the same rule as a select case
				if u, isU := in.(*ssa.UnOp); isU && u.Op == token.ARROW && doneContext(u.X) != "" && perConn[fn] {
					if call, isC := u.X.(*ssa.Call); isC {
						wide := ""
						for _, o := range ctxOrigins(call.Call.Value, lib, 0, map[ssa.Value]bool{}) {
							if o == "param:(*Acceptor).serve" || o == "field:Acceptor" {
								wide = o
							}
						}
						if wide != "" {
							c.Ob("Z2", an.NameOf(fn), "a per-connection goroutine watches the connection's own context", u.Pos()).Fail("%s waits for %s.Done(), which (at one of its call sites) is the acceptor-wide context (%s), not the context of the connection: after the connection has ended the goroutine stays until the acceptor is closed", an.NameOf(fn), an.Render(call.Call.Value), wide)
						}
					}
				}
				sel, ok := in.(*ssa.Select)
				if !ok {
					return
				}
				for _, st := range sel.States {
					if st.Dir != 2 || doneContext(st.Chan) == "" {
						continue
					}
					nDone++
					if !perConn[fn] {
						continue
					}
					call := st.Chan.(*ssa.Call)
					wide := ""
					for _, o := range ctxOrigins(call.Call.Value, lib, 0, map[ssa.Value]bool{}) {
						if o == "param:(*Acceptor).serve" || o == "field:Acceptor" {
							wide = o
						}
					}
					if wide != "" {
						c.Ob("Z2", an.NameOf(fn), "a per-connection goroutine watches the connection's own context", sel.Pos()).Fail("the loop in %s ends on %s.Done(), which (at one of its call sites) is the acceptor-wide context (%s), not the context of the connection: after the connection has ended the goroutine stays until the acceptor is closed, and Acceptor.serve does not return", an.NameOf(fn), an.Render(call.Call.Value), wide)
					}
				}
			})
		}
		c.Check(nDone >= 6, "Z2", "", "context-governed select cases found", token.NoPos, fmt.Sprint(nDone), fmt.Sprintf("only %d select cases on a context's Done() found", nDone))
	}
	// ---- Z3 + Z5
	checkCloseChain(c, "Z3")
	checkAcceptedOwned(c, "Z3", lib)
	checkTeardownReach(c, "Z5")
	// ---- Z4
	checkNotification(c, "Z4", lib)
	// ---- Z6 timers: after TakeTimeout a non-blocking test of the session context that returns
	if s := newSess(c); s != nil {
		checkTimerRoutines(c, s, "Z6")
		// ---- Z7b: event callbacks registered by the library do not touch the pool they run under
		for _, r := range s.roots() {
			if r.Cat != "event" {
				continue
			}
			bad := ""
			for _, t := range s.tr.Traces(r.Fn, s.m.AllStates) {
				for _, e := range t.Events {
					if e.Kind == "clean" || e.Kind == "register" {
						bad = "the callback calls EventHandlerPool." + map[string]string{"clean": "Clean", "register": "Handle"}[e.Kind] + " while Trigger holds the pool's read lock: it blocks forever"
					}
				}
			}
			c.Check(bad == "", "Z7", r.Name(), "event callback does not re-enter the event pool for writing", r.Fn.Pos(), "no Clean/Handle", bad)
		}
	}
	// ---- Z7a lock order
	checkLockOrder(c, "Z7", fns)
	// Z8: no function of the library returns with a mutex it has taken still locked (an early return past an explicit Unlock):
	// every later Send, Stop or state read would block for ever
	{
		nLock := checkLocksReleased(c, "Z8", libFuncs(c), "the next caller that needs the mutex blocks for ever")
		c.Check(nLock >= 15, "Z8", "", "locking functions found", token.NoPos, fmt.Sprint(nLock), fmt.Sprintf("only %d functions that take a mutex found", nLock))
	}
	c.Explanation += " Z2 also: a select case on a context's Done() in anything that runs on behalf of one accepted connection watches a context derived in Acceptor.serve (or held by a per-connection object), not the acceptor-wide context serve was given — followed through helper parameters to all call sites. Z8: no function returns with a mutex it has taken still locked (every returning path is replayed over the lock operations, deferred unlocks included)."
	if s2 := newSess(c); s2 != nil {
		s2.checkCallbacksOutsideStateLock("Z7")
	}
	// Z7 (cancel outside the send lock): Send and SendBatch hold DefaultHandler.mu while they wait in sendRaw for room in the queue or
	// for the handler's context to be cancelled. Whoever cancels that context must therefore not need that mutex (nor Session.mu,
	// which Session.send holds around the same wait): no call of a stored context.CancelFunc is made with one of them held.
	{
		nCancel := 0
		for _, fn := range libFuncs(c) {
			an.AllInstrs(fn, func(in ssa.Instruction) {
				call, ok := in.(*ssa.Call)
				if !ok || call.Call.IsInvoke() || an.StaticCallee(&call.Call) != nil {
					return
				}
				f, _ := an.LoadedField(call.Call.Value)
				if f == nil || !an.TypeIs(f.Type(), "context", "CancelFunc") {
					return
				}
				nCancel++
				held := an.HeldAt(fn, call)
				bad := ""
				for _, k := range an.SortedKeys(held) {
					if strings.HasSuffix(k, ".mu") {
						bad = k
					}
				}
				c.Check(bad == "", "Z7", an.NameOf(fn), "the stored cancel function is called without the send mutex", call.Pos(), "no mu held at "+an.Render(call.Call.Value)+"()",
					fmt.Sprintf("%s calls %s() while holding %s: a sender that waits in sendRaw holds that mutex until the context is cancelled, and the cancel now waits for the sender — Stop/Close never return, the sender and every later Send stay blocked", an.NameOf(fn), an.Render(call.Call.Value), bad))
			})
		}
		c.Check(nCancel >= 5, "Z7", "", "calls of stored cancel functions found", token.NoPos, fmt.Sprint(nCancel), fmt.Sprintf("only %d calls of stored context.CancelFunc fields found", nCancel))
	}
	c.Explanation += " Z7 also: no stored context.CancelFunc is called while DefaultHandler.mu / Session.mu (held by a sender waiting in sendRaw) is held; the event subscribers and Session.LogonHandler are called with no mutex of the session held."
	c.Explanation += " Z2 also: a goroutine whose only loop exit is an error of Accept requires the function that started it to close the listener (directly, deferred, or through a module function) on every returning path after the go statement."
	c.Explanation += " Z1 also: no wait on a sync.Cond anywhere in the library. Z2 scope also covers bare waits on Done() and follows the context parameter of exported constructors to their call sites inside the library."
	// Z3 (premise): the write deadline that ends a connection whose peer stops reading is the one the application configured
	checkOptionsPassedAlong(c, "Z3", libFuncs(c))
	checkConnWrite(c, "Z3")
	c.Explanation += " Z3 also: Acceptor/Initiator.writeTimeout is the constructor's parameter as given; Conn.Write is one socket write, not a retry loop (a loop that treats an expired deadline as temporary never returns)."
	c.RuleMin = map[string]int{"Z1": 5, "Z2": 17, "Z3": 5, "Z4": 6, "Z5": 4, "Z6": 4, "Z7": 4, "Z8": 15}
	c.MinObl = 45
}

// loopExit explains why a loop can be left on termination ("" if it cannot be shown).
func loopExit(f *ssa.Function, lp []*ssa.BasicBlock) string {
	in := map[*ssa.BasicBlock]bool{}
	for _, b := range lp {
		in[b] = true
	}
	leadsOut := func(b *ssa.BasicBlock) bool {
		// a successor outside the loop from which a return is reachable without re-entering the loop
		seen := map[*ssa.BasicBlock]bool{}
		work := []*ssa.BasicBlock{b}
		for len(work) > 0 {
			x := work[0]
			work = work[1:]
			if seen[x] || in[x] {
				continue
			}
			seen[x] = true
			if _, ok := x.Instrs[len(x.Instrs)-1].(*ssa.Return); ok {
				return true
			}
			work = append(work, x.Succs...)
		}
		return false
	}
	for _, b := range lp {
		for _, i := range b.Instrs {
			switch x := i.(type) {
			case *ssa.Select:
				for si, st := range x.States {
					if st.Dir != 2 {
						continue
					}
					cx := doneContext(st.Chan)
					if cx == "" {
						continue
					}
					// the branch taken for this state leaves the loop
					for _, ref := range *x.Referrers() {
						ex, ok := ref.(*ssa.Extract)
						if !ok || ex.Index != 0 {
							continue
						}
						for _, r2 := range *ex.Referrers() {
							bo, ok := r2.(*ssa.BinOp)
							if !ok || bo.Op != token.EQL {
								continue
							}
							if k, ok := an.ConstInt(bo.Y); !ok || int(k) != si {
								continue
							}
							for _, r3 := range *bo.Referrers() {
								if iff, ok := r3.(*ssa.If); ok && leadsOut(iff.Block().Succs[0]) {
									return "select case <-" + cx + ".Done() leaves the loop"
								}
							}
						}
					}
				}
			case *ssa.Call:
				// blocking call whose error leaves the loop
				cal := an.StaticCallee(&x.Call)
				name := ""
				if cal != nil {
					name = an.NameOf(cal)
				} else if x.Call.IsInvoke() {
					name = x.Call.Method.Name()
				}
				if name == "ReadBytes" || name == "Accept" {
					for _, ref := range *x.Referrers() {
						ex, ok := ref.(*ssa.Extract)
						if !ok {
							continue
						}
						for _, r2 := range *ex.Referrers() {
							if bo, ok := r2.(*ssa.BinOp); ok && an.IsNilConst(bo.Y) {
								for _, r3 := range *bo.Referrers() {
									if iff, ok := r3.(*ssa.If); ok {
										idx := 0
										if bo.Op == token.EQL {
											idx = 1
										}
										if leadsOut(iff.Block().Succs[idx]) {
											return "an error of the blocking " + name + " call leaves the loop (the close path closes that resource)"
										}
									}
								}
							}
						}
					}
				}
			case *ssa.UnOp:
				if x.Op == token.ARROW && x.CommaOk {
					for _, ref := range *x.Referrers() {
						if ex, ok := ref.(*ssa.Extract); ok && ex.Index == 1 {
							for _, r2 := range *ex.Referrers() {
								if iff, ok := r2.(*ssa.If); ok && leadsOut(iff.Block().Succs[1]) {
									return "a closed channel (comma-ok) leaves the loop"
								}
							}
						}
					}
				}
			}
		}
	}
	// a non-blocking drain loop: select with default whose default branch leaves the loop
	for _, b := range lp {
		for _, i := range b.Instrs {
			if sel, ok := i.(*ssa.Select); ok && !sel.Blocking {
				// the fall-through (no case ready) chain of the select leaves the loop
				for _, b2 := range lp {
					if iff, ok := b2.Instrs[len(b2.Instrs)-1].(*ssa.If); ok {
						if bo, ok := iff.Cond.(*ssa.BinOp); ok && bo.Op == token.EQL {
							if ex, ok := bo.X.(*ssa.Extract); ok && ex.Tuple == ssa.Value(sel) && ex.Index == 0 {
								if k, ok := an.ConstInt(bo.Y); ok && int(k) == len(sel.States)-1 && leadsOut(b2.Succs[1]) {
									return "non-blocking drain: leaves the loop as soon as no case is ready"
								}
							}
						}
					}
				}
			}
		}
	}
	// counted loops over a slice / range loops terminate by themselves
	for _, b := range lp {
		for _, i := range b.Instrs {
			if phi, ok := i.(*ssa.Phi); ok && rangeIndexPhi(phi) != nil {
				return "range loop over a slice"
			}
			if bo, ok := i.(*ssa.BinOp); ok {
				if rangeIndexPhi(bo) != nil {
					return "range loop over a slice"
				}
			}
			if _, ok := i.(*ssa.Next); ok {
				return "range loop over a map/string"
			}
		}
	}
	return ""
}

// errorsDrainerPremises returns "" if the premises of the errors-channel exception hold.
func errorsDrainerPremises(c *core.Ctx) string {
	run := c.Func("", "DefaultHandler.Run")
	pre := c.Func("", "DefaultHandler.processRemainingErrors")
	cec := c.Func("", "DefaultHandler.CloseErrorChan")
	if run == nil || pre == nil || cec == nil {
		return "Run / processRemainingErrors / CloseErrorChan not found"
	}
	// Run defers processRemainingErrors in its entry block
	deferred := false
	for _, in := range run.Blocks[0].Instrs {
		if d, ok := in.(*ssa.Defer); ok && an.StaticCallee(&d.Call) == pre {
			deferred = true
		}
	}
	if !deferred {
		return "Run does not defer the start of the drainer in its entry block (an exit of Run would leave StopWithError callers blocked)"
	}
	// processRemainingErrors starts a goroutine that loops on <-h.errors until !ok
	okDrain := false
	an.AllInstrs(pre, func(in ssa.Instruction) {
		if g, ok := in.(*ssa.Go); ok {
			if cl := an.StaticCallee(&g.Call); cl != nil {
				for _, lp := range loops(cl) {
					if strings.HasPrefix(loopExit(cl, lp), "a closed channel") {
						okDrain = true
					}
				}
			}
		}
	})
	if !okDrain {
		return "the drainer does not loop until the errors channel is closed"
	}
	// both serve functions defer CloseErrorChan
	for _, sf := range []string{"Acceptor.serve", "Initiator.Serve"} {
		fn := c.Func("", sf)
		if fn == nil {
			return sf + " not found"
		}
		found := false
		an.AllInstrs(fn, func(in ssa.Instruction) {
			if d, ok := in.(*ssa.Defer); ok && d.Call.IsInvoke() && d.Call.Method.Name() == "CloseErrorChan" {
				found = true
			}
		})
		if !found {
			return sf + " does not defer CloseErrorChan (the drainer would never end)"
		}
	}
	// CloseErrorChan closes h.errors
	okClose := false
	an.AllInstrs(cec, func(in ssa.Instruction) {
		if call, ok := in.(*ssa.Call); ok {
			if b, ok := call.Call.Value.(*ssa.Builtin); ok && b.Name() == "close" && an.Render(call.Call.Args[0]) == "h.errors" {
				okClose = true
			}
		}
	})
	if !okClose {
		return "CloseErrorChan does not close h.errors"
	}
	return ""
}

// checkTeardownReach (Z5): termination cancels every context a sender can be waiting on.
func checkTeardownReach(c *core.Ctx, rule string) {
	// handler constructors derive ctx/cancel from WithCancel(ctx) and Stop calls cancel (checked in the close chain)
	for _, name := range []string{"NewAcceptorHandler", "NewInitiatorHandler"} {
		fn := an.Delegate(c.Func("", name)) // the function that holds the constructor's body
		if fn == nil {
			continue
		}
		ok := false
		an.AllInstrs(fn, func(in ssa.Instruction) {
			if call, okc := in.(*ssa.Call); okc && an.CalleeIs(&call.Call, "context", "WithCancel") && call.Call.Args[0] == ssa.Value(fn.Params[0]) {
				ok = true
			}
		})
		c.Check(ok, rule, name, "the handler context is a cancellable child of the context it is given", fn.Pos(), "context.WithCancel(ctx)", "the handler's context is not derived with WithCancel from its parent")
	}
	// Acceptor.serve: the handler's parent context is the connection scope whose cancel the shared cancel calls
	if sv := c.Func("", "Acceptor.serve"); sv != nil {
		var wc *ssa.Call
		var mh *ssa.Call
		an.AllInstrs(sv, func(in ssa.Instruction) {
			if call, ok := in.(*ssa.Call); ok {
				if an.CalleeIs(&call.Call, "context", "WithCancel") {
					wc = call
				}
				if call.Call.IsInvoke() && call.Call.Method.Name() == "MakeHandler" {
					mh = call
				}
			}
		})
		ok := false
		why := "no WithCancel / MakeHandler in serve"
		if wc != nil && mh != nil {
			ctxArg := an.Render(an.CellValue(mh.Call.Args[0]))
			if ctxArg == an.Render(wc)+"#0" {
				// the shared cancel (a closure stored in a variable) calls the cancel function of that WithCancel
				for _, cl := range sv.AnonFuncs {
					callsCancel, closesConn := false, false
					an.AllInstrs(cl, func(in ssa.Instruction) {
						if call, okc := in.(*ssa.Call); okc {
							if an.Render(an.CellValue(call.Call.Value)) == an.Render(wc)+"#1" {
								callsCancel = true
							}
							if an.CalleeIs(&call.Call, "simplefix-go", "Conn.Close") {
								closesConn = true
							}
						}
					})
					if callsCancel && closesConn {
						ok = true
					}
				}
				why = "no closure of serve both closes the Conn and calls the cancel function of the handler's parent context"
			} else {
				why = "the handler is created with context " + ctxArg + ", not the per-connection context that the shared cancel cancels"
			}
		}
		c.Check(ok, rule, "Acceptor.serve", "the shared cancel cancels the scope the handler's context is derived from", sv.Pos(), "MakeHandler(ctx) with ctx, cancel := WithCancel(parent); cancelFun = {conn.Close(); cancel()}", why)
	}
	// Initiator.Close stops the handler
	if cl := c.Func("", "Initiator.Close"); c.Anchor("Initiator.Close", cl != nil, "Initiator.Close", posOf(cl)) {
		stops, closes, cancels := false, false, false
		an.AllInstrs(cl, func(in ssa.Instruction) {
			if call, ok := in.(*ssa.Call); ok && call.Block() == cl.Blocks[0] {
				if call.Call.IsInvoke() && call.Call.Method.Name() == "Stop" && an.Render(call.Call.Value) == "c.handler" {
					stops = true
				}
				if an.CalleeIs(&call.Call, "simplefix-go", "Conn.Close") {
					closes = true
				}
				if an.Render(call.Call.Value) == "c.cancel" {
					cancels = true
				}
			}
		})
		c.Check(stops && closes && cancels, rule, "Initiator.Close", "closes the connection, cancels the initiator scope and stops the handler", cl.Pos(), "conn.Close(); cancel(); handler.Stop()",
			fmt.Sprintf("Initiator.Close: closes conn=%v, cancels=%v, stops handler=%v — the handler's context is not derived from the Initiator's, so without Stop() senders stay blocked in sendRaw after the connection ended", closes, cancels, stops))
	}
}

// checkNotification (Z4).
func checkNotification(c *core.Ctx, rule string, lib []*ssa.Function) {
	run := c.Func("", "DefaultHandler.Run")
	if !c.Anchor("handler loop", run != nil, "DefaultHandler.Run", posOf(run)) {
		return
	}
	paths, _ := an.EnumPathsX(run, 1024)
	var sel *ssa.Select
	// Run and the steps cut out of it (a listen loop, the two ways it ends)
	for f := range sameGoroutineReach(run) {
		if f != run && an.IsKnown(f) {
			continue
		}
		an.AllInstrs(f, func(in ssa.Instruction) {
			if s, ok := in.(*ssa.Select); ok && s.Blocking && (sel == nil || f == run) {
				sel = s
			}
		})
	}
	if sel == nil {
		c.Ob(rule, "DefaultHandler.Run", "select loop", run.Pos()).Unknown("no blocking select in Run")
		return
	}
	doneIdx, errIdx := -1, -1
	for i, st := range sel.States {
		if doneContext(st.Chan) == "h.ctx" {
			doneIdx = i
		}
		if an.Render(st.Chan) == "h.errors" {
			errIdx = i
		}
	}
	triggers := func(p *an.Path) []string {
		var out []string
		for _, in := range p.InstrSeq() {
			{
				if call, ok := in.(*ssa.Call); ok && an.CalleeIs(&call.Call, "utils", "EventHandlerPool.Trigger") {
					out = append(out, evName(call.Call.Args[1]))
				}
			}
		}
		return out
	}
	okStopped, okDisc, badStopped, badDisc := false, false, "", ""
	selIdx := an.Render(sel) + "#0"
	for _, p := range paths {
		if p.Return == nil {
			continue
		}
		tr := strings.Join(triggers(p), ",")
		if doneIdx >= 0 && p.Has(fmt.Sprintf("%s == %d", selIdx, doneIdx)) {
			if strings.Contains(tr, "EventStopped") {
				okStopped = true
			} else {
				badStopped = "Run returns on cancellation without triggering the stopped event"
			}
		}
		if errIdx >= 0 && p.Has(fmt.Sprintf("%s == %d", selIdx, errIdx)) {
			isConnClosed := false
			for _, a := range p.Atoms {
				if strings.HasPrefix(a.L, "errors.Is(") && strings.HasSuffix(a.L, "ErrConnClosed)") && a.Rel == "true" {
					isConnClosed = true
				}
			}
			if isConnClosed {
				if strings.Contains(tr, "EventDisconnect") {
					okDisc = true
				} else {
					badDisc = "an error wrapping ErrConnClosed does not trigger the disconnect event"
				}
			}
		}
	}
	c.Check(okStopped && badStopped == "", rule, "DefaultHandler.Run", "cancellation ⇒ stopped event before Run returns", run.Pos(), "Trigger(EventStopped) on the ctx.Done() branch", "no stopped notification: "+badStopped)
	c.Check(okDisc && badDisc == "", rule, "DefaultHandler.Run", "connection error ⇒ disconnect event before Run returns", run.Pos(), "errors.Is(err, ErrConnClosed) ⇒ Trigger(EventDisconnect)", "no disconnect notification: "+badDisc)
	// StopWithError is an unbuffered, uncancellable send to the handler loop. A call site is harmless only in a goroutine that
	// the handler loop never waits for: not the goroutine that runs the loop, not the writer (the loop's sends wait for it to
	// drain the queue) and not the forwarder (the loop is its consumer) — or in the serve function itself after its goroutines
	// have ended. Sites in the goroutine that runs the connection reader must wrap the read error with ErrConnClosed.
	calls := func(f *ssa.Function, pred func(cc *ssa.CallCommon) bool) bool {
		found := false
		for _, g := range an.WithAnon(f) {
			an.AllInstrs(g, func(in ssa.Instruction) {
				if cc := an.CallOf(in); cc != nil && pred(cc) {
					found = true
				}
			})
		}
		return found
	}
	isRun := func(cc *ssa.CallCommon) bool {
		if cc.IsInvoke() {
			return cc.Method.Name() == "Run"
		}
		cal := an.StaticCallee(cc)
		return cal != nil && an.FuncIs(cal, "simplefix-go", "DefaultHandler.Run")
	}
	isWrite := func(cc *ssa.CallCommon) bool {
		cal := an.StaticCallee(cc)
		return cal != nil && an.FuncIs(cal, "simplefix-go", "Conn.Write")
	}
	isForward := func(cc *ssa.CallCommon) bool {
		if cc.IsInvoke() {
			return cc.Method.Name() == "ServeIncoming"
		}
		cal := an.StaticCallee(cc)
		return cal != nil && an.FuncIs(cal, "simplefix-go", "DefaultHandler.ServeIncoming")
	}
	isConnServe := func(cc *ssa.CallCommon) bool {
		cal := an.StaticCallee(cc)
		return cal != nil && an.FuncIs(cal, "simplefix-go", "Conn.serve")
	}
	wrapsConnClosed := func(f *ssa.Function) bool {
		wrapped := false
		for _, g := range an.WithAnon(f) {
			an.AllInstrs(g, func(i2 ssa.Instruction) {
				if call, ok := i2.(*ssa.Call); ok && an.CalleeIs(&call.Call, "fmt", "Errorf") {
					if f, ok := an.ConstString(call.Call.Args[0]); ok && strings.Contains(f, "%w") {
						if elems, ok := an.SliceElems(call.Call.Args[1]); ok {
							for _, e := range elems {
								if strings.HasSuffix(an.Render(e), "ErrConnClosed") {
									wrapped = true
								}
							}
						}
					}
				}
			})
		}
		return wrapped
	}
	nSites := 0
	for _, fn := range lib {
		an.AllInstrs(fn, func(in ssa.Instruction) {
			cc := an.CallOf(in)
			if cc == nil || !cc.IsInvoke() || cc.Method.Name() != "StopWithError" {
				return
			}
			nSites++
			root := fn
			body := fn // the goroutine body: the outermost function literal below the serve function
			for root.Parent() != nil {
				body = root
				root = root.Parent()
			}
			role := "goroutine of " + an.NameOf(root)
			if fn == root {
				role = an.NameOf(root) + " itself"
			}
			ob := c.Ob(rule, an.NameOf(root), "StopWithError call site in a "+role+" that the handler loop does not wait for", in.Pos())
			switch {
			case fn == root:
				// in the serve function: must come after the wait for its goroutines
				waited := false
				an.AllInstrs(root, func(i2 ssa.Instruction) {
					if call, ok := i2.(*ssa.Call); ok {
						if cal := an.StaticCallee(&call.Call); cal != nil && an.NameOf(cal) == "Wait" && an.Dominates(call, in) {
							waited = true
						}
					}
				})
				if waited {
					ob.Ok("after Wait(): all goroutines of the connection have ended (the drainer is running)")
				} else {
					ob.Fail("StopWithError in %s before its goroutines are waited for: if the handler loop has ended nobody receives the error and the caller blocks forever", an.NameOf(root))
				}
			case calls(body, isRun):
				ob.Fail("the goroutine that runs the handler loop reports an error to that loop: the send can never be received")
			case calls(body, isWrite):
				ob.Fail("the writer goroutine waits in StopWithError: the handler loop, blocked on a full outgoing queue that only the writer drains, never receives it (deadlock)")
			case calls(body, isForward):
				ob.Fail("the forwarder goroutine waits in StopWithError while the handler loop may be waiting for the writer or for it")
			case calls(body, isConnServe) && !wrapsConnClosed(body):
				ob.Fail("the read error handed to the handler is not wrapped with ErrConnClosed (%%w): Run would not raise the disconnect event")
			case calls(body, isConnServe) && !wrapDominates(body, fn, in):
				ob.Fail("the read error is wrapped with ErrConnClosed only on some paths to this StopWithError: a read failure of another kind (a reset, a timeout) ends the connection without the disconnect event, and without the stopped event either")
			default:
				ob.Ok("a goroutine that neither runs the loop, writes the socket nor forwards input")
			}
		})
	}
	c.Check(nSites >= 3, rule, "", "StopWithError call sites found", token.NoPos, fmt.Sprint(nSites), fmt.Sprintf("%d sites (4 confirmed: reader goroutines of both serve functions, the initiator's watcher, after Wait)", nSites))
}

// checkLockOrder (Z7a): the lock-acquisition order over all call edges is acyclic.
func checkLockOrder(c *core.Ctx, rule string, fns []*ssa.Function) {
	la := an.AnalyseLocks(fns)
	cg := c.CallGraph()
	inLib := map[*ssa.Function]bool{}
	for _, f := range fns {
		inLib[f] = true
	}
	// direct acquisitions per function
	direct := map[*ssa.Function]map[*types.Var]bool{}
	for _, f := range fns {
		an.AllInstrs(f, func(in ssa.Instruction) {
			if call, ok := in.(*ssa.Call); ok {
				if cal := an.StaticCallee(&call.Call); cal != nil && cal.Pkg != nil && cal.Pkg.Pkg.Path() == "sync" && (an.NameOf(cal) == "Lock" || an.NameOf(cal) == "RLock") && len(call.Call.Args) > 0 {
					if fa, ok := call.Call.Args[0].(*ssa.FieldAddr); ok {
						if direct[f] == nil {
							direct[f] = map[*types.Var]bool{}
						}
						direct[f][an.FieldOf(fa)] = true
					}
				}
			}
		})
	}
	// transitive may-acquire through the call graph (library functions only)
	memo := map[*ssa.Function]map[*types.Var]bool{}
	var may func(f *ssa.Function, stack map[*ssa.Function]bool) map[*types.Var]bool
	may = func(f *ssa.Function, stack map[*ssa.Function]bool) map[*types.Var]bool {
		if m, ok := memo[f]; ok {
			return m
		}
		if stack[f] {
			return nil
		}
		stack[f] = true
		out := map[*types.Var]bool{}
		for k := range direct[f] {
			out[k] = true
		}
		if n := cg.Nodes[f]; n != nil {
			for _, e := range n.Out {
				if _, isGo := e.Site.(*ssa.Go); isGo {
					continue
				}
				if inLib[e.Callee.Func] {
					for k := range may(e.Callee.Func, stack) {
						out[k] = true
					}
				}
			}
		}
		delete(stack, f)
		memo[f] = out
		return out
	}
	edges := map[string]bool{}
	addEdge := func(a, b *types.Var) {
		if a != b {
			edges[fieldOwner(a)+"."+a.Name()+" → "+fieldOwner(b)+"."+b.Name()] = true
		}
	}
	for _, f := range fns {
		an.AllInstrs(f, func(in ssa.Instruction) {
			ls := la.At[in]
			if len(ls) == 0 {
				return
			}
			cc := an.CallOf(in)
			if cc == nil {
				return
			}
			if _, isGo := in.(*ssa.Go); isGo {
				return
			}
			if _, isDefer := in.(*ssa.Defer); isDefer {
				return
			}
			acquired := map[*types.Var]bool{}
			if cal := an.StaticCallee(cc); cal != nil && cal.Pkg != nil && cal.Pkg.Pkg.Path() == "sync" && (an.NameOf(cal) == "Lock" || an.NameOf(cal) == "RLock") {
				if fa, ok := cc.Args[0].(*ssa.FieldAddr); ok {
					acquired[an.FieldOf(fa)] = true
				}
			}
			if n := cg.Nodes[f]; n != nil {
				for _, e := range n.Out {
					if e.Site == in && inLib[e.Callee.Func] {
						for k := range may(e.Callee.Func, map[*ssa.Function]bool{}) {
							acquired[k] = true
						}
					}
				}
			}
			for held := range ls {
				for a := range acquired {
					addEdge(held.Field, a)
				}
			}
		})
	}
	var es []string
	for e := range edges {
		es = append(es, e)
	}
	sort.Strings(es)
	// cycle detection on the field-level graph
	adj := map[string][]string{}
	for _, e := range es {
		p := strings.Split(e, " → ")
		adj[p[0]] = append(adj[p[0]], p[1])
	}
	cyc := findCycle(adj)
	ob := c.Ob(rule, "", "lock acquisition order is acyclic", token.NoPos)
	ob.Fact("order edges: %s", strings.Join(es, "; "))
	if cyc != "" {
		ob.Fail("lock-order cycle: %s — two goroutines taking these mutexes in opposite order deadlock", cyc)
	} else if len(es) < 3 {
		ob.Fail("only %d lock-order edges found; at least Session.mu → DefaultHandler.mu → pools/store/timer were confirmed by reading", len(es))
	} else {
		ob.Ok("%d order edges, no cycle", len(es))
	}
	c.Extra["lock_order_edges"] = es
}

func findCycle(adj map[string][]string) string {
	color := map[string]int{}
	var path []string
	var res string
	var dfs func(u string) bool
	dfs = func(u string) bool {
		color[u] = 1
		path = append(path, u)
		for _, v := range adj[u] {
			if color[v] == 1 {
				i := 0
				for j, p := range path {
					if p == v {
						i = j
					}
				}
				res = strings.Join(append(append([]string{}, path[i:]...), v), " → ")
				return true
			}
			if color[v] == 0 && dfs(v) {
				return true
			}
		}
		color[u] = 2
		path = path[:len(path)-1]
		return false
	}
	keys := an.SortedKeys(adj)
	for _, k := range keys {
		if color[k] == 0 && dfs(k) {
			return res
		}
	}
	return ""
}

var _ callgraph.Graph

// checkTimerRoutines: every function start spawns tests the session context right after each wake-up of its timer (before it
// sends or changes state) and closes its timer when it ends.
func checkTimerRoutines(c *core.Ctx, s *sess, rule string) {
	if st := s.m.Method("start"); st != nil {
		// the functions start spawns: literals or named functions of the package
		var routines []*ssa.Function
		// start together with the steps cut out of it (a helper that launches the two loops)
		group := []*ssa.Function{st}
		for _, f := range an.PkgFuncs(st.Pkg) {
			if owner, chain := an.LogicalOwner(f); owner == st && len(chain) > 0 && f.Parent() == nil {
				group = append(group, f)
			}
		}
		for _, gf := range group {
			an.AllInstrs(gf, func(in ssa.Instruction) {
				if gg, ok := in.(*ssa.Go); ok {
					if g := an.StaticCallee(&gg.Call); g != nil && len(g.Blocks) > 0 && g.Pkg == st.Pkg {
						routines = append(routines, g)
					} else {
						c.Ob(rule, "start", "go statement with a resolvable body", in.Pos()).Unknown("cannot resolve the function spawned here")
					}
				}
			})
		}
		for _, g := range routines {
			ok := false
			an.AllInstrs(g, func(in ssa.Instruction) {
				if sel, isSel := in.(*ssa.Select); isSel && !sel.Blocking && len(sel.States) == 1 && doneContext(sel.States[0].Chan) == "s.ctx" {
					// preceded in the same block by TakeTimeout
					for _, i2 := range sel.Block().Instrs {
						if call, isCall := i2.(*ssa.Call); isCall && an.CalleeIs(&call.Call, "utils", "Timer.TakeTimeout") {
							ok = true
						}
						if i2 == ssa.Instruction(sel) {
							break
						}
					}
				}
			})
			// the other spelling: if s.ctx.Err() != nil { return } in the block of the wait
			an.AllInstrs(g, func(in ssa.Instruction) {
				call, isCall := in.(*ssa.Call)
				if !isCall || !call.Call.IsInvoke() || call.Call.Method.Name() != "Err" || an.Render(call.Call.Value) != "s.ctx" {
					return
				}
				waited := false
				for _, i2 := range call.Block().Instrs {
					if c2, isC := i2.(*ssa.Call); isC && an.CalleeIs(&c2.Call, "utils", "Timer.TakeTimeout") {
						waited = true
					}
					if i2 == ssa.Instruction(call) {
						break
					}
				}
				if !waited || call.Referrers() == nil {
					return
				}
				for _, r := range *call.Referrers() {
					bo, isB := r.(*ssa.BinOp)
					if !isB || (bo.Op != token.NEQ && bo.Op != token.EQL) {
						continue
					}
					if iff, isIf := call.Block().Instrs[len(call.Block().Instrs)-1].(*ssa.If); isIf && iff.Cond == ssa.Value(bo) {
						leave := call.Block().Succs[0]
						if bo.Op == token.EQL {
							leave = call.Block().Succs[1]
						}
						if leadsToReturnWithoutCalls(leave) {
							ok = true
						}
					}
				}
			})
			c.Check(ok, rule, an.NameOf(g), "tests the session context right after every wake-up", g.Pos(), "TakeTimeout; select { case <-s.ctx.Done(): return; default: }", "the timer goroutine does not test s.ctx.Done() after its wait: it keeps sending after the session ended")
			// and closes its timer on exit
			closes := false
			an.AllInstrs(g, func(in ssa.Instruction) {
				if d, isD := in.(*ssa.Defer); isD && an.CalleeIs(&d.Call, "utils", "Timer.Close") {
					closes = true
				}
			})
			c.Check(closes, rule, an.NameOf(g), "releases its timer when it ends", g.Pos(), "defer timer.Close()", "the timer is not closed when the goroutine ends")
		}
	}
}

// wrapDominates: in the goroutine body, the fmt.Errorf("…%w…", …, ErrConnClosed) call dominates the StopWithError site — directly,
// or the instruction that creates the function literal containing the site (a deferred or once-guarded report).
func wrapDominates(body, siteFn *ssa.Function, site ssa.Instruction) bool {
	var wrap *ssa.Call
	an.AllInstrs(body, func(i2 ssa.Instruction) {
		if call, ok := i2.(*ssa.Call); ok && an.CalleeIs(&call.Call, "fmt", "Errorf") {
			if f, ok := an.ConstString(call.Call.Args[0]); ok && strings.Contains(f, "%w") {
				if elems, ok := an.SliceElems(call.Call.Args[1]); ok {
					for _, e := range elems {
						if strings.HasSuffix(an.Render(e), "ErrConnClosed") {
							wrap = call
						}
					}
				}
			}
		}
	})
	if wrap == nil {
		return false
	}
	// climb from the site to the instruction of body that leads to it
	at := site
	f := siteFn
	for f != body {
		parent := f.Parent()
		if parent == nil {
			return false
		}
		var mk ssa.Instruction
		an.AllInstrs(parent, func(i2 ssa.Instruction) {
			if mc, ok := i2.(*ssa.MakeClosure); ok && mc.Fn == ssa.Value(f) {
				mk = mc
			}
		})
		if mk == nil {
			return false
		}
		at, f = mk, parent
	}
	return an.Dominates(wrap, at)
}

// checkAcceptedOwned: a socket returned by Accept is the library's to close. On every path from a successful Accept (error nil)
// to the next iteration or to the end of the accepting function, the socket is handed to a served connection (go serve(…, conn))
// or closed; otherwise it stays open for ever and the peer is never told that the connection is over.
func checkAcceptedOwned(c *core.Ctx, rule string, lib []*ssa.Function) {
	n := 0
	for _, fn := range lib {
		var acc *ssa.Call
		an.AllInstrs(fn, func(in ssa.Instruction) {
			if call, ok := in.(*ssa.Call); ok && call.Call.IsInvoke() && call.Call.Method.Name() == "Accept" && an.TypeIs(call.Call.Value.Type(), "net", "Listener") {
				acc = call
			}
		})
		if acc == nil {
			continue
		}
		n++
		var conn, errv ssa.Value
		for _, ref := range *acc.Referrers() {
			if ex, ok := ref.(*ssa.Extract); ok {
				if ex.Index == 0 {
					conn = ex
				} else {
					errv = ex
				}
			}
		}
		paths, _ := an.EnumPaths(fn, 4096)
		bad := ""
		nOK := 0
		for _, p := range paths {
			if !p.Passes(acc) || p.Panic {
				continue
			}
			// success: the path has tested the error nil
			ok := false
			for _, a := range p.Atoms {
				if bo, isB := a.Val.(*ssa.BinOp); isB && a.Rel == "==" && a.R == "nil" && (bo.X == errv || bo.Y == errv) {
					ok = true
				}
			}
			if !ok {
				continue
			}
			nOK++
			owned := false
			for _, b := range p.Blocks {
				for _, in := range b.Instrs {
					cc := an.CallOf(in)
					if cc == nil {
						continue
					}
					for _, a := range cc.Args {
						if a == conn {
							owned = true // handed to a function (serve) or closed
						}
					}
					if cc.IsInvoke() && cc.Value == conn && cc.Method.Name() == "Close" {
						owned = true
					}
				}
			}
			if !owned {
				bad = "after a successful Accept the path [" + p.CondString() + "] neither serves nor closes the accepted socket"
			}
		}
		c.Check(bad == "" && nOK > 0, rule, an.NameOf(fn), "an accepted socket is always served or closed", acc.Pos(), fmt.Sprintf("%d success path(s) hand the socket on", nOK), bad)
	}
	c.Check(n >= 1, rule, "", "Accept call found", token.NoPos, fmt.Sprint(n), "no net.Listener.Accept call in the library (anchor moved)")
}

// ctxOrigins describes where a context value comes from: "derived:<fn>" (context.WithCancel/WithTimeout/… in fn),
// "field:<Type>" (loaded from a struct field), "param:<fn>" (a parameter of an exported or pinned function) — a parameter of a
// helper is followed to the arguments at all of its call sites, a captured variable to what was stored in it.
func ctxOrigins(v ssa.Value, lib []*ssa.Function, depth int, seen map[ssa.Value]bool) []string {
	if v == nil || seen[v] || depth > 6 {
		return nil
	}
	seen[v] = true
	switch x := v.(type) {
	case *ssa.Extract:
		if call, ok := x.Tuple.(*ssa.Call); ok {
			if cal := an.StaticCallee(&call.Call); cal != nil && cal.Pkg != nil && cal.Pkg.Pkg.Path() == "context" {
				return []string{"derived:" + fnLabel(call.Parent())}
			}
		}
	case *ssa.Call:
		if cal := an.StaticCallee(&x.Call); cal != nil && cal.Pkg != nil && cal.Pkg.Pkg.Path() == "context" {
			return []string{"derived:" + fnLabel(x.Parent())}
		}
		if x.Call.IsInvoke() {
			return []string{"method:" + x.Call.Method.Name()}
		}
		if cal := an.StaticCallee(&x.Call); cal != nil && len(cal.Blocks) > 0 {
			var out []string
			an.AllInstrs(cal, func(in ssa.Instruction) {
				if r, ok := in.(*ssa.Return); ok && len(r.Results) > 0 {
					out = append(out, ctxOrigins(r.Results[0], lib, depth+1, seen)...)
				}
			})
			return out
		}
	case *ssa.UnOp:
		if x.Op == token.MUL {
			switch a := x.X.(type) {
			case *ssa.FieldAddr:
				if n := an.NamedOf(an.Deref(a.X.Type())); n != nil {
					return []string{"field:" + an.PinnedTypeName(n.Obj().Pkg(), n.Obj().Name())}
				}
				return []string{"field:?"}
			case *ssa.Alloc:
				var out []string
				for _, sv := range an.CellStores(a) {
					out = append(out, ctxOrigins(sv, lib, depth+1, seen)...)
				}
				return out
			case *ssa.FreeVar:
				if b := an.FreeVarBinding(a); b != nil {
					if al, ok := b.(*ssa.Alloc); ok {
						var out []string
						for _, sv := range an.CellStores(al) {
							out = append(out, ctxOrigins(sv, lib, depth+1, seen)...)
						}
						return out
					}
					return ctxOrigins(b, lib, depth+1, seen)
				}
			}
		}
	case *ssa.FreeVar:
		if b := an.FreeVarBinding(x); b != nil {
			return ctxOrigins(b, lib, depth+1, seen)
		}
	case *ssa.Phi:
		var out []string
		for _, e := range x.Edges {
			out = append(out, ctxOrigins(e, lib, depth+1, seen)...)
		}
		return out
	case *ssa.MakeInterface:
		return ctxOrigins(x.X, lib, depth+1, seen)
	case *ssa.ChangeInterface:
		return ctxOrigins(x.X, lib, depth+1, seen)
	case *ssa.Parameter:
		fn := x.Parent()
		if fn.Object() != nil && !fn.Object().Exported() && !an.IsKnown(fn) {
			idx := -1
			for i, p := range fn.Params {
				if p == x {
					idx = i
				}
			}
			var out []string
			n := 0
			for _, caller := range lib {
				an.AllInstrs(caller, func(in ssa.Instruction) {
					if cc := an.CallOf(in); cc != nil && an.StaticCallee(cc) == fn && idx >= 0 && idx < len(cc.Args) {
						n++
						out = append(out, ctxOrigins(cc.Args[idx], lib, depth+1, seen)...)
					}
				})
			}
			if n > 0 {
				return out
			}
		}
		// an exported function of the module (a constructor called by Acceptor.serve): callers outside the library are unknown,
		// the ones inside it are followed as well
		if fn.Pkg != nil && strings.HasPrefix(fn.Pkg.Pkg.Path(), core.ModPath) && depth < 4 {
			idx := -1
			for i, p := range fn.Params {
				if p == x {
					idx = i
				}
			}
			out := []string{"param:" + fnLabel(fn)}
			for _, caller := range lib {
				an.AllInstrs(caller, func(in ssa.Instruction) {
					if cc := an.CallOf(in); cc != nil && an.StaticCallee(cc) == fn && idx >= 0 && idx < len(cc.Args) {
						out = append(out, ctxOrigins(cc.Args[idx], lib, depth+1, seen)...)
					}
				})
			}
			return out
		}
		return []string{"param:" + fnLabel(fn)}
	}
	return []string{"unknown"}
}

func fnLabel(fn *ssa.Function) string {
	for fn != nil && fn.Parent() != nil {
		fn = fn.Parent()
	}
	if fn == nil {
		return "?"
	}
	if sig := fn.Signature; sig.Recv() != nil {
		if n := an.NamedOf(an.Deref(sig.Recv().Type())); n != nil {
			ptr := ""
			if _, isPtr := sig.Recv().Type().(*types.Pointer); isPtr {
				ptr = "*"
			}
			return "(" + ptr + an.PinnedTypeName(n.Obj().Pkg(), n.Obj().Name()) + ")." + an.NameOf(fn)
		}
	}
	return an.NameOf(fn)
}

// listenerNotClosed: on some returning path of fn that passes the go statement, no Close of a net.Listener has been called or
// deferred (directly or through a module function that does it). Returns "" when every such path closes the listener.
func listenerNotClosed(fn *ssa.Function, site ssa.Instruction) string {
	var closes func(cc *ssa.CallCommon, depth int) bool
	closes = func(cc *ssa.CallCommon, depth int) bool {
		if cc.IsInvoke() && cc.Method.Name() == "Close" && an.TypeIs(cc.Value.Type(), "net", "Listener") {
			return true
		}
		cal := an.StaticCallee(cc)
		if cal == nil || depth > 2 || cal.Pkg == nil || !strings.HasPrefix(cal.Pkg.Pkg.Path(), core.ModPath) {
			return false
		}
		found := false
		an.AllInstrs(cal, func(in ssa.Instruction) {
			if c2 := an.CallOf(in); c2 != nil {
				if _, isGo := in.(*ssa.Go); !isGo && closes(c2, depth+1) {
					found = true
				}
			}
		})
		return found
	}
	paths, _ := an.EnumPaths(fn, 4096)
	n := 0
	for _, p := range paths {
		if p.Return == nil || !p.Passes(site) {
			continue
		}
		n++
		ok := false
		for _, in := range p.InstrSeq() {
			switch x := in.(type) {
			case *ssa.Defer:
				if closes(&x.Call, 0) {
					ok = true
				}
			case *ssa.Call:
				if closes(&x.Call, 0) {
					ok = true
				}
			}
		}
		if !ok {
			return an.NameOf(fn) + " returns under [" + p.CondString() + "] without closing the listener"
		}
	}
	if n == 0 {
		return "no returning path of " + an.NameOf(fn) + " passes the go statement"
	}
	return ""
}

// argAtOnlySite: the argument bound to parameter p at the only call, go or defer site of p's function inside fns (nil otherwise).
func argAtOnlySite(p *ssa.Parameter, fns []*ssa.Function) ssa.Value {
	fn := p.Parent()
	idx := -1
	for i, q := range fn.Params {
		if q == p {
			idx = i
		}
	}
	var arg ssa.Value
	n := 0
	for _, g := range fns {
		an.AllInstrs(g, func(in ssa.Instruction) {
			cc := an.CallOf(in)
			if cc == nil || an.StaticCallee(cc) != fn || idx < 0 || idx >= len(cc.Args) {
				return
			}
			n++
			arg = cc.Args[idx]
		})
	}
	if n != 1 {
		return nil
	}
	return arg
}
