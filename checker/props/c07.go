package props

import (
	"fmt"
	"go/token"
	"sort"
	"strings"

	"golang.org/x/tools/go/ssa"

	"sfcheck/an"
	"sfcheck/core"
)

var exemptKinds = map[string]bool{"Logon": true, "Logout": true, "Reject": true}

func allExempt(kinds []string) bool {
	if len(kinds) == 0 {
		return false
	}
	for _, k := range kinds {
		if !exemptKinds[k] {
			return false
		}
	}
	return true
}

// sendPrimitives are the functions that only forward their own parameter to the router.
func (s *sess) isSendPrimitive(fn *ssa.Function) bool {
	if fn == nil || fn.Signature.Recv() == nil {
		return false
	}
	switch an.NameOf(fn) {
	case "send", "sendWithErrorCheck", "Send":
		return an.FuncIs(fn, "session", "Session."+an.NameOf(fn))
	}
	return false
}

// inPkgCallers counts static call sites of fn inside package session.
func (s *sess) inPkgCallers(fn *ssa.Function) int {
	n := 0
	for _, f := range s.allFuncs() {
		an.AllInstrs(f, func(in ssa.Instruction) {
			if cc := an.CallOf(in); cc != nil && an.StaticCallee(cc) == fn {
				n++
			}
		})
	}
	return n
}

func isExported(name string) bool { return name != "" && name[0] >= 'A' && name[0] <= 'Z' }

func init() {
	register(&Check{ID: "C07", NeedSSA: true, Run: runC07})
}

func runC07(c *core.Ctx, o Options) {
	c.Explanation = "Rule G1: on every acyclic path of every entry point of package session (registered inbound/outbound handlers, event callbacks, " +
		"AfterFunc callbacks, exported methods; same-package callees spliced in) each send whose message kind is not Logon, Logout or Reject " +
		"must happen in an abstract session state that excludes WaitingLogon and WaitingLogonAnswer (⊤ at entry, refined only by guards on Session.state " +
		"and by the path's own changeState calls, closed under the transitions other goroutines can make). Rule G2: Session.start (which starts the timer " +
		"goroutines) is called only behind the approved-logon checks of the Logon handler or from the logon event's callback, and those checks test against the configured limits (the settings installed from the peer's Logon keep HeartBtLimits of the settings they replace). Rule G3: goroutines that send " +
		"are spawned only by Session.start and send only Heartbeat/TestRequest. Census: every send site of the package is reached by some analysed entry point. " +
		"Decides the library's own sends for every inbound history; does not decide what the application sends through Session.Send/Handler.Send."
	c.Assume("messages of kind K are exactly the values of static type session/messages.KBuilder (the builders are supplied by the application's Opts)")
	c.Assume("Session.Send / Handler.Send / SendRaw called by the application are out of scope of the property")
	s := newSess(c)
	if s == nil {
		return
	}
	pre := s.m.Set("WaitingLogon", "WaitingLogonAnswer")
	startFn := s.m.Method("start")
	c.Anchor("timer start function", startFn != nil, "(*Session).start", posOf(startFn))

	type siteKey struct {
		in ssa.Instruction
	}
	covered := map[ssa.Instruction]bool{}
	type agg struct {
		ob   *core.Obligation
		bad  []string
		good int
	}
	aggs := map[string]*agg{}
	var order []string
	startSites := map[ssa.Instruction]*agg{}
	spawnInStart := map[*ssa.Function]bool{}

	roots := s.roots()
	nTraces := 0
	for _, r := range roots {
		if s.isSendPrimitive(r.Fn) {
			continue
		}
		if r.Cat == "method" && !isExported(an.NameOf(r.Fn)) && s.inPkgCallers(r.Fn) > 0 && an.NameOf(r.Fn) != "init" {
			continue // analysed in the context of its callers (spliced)
		}
		traces := s.tr.Traces(r.Fn, s.m.AllStates)
		if s.tr.Overflow {
			c.Ob("G1", r.Name(), "path-enumeration", r.Fn.Pos()).Unknown("more than %d paths", s.tr.MaxPaths)
		}
		nTraces += len(traces)
		for _, t := range traces {
			for i, e := range t.Events {
				switch e.Kind {
				case "send":
					covered[e.Instr] = true
					kinds := strings.Join(e.Kinds, "|")
					key := fmt.Sprintf("%s|send(%s)via %s in %s", r.Name(), kinds, e.Name, an.NameOf(e.Fn))
					a := aggs[key]
					if a == nil {
						a = &agg{ob: c.Ob("G1", r.Name(), fmt.Sprintf("send(%s) via %s in %s", kinds, e.Name, an.NameOf(e.Fn)), e.Pos)}
						aggs[key] = a
						order = append(order, key)
					}
					switch {
					case allExempt(e.Kinds):
						a.good++
						a.ob.Fact("kind %s is always permitted", kinds)
					case r.Cat == "goroutine":
						// G3
						okKinds := true
						for _, k := range e.Kinds {
							if k != "Heartbeat" && k != "TestRequest" {
								okKinds = false
							}
						}
						parent := spawnerOf(r)
						if okKinds && parent == startFn && startFn != nil {
							a.good++
							a.ob.Fact("G3: timer goroutine spawned by start sends %s; start is reached only after an approved logon (G2)", kinds)
							spawnInStart[r.Fn] = true
						} else {
							a.bad = append(a.bad, fmt.Sprintf("a goroutine (spawned in %s) sends %s; only the timer goroutines of start may send, and only Heartbeat/TestRequest", nameOf(parent), kinds))
						}
					case r.Cat == "method" && an.NameOf(r.Fn) == "Send" && len(e.Kinds) == 1 && strings.HasPrefix(e.Kinds[0], "Param:"):
						a.good++
						a.ob.Fact("public send API: the message is the application's")
					case e.Pre&pre == 0:
						a.good++
						a.ob.Fact("abstract state %s on path: %s", s.m.SetString(e.Pre), traceStr(&an.Trace{Events: t.Events[:i]}))
					default:
						a.bad = append(a.bad, fmt.Sprintf("reached with abstract state %s (may be before logon) on path: %s", s.m.SetString(e.Pre), traceStr(&an.Trace{Events: t.Events[:i+1]})))
					}
				case "check":
					if e.Name != "start" {
						continue
					}
					a := startSites[e.Instr]
					if a == nil {
						a = &agg{ob: c.Ob("G2", r.Name(), "call of start in "+an.NameOf(e.Fn), e.Pos)}
						startSites[e.Instr] = a
					}
					okCtx := false
					why := ""
					if r.Cat == "event" && strings.HasPrefix(r.Key, "EventLogon@") {
						okCtx = true
						why = "callback of the logon event, which only changeState(SuccessfulLogged, true) triggers"
					} else if r.Cat == "inbound" && strings.HasPrefix(r.Key, "Logon@") {
						prm, app := false, false
						for _, p := range t.Events[:i] {
							if p.Kind == "check" && p.Name == "params" && p.Outcome == "true" {
								prm = true
							}
							if p.Kind == "check" && p.Name == "app" && p.Outcome == "ok" {
								app = true
							}
						}
						if prm && app && e.Pre == s.m.Set("WaitingLogon") {
							okCtx = true
							why = "Logon handler, state {WaitingLogon}, after parameter check and application approval"
						} else {
							why = fmt.Sprintf("Logon handler but params-ok=%v app-ok=%v state=%s", prm, app, s.m.SetString(e.Pre))
						}
					} else {
						why = "called from " + r.Name()
					}
					if okCtx {
						a.good++
						a.ob.Fact("%s", why)
					} else {
						a.bad = append(a.bad, "timers may be started only by an approved logon: "+why)
					}
				}
			}
		}
	}
	for _, k := range order {
		a := aggs[k]
		if len(a.bad) > 0 {
			a.ob.Fail("%s", a.bad[0])
			if len(a.bad) > 1 {
				a.ob.Fact("%d more offending paths", len(a.bad)-1)
			}
		} else {
			a.ob.Ok("%d path(s), all guarded or of a permitted kind", a.good)
			if len(a.ob.Facts) > 2 {
				a.ob.Facts = a.ob.Facts[:2]
			}
		}
	}
	var ss []*agg
	for _, a := range startSites {
		ss = append(ss, a)
	}
	sort.Slice(ss, func(i, j int) bool { return ss[i].ob.Key < ss[j].ob.Key })
	for _, a := range ss {
		if len(a.bad) > 0 {
			a.ob.Fail("%s", a.bad[0])
		} else {
			a.ob.Ok("%d path(s)", a.good)
			if len(a.ob.Facts) > 1 {
				a.ob.Facts = a.ob.Facts[:1]
			}
		}
	}
	c.Check(len(startSites) >= 1, "G2", "start", "start has call sites", posOf(startFn), "start is called from the analysed entry points", "no call of start found: the timers would never run (or the anchor moved)")
	// start must not be used as a value (it would escape the who-may-call rule)
	if startFn != nil {
		uses := 0
		for _, f := range s.allFuncs() {
			an.AllInstrs(f, func(in ssa.Instruction) {
				for _, op := range in.Operands(nil) {
					if *op == ssa.Value(startFn) {
						if cc := an.CallOf(in); cc != nil && cc.Value == ssa.Value(startFn) {
							continue
						}
						uses++
					}
				}
			})
		}
		c.Check(uses == 0, "G2", "start", "start never used as a function value", posOf(startFn), "start is only called directly", fmt.Sprintf("start is used as a value at %d site(s); its callers cannot be enumerated", uses))
	}
	// G2 premise: the approved-logon checks test against the limits the application configured — the settings the Logon handler
	// installs before those checks keep HeartBtLimits (and the timeouts) of the settings they replace
	s.checkSettingsPreserved("G2")
	// G2 premise: an accepting session never rests in WaitingLogonAnswer (where the next Logon is accepted unchecked as the
	// answer to its own), and the Logon is parsed into a builder of its own (fields absent from this Logon are absent, not
	// left over from another session's)
	s.checkApprovalIsTheCallbacks("G2")
	s.checkLogonParams("G2") // the approval test itself: a Logon that must be refused must not start the timers
	s.checkRestingSide("G2")
	if lf := s.one(true, "Logon"); lf != nil {
		s.checkParseFirst("G2", "Logon", lf, s.tr.Traces(lf, s.m.AllStates))
	}
	// census: every send site in the package is covered by an analysed entry point
	for _, f := range s.allFuncs() {
		if s.isSendPrimitive(f) {
			continue
		}
		an.AllInstrs(f, func(in ssa.Instruction) {
			cc := an.CallOf(in)
			if cc == nil {
				return
			}
			isSend := false
			if cal := an.StaticCallee(cc); cal != nil && s.isSendPrimitive(cal) {
				isSend = true
			}
			if cc.IsInvoke() && an.TypeIs(cc.Value.Type(), "session", "Handler") && strings.HasPrefix(cc.Method.Name(), "Send") {
				isSend = true
			}
			if !isSend {
				return
			}
			c.Check(covered[in], "census", an.NameOf(f), "send site reached by an analysed entry point", in.Pos(),
				"covered by G1", "this send site is not on any path of an analysed entry point (dead code or an unmodelled way of calling it)")
		})
	}
	// all go statements of the package
	for _, r := range roots {
		if r.Cat != "goroutine" {
			continue
		}
		parent := spawnerOf(r)
		hasSend := false
		for _, t := range s.tr.Traces(r.Fn, s.m.AllStates) {
			if len(sends(t)) > 0 {
				hasSend = true
			}
		}
		if hasSend {
			c.Check(parent == startFn, "G3", nameOf(parent), "sending goroutine "+an.NameOf(r.Fn)+" spawned", r.Site.Pos(),
				"spawned by start", "a goroutine that sends messages is spawned outside start")
		}
	}
	c.Extra["entry_points"] = len(roots)
	c.Extra["paths"] = nTraces
	// G4: a message that cannot be decoded gets its Reject and nothing else happens — a damaged Logon that is rejected and then
	// processed all the same would log the session on (answer, timers, heartbeats) without a valid Logon
	for _, kind := range adminKinds {
		if fn := s.one(true, kind); fn != nil {
			s.checkParseErrorPaths("G4", kind, fn, s.tr.Traces(fn, s.m.AllStates))
		}
	}
	c.Explanation += " G4 (= C16.J1): on every path of an administrative handler on which Unmarshal failed there is exactly one Reject built from the raw bytes and nothing else — a damaged Logon that is rejected and then processed all the same would start the session without a valid Logon."
	// G5 (premises): "refused" presupposes that a damaged or non-conforming message is seen as such — the integrity rules of C03,
	// the anchored first-occurrence lookup the dispatcher and the rejects use, and exact value parsers
	c.RulePrefix = "G5"
	integrityRules(c)
	if vbt := c.Func("fix", "ValueByTag"); vbt != nil {
		needleCensus(c, "G5", []*ssa.Function{vbt})
	}
	checkCodecs(c, "G5", map[string]bool{"frombytes": true})
	// a Logon whose repeating groups contradict their count fields (every header carries NoHops, the Logon NoMsgTypes) is
	// non-conforming too: the decoder's group rules of C02 hold
	decoderRules(c)
	c.RulePrefix = ""
	c.Explanation += " G5 premises: the integrity rules of C03, the anchored first-occurrence needles of ValueByTag the exact value parsers of the codec table, and the decoder rules R3–R8 of C02 (an entry count that disagrees with the entries is an error)."
	c.Explanation += " G2 also: Session.LogonHandler is only assigned a parameter (the application's callback itself), and a function that recovers from a panic sets its error result."
	// G5 (premises): only a message of type Logon reaches the Logon handler (exact dispatch), the session's Logon handler runs in
	// registration order, and a HeartBtInt the timers cannot be built with is refused (utils.NewTimer's checks)
	checkInboundDispatch(c, "G5")
	checkPoolGrowOnly(c, "G5")
	checkTimerType(c, "G5")
	c.Explanation += " G5 also: exact inbound dispatch by MsgType (= C19.H4), handler lists grow at their end only (= C19.H2), utils.Timer as in C08.W4 (NewTimer refuses periods it cannot poll)."
	c.RuleMin = map[string]int{"G1": 14, "G2": 8, "G3": 2, "census": 12, "G4": 5, "G5": 30}
	c.MinObl = 20
}

func posOf(fn *ssa.Function) token.Pos {
	if fn == nil {
		return token.NoPos
	}
	return fn.Pos()
}

func nameOf(fn *ssa.Function) string {
	if fn == nil {
		return "?"
	}
	return an.NameOf(fn)
}

// spawnerOf is the function that contains the go statement of a goroutine root (for a literal this is its enclosing function).
func spawnerOf(r root) *ssa.Function {
	p := r.Fn.Parent()
	if r.Site != nil {
		p = r.Site.Parent()
	}
	// a step cut out of its caller (a helper that launches the timer loops) spawns on the caller's behalf
	if p != nil && p.Parent() == nil {
		if owner, chain := an.LogicalOwner(p); owner != nil && len(chain) > 0 {
			return owner
		}
	}
	return p
}
