package props

import (
	"fmt"
	"go/token"
	"go/types"
	"strings"

	"golang.org/x/tools/go/ssa"

	"sfcheck/an"
	"sfcheck/core"
)

func init() {
	register(&Check{ID: "C02", NeedSSA: true, Run: runC02})
}

// valueImpls lists the implementations of fix.Value in package fix (pointer types).
func valueImpls(c *core.Ctx) []string {
	fixPkg := c.Pkg("fix")
	iface, _ := fixPkg.Types.Scope().Lookup("Value").Type().Underlying().(*types.Interface)
	var out []string
	for _, n := range fixPkg.Types.Scope().Names() {
		tn, ok := fixPkg.Types.Scope().Lookup(n).(*types.TypeName)
		if !ok || types.IsInterface(tn.Type()) || iface == nil {
			continue
		}
		if types.Implements(types.NewPointer(tn.Type()), iface) {
			out = append(out, n)
		}
	}
	return out
}

// typeSwitchCase: on path p, which *fix.T did the type switch on value v select ("" = default)?
func switchedType(p *an.Path, operand string) (string, []string) {
	sel := ""
	var rejected []string
	for _, a := range p.Atoms {
		if operand == "" {
			// any operand: "<x>.(*fix.T)#1"
			i := strings.Index(a.L, ".(*fix.")
			if i < 0 || !strings.HasSuffix(a.L, ")#1") || strings.ContainsAny(a.L[:i], " (") {
				continue
			}
			t := strings.TrimSuffix(a.L[i+len(".(*fix."):], ")#1")
			if a.Rel == "true" {
				sel = t
			} else {
				rejected = append(rejected, t)
			}
			continue
		}
		if !strings.HasPrefix(a.L, operand+".(*fix.") || !strings.HasSuffix(a.L, ")#1") {
			continue
		}
		t := strings.TrimSuffix(strings.TrimPrefix(a.L, operand+".(*fix."), ")#1")
		if a.Rel == "true" {
			sel = t
		} else {
			rejected = append(rejected, t)
		}
	}
	return sel, rejected
}

func runC02(c *core.Ctx, o Options) {
	c.Explanation = "Structural necessary conditions for 'parsing inverts serialization': R1 — every value type's formatter and parser are an inverse pair from the frozen codec table, Float keeps its source bytes and prefers them; R2 — KeyValue.AsTemplate has a case for every implementation of fix.Value and returns the same concrete type " +
		"(a group entry's field must be parsed into the type its typed getter asserts); R3 — the Item switches of Group.AsTemplate, Component.AsTemplate and the decoder cover KeyValue, Group and Component and rebuild the same kind, at the same index, for every element; R4 — one fresh template per group entry: the entry is created by AsTemplate() inside the per-entry loop, " +
		"filled from piece i and added exactly once, i ascending from 0 to the parsed count, which equals the number of pieces; R5 — a value is exactly the bytes from the end of its anchored 'tag=' to the next delimiter (first occurrence) or the end, handed to FromBytes unmodified; R6 — splitGroup partitions its input (the upper cut of a piece is the lower cut of the remainder) " +
		"and a count mismatch is an error; R7 — every loop over template items in the decoder visits the whole slice and leaves early only with an error; R8 — group entries are cut at occurrences of SOH·firstTag·'=' (the whole tag up to and including '='), found after the current entry's first byte. Not decided: equality of values over all inputs, the choice among several well-anchored occurrences (C18), field order."
	checkCodecs(c, "R1", map[string]bool{"tobytes": true, "frombytes": true, "isnull": true, "set": true})
	// ---- R2
	checkTypedTemplates(c, "R2")
	// ---- R3
	checkTemplateRebuild(c, "R3")
	decoderRules(c)
	c.Explanation += " R4 also requires that nothing stores into the slice of pieces between the split and the per-entry decode (an entry shortened or replaced on the way silently loses the fields behind the cut)."
	c.Explanation += " R1 also covers Set of every value type (a Set that keeps the source text of an earlier parse re-emits the old value)."
	c.Explanation += " R4 converse: the declared count of a group takes part in no comparison other than with the number of pieces found (and the loop bound)."
	// R9 (premises): what was parsed stays what it is — the parser keeps slices of its input, so the serializer never reuses the image
	// it handed out; value constructors hand out fresh objects
	checkImageFresh(c, "R9")
	checkFreshConstructors(c, "R9")
	checkKeyValuePlain(c, "R9")
	c.Explanation += " R9 premises: fresh wire image per Prepare (= C05.K9); fresh objects from the constructors; KeyValue.FromBytes passes the bytes through and no KeyValue gets a nil value."
	c.RuleMin = map[string]int{"R1": 28, "R2": 1, "R3": 5, "R4": 2, "R5": 2, "R6": 1, "R7": 3, "R8": 8}
	c.MinObl = 30
}

// decoderRules are the rules R3–R8 of C02 about the decoder proper (the Item switch, the per-entry loop of groups, the value
// extraction, the group separator and needles, the partition into entries, the item loops). C17 runs them as a premise: a field
// counts as populated by parsing only if the parser puts each value of the message into its own field of its own entry.
func decoderRules(c *core.Ctx) {
	um := c.Func("fix/encoding", "state.unmarshal")
	sk := c.Func("fix/encoding", "state.scanKeyValue")
	sg := c.Func("fix/encoding", "splitGroup")
	if !c.Anchor("decoder functions", um != nil && sk != nil && sg != nil, "state.unmarshal, scanKeyValue, splitGroup", posOf(um)) {
		return
	}
	umPaths, _ := an.EnumPaths(um, 20000)
	{
		// decoder switch: cases for KeyValue (→ scanKeyValue(data, el)), Group, Component; default → error
		seen := map[string]bool{}
		okDefault := false
		for _, p := range umPaths {
			if p.Return == nil {
				continue
			}
			sel, rej := switchedType(p, "fixItem")
			if sel != "" {
				seen[sel] = true
			}
			if sel == "" && len(rej) >= 3 && p.Results[0] != "nil" {
				okDefault = true
			}
			if sel == "" && len(rej) >= 3 && p.Results[0] == "nil" {
				okDefault = false
			}
		}
		c.Check(seen["KeyValue"] && seen["Group"] && seen["Component"] && okDefault, "R3", "state.unmarshal", "handles KeyValue, Group and Component; anything else is an error", um.Pos(), fmt.Sprint(seen), fmt.Sprintf("cases %v, default returns an error: %v", seen, okDefault))
		var skCall *ssa.Call
		an.AllInstrs(um, func(in ssa.Instruction) {
			// the call of the KeyValue case: the one that is given the switched element (the group case may scan its count
			// field with a direct call of its own)
			if call, ok := in.(*ssa.Call); ok && an.StaticCallee(&call.Call) == sk && len(call.Call.Args) == 3 {
				if skCall == nil || an.Render(call.Call.Args[2]) == "fixItem.(*fix.KeyValue)#0" {
					skCall = call
				}
			}
		})
		// every lookup inside the decoder works on the data of its own scope: a group's count field (or anything else) looked up in
		// the scanner's whole input finds the count of an earlier group with the same tag
		{
			whole := ""
			for _, f := range append([]*ssa.Function{um}, pkgHelpersOf(um)...) {
				an.AllInstrs(f, func(in ssa.Instruction) {
					call, ok := in.(*ssa.Call)
					if !ok {
						return
					}
					cal := an.StaticCallee(&call.Call)
					if (cal != sk && cal != um) || len(call.Call.Args) < 2 {
						return
					}
					if fld, base := an.LoadedField(call.Call.Args[1]); fld != nil && base != nil && an.FieldName(fld) == "data" {
						whole = an.Render(call) + " in " + an.NameOf(f)
					}
				})
			}
			c.Check(whole == "", "R3", "state.unmarshal", "nested lookups work on the data of their own scope, not on the scanner's whole input", um.Pos(), "data argument is the scope's own slice", whole+": a field of a nested scope is looked up in the whole message, so the first occurrence anywhere in the message is taken")
		}
		c.Check(skCall != nil && an.Render(skCall.Call.Args[1]) == "data" && an.Render(skCall.Call.Args[2]) == "fixItem.(*fix.KeyValue)#0", "R3", "state.unmarshal", "a KeyValue is scanned in the data it was given", um.Pos(), "scanKeyValue(data, el)", "the KeyValue case does not scan its own data for its own element")
	}
	// ---- R4 per-entry loop (in the group case itself, or in a helper of the package that is handed the group and the pieces)
	{
		var split *ssa.Call
		an.AllInstrs(um, func(in ssa.Instruction) {
			if call, ok := in.(*ssa.Call); ok && an.StaticCallee(&call.Call) == sg {
				split = call
			}
		})
		// splitVal: the value that holds the pieces in the group case — the splitGroup call itself, or the first result of a
		// helper cut out of the group case that makes the call and returns its result on every path that returns a list
		var splitVal ssa.Value
		if split != nil {
			splitVal = split
		} else {
			an.AllInstrs(um, func(in ssa.Instruction) {
				call, ok := in.(*ssa.Call)
				if !ok {
					return
				}
				h := an.StaticCallee(&call.Call)
				if h == nil || h == um || h.Pkg != um.Pkg || an.IsKnown(h) {
					return
				}
				if owner, _ := an.LogicalOwner(h); owner != um {
					return
				}
				var inner *ssa.Call
				an.AllInstrs(h, func(i2 ssa.Instruction) {
					if c2, ok := i2.(*ssa.Call); ok && an.StaticCallee(&c2.Call) == sg {
						inner = c2
					}
				})
				if inner == nil {
					return
				}
				okRet := true
				ps, _ := an.EnumPaths(h, 256)
				for _, p := range ps {
					if p.Return == nil || len(p.ResVals) == 0 {
						continue
					}
					r := an.ResolveOnPath(p.ResVals[0], p)
					if !an.IsNilConst(r) && r != ssa.Value(inner) {
						okRet = false
					}
				}
				if !okRet {
					return
				}
				for _, ref := range *call.Referrers() {
					if ex, ok := ref.(*ssa.Extract); ok && ex.Index == 0 {
						split, splitVal = inner, ex
					}
				}
				if h.Signature.Results().Len() == 1 {
					split, splitVal = inner, call
				}
			})
		}
		// lf: the function that holds the loop; pieces: the split result as lf sees it; entry: the instruction of um that leads into the loop
		lf := um
		var pieces ssa.Value
		var entry ssa.Instruction
		var group ssa.Value // the group as lf sees it
		if split != nil {
			pieces = splitVal
			an.AllInstrs(um, func(in ssa.Instruction) {
				call, ok := in.(*ssa.Call)
				if !ok {
					return
				}
				h := an.StaticCallee(&call.Call)
				if h == nil || h == um || h == sg || h.Pkg != um.Pkg || len(h.Blocks) == 0 || an.KnownFuncs[h.String()] {
					return
				}
				for i, a := range call.Call.Args {
					if a == splitVal && i < len(h.Params) {
						lf, pieces, entry = h, h.Params[i], call
						for j, b := range call.Call.Args {
							if an.TypeIs(b.Type(), "fix", "Group") && j < len(h.Params) {
								group = h.Params[j]
							}
						}
					}
				}
			})
		}
		var asT, addE, rec *ssa.Call
		recWhole := false // rec hands the whole fresh entry to an item-loop helper
		if pieces != nil {
			an.AllInstrs(lf, func(in ssa.Instruction) {
				call, ok := in.(*ssa.Call)
				if !ok {
					return
				}
				switch {
				case an.CalleeIs(&call.Call, "fix", "Group.AsTemplate"):
					asT = call
				case an.CalleeIs(&call.Call, "fix", "Group.AddEntry"):
					addE = call
				case an.StaticCallee(&call.Call) == um:
					if ia, ok := unload(call.Call.Args[1]).(*ssa.IndexAddr); ok && ia.X == pieces {
						rec = call
					}
				case isItemLoopHelper(an.StaticCallee(&call.Call), um) && len(call.Call.Args) >= 3:
					// a helper that parses the data it is given into each item of the list it is given, in order
					if ia, ok := unload(call.Call.Args[1]).(*ssa.IndexAddr); ok && ia.X == pieces {
						rec, recWhole = call, true
					}
				}
			})
		}
		var bad []string
		// the pieces reach the per-entry decode as splitGroup cut them: nothing stores into the slice of pieces (an entry that is
		// shortened or replaced on the way loses the fields behind the cut — silently, parsing still reports success)
		for _, f := range []*ssa.Function{um, lf} {
			if f == nil || pieces == nil {
				continue
			}
			want := splitVal
			if f == lf && lf != um {
				want = pieces
			}
			an.AllInstrs(f, func(in ssa.Instruction) {
				if st, ok := in.(*ssa.Store); ok {
					if ia, ok := st.Addr.(*ssa.IndexAddr); ok && unload(ia.X) == want || ok && ia.X == want {
						bad = append(bad, "a piece is overwritten after the split ("+an.Render(st.Addr)+" = "+an.Render(st.Val)+" at "+c.RelPos(st.Pos())+")")
					}
				}
			})
			if f == lf {
				break
			}
		}
		if asT == nil || addE == nil || split == nil || rec == nil {
			bad = append(bad, "the group case lacks AsTemplate / AddEntry / splitGroup / the per-piece recursive call")
		} else {
			if lf == um {
				entry = asT
			} else if group == nil || asT.Call.Args[0] != group || addE.Call.Args[0] != group {
				bad = append(bad, "the helper "+an.NameOf(lf)+" does not build and add the entries on the group it is given")
			}
			var iPhi *ssa.Phi
			if ia, ok := unload(rec.Call.Args[1]).(*ssa.IndexAddr); ok {
				iPhi = rangeIndexPhi(ia.Index)
				if iPhi == nil {
					bad = append(bad, "entries are not filled from pieces in ascending order starting at 0")
				}
			}
			if iPhi != nil {
				head := iPhi.Block()
				loopBlocks := map[*ssa.BasicBlock]bool{}
				for _, lp := range loops(lf) {
					isThis := false
					for _, b := range lp {
						if b == head {
							isThis = true
						}
					}
					if isThis {
						for _, b := range lp {
							loopBlocks[b] = true
						}
					}
				}
				if !loopBlocks[asT.Block()] {
					bad = append(bad, "AsTemplate() is called outside the per-entry loop: all entries share one template and overwrite each other")
				}
				if !loopBlocks[addE.Block()] || addE.Call.Args[1] != ssa.Value(asT) {
					bad = append(bad, "the entry added is not the template created in the same iteration")
				}
				if inLoop2(addE.Block(), asT.Block(), head) {
					bad = append(bad, "the entry is added inside the item loop (once per item instead of once per entry)")
				}
				// template items filled: range over the fresh entry, item t77[j]
				if recWhole {
					if rec.Call.Args[2] != ssa.Value(asT) {
						bad = append(bad, "the items filled are not the items of the fresh entry, in order")
					}
				} else if ia2, ok := unload(rec.Call.Args[2]).(*ssa.IndexAddr); !ok || ia2.X != ssa.Value(asT) || rangeIndexPhi(ia2.Index) == nil {
					bad = append(bad, "the items filled are not the items of the fresh entry, in order")
				}
				// loop bound = parsed count, and count == number of pieces on every path into the loop
				bound := ""
				var boundVal ssa.Value
				for _, ref := range *iPhi.Referrers() {
					if bo, ok := ref.(*ssa.BinOp); ok && bo.Op == token.LSS && bo.X == ssa.Value(iPhi) {
						bound = an.Render(bo.Y)
						boundVal = bo.Y
					}
					// range lowering: the index is phi+1 and that is what is compared with the length
					if inc, ok := ref.(*ssa.BinOp); ok && inc.Op == token.ADD && inc.X == ssa.Value(iPhi) && inc.Referrers() != nil {
						for _, r2 := range *inc.Referrers() {
							if bo, ok := r2.(*ssa.BinOp); ok && bo.Op == token.LSS && bo.X == ssa.Value(inc) && boundVal == nil {
								bound = an.Render(bo.Y)
								boundVal = bo.Y
							}
						}
					}
				}
				isLenOf := func(v, of ssa.Value) bool {
					call, ok := v.(*ssa.Call)
					if !ok {
						return false
					}
					b, ok := call.Call.Value.(*ssa.Builtin)
					return ok && b.Name() == "len" && call.Call.Args[0] == of
				}
				isLenOfSplit := func(v ssa.Value) bool { return isLenOf(v, splitVal) }
				boundIsLenOfPieces := isLenOf(boundVal, pieces)
				// the helper may be handed the count: the bound is then what the caller passes for that parameter, and the
				// caller must have compared it with the number of pieces
				callerBound := false
				if lf != um && !boundIsLenOfPieces {
					if prm, isP := boundVal.(*ssa.Parameter); isP {
						if call, isC := entry.(*ssa.Call); isC {
							for i, q := range lf.Params {
								if q == prm && i < len(call.Call.Args) {
									boundVal = call.Call.Args[i]
									bound = an.Render(boundVal)
									callerBound = true
								}
							}
						}
					}
				}
				if lf != um && !boundIsLenOfPieces && !callerBound {
					bad = append(bad, "the helper's loop does not run over the pieces it is given (bound "+bound+")")
				}
				cntOK := false
				for _, p := range umPaths {
					if !p.Passes(entry) {
						continue
					}
					found := false
					for _, a := range p.Atoms {
						if bo, ok := a.Val.(*ssa.BinOp); ok && a.Rel == "==" {
							if (lf == um || callerBound) && ((isLenOfSplit(bo.X) && bo.Y == boundVal) || (isLenOfSplit(bo.Y) && bo.X == boundVal)) {
								found = true
							}
							// range over the pieces themselves: the loop bound is len(pieces); the comparison with the parsed count must still be on the path
							if boundIsLenOfPieces {
								for _, pair := range [][2]ssa.Value{{bo.X, bo.Y}, {bo.Y, bo.X}} {
									if isLenOfSplit(pair[0]) && strings.HasSuffix(an.Render(pair[1]), ".Value.Value().(int)") {
										found = true
										bound = an.Render(pair[1])
									}
								}
							}
						}
					}
					if !found {
						cntOK = false
						break
					}
					cntOK = true
				}
				if !cntOK {
					bad = append(bad, "the per-entry loop is entered without the number of pieces having been compared with the parsed count ("+bound+"): a count mismatch must be an error")
				}
				if !strings.HasSuffix(bound, ".Value.Value().(int)") {
					bad = append(bad, "the loop bound is "+bound+", not the parsed count field")
				}
				// a helper's error is the group case's error
				if lf != um {
					if call, ok := entry.(*ssa.Call); ok {
						okErr := false
						for _, p := range umPaths {
							if p.Return != nil && p.Passes(call) && len(p.ResVals) == 1 && an.Unspill(p.ResVals[0]) == ssa.Value(call) {
								okErr = true
							}
						}
						if !okErr {
							// or tested and returned non-nil
							for _, p := range umPaths {
								if p.Return != nil && p.Passes(call) && p.Has(an.Render(call)+" != nil") && len(p.Results) == 1 && p.Results[0] != "nil" {
									okErr = true
								}
							}
						}
						if !okErr {
							bad = append(bad, "the error of "+an.NameOf(lf)+" is not returned by the group case")
						}
					}
				}
			}
		}
		c.Check(len(bad) == 0, "R4", "state.unmarshal", "one fresh template per entry, filled from piece i, added once, for i = 0 … count−1 = pieces−1", um.Pos(), "AsTemplate inside the loop; AddEntry(entry) after the item loop; len(pieces) == count", strings.Join(bad, "; "))
	}
	// R4 (converse): the declared count decides nothing but the comparison with the number of entries found (and the loop bound) —
	// any other test of it (a plausibility bound on the remaining bytes, a maximum) refuses messages the serializer produces
	checkCountUses(c, "R4", um)
	checkValueExtraction(c, "R5")
	// ---- R8 entries are cut at the whole first tag: the separator handed to splitGroup is SOH·firstTag·'='
	checkGroupSeparator(c, "R8")
	// … and every other search of the decoder recognises a tag only at a field boundary (a component or field judged absent
	// because of a look-alike, or present because of one, breaks the round trip)
	if enc := c.SSAPkg("fix/encoding"); enc != nil {
		needleCensus(c, "R8", pkgFuncs(enc))
	}
	// ---- R6 splitGroup partition
	{
		paths, _ := an.EnumPaths(sg, 256)
		var bad []string
		nFound, nLast := 0, 0
		// the loop-carried rest of the line
		var carried *ssa.Phi
		for _, b := range sg.Blocks {
			for _, in := range b.Instrs {
				if phi, ok := in.(*ssa.Phi); ok && phi.Type().Underlying().String() == "[]byte" {
					carried = phi
				}
			}
		}
		for _, p := range paths {
			if !p.Loop {
				// a final iteration that returns from inside the loop: what it appends must be the whole rest
				if p.Return == nil || carried == nil {
					continue
				}
				for _, b := range p.Blocks {
					for _, in := range b.Instrs {
						call, ok := in.(*ssa.Call)
						if !ok {
							continue
						}
						if bi, ok := call.Call.Value.(*ssa.Builtin); !ok || bi.Name() != "append" {
							continue
						}
						elems, ok := an.SliceElems(call.Call.Args[1])
						if !ok || len(elems) != 1 {
							continue
						}
						whole := elems[0] == ssa.Value(carried)
						if sl, isSl := elems[0].(*ssa.Slice); isSl && sl.X == ssa.Value(carried) && sl.Low == nil {
							pr := an.NewProver(sg, p, nil, nil)
							whole = sl.High == nil || pr.Lin(sl.High).String() == "len("+an.Render(carried)+")"
						}
						nLast++
						if !whole {
							bad = append(bad, "the last piece is "+an.Render(elems[0])+", not the whole rest of the line")
						}
					}
				}
				continue
			}
			// the piece appended and the remainder on this way round
			var piece, remainder *ssa.Slice
			for _, b := range p.Blocks {
				for _, in := range b.Instrs {
					if call, ok := in.(*ssa.Call); ok {
						if bi, ok := call.Call.Value.(*ssa.Builtin); ok && bi.Name() == "append" {
							if elems, ok := an.SliceElems(call.Call.Args[1]); ok && len(elems) == 1 {
								piece, _ = elems[0].(*ssa.Slice)
							}
						}
					}
				}
			}
			// remainder: the value flowing into the loop-carried phi `line`
			last := p.Blocks[len(p.Blocks)-1]
			head := p.Blocks[1]
			for _, in := range head.Instrs {
				if phi, ok := in.(*ssa.Phi); ok && phi.Type().Underlying().String() == "[]byte" {
					for i, pred := range head.Preds {
						if pred == last {
							remainder, _ = phi.Edges[i].(*ssa.Slice)
						}
					}
				}
			}
			if piece == nil || remainder == nil {
				continue
			}
			pr := an.NewProver(sg, p, nil, nil)
			cut := pr.Lin(piece.High)
			if piece.Low != nil {
				bad = append(bad, "a piece does not start at the beginning of the remaining line")
			}
			isLast := false
			for _, a := range p.Atoms {
				if strings.HasPrefix(a.L, "bytes.Index(") && a.Rel == "==" && a.R == "-1" {
					isLast = true
				}
			}
			if isLast {
				nLast++
				if cut.String() != "len(line)" {
					bad = append(bad, "the last piece ends at "+cut.String()+", not at the end of the line")
				}
				continue
			}
			nFound++
			low := pr.Lin(remainder.Low)
			if cut.String() != low.String() {
				bad = append(bad, fmt.Sprintf("a piece ends at %s but the remainder starts at %s: bytes are dropped or duplicated between entries", cut.String(), low.String()))
			}
		}
		if nFound == 0 || nLast == 0 {
			bad = append(bad, fmt.Sprintf("iterations with a further separator: %d, final iterations: %d", nFound, nLast))
		}
		c.Check(len(bad) == 0, "R6", "splitGroup", "pieces partition the input: each piece ends where the remainder starts; the last piece ends at the end", sg.Pos(), "upper cut = lower cut", strings.Join(bad, "; "))
	}
	// ---- R7 whole-slice loops with error-only early exit
	checkItemLoops(c, "R7")
}

func unload(v ssa.Value) ssa.Value {
	if u, ok := v.(*ssa.UnOp); ok && u.Op == token.MUL {
		return u.X
	}
	return v
}

// inLoop2: block b lies in a loop nested inside the loop of head that does not contain block outer's position... simplified:
// b is inside an inner loop (a cycle that does not pass through head).
func inLoop2(b, outer, head *ssa.BasicBlock) bool {
	seen := map[*ssa.BasicBlock]bool{head: true}
	work := append([]*ssa.BasicBlock(nil), b.Succs...)
	for len(work) > 0 {
		x := work[0]
		work = work[1:]
		if x == b {
			return true
		}
		if seen[x] {
			continue
		}
		seen[x] = true
		work = append(work, x.Succs...)
	}
	return false
}

// checkValueExtraction (C02.R5, C14.Q4): the decoder hands FromBytes exactly the bytes between the matched 'tag=' and the next delimiter.
func checkValueExtraction(c *core.Ctx, rule string) {
	sk := c.Func("fix/encoding", "state.scanKeyValue")
	if !c.Anchor("field scanner", sk != nil, "state.scanKeyValue", posOf(sk)) {
		return
	}

	var fb *ssa.Call
	an.AllInstrs(sk, func(in ssa.Instruction) {
		if call, ok := in.(*ssa.Call); ok && an.CalleeIs(&call.Call, "fix", "KeyValue.FromBytes") {
			fb = call
		}
	})
	var bad []string
	if fb == nil || an.Render(fb.Call.Args[0]) != "el" {
		bad = append(bad, "scanKeyValue does not hand the value to el.FromBytes")
	} else {
		// (interprocedural paths: the search for the field may live in a helper that returns where it starts)
		paths, _ := an.EnumPathsX(sk, 256)
		n := 0
		for _, p := range paths {
			if !p.Passes(fb) {
				continue
			}
			n++
			arg := an.ResolveOnPath(fb.Call.Args[1], p)
			outer, ok := arg.(*ssa.Slice)
			if !ok || outer.Low != nil || outer.High == nil {
				bad = append(bad, "the value handed to FromBytes is "+an.RenderOnPath(arg, p)+", not a sub-slice value[:end] of the input")
				continue
			}
			inner, ok := an.ResolveOnPath(outer.X, p).(*ssa.Slice)
			if !ok || inner.High != nil || inner.Low == nil || an.RenderOnPath(inner.X, p) != "data" {
				bad = append(bad, "the value does not start inside data after the matched tag")
				continue
			}
			// start = match + len(tag=)
			pr := an.NewProver(sk, p, fb, nil)
			start := pr.Lin(inner.Low)
			// start − len("tag=") must be 0 (the field starts the data) or (anchored search result + 1)
			tagLen := an.LForm{C: map[string]int64{"len(el.Key)": 1}, K: 1}
			m := start.Add(tagLen, -1)
			okStart := m.IsConst() && m.K == 0
			if !okStart {
				for _, in := range p.InstrSeq() {
					if call, ok := in.(*ssa.Call); ok && an.CalleeIs(&call.Call, "bytes", "Index") && an.RenderOnPath(call.Call.Args[0], p) == "data" {
						ev := &an.SeqEval{Path: p}
						if ev.Eval(call.Call.Args[1]).Norm().String() == "'␁'·⟨el.Key⟩·'='" {
							if m.String() == pr.Lin(call).Add(an.LForm{C: map[string]int64{}, K: 1}, 1).String() {
								okStart = true
							}
						}
					}
				}
			}
			if !okStart {
				bad = append(bad, fmt.Sprintf("the value starts at %s: that is not right after a 'tag=' matched at the start of the data or by the SOH-anchored search", start.String()))
			}
			// end: first delimiter in the rest, or its end
			endR := an.RenderOnPath(outer.High, p)
			rest := an.RenderOnPath(inner, p)
			okEnd := false
			if hi, ok := an.ResolveOnPath(outer.High, p).(*ssa.Call); ok && (an.CalleeIs(&hi.Call, "bytes", "Index") || an.CalleeIs(&hi.Call, "bytes", "IndexByte")) && an.ResolveOnPath(hi.Call.Args[0], p) == ssa.Value(inner) {
				isSOH := false
				if k, okk := an.ConstInt(hi.Call.Args[1]); okk && k == 1 {
					isSOH = true
				} else {
					ev := &an.SeqEval{}
					isSOH = ev.Eval(hi.Call.Args[1]).Norm().String() == "'␁'"
				}
				// "found" in any spelling: the path's facts entail result ≥ 0
				if found, _ := pr.Prove(pr.Lin(hi)); isSOH && found {
					okEnd = true
				}
			}
			if endR == "len("+rest+")" {
				okEnd = true
			}
			if !okEnd {
				bad = append(bad, "the value ends at "+endR+", not at the first delimiter after it (or the end of the data)")
			}
		}
		if n == 0 {
			bad = append(bad, "no path reaches FromBytes")
		}
	}
	c.Check(len(bad) == 0, rule, "state.scanKeyValue", "value = data[match+len(tag=) : next SOH or end], handed to FromBytes unmodified", sk.Pos(), "exact sub-slice", strings.Join(bad, "; "))
	// a field that is not found leaves the element untouched and is not an error
	paths, _ := an.EnumPathsX(sk, 256)
	okAbsent := false
	for _, p := range paths {
		if p.Return != nil && !p.Passes(fb) && p.Results[0] == "nil" {
			okAbsent = true
		}
	}
	c.Check(okAbsent, rule, "state.scanKeyValue", "an absent field is not an error", sk.Pos(), "return nil", "a template field that is not in the message makes parsing fail")
	// … and only an absent field is skipped: a path that has located the field (it has cut the value out of the data) hands it to
	// FromBytes — a present field whose value is empty, or looks odd, is the value type's to judge (an Int cannot be parsed from
	// nothing: the message is not well-formed), not something to treat as absent
	if fb != nil {
		skipped := ""
		for _, p := range paths {
			if p.Return == nil || p.Passes(fb) || len(p.Results) != 1 || p.Results[0] != "nil" {
				continue
			}
			located := false
			for _, in := range p.InstrSeq() {
				if sl, ok := in.(*ssa.Slice); ok && sl.Low == nil && sl.High != nil {
					if inner, ok2 := an.ResolveOnPath(sl.X, p).(*ssa.Slice); ok2 && inner.Low != nil && an.RenderOnPath(inner.X, p) == "data" {
						located = true
					}
				}
			}
			if located {
				skipped = p.CondString()
			}
		}
		c.Check(skipped == "", rule, "state.scanKeyValue", "a located field is always handed to FromBytes", sk.Pos(), "no return between cutting the value and FromBytes",
			"scanKeyValue returns nil after it has located the field, without FromBytes, under ["+skipped+"]: a present but empty (or otherwise filtered) value is treated as if the field were absent — a damaged message decodes as well-formed")
	}
}

// checkTemplateRebuild: Group.AsTemplate and Component.AsTemplate rebuild every item as an empty copy of the same kind — a KeyValue
// from its own template, a Group with its own count tag and its own template, a Component from its own template — at the same index.
func checkTemplateRebuild(c *core.Ctx, rule string) {
	for _, name := range []string{"Group.AsTemplate", "Component.AsTemplate"} {
		fn := c.Func("fix", name)
		if !c.Anchor(name, fn != nil, name, posOf(fn)) {
			continue
		}
		var bad []string
		// tmp := make([]Item, len(items)); for i, item := range items { tmp[i] = rebuilt }
		src := map[string]string{"Group.AsTemplate": "g.template", "Component.AsTemplate": "c.items"}[name]
		// the body may live in a helper shared by both (return templateOf(g.template)): analyse it there, with the
		// parameter that receives the own item list as the source
		if body, args := an.DelegateTo(fn); body != fn {
			passed := ""
			for i, a := range args {
				if an.Render(a) == src && i < len(body.Params) {
					passed = an.Render(body.Params[i])
				}
			}
			if passed == "" {
				bad = append(bad, "the helper "+an.NameOf(body)+" that builds the copy is not given "+src)
			} else {
				fn, src = body, passed
			}
		}
		var mk *ssa.MakeSlice
		an.AllInstrs(fn, func(in ssa.Instruction) {
			if m, ok := in.(*ssa.MakeSlice); ok {
				mk = m
			}
		})
		if mk == nil || an.Render(mk.Len) != "len("+src+")" {
			bad = append(bad, "the copy is not allocated with one slot per template item (make(len("+src+")))")
		}
		want := map[string]string{
			"KeyValue":  ".AsTemplate()",
			"Group":     "fix.NewGroup(",
			"Component": "fix.NewComponent(",
		}
		seen := map[string]bool{}
		an.AllInstrs(fn, func(in ssa.Instruction) {
			st, ok := in.(*ssa.Store)
			if !ok {
				return
			}
			ia, ok := st.Addr.(*ssa.IndexAddr)
			if !ok || mk == nil || ia.X != ssa.Value(mk) {
				return
			}
			if rangeIndexPhi(ia.Index) == nil {
				bad = append(bad, "a rebuilt item is stored at "+an.Render(ia.Index)+", not at the position of the item it was built from")
				return
			}
			elem := src + "[" + an.Render(ia.Index) + "]"
			// candidates: the value stored, or — when it is the result of a one-argument helper of the package applied to the
			// element itself — what the helper returns on each of its paths, read in terms of its parameter
			cands := [][2]string{{elem, an.Render(an.Unwrap(st.Val))}}
			if call, ok := an.Unwrap(st.Val).(*ssa.Call); ok {
				if cal := an.StaticCallee(&call.Call); cal != nil && cal.Pkg == fn.Pkg && len(cal.Params) == 1 && len(call.Call.Args) == 1 && an.Render(call.Call.Args[0]) == elem && cal.Signature.Results().Len() == 1 {
					hp, _ := an.EnumPaths(cal, 64)
					for _, p := range hp {
						if p.Return != nil && len(p.ResVals) == 1 {
							cands = append(cands, [2]string{an.Render(cal.Params[0]), an.Render(an.Unwrap(p.ResVals[0]))})
						}
					}
				}
			}
			for _, cd := range cands {
				el, r := cd[0], cd[1]
				for kind, pat := range want {
					asserted := el + ".(*fix." + kind + ")#0"
					switch kind {
					case "KeyValue":
						if r == asserted+pat {
							seen[kind] = true
						}
					case "Group":
						// its own count tag, through the getter or the field it returns
						if r == pat+asserted+".NoTag(), "+asserted+".AsTemplate())" || r == pat+asserted+".noTag, "+asserted+".AsTemplate())" {
							seen[kind] = true
						}
					case "Component":
						if r == pat+asserted+".AsTemplate())" {
							seen[kind] = true
						}
					}
				}
			}
		})
		for kind := range want {
			if !seen[kind] {
				bad = append(bad, "no (correct) case rebuilding a *"+kind+" at its own index from its own template")
			}
		}
		// range over the whole source
		col := loops(fn)
		if len(col) != 1 {
			bad = append(bad, fmt.Sprintf("%d loops", len(col)))
		}
		ps, _ := an.EnumPaths(fn, 256)
		for _, p := range ps {
			if p.Return != nil && len(p.ResVals) == 1 && an.Unwrap(p.ResVals[0]) != ssa.Value(mk) {
				if ct, ok := p.ResVals[0].(*ssa.ChangeType); !ok || ct.X != ssa.Value(mk) {
					bad = append(bad, "the function does not return the rebuilt list")
				}
			}
		}
		c.Check(len(bad) == 0, rule, name, "rebuilds every item (KeyValue, Group, Component) as an empty copy of the same kind at the same index", fn.Pos(), "3 cases", strings.Join(bad, "; "))
	}
}

// checkItemLoops: every loop of the decoder that parses template items ranges over the whole slice and leaves early only by
// returning the (non-nil) error of the item just parsed — a dropped or shadowed error lets a damaged field pass as parsed.
func checkItemLoops(c *core.Ctx, rule string) {
	for _, fn := range pkgFuncs(c.SSAPkg("fix/encoding")) {
		spec := struct{ name string }{an.NameOf(fn)}
		for _, lp := range loops(fn) {
			inLp := map[*ssa.BasicBlock]bool{}
			for _, b := range lp {
				inLp[b] = true
			}
			// find the recursive/unmarshal call in the loop
			var call *ssa.Call
			var head *ssa.BasicBlock
			for _, b := range lp {
				for _, in := range b.Instrs {
					if cl, ok := in.(*ssa.Call); ok && an.CalleeIs(&cl.Call, "fix/encoding", "state.unmarshal") {
						call = cl
					}
					if bo, ok := in.(*ssa.BinOp); ok {
						if phi := rangeIndexPhi(bo); phi != nil && phi.Comment == "rangeindex" {
							head = phi.Block()
						}
					}
				}
			}
			if call == nil || head == nil || call.Block().Comment != "rangeindex.body" || len(call.Call.Args) < 3 {
				continue
			}
			ia, ok := unload(call.Call.Args[2]).(*ssa.IndexAddr)
			if !ok || rangeIndexPhi(ia.Index) == nil {
				continue
			}
			over := an.Render(ia.X)
			ob := c.Ob(rule, spec.name, "loop over "+over+" visits every item; early exit only with an error", call.Pos())
			// bound: idx < len(over)
			okBound := false
			for _, ref := range *ia.Index.Referrers() {
				if bo, ok := ref.(*ssa.BinOp); ok && bo.Op == token.LSS && an.Render(bo.Y) == "len("+over+")" {
					okBound = true
				}
			}
			// exits of the loop body: the error branch returns a non-nil error
			okExit := true
			for _, b := range lp {
				if b.Comment != "rangeindex.body" || !inLp[b] {
					continue
				}
				if iff, ok := b.Instrs[len(b.Instrs)-1].(*ssa.If); ok {
					for i, s := range b.Succs {
						if inLp[s] {
							continue
						}
						// leaving the loop from the body: only on err != nil
						bo, ok := iff.Cond.(*ssa.BinOp)
						if !ok || !an.IsNilConst(bo.Y) || bo.X != ssa.Value(call) || !((bo.Op == token.NEQ && i == 0) || (bo.Op == token.EQL && i == 1)) {
							okExit = false
						}
					}
				}
			}
			// … and the item's error is what the function then returns (not dropped, not shadowed)
			okErr := true
			paths, _ := an.EnumPaths(fn, 4096)
			nErr := 0
			for _, p := range paths {
				if p.Return == nil || !p.Passes(call) || len(p.Results) == 0 {
					continue
				}
				failed := false
				for _, a := range p.Atoms {
					if bo, ok := a.Val.(*ssa.BinOp); ok && a.Rel == "!=" && a.R == "nil" && (bo.X == ssa.Value(call) || bo.Y == ssa.Value(call)) {
						failed = true
					}
				}
				if !failed {
					continue
				}
				nErr++
				if r := p.Results[len(p.Results)-1]; r == "nil" {
					okErr = false
				}
			}
			if nErr == 0 {
				okErr = false
			}
			if okBound && okExit && okErr {
				ob.Ok("range over the whole slice; leaves early only when an item fails to parse")
				// one loop in a helper shared by several callers stands for as many loops: its further call sites
				if !an.IsKnown(fn) && fn.Parent() == nil {
					sites := 0
					for _, caller := range pkgFuncs(fn.Pkg) {
						an.AllInstrs(caller, func(in ssa.Instruction) {
							if cc := an.CallOf(in); cc != nil && an.StaticCallee(cc) == fn {
								sites++
								if sites > 1 {
									c.Ob(rule, an.NameOf(caller), "items parsed through "+spec.name, in.Pos()).Ok("through the item loop of %s (checked there)", spec.name)
								}
							}
						})
					}
				}
			} else if okBound && okExit {
				ob.Fail("an item's parse error is not returned: the function returns nil although %s failed (dropped or shadowed error) — a damaged field passes as parsed", an.Render(call))
			} else {
				ob.Fail("whole slice: %v; early exit only on error: %v — items after the exit would silently stay empty", okBound, okExit)
			}
		}
	}
}

// isItemLoopHelper: h(recv, data, items, …) is a helper of the decoder, not in the pinned vocabulary, that calls the decoder's
// unmarshal on its own data parameter for the elements of its own items parameter, taken in ascending order by a range loop
// (that the loop visits every item and leaves early only with the error is rule R7's business, for every such loop).
func isItemLoopHelper(h, um *ssa.Function) bool {
	if h == nil || um == nil || h == um || h.Pkg != um.Pkg || an.IsKnown(h) || len(h.Params) < 3 {
		return false
	}
	ok := false
	an.AllInstrs(h, func(in ssa.Instruction) {
		call, isCall := in.(*ssa.Call)
		if !isCall || an.StaticCallee(&call.Call) != um || len(call.Call.Args) < 3 {
			return
		}
		if call.Call.Args[1] != ssa.Value(h.Params[1]) {
			return
		}
		if ia, isIA := unload(call.Call.Args[2]).(*ssa.IndexAddr); isIA && ia.X == ssa.Value(h.Params[2]) && rangeIndexPhi(ia.Index) != nil && inLoop(call.Block()) {
			ok = true
		}
	})
	return ok
}

// checkCountUses: every comparison the parsed count of a repeating group takes part in (directly or through arithmetic, in the
// decoder or in a helper it is handed to) is with the length of a slice of pieces or with a loop index.
func checkCountUses(c *core.Ctx, rule string, um *ssa.Function) {
	isCmp := func(op token.Token) bool {
		switch op {
		case token.EQL, token.NEQ, token.LSS, token.LEQ, token.GTR, token.GEQ:
			return true
		}
		return false
	}
	isLenOfPieces := func(v ssa.Value) bool {
		call, ok := v.(*ssa.Call)
		if !ok {
			return false
		}
		b, ok := call.Call.Value.(*ssa.Builtin)
		if !ok || b.Name() != "len" || len(call.Call.Args) != 1 {
			return false
		}
		// a slice of byte slices (the pieces), not the data itself
		sl, ok := call.Call.Args[0].Type().Underlying().(*types.Slice)
		if !ok {
			return false
		}
		_, inner := sl.Elem().Underlying().(*types.Slice)
		return inner
	}
	isIndex := func(v ssa.Value) bool {
		if phi, ok := v.(*ssa.Phi); ok {
			return rangeIndexPhi(phi) != nil || len(phi.Edges) == 2
		}
		return rangeIndexPhi(v) != nil
	}
	nCnt, nCmp := 0, 0
	var bad []string
	var where token.Pos
	seen := map[ssa.Value]bool{}
	var follow func(v ssa.Value, depth int)
	follow = func(v ssa.Value, depth int) {
		if v == nil || seen[v] || depth > 8 || v.Referrers() == nil {
			return
		}
		seen[v] = true
		for _, ref := range *v.Referrers() {
			switch x := ref.(type) {
			case *ssa.BinOp:
				if isCmp(x.Op) {
					nCmp++
					other := x.Y
					if x.Y == v {
						other = x.X
					}
					if !isLenOfPieces(other) && !isIndex(other) {
						bad = append(bad, "the declared count is compared with "+an.Render(other)+" ("+an.Render(x)+") in "+an.NameOf(x.Parent()))
						where = x.Pos()
					}
				} else {
					follow(x, depth+1)
				}
			case *ssa.Convert:
				follow(x, depth+1)
			case *ssa.Call:
				cal := an.StaticCallee(&x.Call)
				if cal == nil || cal.Pkg != um.Pkg {
					continue
				}
				for i, a := range x.Call.Args {
					if a == v && i < len(cal.Params) {
						follow(cal.Params[i], depth+1)
					}
				}
			}
		}
	}
	for _, fn := range an.PkgFuncs(um.Pkg) {
		an.AllInstrs(fn, func(in ssa.Instruction) {
			ta, ok := in.(*ssa.TypeAssert)
			if !ok || !strings.HasSuffix(an.Render(ta), ".Value.Value().(int)") {
				return
			}
			// the count of a group: the value of a KeyValue built with the group's NoTag
			if owner, _ := an.LogicalOwner(fn); fn != um && owner != um {
				return
			}
			nCnt++
			if where == token.NoPos {
				where = ta.Pos()
			}
			follow(ta, 0)
		})
	}
	ob := c.Ob(rule, "state.unmarshal", "the declared count is tested only against the number of entries found", where)
	switch {
	case nCnt == 0:
		ob.Fail("the parsed count of a repeating group was not found in the decoder (anchor moved)")
	case len(bad) > 0:
		ob.Fail("%s: a plausibility bound on the count refuses messages the serializer itself produces (entries can be shorter than any fixed estimate)", bad[0])
	default:
		ob.Ok("%d count value(s), %d comparison(s), all with the number of pieces or a loop index", nCnt, nCmp)
	}
}

// checkTypedTemplates (C02.R2, C17.P3): KeyValue.AsTemplate has a case for every implementation of fix.Value and returns
// NewKeyValue(kv.Key, <fresh empty value of the same concrete type>) — never the receiver or its value object (a template that is
// shared between group entries makes a field populated in one entry appear in the others).
func checkTypedTemplates(c *core.Ctx, rule string) {
	at := c.Func("fix", "KeyValue.AsTemplate")
	impls := valueImpls(c)
	if c.Anchor("typed templates", at != nil && len(impls) >= 7, fmt.Sprintf("KeyValue.AsTemplate; %d Value implementations", len(impls)), posOf(at)) {
		paths, _ := an.EnumPathsX(at, 2048) // the type switch may live in a helper that picks the empty value
		covered := map[string]string{}
		var bad []string
		for _, p := range paths {
			if p.Return == nil || len(p.ResVals) != 1 {
				continue
			}
			sel, rejected := switchedType(p, "kv.Value")
			if sel == "" && len(rejected) == 0 {
				sel, rejected = switchedType(p, "") // the switch on a helper's parameter
			}
			call, ok := p.ResVals[0].(*ssa.Call)
			if !ok || !an.CalleeIs(&call.Call, "fix", "NewKeyValue") {
				bad = append(bad, "a case does not return NewKeyValue(kv.Key, <empty value>)")
				continue
			}
			if an.Render(call.Call.Args[0]) != "kv.Key" {
				bad = append(bad, "the template copy gets key "+an.Render(call.Call.Args[0])+" instead of kv.Key")
			}
			made := ""
			if mi, ok := an.ResolveOnPath(call.Call.Args[1], p).(*ssa.MakeInterface); ok { // the value may be chosen by a switch and passed to a single NewKeyValue
				if n := an.NamedOf(mi.X.Type()); n != nil {
					made = n.Obj().Name()
				}
				if _, isAlloc := mi.X.(*ssa.Alloc); !isAlloc {
					bad = append(bad, "the template copy shares its value object with the original ("+an.Render(mi.X)+")")
				}
			}
			if sel != "" {
				covered[sel] = made
				if made != sel {
					bad = append(bad, fmt.Sprintf("a *%s field is templated as *%s: the parsed value will have the wrong Go type for the generated getter", sel, made))
				}
			} else {
				// default: stands for every implementation not rejected explicitly
				for _, im := range impls {
					isRej := false
					for _, r := range rejected {
						if r == im {
							isRej = true
						}
					}
					if !isRej {
						if _, dup := covered[im]; !dup {
							covered[im] = made
							if made != im {
								bad = append(bad, fmt.Sprintf("a *%s field falls into the default case and is templated as *%s", im, made))
							}
						}
					}
				}
			}
		}
		for _, im := range impls {
			if _, ok := covered[im]; !ok {
				bad = append(bad, "no case for *"+im)
			}
		}
		c.Check(len(bad) == 0, rule, "KeyValue.AsTemplate", "exhaustive over the Value implementations and type preserving, fresh value per copy", at.Pos(), fmt.Sprint(covered), strings.Join(bad, "; "))
	}
}
