// sfcheck decides the properties of /verif/properties.jsonl for b2broker/simplefix-go
// by static analysis of /repo's current working tree. See /verif/DESIGN.md.
package main

import (
	"flag"
	"fmt"
	"os"
	"path/filepath"
	"sort"
	"strconv"
	"strings"

	"sfcheck/core"
	"sfcheck/props"
)

func main() {
	prop := flag.String("property", "", "property id (C01..C20)")
	tier := flag.String("tier", "quick", "quick | thorough")
	repo := flag.String("repo", "/repo", "repository to analyse")
	verif := flag.String("verif", "", "directory of the verification framework (default: parent of the binary's directory)")
	list := flag.Bool("list", false, "list properties with a check")
	debug := flag.String("debug", "", "debug output selector")
	noEvidence := flag.Bool("no-evidence", false, "do not write evidence (used for variant runs on scratch copies)")
	replay := flag.String("replay", "", "re-evaluate the obligation recorded in a violation replay file")
	dumpFuncs := flag.Bool("dump-funcs", false, "print the functions declared in the module (to regenerate an/known_funcs.go)")
	flag.Parse()

	if *verif == "" {
		exe, _ := os.Executable()
		*verif = filepath.Dir(filepath.Dir(exe))
		if _, err := os.Stat(filepath.Join(*verif, "properties.jsonl")); err != nil {
			*verif = "/verif"
		}
	}
	if *list {
		ids := make([]string, 0)
		for id := range props.Registry {
			ids = append(ids, id)
		}
		sort.Strings(ids)
		fmt.Println(strings.Join(ids, " "))
		return
	}
	if *dumpFuncs {
		os.Exit(props.DumpFuncs(*repo, *verif))
	}
	if *replay != "" {
		os.Exit(props.Replay(*replay, *repo, *verif))
	}
	if t := os.Getenv("VERIF_TIER"); t != "" && !flagSet("tier") {
		*tier = t
	}
	seed := int64(0)
	if s := os.Getenv("VERIF_SEED"); s != "" {
		seed, _ = strconv.ParseInt(s, 10, 64)
	}
	if *prop == "" {
		fmt.Fprintln(os.Stderr, "usage: sfcheck -property Cxx [-tier quick|thorough] [-repo DIR]")
		os.Exit(2)
	}
	abs, err := filepath.Abs(*repo)
	if err == nil {
		*repo = abs
	}
	os.Exit(props.Run(props.Options{Prop: *prop, Tier: *tier, Repo: *repo, Verif: *verif, Seed: seed, Debug: *debug, NoEvidence: *noEvidence}))
	_ = core.ModPath
}

func flagSet(name string) bool {
	found := false
	flag.Visit(func(f *flag.Flag) {
		if f.Name == name {
			found = true
		}
	})
	return found
}
