// Package core holds what every property check of sfcheck shares: loading /repo
// as a type-checked program with SSA, obligations, evidence and known findings.
package core

import (
	"encoding/json"
	"fmt"
	"go/ast"
	"go/token"
	"go/types"
	"os"
	"path/filepath"
	"sfcheck/an"
	"sort"
	"strings"
	"time"

	"golang.org/x/tools/go/callgraph"
	"golang.org/x/tools/go/callgraph/cha"
	"golang.org/x/tools/go/callgraph/vta"
	"golang.org/x/tools/go/packages"
	"golang.org/x/tools/go/ssa"
	"golang.org/x/tools/go/ssa/ssautil"
)

// ModPath is the module path of the repository under analysis.
const ModPath = "github.com/b2broker/simplefix-go"

// Verdicts of an obligation.
const (
	Discharged = "discharged"
	Violated   = "violated"
	Undecided  = "undecided"
)

// Obligation is one instance of a rule on one construct of the source.
type Obligation struct {
	Rule     string   `json:"rule"`
	Key      string   `json:"key"` // rule|function|construct — never a line number
	Function string   `json:"function"`
	Pos      string   `json:"pos"` // file:line:col, relative to the repository
	Verdict  string   `json:"verdict"`
	Note     string   `json:"note,omitempty"`
	Facts    []string `json:"facts,omitempty"`
	Known    bool     `json:"known_finding,omitempty"`
}

// Config describes one build configuration to analyse.
type Config struct {
	Name  string
	Tags  string
	Env   []string
	Tests bool
}

// Ctx is the state of one check run.
type Ctx struct {
	RulePrefix string
	Repo       string
	Verif      string
	Prop       string
	Tier       string
	Seed       int64
	Cfg        Config

	Fset   *token.FileSet
	Pkgs   []*packages.Package
	ByPath map[string]*packages.Package
	Prog   *ssa.Program
	cg     *callgraph.Graph

	Obls        []*Obligation
	seenKeys    map[string]int
	Anchors     map[string]string
	Assumptions []string
	Extra       map[string]interface{}
	Explanation string
	MinObl      int
	RuleMin     map[string]int // minimum number of obligations per rule (instances confirmed by reading on the pinned tree)
	Level       string
	TrustedBase []string
	FuncsSeen   map[string]bool
	NoEvidence  bool // variant / scratch runs: write nothing under /verif
	start       time.Time
}

// GoEnv returns the environment every go command spawned by the checker uses.
func GoEnv(extra ...string) []string {
	env := []string{}
	for _, kv := range os.Environ() {
		if strings.HasPrefix(kv, "GOWORK=") || strings.HasPrefix(kv, "GOFLAGS=") ||
			strings.HasPrefix(kv, "GOPROXY=") || strings.HasPrefix(kv, "GOSUMDB=") ||
			strings.HasPrefix(kv, "GOTOOLCHAIN=") {
			continue
		}
		env = append(env, kv)
	}
	env = append(env, "GOFLAGS=-mod=mod", "GOPROXY=off", "GOSUMDB=off", "GOTOOLCHAIN=local", "GOWORK=off")
	return append(env, extra...)
}

// Load loads the repository in the given configuration.
func Load(repo, verif, prop, tier string, cfg Config, needSSA bool) (*Ctx, error) {
	c := &Ctx{Repo: repo, Verif: verif, Prop: prop, Tier: tier, Cfg: cfg,
		seenKeys: map[string]int{}, Anchors: map[string]string{}, Extra: map[string]interface{}{},
		FuncsSeen: map[string]bool{}, start: time.Now(), Level: "other"}
	c.Fset = token.NewFileSet()
	mode := packages.NeedName | packages.NeedFiles | packages.NeedCompiledGoFiles | packages.NeedImports |
		packages.NeedTypes | packages.NeedTypesSizes | packages.NeedSyntax | packages.NeedTypesInfo | packages.NeedDeps | packages.NeedModule
	pc := &packages.Config{Mode: mode, Dir: repo, Fset: c.Fset, Env: GoEnv(cfg.Env...), Tests: cfg.Tests}
	if cfg.Tags != "" {
		pc.BuildFlags = []string{"-tags", cfg.Tags}
	}
	pkgs, err := packages.Load(pc, "./...")
	if err != nil {
		return nil, fmt.Errorf("load: %w", err)
	}
	if len(pkgs) == 0 {
		return nil, fmt.Errorf("load: no packages matched ./... in %s", repo)
	}
	c.ByPath = map[string]*packages.Package{}
	var errs []string
	packages.Visit(pkgs, nil, func(p *packages.Package) {
		if strings.HasPrefix(p.PkgPath, ModPath) {
			for _, e := range p.Errors {
				errs = append(errs, e.Error())
			}
		}
	})
	if len(errs) > 0 {
		return nil, fmt.Errorf("load: the repository does not type-check: %s", strings.Join(errs, "; "))
	}
	for _, p := range pkgs {
		// With Tests=true prefer the test variant "p [p.test]" for lookups? No: keep the plain package;
		// test variants are still in Pkgs for caller searches.
		if _, ok := c.ByPath[p.PkgPath]; !ok || !strings.Contains(p.ID, "[") {
			if !strings.HasSuffix(p.PkgPath, ".test") && !strings.HasSuffix(p.PkgPath, "_test") {
				if old, ok := c.ByPath[p.PkgPath]; !ok || strings.Contains(old.ID, "[") {
					c.ByPath[p.PkgPath] = p
				}
			}
		}
	}
	c.Pkgs = pkgs
	for _, need := range []string{"", "/fix", "/fix/encoding", "/session", "/session/messages", "/storages/memory", "/utils", "/generator", "/tests/fix44"} {
		if c.ByPath[ModPath+need] == nil {
			return nil, fmt.Errorf("load: package %s%s was not loaded", ModPath, need)
		}
	}
	if needSSA {
		prog, _ := ssautil.AllPackages(pkgs, ssa.InstantiateGenerics)
		prog.Build()
		c.Prog = prog
	}
	return c, nil
}

// Pkg returns the package at the given path relative to the module root ("" for the root package).
func (c *Ctx) Pkg(rel string) *packages.Package {
	p := ModPath
	if rel != "" {
		p += "/" + rel
	}
	return c.ByPath[p]
}

// SSAPkg returns the SSA package for a relative path.
func (c *Ctx) SSAPkg(rel string) *ssa.Package {
	p := c.Pkg(rel)
	if p == nil || c.Prog == nil {
		return nil
	}
	return c.Prog.Package(p.Types)
}

// CallGraph builds (once) the VTA call graph seeded with CHA.
func (c *Ctx) CallGraph() *callgraph.Graph {
	if c.cg == nil {
		c.cg = vta.CallGraph(ssautil.AllFunctions(c.Prog), cha.CallGraph(c.Prog))
	}
	return c.cg
}

// LookupObj finds a package-level object or a method ("T.m") in a package.
func (c *Ctx) LookupObj(rel, name string) types.Object {
	p := c.Pkg(rel)
	if p == nil {
		return nil
	}
	if i := strings.Index(name, "."); i >= 0 {
		tn, _ := p.Types.Scope().Lookup(name[:i]).(*types.TypeName)
		if tn == nil {
			return nil
		}
		obj, _, _ := types.LookupFieldOrMethod(types.NewPointer(tn.Type()), true, p.Types, name[i+1:])
		return obj
	}
	return p.Types.Scope().Lookup(name)
}

// Field finds the field object T.f.
func (c *Ctx) Field(rel, typ, field string) *types.Var {
	obj := c.LookupObj(rel, typ+"."+field)
	v, _ := obj.(*types.Var)
	if v != nil && !v.IsField() {
		return nil
	}
	if v == nil {
		// not under this name: the field (or its struct type) may have been renamed
		p := c.Pkg(rel)
		if p == nil {
			return nil
		}
		for _, n := range p.Types.Scope().Names() {
			tn, ok := p.Types.Scope().Lookup(n).(*types.TypeName)
			if !ok || an.PinnedTypeName(p.Types, n) != typ {
				continue
			}
			st, ok := tn.Type().Underlying().(*types.Struct)
			if !ok {
				continue
			}
			for i := 0; i < st.NumFields(); i++ {
				if an.FieldName(st.Field(i)) == field {
					c.Anchors["renamed field: "+typ+"."+field] = n + "." + st.Field(i).Name()
					return st.Field(i)
				}
			}
		}
	}
	return v
}

// Func finds the SSA function for a package-level function or method "T.m".
func (c *Ctx) Func(rel, name string) *ssa.Function {
	if c.Prog == nil {
		return nil
	}
	obj, _ := c.LookupObj(rel, name).(*types.Func)
	if obj == nil {
		// not under this name: the function may have been renamed (same receiver, same signature, unique both ways)
		recv, fname := "", name
		if i := strings.Index(name, "."); i >= 0 {
			recv, fname = name[:i], name[i+1:]
		}
		if f := an.FindPinned(c.SSAPkg(rel), recv, fname); f != nil {
			c.Anchors["renamed: "+name] = f.Name()
			return f
		}
		// an unexported method that only its exported wrapper called may have been inlined into that wrapper
		if w, ok := an.InlinedInto[name]; ok {
			if obj, _ := c.LookupObj(rel, w).(*types.Func); obj != nil {
				if f := c.Prog.FuncValue(obj); f != nil {
					c.Anchors["inlined: "+name] = f.Name()
					return f
				}
			}
		}
		// a method whose receiver was unused may have become a plain function of the same name (or the reverse is not tried)
		if recv != "" {
			if obj, _ := c.LookupObj(rel, fname).(*types.Func); obj != nil {
				if f := c.Prog.FuncValue(obj); f != nil && !an.KnownFuncs[f.String()] {
					c.Anchors["receiver dropped: "+name] = f.Name()
					return f
				}
			}
		}
		return nil
	}
	fn := c.Prog.FuncValue(obj)
	// a function that exists under this name but is not the pinned one (the name was reused) is still what the name says
	return fn
}

// Decl finds the syntax of a function or method "T.m".
func (c *Ctx) Decl(rel, name string) *ast.FuncDecl {
	p := c.Pkg(rel)
	obj := c.LookupObj(rel, name)
	if p == nil || obj == nil {
		return nil
	}
	for _, f := range p.Syntax {
		for _, d := range f.Decls {
			if fd, ok := d.(*ast.FuncDecl); ok && p.TypesInfo.Defs[fd.Name] == obj {
				return fd
			}
		}
	}
	return nil
}

// RelPos renders a position relative to the repository.
func (c *Ctx) RelPos(p token.Pos) string {
	if !p.IsValid() {
		return "-"
	}
	pos := c.Fset.Position(p)
	rel, err := filepath.Rel(c.Repo, pos.Filename)
	if err != nil {
		rel = pos.Filename
	}
	return fmt.Sprintf("%s:%d:%d", rel, pos.Line, pos.Column)
}

// FuncName gives a stable, readable name for an SSA function (closures as Parent$n).
func FuncName(f *ssa.Function) string {
	if f == nil {
		return "?"
	}
	s := f.String()
	s = strings.ReplaceAll(s, ModPath+"/", "")
	s = strings.ReplaceAll(s, ModPath, "simplefixgo")
	return s
}

// Ob records an obligation. The key is rule|function|construct; duplicates get a #n suffix.
func (c *Ctx) Ob(rule, function, construct string, pos token.Pos) *Obligation {
	// RulePrefix: while the rules of another property are run as premises of this one, they are filed under this name
	if c.RulePrefix != "" {
		rule = c.RulePrefix
	}
	key := rule + "|" + function + "|" + construct
	c.seenKeys[key]++
	if n := c.seenKeys[key]; n > 1 {
		key = fmt.Sprintf("%s#%d", key, n)
	}
	o := &Obligation{Rule: rule, Key: key, Function: function, Pos: c.RelPos(pos), Verdict: Undecided}
	c.Obls = append(c.Obls, o)
	if function != "" {
		c.FuncsSeen[function] = true
	}
	return o
}

func (o *Obligation) Ok(format string, a ...interface{}) *Obligation {
	o.Verdict = Discharged
	o.Note = fmt.Sprintf(format, a...)
	return o
}
func (o *Obligation) Fail(format string, a ...interface{}) *Obligation {
	o.Verdict = Violated
	o.Note = fmt.Sprintf(format, a...)
	return o
}
func (o *Obligation) Unknown(format string, a ...interface{}) *Obligation {
	o.Verdict = Undecided
	o.Note = fmt.Sprintf(format, a...)
	return o
}
func (o *Obligation) Fact(format string, a ...interface{}) *Obligation {
	o.Facts = append(o.Facts, fmt.Sprintf(format, a...))
	return o
}

// Check records an obligation that is discharged iff cond holds.
func (c *Ctx) Check(cond bool, rule, function, construct string, pos token.Pos, okNote, failNote string) *Obligation {
	o := c.Ob(rule, function, construct, pos)
	if cond {
		return o.Ok("%s", okNote)
	}
	return o.Fail("%s", failNote)
}

// Anchor records how a role was resolved; an unresolved anchor is a failed obligation.
func (c *Ctx) Anchor(role string, ok bool, desc string, pos token.Pos) bool {
	if ok {
		c.Anchors[role] = desc + " @ " + c.RelPos(pos)
		return true
	}
	c.Anchors[role] = "UNRESOLVED"
	c.Ob("anchor", "", role, token.NoPos).Unknown("unresolved anchor: %s (%s); a rule that cannot find its subject must not pass", role, desc)
	return false
}

func (c *Ctx) Assume(s string) { c.Assumptions = append(c.Assumptions, s) }

// KnownFinding is one "finding:" line of KNOWN_FINDINGS.txt.
type KnownFinding struct {
	Prop, Key, Text string
}

// LoadKnown parses KNOWN_FINDINGS.txt.
func LoadKnown(path string) ([]KnownFinding, error) {
	b, err := os.ReadFile(path)
	if err != nil {
		if os.IsNotExist(err) {
			return nil, nil
		}
		return nil, err
	}
	var out []KnownFinding
	for _, line := range strings.Split(string(b), "\n") {
		line = strings.TrimSpace(line)
		if !strings.HasPrefix(line, "finding:") {
			continue
		}
		rest := strings.TrimSpace(strings.TrimPrefix(line, "finding:"))
		kf := KnownFinding{}
		// property=Cxx key=<key up to two spaces or " :: "> text
		if !strings.HasPrefix(rest, "property=") {
			continue
		}
		sp := strings.IndexByte(rest, ' ')
		if sp < 0 {
			continue
		}
		kf.Prop = strings.TrimPrefix(rest[:sp], "property=")
		rest = strings.TrimSpace(rest[sp:])
		if !strings.HasPrefix(rest, "key=") {
			continue
		}
		rest = strings.TrimPrefix(rest, "key=")
		if i := strings.Index(rest, " :: "); i >= 0 {
			kf.Key = strings.TrimSpace(rest[:i])
			kf.Text = strings.TrimSpace(rest[i+4:])
		} else {
			kf.Key = strings.TrimSpace(rest)
		}
		out = append(out, kf)
	}
	return out, nil
}

// Result is the outcome of Finish.
type Result struct {
	Violations int
	Known      int
	Lines      []string
}

// Finish matches known findings, writes evidence and violation replay files, and returns the lines to print.
func (c *Ctx) Finish(known []KnownFinding, evidencePath string) (*Result, error) {
	res := &Result{}
	sort.SliceStable(c.Obls, func(i, j int) bool { return c.Obls[i].Key < c.Obls[j].Key })
	if c.MinObl > 0 && len(c.Obls) < c.MinObl {
		c.Ob("coverage", "", "minimum-obligations", token.NoPos).Fail(
			"only %d obligations were generated; at least %d were confirmed by reading on the pinned tree — a rule lost its subject", len(c.Obls)-1, c.MinObl)
	}
	{
		cnt := map[string]int{}
		for _, o := range c.Obls {
			cnt[o.Rule]++
		}
		var names []string
		for r := range c.RuleMin {
			names = append(names, r)
		}
		sort.Strings(names)
		for _, r := range names {
			// the floor guards against a rule that has lost its subject, not against refactoring: for censuses of more than three
			// confirmed instances it is 60 % of the confirmed count (moving code into helpers legitimately merges or removes sites;
			// the named subjects of every rule are separately anchored and an unresolved anchor fails on its own)
			floor := c.RuleMin[r]
			if floor > 3 {
				floor = (floor*6 + 9) / 10
			}
			if cnt[r] < floor {
				c.Ob("coverage", "", "rule "+r+" has its subjects", token.NoPos).Fail(
					"rule %s generated %d obligations; %d instances were confirmed by reading on the pinned tree (floor %d) — the rule lost (part of) its subject and would pass vacuously", r, cnt[r], c.RuleMin[r], floor)
			}
		}
	}
	violDir := filepath.Join(c.Verif, "evidence", "violations")
	if c.NoEvidence {
		violDir = filepath.Join(os.TempDir(), fmt.Sprintf("sfcheck-violations-%d", os.Getpid()))
	}
	// remove stale replay files of this property
	if ents, err := os.ReadDir(violDir); err == nil {
		for _, e := range ents {
			if strings.HasPrefix(e.Name(), c.Prop+"-") {
				os.Remove(filepath.Join(violDir, e.Name()))
			}
		}
	}
	discharged := 0
	n := 0
	var samples []interface{}
	for _, o := range c.Obls {
		if o.Verdict == Discharged {
			discharged++
			continue
		}
		matched := false
		for _, k := range known {
			if k.Prop == c.Prop && k.Key == o.Key {
				matched = true
				o.Known = true
				res.Known++
				res.Lines = append(res.Lines, fmt.Sprintf("KNOWN-FINDING: property=%s %s [%s at %s]", c.Prop, k.Text, o.Key, o.Pos))
				break
			}
		}
		if matched {
			continue
		}
		n++
		res.Violations++
		os.MkdirAll(violDir, 0o755)
		path := filepath.Join(violDir, fmt.Sprintf("%s-%d.json", c.Prop, n))
		b, _ := json.MarshalIndent(map[string]interface{}{"property": c.Prop, "tier": c.Tier, "configuration": c.Cfg.Name, "obligation": o}, "", " ")
		os.WriteFile(path, b, 0o644)
		res.Lines = append(res.Lines, fmt.Sprintf("  %s %s at %s in %s: %s", strings.ToUpper(o.Verdict), o.Key, o.Pos, o.Function, o.Note))
		res.Lines = append(res.Lines, fmt.Sprintf("VIOLATION property=%s replay=%s", c.Prop, path))
	}
	// samples: up to 12 obligations, violated first
	for _, o := range c.Obls {
		if o.Verdict != Discharged && len(samples) < 12 {
			samples = append(samples, o)
		}
	}
	for _, o := range c.Obls {
		if o.Verdict == Discharged && len(samples) < 12 {
			samples = append(samples, o)
		}
	}
	funcs := make([]string, 0, len(c.FuncsSeen))
	for f := range c.FuncsSeen {
		funcs = append(funcs, f)
	}
	sort.Strings(funcs)
	rules := map[string]int{}
	for _, o := range c.Obls {
		rules[o.Rule]++
	}
	cov := map[string]interface{}{
		"explanation":        c.Explanation,
		"obligations":        len(c.Obls),
		"discharged":         discharged,
		"known_findings":     res.Known,
		"rules":              rules,
		"functions_analysed": funcs,
		"anchors":            c.Anchors,
		"samples":            samples,
		"configuration":      c.Cfg.Name,
		"packages_loaded":    len(c.ByPath),
		"checker_cmd":        fmt.Sprintf("bin/sfcheck -property %s -tier %s", c.Prop, c.Tier),
		"trusted_base":       c.TrustedBase,
		"all_obligations":    c.Obls,
	}
	if c.TrustedBase == nil {
		cov["trusted_base"] = []string{"go/types and go/ssa (golang.org/x/tools v0.29.0)", "the rule tables in /verif/checker (confirmed by reading /repo)"}
	}
	for k, v := range c.Extra {
		cov[k] = v
	}
	level := c.Level
	if level == "proof" && discharged != len(c.Obls) {
		level = "other"
	}
	ev := map[string]interface{}{
		"property_id": c.Prop,
		"tier":        c.Tier,
		"seed":        c.Seed,
		"level":       level,
		"coverage":    cov,
		"assumptions": c.Assumptions,
		"wall_s":      time.Since(c.start).Seconds(),
		"violations":  res.Violations,
	}
	if c.Assumptions == nil {
		ev["assumptions"] = []string{}
	}
	b, err := json.MarshalIndent(ev, "", " ")
	if err != nil {
		return nil, err
	}
	os.MkdirAll(filepath.Dir(evidencePath), 0o755)
	if err := os.WriteFile(evidencePath, b, 0o644); err != nil {
		return nil, err
	}
	return res, nil
}
