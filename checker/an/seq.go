package an

import (
	"fmt"
	"go/constant"
	"go/token"
	"go/types"
	"sort"
	"strings"

	"golang.org/x/tools/go/ssa"
)

// ---------------------------------------------------------------------------
// E5 — byte-layout inference: a compositional summary of the functions that build
// wire bytes. A byte string is a sequence of opaque atoms (results of leaf producers)
// and constant bytes; an integer is a linear form over len(atom) and constants.
// Evaluation is per acyclic path (phis, spilled locals and field stores are resolved
// along the path), so no Opt algebra is needed. Anything without a transfer function
// becomes an opaque atom named by its canonical rendering — comparing two layouts is
// then exact only up to "same expression, no intervening store", which clients check.
// ---------------------------------------------------------------------------

// Part is a constant byte string or an opaque atom.
type Part struct {
	Atom  string
	Bytes []byte
}

func (p Part) String() string {
	if p.Atom != "" {
		return "⟨" + p.Atom + "⟩"
	}
	var sb strings.Builder
	for _, b := range p.Bytes {
		switch {
		case b == 1:
			sb.WriteString("␁")
		case b >= 32 && b < 127:
			sb.WriteByte(b)
		default:
			fmt.Fprintf(&sb, "\\x%02x", b)
		}
	}
	return "'" + sb.String() + "'"
}

// Seq is a byte-string layout.
type Seq []Part

func (s Seq) String() string {
	var parts []string
	for _, p := range s.norm() {
		parts = append(parts, p.String())
	}
	if len(parts) == 0 {
		return "ε"
	}
	return strings.Join(parts, "·")
}

// norm merges adjacent constants and drops empty ones.
func (s Seq) norm() Seq {
	var out Seq
	for _, p := range s {
		if p.Atom == "" {
			if len(p.Bytes) == 0 {
				continue
			}
			if n := len(out); n > 0 && out[n-1].Atom == "" {
				out[n-1] = Part{Bytes: append(append([]byte(nil), out[n-1].Bytes...), p.Bytes...)}
				continue
			}
		}
		out = append(out, p)
	}
	return out
}

// Norm returns the normal form.
func (s Seq) Norm() Seq { return s.norm() }

// Equal compares two layouts in normal form.
func (s Seq) Equal(t Seq) bool { return s.String() == t.String() }

// Len returns the length of the layout as a linear form.
func (s Seq) Len() LinLen {
	l := LinLen{Coef: map[string]int64{}}
	for _, p := range s {
		if p.Atom != "" {
			l.Coef[p.Atom]++
		} else {
			l.K += int64(len(p.Bytes))
		}
	}
	return l
}

// LinLen is Σ coef·len(atom) + K.
type LinLen struct {
	Coef map[string]int64
	K    int64
	Bad  string // non-empty if the value could not be interpreted
}

func (l LinLen) String() string {
	if l.Bad != "" {
		return "?(" + l.Bad + ")"
	}
	var keys []string
	for k, c := range l.Coef {
		if c != 0 {
			keys = append(keys, k)
		}
	}
	sort.Strings(keys)
	var parts []string
	for _, k := range keys {
		if l.Coef[k] == 1 {
			parts = append(parts, "len⟨"+k+"⟩")
		} else {
			parts = append(parts, fmt.Sprintf("%d·len⟨%s⟩", l.Coef[k], k))
		}
	}
	if l.K != 0 || len(parts) == 0 {
		parts = append(parts, fmt.Sprint(l.K))
	}
	return strings.Join(parts, " + ")
}

func (l LinLen) Equal(m LinLen) bool { return l.Bad == "" && m.Bad == "" && l.String() == m.String() }

func (l LinLen) add(m LinLen, sign int64) LinLen {
	o := LinLen{Coef: map[string]int64{}, K: l.K + sign*m.K, Bad: l.Bad + m.Bad}
	for k, c := range l.Coef {
		o.Coef[k] += c
	}
	for k, c := range m.Coef {
		o.Coef[k] += sign * c
	}
	return o
}

// SeqEval evaluates SSA values to layouts along one path of one function.
type SeqEval struct {
	Path *Path
	Env  map[ssa.Value]Seq // parameter substitution for inlined helpers
	// EnvList substitutes list-typed ([][]byte) parameters of inlined helpers by the layouts of the elements passed.
	EnvList map[ssa.Value][]Seq
	// DelimGlobal is the package-level variable holding the delimiter ("Delimiter"); its value is taken to be {1}
	// (clients check its initialiser and that nothing stores to it).
	Depth int
	Notes []string
	// IntEnv gives loop-carried integers their value while one iteration of an unrolled loop is evaluated.
	IntEnv map[ssa.Value]LinLen
}

func (e *SeqEval) resolve(v ssa.Value) ssa.Value {
	if e.Path == nil {
		return v
	}
	for i := 0; i < 8; i++ {
		y := resolvePhi(spillOnPath(v, e.Path.Blocks), e.Path.Blocks)
		if s, ok := e.Path.Sub[y]; ok {
			y = s
		}
		if y == v {
			break
		}
		v = y
	}
	return v
}

// fieldStoreOnPath finds the value last stored (before the load) into the same field of the same base on the path.
func (e *SeqEval) fieldStoreOnPath(load *ssa.UnOp) ssa.Value {
	fa, ok := load.X.(*ssa.FieldAddr)
	if !ok || e.Path == nil {
		return nil
	}
	want := Render(fa.X) + "." + FieldName(FieldOf(fa))
	if seq := e.Path.Seq; seq != nil {
		// an interprocedural path: its instructions in execution order
		want = RenderOnPath(fa.X, e.Path) + "." + FieldName(FieldOf(fa))
		at := -1
		for i, in := range seq {
			if in == ssa.Instruction(load) {
				at = i
			}
		}
		for j := at - 1; j >= 0; j-- {
			if st, ok := seq[j].(*ssa.Store); ok {
				if fa2, ok := st.Addr.(*ssa.FieldAddr); ok && RenderOnPath(fa2.X, e.Path)+"."+FieldName(FieldOf(fa2)) == want {
					return st.Val
				}
			}
		}
		return nil
	}
	blocks := e.Path.Blocks
	at := -1
	for i := len(blocks) - 1; i >= 0; i-- {
		if blocks[i] == load.Block() {
			at = i
			break
		}
	}
	if at < 0 {
		return nil
	}
	for i := at; i >= 0; i-- {
		b := blocks[i]
		start := len(b.Instrs) - 1
		if i == at {
			for j, in := range b.Instrs {
				if in == ssa.Instruction(load) {
					start = j
				}
			}
		}
		for j := start; j >= 0; j-- {
			if st, ok := b.Instrs[j].(*ssa.Store); ok {
				if fa2, ok := st.Addr.(*ssa.FieldAddr); ok && Render(fa2.X)+"."+FieldName(FieldOf(fa2)) == want {
					return st.Val
				}
			}
		}
	}
	return nil
}

// Eval evaluates a []byte- or string-valued SSA value.
func (e *SeqEval) Eval(v ssa.Value) Seq {
	if e.Depth > 24 {
		return Seq{{Atom: Render(v)}}
	}
	e.Depth++
	defer func() { e.Depth-- }()
	if s, ok := e.Env[v]; ok {
		return s
	}
	v = e.resolve(v)
	if s, ok := e.Env[v]; ok {
		return s
	}
	switch x := v.(type) {
	case *ssa.Const:
		if x.Value == nil {
			return Seq{}
		}
		if x.Value.Kind() == constant.String {
			return Seq{{Bytes: []byte(constant.StringVal(x.Value))}}
		}
	case *ssa.BinOp:
		// string concatenation
		if x.Op == token.ADD && isByteish(x.Type()) {
			return append(append(Seq{}, e.Eval(x.X)...), e.Eval(x.Y)...)
		}
	case *ssa.Convert:
		// []byte(string) and string([]byte) keep the bytes
		return e.Eval(x.X)
	case *ssa.ChangeType:
		return e.Eval(x.X)
	case *ssa.MakeInterface:
		return e.Eval(x.X)
	case *ssa.Slice:
		if x.Low == nil && x.High == nil {
			if elems, ok := SliceElems(x); ok {
				// a []byte literal
				if bt, ok := Deref(x.X.Type()).Underlying().(*types.Array); ok {
					if b, ok := bt.Elem().Underlying().(*types.Basic); ok && b.Kind() == types.Uint8 {
						var bs []byte
						okAll := true
						for _, el := range elems {
							k, ok := ConstInt(el)
							if !ok {
								okAll = false
								break
							}
							bs = append(bs, byte(k))
						}
						if okAll {
							return Seq{{Bytes: bs}}
						}
					}
				}
			}
			if al, ok := x.X.(*ssa.Alloc); ok {
				if arr, ok := Deref(al.Type()).Underlying().(*types.Array); ok && arr.Len() == 0 {
					return Seq{}
				}
			}
		}
		// s[k:] of a sequence that starts with at least k known bytes: those bytes are dropped
		if k, isK := ConstInt(x.Low); x.Low != nil && x.High == nil && isK && k >= 0 {
			if _, isArr := Deref(x.X.Type()).Underlying().(*types.Array); !isArr {
				in := e.Eval(x.X).Norm()
				if len(in) > 0 && in[0].Atom == "" && int64(len(in[0].Bytes)) >= k {
					out := Seq{{Bytes: append([]byte(nil), in[0].Bytes[k:]...)}}
					return append(out, in[1:]...).Norm()
				}
			}
		}
	case *ssa.MakeSlice:
		if k, isK := ConstInt(x.Len); isK && k == 0 {
			return Seq{}
		}
	case *ssa.UnOp:
		if x.Op == token.MUL {
			if g, ok := x.X.(*ssa.Global); ok && g.Name() == "Delimiter" {
				return Seq{{Bytes: []byte{1}}}
			}
			if _, ok := x.X.(*ssa.FieldAddr); ok {
				if sv := e.fieldStoreOnPath(x); sv != nil {
					return e.Eval(sv)
				}
			}
		}
	case *ssa.Call:
		if b, ok := x.Call.Value.(*ssa.Builtin); ok && b.Name() == "append" && len(x.Call.Args) == 2 {
			return append(append(Seq{}, e.Eval(x.Call.Args[0])...), e.Eval(x.Call.Args[1])...)
		}
		if cal := StaticCallee(&x.Call); cal != nil {
			if cal.Pkg != nil && cal.Pkg.Pkg.Path() == "bytes" && cal.Name() == "Join" {
				if seqs, ok := e.EnvList[x.Call.Args[0]]; ok {
					sep := e.Eval(x.Call.Args[1])
					var out Seq
					for i, el := range seqs {
						if i > 0 {
							out = append(out, sep...)
						}
						out = append(out, el...)
					}
					return out
				}
				if elems, ok := e.listElems(x.Call.Args[0], 0); ok {
					sep := e.Eval(x.Call.Args[1])
					var out Seq
					for i, el := range elems {
						if i > 0 {
							out = append(out, sep...)
						}
						out = append(out, e.Eval(el)...)
					}
					return out
				}
			}
			// inline straight-line same-module helpers that return a byte string
			if cal.Pkg != nil && strings.HasPrefix(cal.Pkg.Pkg.Path(), "github.com/b2broker/simplefix-go") && len(cal.Blocks) == 1 && cal.Signature.Recv() == nil && cal.Signature.Results().Len() == 1 {
				if ret, ok := cal.Blocks[0].Instrs[len(cal.Blocks[0].Instrs)-1].(*ssa.Return); ok && len(ret.Results) == 1 {
					env := map[ssa.Value]Seq{}
					envList := map[ssa.Value][]Seq{}
					for i, p := range cal.Params {
						if i < len(x.Call.Args) && isByteish(p.Type()) {
							env[p] = e.Eval(x.Call.Args[i])
						}
						if sl, ok := p.Type().Underlying().(*types.Slice); ok && i < len(x.Call.Args) && isByteish(sl.Elem()) {
							if elems, ok := e.listElems(x.Call.Args[i], 0); ok {
								var seqs []Seq
								for _, el := range elems {
									seqs = append(seqs, e.Eval(el))
								}
								envList[p] = seqs
							}
						}
					}
					sub := &SeqEval{Env: env, EnvList: envList, Depth: e.Depth}
					return sub.Eval(ret.Results[0])
				}
			}
		}
	}
	return Seq{{Atom: renderWith(v, e.resolveHook())}}
}

func (e *SeqEval) resolveHook() func(ssa.Value) ssa.Value {
	if e.Path == nil {
		return nil
	}
	return func(x ssa.Value) ssa.Value { return e.resolve(x) }
}

func isByteish(t types.Type) bool {
	switch u := t.Underlying().(type) {
	case *types.Basic:
		return u.Kind() == types.String
	case *types.Slice:
		b, ok := u.Elem().Underlying().(*types.Basic)
		return ok && b.Kind() == types.Uint8
	}
	return false
}

// EvalLen evaluates an int-valued SSA value built from len(), + and constants.
func (e *SeqEval) EvalLen(v ssa.Value) LinLen {
	if l, ok := e.IntEnv[v]; ok {
		return l
	}
	v = e.resolve(v)
	if l, ok := e.IntEnv[v]; ok {
		return l
	}
	switch x := v.(type) {
	case *ssa.Const:
		if k, ok := ConstInt(x); ok {
			return LinLen{Coef: map[string]int64{}, K: k}
		}
	case *ssa.BinOp:
		switch x.Op {
		case token.ADD:
			return e.EvalLen(x.X).add(e.EvalLen(x.Y), 1)
		case token.SUB:
			return e.EvalLen(x.X).add(e.EvalLen(x.Y), -1)
		}
	case *ssa.Call:
		if b, ok := x.Call.Value.(*ssa.Builtin); ok && b.Name() == "len" {
			return e.Eval(x.Call.Args[0]).Len()
		}
	}
	return LinLen{Coef: map[string]int64{}, Bad: Render(v)}
}

// listElems reconstructs, along the path, the elements of a [][]byte that was built from a literal and appends of literal lists.
func (e *SeqEval) listElems(v ssa.Value, depth int) ([]ssa.Value, bool) {
	if depth > 16 {
		return nil, false
	}
	v = e.resolve(v)
	if elems, ok := SliceElems(v); ok {
		return elems, true
	}
	switch x := v.(type) {
	case *ssa.Const:
		if x.Value == nil {
			return nil, true
		}
	case *ssa.Call:
		if b, ok := x.Call.Value.(*ssa.Builtin); ok && b.Name() == "append" && len(x.Call.Args) == 2 {
			head, ok1 := e.listElems(x.Call.Args[0], depth+1)
			tail, ok2 := e.listElems(x.Call.Args[1], depth+1)
			if ok1 && ok2 {
				return append(append([]ssa.Value(nil), head...), tail...), true
			}
		}
	}
	return nil, false
}

// LenCase is one way an integer expression can evaluate: under the extra conditions Atoms its value is L.
type LenCase struct {
	Atoms []Atom
	L     LinLen
}

// EvalLenCases is EvalLen with case analysis through helpers: a call of an int-valued function of the module that the rules do
// not know by name is evaluated on each of its returning paths, the path's conditions (in the caller's terms) becoming the
// conditions of the case.
func (e *SeqEval) EvalLenCases(v ssa.Value) []LenCase {
	v = e.resolve(v)
	one := func(l LinLen) []LenCase { return []LenCase{{L: l}} }
	switch x := v.(type) {
	case *ssa.BinOp:
		if x.Op == token.ADD || x.Op == token.SUB {
			sign := int64(1)
			if x.Op == token.SUB {
				sign = -1
			}
			var out []LenCase
			for _, a := range e.EvalLenCases(x.X) {
				for _, b := range e.EvalLenCases(x.Y) {
					out = append(out, LenCase{Atoms: append(append([]Atom(nil), a.Atoms...), b.Atoms...), L: a.L.add(b.L, sign)})
				}
			}
			if len(out) <= 256 {
				return out
			}
		}
	case *ssa.Call:
		cal := StaticCallee(&x.Call)
		if cal == nil || cal.Pkg == nil || len(cal.Blocks) == 0 || KnownFuncs[cal.String()] || !strings.HasPrefix(cal.Pkg.Pkg.Path(), "github.com/b2broker/simplefix-go") || e.Depth > 6 {
			break
		}
		if _, _, pure := pureExprOf(cal); pure {
			break // rendered through by EvalLen's atoms
		}
		sub := map[ssa.Value]ssa.Value{}
		env := map[ssa.Value]Seq{}
		for i, prm := range cal.Params {
			if i < len(x.Call.Args) {
				sub[prm] = e.resolve(x.Call.Args[i])
				if isByteish(prm.Type()) {
					env[prm] = e.Eval(x.Call.Args[i])
				}
			}
		}
		paths, _ := EnumPaths(cal, 64)
		var out []LenCase
		okAll := true
		for _, p := range paths {
			if p.Return == nil {
				continue
			}
			if len(p.ResVals) != 1 || p.Loop {
				okAll = false
				break
			}
			sub2 := &SeqEval{Path: p, Env: env, Depth: e.Depth + 1}
			var atoms []Atom
			for _, a := range p.Atoms {
				atoms = append(atoms, NormAtomSubst(a.Val, a.Taken, sub))
			}
			for _, c := range sub2.EvalLenCases(p.ResVals[0]) {
				out = append(out, LenCase{Atoms: append(append([]Atom(nil), atoms...), c.Atoms...), L: c.L})
			}
		}
		if okAll && len(out) > 0 {
			return out
		}
	}
	return one(e.EvalLen(v))
}

// LoopSumCases unrolls a range loop over a literal array or slice of known length that carries an integer: acc is the phi of
// the carried integer at the loop head. For every combination of the ways through the body (one per element) it gives the
// conditions — with the element of that iteration substituted — and the value the integer has when the loop is left. cond is the
// loop's own continuation test (callers drop it from the path's conditions). ok is false when the loop is not of that shape.
func (e *SeqEval) LoopSumCases(acc *ssa.Phi) (cases []LenCase, cond ssa.Value, ok bool) {
	head := acc.Block()
	iff, isIf := head.Instrs[len(head.Instrs)-1].(*ssa.If)
	if !isIf || len(head.Succs) != 2 {
		return nil, nil, false
	}
	cmp, isCmp := iff.Cond.(*ssa.BinOp)
	if !isCmp || cmp.Op != token.LSS {
		return nil, nil, false
	}
	idx := cmp.X
	inc, isInc := idx.(*ssa.BinOp)
	if !isInc || inc.Op != token.ADD {
		return nil, nil, false
	}
	iphi, isPhi := inc.X.(*ssa.Phi)
	if k, isK := ConstInt(inc.Y); !isPhi || !isK || k != 1 || iphi.Block() != head {
		return nil, nil, false
	}
	body := head.Succs[0]
	// the blocks of the loop: reachable from body without passing the head
	inLoop := map[*ssa.BasicBlock]bool{}
	work := []*ssa.BasicBlock{body}
	for len(work) > 0 {
		b := work[0]
		work = work[1:]
		if inLoop[b] || b == head {
			continue
		}
		inLoop[b] = true
		work = append(work, b.Succs...)
	}
	if inLoop[head.Succs[1]] {
		return nil, nil, false
	}
	// the element of the iteration and the literal it is taken from
	var elemVal ssa.Value
	var elems []ssa.Value
	for b := range inLoop {
		for _, in := range b.Instrs {
			switch x := in.(type) {
			case *ssa.Index:
				if x.Index == idx {
					if ld, isLd := x.X.(*ssa.UnOp); isLd {
						if al, isAl := ld.X.(*ssa.Alloc); isAl {
							if el, okE := arrayElems(al); okE {
								elemVal, elems = x, el
							}
						}
					}
				}
			case *ssa.UnOp:
				if ia, isIA := x.X.(*ssa.IndexAddr); isIA && x.Op == token.MUL && ia.Index == idx {
					switch base := ia.X.(type) {
					case *ssa.Alloc:
						if el, okE := arrayElems(base); okE {
							elemVal, elems = x, el
						}
					case *ssa.Slice:
						if el, okE := SliceElems(base); okE {
							elemVal, elems = x, el
						}
					}
				}
			}
		}
	}
	if elemVal == nil || len(elems) == 0 || len(elems) > 6 {
		return nil, nil, false
	}
	if n, isN := ConstInt(cmp.Y); isN && int(n) != len(elems) {
		return nil, nil, false
	}
	entryIdx := -1
	for k, pred := range head.Preds {
		if !inLoop[pred] {
			if entryIdx >= 0 {
				return nil, nil, false
			}
			entryIdx = k
		}
	}
	if entryIdx < 0 {
		return nil, nil, false
	}
	cases = []LenCase{{L: e.EvalLen(acc.Edges[entryIdx])}}
	for j := range elems {
		elemSeq := e.Eval(elems[j])
		sub := map[ssa.Value]ssa.Value{elemVal: elems[j]}
		var next []LenCase
		for _, prev := range cases {
			// the ways through the body
			type st struct {
				b     *ssa.BasicBlock
				atoms []Atom
				trail []*ssa.BasicBlock
			}
			stack := []st{{b: body, trail: []*ssa.BasicBlock{head, body}}}
			steps := 0
			for len(stack) > 0 {
				cur := stack[len(stack)-1]
				stack = stack[:len(stack)-1]
				steps++
				if steps > 64 {
					return nil, nil, false
				}
				last := cur.b.Instrs[len(cur.b.Instrs)-1]
				var outs []st
				switch t := last.(type) {
				case *ssa.Jump:
					outs = append(outs, st{b: cur.b.Succs[0], atoms: cur.atoms})
				case *ssa.If:
					for i, val := range []bool{true, false} {
						outs = append(outs, st{b: cur.b.Succs[i], atoms: append(append([]Atom(nil), cur.atoms...), NormAtomSubst(t.Cond, val, sub))})
					}
				default:
					return nil, nil, false // the body returns or panics: not a plain accumulation
				}
				for _, o := range outs {
					if o.b == head {
						// end of the iteration: the carried integer takes the value of the edge from this block
						k := -1
						for pi, pred := range head.Preds {
							if pred == cur.b {
								k = pi
							}
						}
						if k < 0 {
							return nil, nil, false
						}
						it := &SeqEval{Path: &Path{Blocks: cur.trail}, Env: map[ssa.Value]Seq{elemVal: elemSeq}, IntEnv: map[ssa.Value]LinLen{acc: prev.L}, Depth: e.Depth + 1}
						for kk, vv := range e.Env {
							it.Env[kk] = vv
						}
						l := it.EvalLen(acc.Edges[k])
						if l.Bad != "" {
							return nil, nil, false
						}
						next = append(next, LenCase{Atoms: append(append([]Atom(nil), prev.Atoms...), o.atoms...), L: l})
						continue
					}
					if !inLoop[o.b] {
						return nil, nil, false // the body leaves the loop early
					}
					o.trail = append(append([]*ssa.BasicBlock(nil), cur.trail...), o.b)
					stack = append(stack, o)
				}
			}
		}
		if len(next) == 0 || len(next) > 256 {
			return nil, nil, false
		}
		cases = next
	}
	return cases, iff.Cond, true
}

// arrayElems: the values stored into the elements of a local array literal (go/ssa: a local [N]T, one store per element).
func arrayElems(al *ssa.Alloc) ([]ssa.Value, bool) {
	arr, ok := Deref(al.Type()).Underlying().(*types.Array)
	if !ok {
		return nil, false
	}
	out := make([]ssa.Value, arr.Len())
	for _, ref := range *al.Referrers() {
		ia, ok := ref.(*ssa.IndexAddr)
		if !ok {
			continue
		}
		k, isK := ConstInt(ia.Index)
		if !isK {
			continue // a read at a variable index
		}
		for _, r2 := range *ia.Referrers() {
			if st, ok := r2.(*ssa.Store); ok && st.Addr == ssa.Value(ia) {
				if k < 0 || int(k) >= len(out) || out[k] != nil {
					return nil, false
				}
				out[k] = st.Val
			}
		}
	}
	for _, v := range out {
		if v == nil {
			return nil, false
		}
	}
	return out, true
}
