package an

import (
	"fmt"
	"go/token"
	"go/types"
	"regexp"
	"sort"
	"strings"

	"golang.org/x/tools/go/ssa"
)

// Render gives a canonical textual form of an SSA value: field paths, calls, arithmetic.
// Two renders are equal only if the values are computed the same way from the same roots;
// go/ssa does no CSE, so repeated loads of one field path render identically (and are
// treated as one term by the rules that compare renders — sound only where no store to
// that path intervenes, which the rules that rely on it check separately).
func Render(v ssa.Value) string { return renderWith(v, defaultResolver) }

// defaultResolver, when set, is applied by Render (used to re-render path atoms of a callee in the caller's terms).
var defaultResolver func(ssa.Value) ssa.Value

// NormAtomSubst normalises a condition of a callee with its parameters replaced by the caller's values.
func NormAtomSubst(v ssa.Value, val bool, sub map[ssa.Value]ssa.Value) Atom {
	old := defaultResolver
	defaultResolver = func(x ssa.Value) ssa.Value {
		for i := 0; i < 4; i++ {
			y, ok := sub[x]
			if !ok {
				break
			}
			x = y
		}
		return x
	}
	defer func() { defaultResolver = old }()
	return NormAtom(v, val)
}

// RenderOnPath renders v with phis and spilled local cells resolved along the given path.
func RenderOnPath(v ssa.Value, p *Path) string {
	return renderWith(v, func(x ssa.Value) ssa.Value {
		for i := 0; i < 6; i++ {
			y := resolvePhi(spillOnPath(x, p.Blocks), p.Blocks)
			if s, ok := p.Sub[y]; ok {
				y = s
			}
			if y == x {
				break
			}
			x = y
		}
		return x
	})
}

var curResolver func(ssa.Value) ssa.Value

func renderWith(v ssa.Value, r func(ssa.Value) ssa.Value) string {
	old := curResolver
	curResolver = r
	defer func() { curResolver = old }()
	return render(v, 0)
}

func render(v ssa.Value, depth int) string {
	if v == nil {
		return "<nil>"
	}
	if depth > 60 {
		return "…"
	}
	if curResolver != nil {
		v = curResolver(v)
	}
	// a session (or its handler) is a singleton in every function of the library: however it is reached — receiver, captured
	// variable, field of a helper object — it renders under the pinned receiver name
	if n := singletonName(v); n != "" {
		return n
	}
	switch x := v.(type) {
	case *ssa.Const:
		if x.Value == nil {
			return "nil"
		}
		return x.Value.ExactString()
	case *ssa.Parameter:
		if t, ok := paramText[x]; ok {
			return t
		}
		if n := canonicalRecv(x); n != "" {
			return n
		}
		if n := pinnedParam(x); n != "" {
			return n
		}
		return x.Name()
	case *ssa.FreeVar:
		if n := canonicalCell(x); n != "" {
			return n
		}
		return x.Name()
	case *ssa.Global:
		return x.Name()
	case *ssa.Function:
		return NameOf(x)
	case *ssa.Builtin:
		return x.Name()
	case *ssa.Alloc:
		if n := canonicalCell(x); n != "" {
			return "&" + n
		}
		if x.Comment != "" {
			return "&" + x.Comment
		}
		return "&" + x.Name()
	case *ssa.UnOp:
		switch x.Op {
		case token.MUL:
			switch b := x.X.(type) {
			case *ssa.FieldAddr:
				if w, idx := LocalStructField(b); w != nil {
					if idx >= 0 {
						return render(w, depth+1) + fmt.Sprintf("#%d", idx)
					}
					return render(w, depth+1)
				}
				return render(b.X, depth+1) + "." + FieldName(FieldOf(b))
			case *ssa.FreeVar:
				if n := canonicalCell(b); n != "" {
					return n
				}
				return b.Name()
			case *ssa.Alloc:
				if u := Unspill(x); u != ssa.Value(x) {
					return render(u, depth+1)
				}
				if n := canonicalCell(b); n != "" {
					return n
				}
				if b.Comment != "" {
					return b.Comment
				}
				return "*" + b.Name()
			case *ssa.Global:
				return b.Name()
			case *ssa.IndexAddr:
				return render(b.X, depth+1) + "[" + render(b.Index, depth+1) + "]"
			}
			return "*" + render(x.X, depth+1)
		case token.NOT:
			return "!" + render(x.X, depth+1)
		case token.SUB:
			return "-" + render(x.X, depth+1)
		case token.ARROW:
			return "<-" + render(x.X, depth+1)
		}
		return x.Op.String() + render(x.X, depth+1)
	case *ssa.FieldAddr:
		return "&" + render(x.X, depth+1) + "." + FieldName(FieldOf(x))
	case *ssa.Field:
		return render(x.X, depth+1) + "." + FieldName(FieldOf(x))
	case *ssa.IndexAddr:
		return "&" + render(x.X, depth+1) + "[" + render(x.Index, depth+1) + "]"
	case *ssa.Index:
		return render(x.X, depth+1) + "[" + render(x.Index, depth+1) + "]"
	case *ssa.Lookup:
		return render(x.X, depth+1) + "[" + render(x.Index, depth+1) + "]"
	case *ssa.Extract:
		return render(x.Tuple, depth+1) + fmt.Sprintf("#%d", x.Index)
	case *ssa.BinOp:
		return "(" + render(x.X, depth+1) + " " + x.Op.String() + " " + render(x.Y, depth+1) + ")"
	case *ssa.Convert:
		return shortType(x.Type()) + "(" + render(x.X, depth+1) + ")"
	case *ssa.ChangeType:
		return render(x.X, depth+1)
	case *ssa.ChangeInterface:
		return render(x.X, depth+1)
	case *ssa.MakeInterface:
		return render(x.X, depth+1)
	case *ssa.TypeAssert:
		return render(x.X, depth+1) + ".(" + shortType(x.AssertedType) + ")"
	case *ssa.Slice:
		lo, hi := "", ""
		if x.Low != nil {
			lo = render(x.Low, depth+1)
		}
		if x.High != nil {
			hi = render(x.High, depth+1)
		}
		return render(x.X, depth+1) + "[" + lo + ":" + hi + "]"
	case *ssa.MakeClosure:
		return "closure " + x.Fn.Name()
	case *ssa.Phi:
		// a loop-carried or merged variable: named by its source variable (go/ssa keeps it in Comment)
		// a variable that starts as a parameter carries the parameter's (pinned) name
		for _, e := range x.Edges {
			if prm, ok := e.(*ssa.Parameter); ok && prm.Name() == x.Comment {
				if n := pinnedParam(prm); n != "" {
					return n
				}
			}
		}
		if x.Comment != "" {
			return x.Comment
		}
		return "φ" + x.Name()
	case *ssa.Call:
		var args []string
		for i, a := range x.Call.Args {
			// expand a literal variadic argument list
			if i == len(x.Call.Args)-1 {
				if sl, ok := a.(*ssa.Slice); ok {
					if al, ok := sl.X.(*ssa.Alloc); ok && al.Comment == "varargs" {
						if elems, ok := SliceElems(sl); ok {
							for _, e := range elems {
								args = append(args, render(e, depth+1))
							}
							continue
						}
					}
				}
			}
			args = append(args, render(a, depth+1))
		}
		if x.Call.IsInvoke() {
			return render(x.Call.Value, depth+1) + "." + x.Call.Method.Name() + "(" + strings.Join(args, ", ") + ")"
		}
		if f := StaticCallee(&x.Call); f != nil {
			// a helper that the rules do not know by name and that is a side-effect-free single expression reads as that expression
			if ret, path, ok := pureExprOf(f); ok && len(args) == len(f.Params) && depth < 40 {
				saved := map[*ssa.Parameter]string{}
				had := map[*ssa.Parameter]bool{}
				for i, prm := range f.Params {
					saved[prm], had[prm] = paramText[prm]
					paramText[prm] = args[i]
				}
				old := curResolver
				curResolver = func(y ssa.Value) ssa.Value {
					for i := 0; i < 6; i++ {
						z := resolvePhi(spillOnPath(y, path.Blocks), path.Blocks)
						if z == y {
							break
						}
						y = z
					}
					return y
				}
				out := render(ret, depth+1)
				curResolver = old
				for _, prm := range f.Params {
					if had[prm] {
						paramText[prm] = saved[prm]
					} else {
						delete(paramText, prm)
					}
				}
				return out
			}
			name := NameOf(f) // the name the rules know the function by (a renamed function keeps its pinned name here)
			if f.Signature.Recv() != nil && len(args) > 0 {
				return args[0] + "." + name + "(" + strings.Join(args[1:], ", ") + ")"
			}
			if f.Pkg != nil {
				name = f.Pkg.Pkg.Name() + "." + name
			} else if o := f.Object(); o != nil && o.Pkg() != nil {
				name = o.Pkg().Name() + "." + name
			}
			return name + "(" + strings.Join(args, ", ") + ")"
		}
		return render(x.Call.Value, depth+1) + "(" + strings.Join(args, ", ") + ")"
	case *ssa.MakeSlice:
		return "make(" + shortType(x.Type()) + ", " + render(x.Len, depth+1) + ")"
	case *ssa.MakeMap:
		return "make(" + shortType(x.Type()) + ")"
	case *ssa.MakeChan:
		return "make(" + shortType(x.Type()) + ", " + render(x.Size, depth+1) + ")"
	}
	return v.Name() + ":" + shortType(v.Type())
}

func shortType(t types.Type) string {
	s := types.TypeString(t, func(p *types.Package) string { return p.Name() })
	// `any` is an alias of interface{}: one spelling
	return anyWord.ReplaceAllString(s, "interface{}")
}

var anyWord = regexp.MustCompile(`\bany\b`)

// Atom is one branch condition on a path, normalised: Rel ∈ {"<","<=","==","!=","true","false"}.
// Comparisons are flipped so that only < and <= occur ( a>b ⇒ b<a ; ¬(a<b) ⇒ b<=a ).
type Atom struct {
	L, Rel, R string
	Val       ssa.Value // the condition value
	Taken     bool
}

func (a Atom) String() string {
	switch a.Rel {
	case "true":
		return a.L
	case "false":
		return "!" + a.L
	}
	return a.L + " " + a.Rel + " " + a.R
}

// NormAtom normalises condition v taken with truth value val.
func NormAtom(v ssa.Value, val bool) Atom {
	for {
		// a condition that is the result of a helper is the expression the helper returned on this path
		if defaultResolver != nil {
			v = defaultResolver(v)
		}
		u, ok := v.(*ssa.UnOp)
		if !ok || u.Op != token.NOT {
			break
		}
		v = u.X
		val = !val
	}
	if b, ok := v.(*ssa.BinOp); ok {
		l, r := Render(b.X), Render(b.Y)
		op := b.Op
		if !val {
			switch op {
			case token.LSS:
				op = token.GEQ
			case token.LEQ:
				op = token.GTR
			case token.GTR:
				op = token.LEQ
			case token.GEQ:
				op = token.LSS
			case token.EQL:
				op = token.NEQ
			case token.NEQ:
				op = token.EQL
			}
		}
		switch op {
		case token.LSS:
			return Atom{L: l, Rel: "<", R: r, Val: v, Taken: val}
		case token.LEQ:
			return Atom{L: l, Rel: "<=", R: r, Val: v, Taken: val}
		case token.GTR:
			return Atom{L: r, Rel: "<", R: l, Val: v, Taken: val}
		case token.GEQ:
			return Atom{L: r, Rel: "<=", R: l, Val: v, Taken: val}
		case token.EQL, token.NEQ:
			rel := "=="
			if op == token.NEQ {
				rel = "!="
			}
			// constants to the right; otherwise lexicographic
			_, lc := b.X.(*ssa.Const)
			_, rc := b.Y.(*ssa.Const)
			if (lc && !rc) || (!lc && !rc && l > r) {
				l, r = r, l
			}
			return Atom{L: l, Rel: rel, R: r, Val: v, Taken: val}
		}
	}
	rel := "true"
	if !val {
		rel = "false"
	}
	return Atom{L: Render(v), Rel: rel, Val: v, Taken: val}
}

// Path is one acyclic path of a function: the atoms of its branches and how it ends.
type Path struct {
	Atoms   []Atom
	Blocks  []*ssa.BasicBlock
	Return  *ssa.Return // nil if the path ends in panic or loops back
	Results []string    // rendered results (phis resolved along the path)
	ResVals []ssa.Value
	Panic   bool
	Loop    bool
	// Sub is set on paths of EnumPathsX: helper parameters → arguments, results of expanded calls → returned values
	Sub      map[ssa.Value]ssa.Value
	expanded map[*ssa.Call]bool
	// Seq, on paths of EnumPathsX, is the path's instructions in execution order (a helper's instructions follow its call)
	Seq []ssa.Instruction
}

// InstrSeq returns the instructions of the path in execution order.
func (p *Path) InstrSeq() []ssa.Instruction {
	if p.Seq != nil {
		return p.Seq
	}
	var out []ssa.Instruction
	for _, b := range p.Blocks {
		out = append(out, b.Instrs...)
	}
	return out
}

func (p *Path) Has(atom string) bool {
	for _, a := range p.Atoms {
		if a.String() == atom {
			return true
		}
	}
	return false
}

func (p *Path) AtomStrings() []string {
	var out []string
	for _, a := range p.Atoms {
		out = append(out, a.String())
	}
	return out
}

func (p *Path) CondString() string {
	s := p.AtomStrings()
	return strings.Join(s, " ∧ ")
}

// Passes reports whether the path executes instruction in.
func (p *Path) Passes(in ssa.Instruction) bool {
	for _, b := range p.Blocks {
		if b == in.Block() {
			return true
		}
	}
	return false
}

// EnumPaths enumerates the acyclic paths of fn (loops are cut at the back edge). Correlated
// re-tests of one SSA value are pruned. max bounds the number of paths.
func EnumPaths(fn *ssa.Function, max int) (paths []*Path, overflow bool) {
	if fn == nil || len(fn.Blocks) == 0 {
		return nil, false
	}
	type st struct {
		atoms  []Atom
		blocks []*ssa.BasicBlock
		conds  map[ssa.Value]bool
	}
	visited := map[*ssa.BasicBlock]bool{}
	heads := LoopHeads(fn)
	var walk func(b *ssa.BasicBlock, s st)
	walk = func(b *ssa.BasicBlock, s st) {
		if len(paths) >= max {
			overflow = true
			return
		}
		if visited[b] {
			paths = append(paths, &Path{Atoms: s.atoms, Blocks: s.blocks, Loop: true})
			return
		}
		visited[b] = true
		defer func() { visited[b] = false }()
		s.blocks = append(append([]*ssa.BasicBlock(nil), s.blocks...), b)
		last := b.Instrs[len(b.Instrs)-1]
		switch x := last.(type) {
		case *ssa.Return:
			p := &Path{Atoms: s.atoms, Blocks: s.blocks, Return: x}
			for _, r := range x.Results {
				rv := resolvePhi(spillOnPath(r, s.blocks), s.blocks)
				p.ResVals = append(p.ResVals, rv)
				p.Results = append(p.Results, RenderOnPath(rv, p))
			}
			paths = append(paths, p)
		case *ssa.Panic:
			paths = append(paths, &Path{Atoms: s.atoms, Blocks: s.blocks, Panic: true})
		case *ssa.Jump:
			walk(b.Succs[0], s)
		case *ssa.If:
			for i, val := range []bool{true, false} {
				if known, ok := s.conds[x.Cond]; ok && known != val {
					continue
				}
				ns := st{blocks: s.blocks, conds: map[ssa.Value]bool{}}
				for k, v := range s.conds {
					ns.conds[k] = v
				}
				ns.conds[x.Cond] = val
				// merged variables (not loop-carried ones) are read as the value they have on this path: a condition on
				// `err` after `if err == nil { err = g() }` is a condition on f's or on g's result, and a re-test of what the
				// path has already decided is dropped
				blocks := s.blocks
				old := defaultResolver
				defaultResolver = func(v ssa.Value) ssa.Value {
					for k := 0; k < 6; k++ {
						phi, ok := v.(*ssa.Phi)
						if !ok || heads[phi.Block()] {
							break
						}
						w := resolvePhi(phi, blocks)
						if w == v {
							break
						}
						v = w
					}
					if old != nil {
						v = old(v)
					}
					return v
				}
				na := NormAtom(x.Cond, val)
				defaultResolver = old
				contra := false
				for _, a := range s.atoms {
					if contradicts(a, na) {
						contra = true
					}
				}
				if contra {
					continue
				}
				ns.atoms = append(append([]Atom(nil), s.atoms...), na)
				walk(b.Succs[i], ns)
			}
		default:
			// function without explicit terminator (should not happen)
		}
	}
	walk(fn.Blocks[0], st{conds: map[ssa.Value]bool{}})
	return paths, overflow
}

// resolvePhi picks the operand of a phi that corresponds to the edge taken on the path.
func resolvePhi(v ssa.Value, blocks []*ssa.BasicBlock) ssa.Value {
	for i := 0; i < 8; i++ {
		phi, ok := v.(*ssa.Phi)
		if !ok {
			return v
		}
		pb := phi.Block()
		idx := -1
		for j, b := range blocks {
			if b == pb {
				idx = j
			}
		}
		if idx <= 0 {
			return v
		}
		// the block the path came from: the nearest earlier block of the same function (on an interprocedural path the blocks
		// of a helper stand between the block of its call and that block's successor)
		pred := blocks[idx-1]
		for j := idx - 1; j >= 0; j-- {
			if blocks[j].Parent() == pb.Parent() {
				pred = blocks[j]
				break
			}
		}
		found := false
		for k, p := range pb.Preds {
			if p == pred {
				v = phi.Edges[k]
				found = true
				break
			}
		}
		if !found {
			return v
		}
	}
	return v
}

// ResolveOnPath resolves phis in v along a path's blocks.
func ResolveOnPath(v ssa.Value, p *Path) ssa.Value {
	for i := 0; i < 6; i++ {
		w := resolvePhi(spillOnPath(v, p.Blocks), p.Blocks)
		if w == v {
			break
		}
		v = w
	}
	for i := 0; i < 6; i++ {
		s, ok := p.Sub[v]
		if !ok {
			break
		}
		v = resolvePhi(spillOnPath(s, p.Blocks), p.Blocks)
	}
	return v
}

// Dominates reports whether instruction a dominates instruction b (same function).
func Dominates(a, b ssa.Instruction) bool {
	ba, bb := a.Block(), b.Block()
	if ba == bb {
		for _, in := range ba.Instrs {
			if in == a {
				return true
			}
			if in == b {
				return false
			}
		}
		return false
	}
	return ba.Dominates(bb)
}

// SortedKeys returns the sorted keys of a string-keyed map.
func SortedKeys[V any](m map[string]V) []string {
	out := make([]string, 0, len(m))
	for k := range m {
		out = append(out, k)
	}
	sort.Strings(out)
	return out
}

// spillOnPath resolves a load of a local result cell (go/ssa spills results of functions
// with defers) to the value last stored into it on the given path.
func spillOnPath(v ssa.Value, blocks []*ssa.BasicBlock) ssa.Value {
	u, ok := v.(*ssa.UnOp)
	if !ok || u.Op != token.MUL {
		return v
	}
	al, ok := u.X.(*ssa.Alloc)
	if !ok {
		return v
	}
	for _, r := range *al.Referrers() {
		switch x := r.(type) {
		case *ssa.Store:
			if x.Addr != ssa.Value(al) {
				return v
			}
		case *ssa.UnOp, *ssa.DebugRef:
		default:
			return v
		}
	}
	// walk the path backwards from the load's own position
	at := -1
	for i := len(blocks) - 1; i >= 0; i-- {
		if blocks[i] == u.Block() {
			at = i
			break
		}
	}
	if at < 0 {
		return v
	}
	for i := at; i >= 0; i-- {
		b := blocks[i]
		start := len(b.Instrs) - 1
		if i == at {
			for j, in := range b.Instrs {
				if in == ssa.Instruction(u) {
					start = j
				}
			}
		}
		for j := start; j >= 0; j-- {
			if st, ok := b.Instrs[j].(*ssa.Store); ok && st.Addr == ssa.Value(al) {
				return st.Val
			}
		}
	}
	return v
}

// Reaches reports whether control can flow from instruction a to instruction b (a ≠ b) inside one function.
func Reaches(a, b ssa.Instruction) bool {
	ba, bb := a.Block(), b.Block()
	if ba == bb {
		ia, ib := -1, -1
		for i, in := range ba.Instrs {
			if in == a {
				ia = i
			}
			if in == b {
				ib = i
			}
		}
		if ia < ib {
			return true
		}
	}
	seen := map[*ssa.BasicBlock]bool{}
	work := append([]*ssa.BasicBlock(nil), ba.Succs...)
	for len(work) > 0 {
		x := work[0]
		work = work[1:]
		if seen[x] {
			continue
		}
		seen[x] = true
		if x == bb {
			return true
		}
		work = append(work, x.Succs...)
	}
	return false
}

// ExpandGetter reads a call to a side-effect-free helper of the module as the expression it returns: the callee has a single
// returning path, stores nothing, sends nothing, spawns nothing and calls nothing of the module (lock operations and standard-library
// calls are allowed), so its result is the rendered return expression with the parameters replaced by the arguments.
func ExpandGetter(v ssa.Value, modPrefix string) (string, bool) {
	call, ok := v.(*ssa.Call)
	if !ok {
		return "", false
	}
	cal := StaticCallee(&call.Call)
	if cal == nil || cal.Pkg == nil || len(cal.Blocks) == 0 || !strings.HasPrefix(cal.Pkg.Pkg.Path(), modPrefix) {
		return "", false
	}
	pure := true
	AllInstrs(cal, func(in ssa.Instruction) {
		switch x := in.(type) {
		case *ssa.Store:
			// stores to local cells (spilled results, named variables) are allowed
			if _, local := x.Addr.(*ssa.Alloc); !local {
				pure = false
			}
		case *ssa.MapUpdate, *ssa.Send, *ssa.Go, *ssa.Select:
			pure = false
		case *ssa.Call, *ssa.Defer:
			cc := CallOf(in)
			if _, _, isLock := lockOp(cc); isLock {
				return
			}
			if cc.IsInvoke() {
				pure = false
				return
			}
			if c2 := StaticCallee(cc); c2 == nil || c2.Pkg == nil || strings.HasPrefix(c2.Pkg.Pkg.Path(), modPrefix) {
				if _, isBuiltin := cc.Value.(*ssa.Builtin); !isBuiltin {
					pure = false
				}
			}
		}
	})
	if !pure {
		return "", false
	}
	paths, _ := EnumPaths(cal, 16)
	var ret *Path
	for _, p := range paths {
		if p.Return != nil {
			if ret != nil {
				return "", false
			}
			ret = p
		}
	}
	if ret == nil || len(ret.ResVals) != 1 {
		return "", false
	}
	sub := map[ssa.Value]ssa.Value{}
	for i, p := range cal.Params {
		if i < len(call.Call.Args) {
			sub[p] = call.Call.Args[i]
		}
	}
	return renderWith(ret.ResVals[0], func(x ssa.Value) ssa.Value {
		for i := 0; i < 6; i++ {
			y := resolvePhi(spillOnPath(x, ret.Blocks), ret.Blocks)
			if a, ok := sub[y]; ok {
				y = a
			}
			if y == x {
				break
			}
			x = y
		}
		return x
	}), true
}

// RenderSubst renders v with the given values replaced (a callee's parameters by the caller's arguments).
func RenderSubst(v ssa.Value, sub map[ssa.Value]ssa.Value) string {
	if len(sub) == 0 {
		return Render(v)
	}
	return renderWith(v, func(x ssa.Value) ssa.Value {
		for i := 0; i < 4; i++ {
			y, ok := sub[x]
			if !ok {
				break
			}
			x = y
		}
		return x
	})
}

// paramText holds, while the body of an expanded helper is rendered, the text of the argument for each parameter.
var paramText = map[*ssa.Parameter]string{}

type pureInfo struct {
	ret  ssa.Value
	path *Path
	ok   bool
}

var pureCache = map[*ssa.Function]pureInfo{}

// pureExprOf: fn is a function of the module that is not in KnownFuncs (a helper introduced after the rules were written), has
// one result and a single returning path, stores nothing outside its locals, sends nothing, spawns nothing and calls nothing of
// the module except other such helpers (lock operations and standard-library calls are allowed). Its calls then denote its
// return expression with the parameters replaced by the arguments.
func pureExprOf(fn *ssa.Function) (ssa.Value, *Path, bool) {
	if info, ok := pureCache[fn]; ok {
		return info.ret, info.path, info.ok
	}
	pureCache[fn] = pureInfo{} // recursion guard
	info := pureInfo{}
	defer func() { pureCache[fn] = info }()
	if fn.Pkg == nil || len(fn.Blocks) == 0 || fn.Parent() != nil || !strings.HasPrefix(fn.Pkg.Pkg.Path(), "github.com/b2broker/simplefix-go") || KnownFuncs[fn.String()] {
		return nil, nil, false
	}
	if fn.Signature.Results().Len() != 1 || fn.Signature.Variadic() {
		return nil, nil, false
	}
	pure := true
	AllInstrs(fn, func(in ssa.Instruction) {
		switch x := in.(type) {
		case *ssa.Store:
			if _, local := x.Addr.(*ssa.Alloc); !local {
				if ia, isIdx := x.Addr.(*ssa.IndexAddr); isIdx {
					if _, lit := ia.X.(*ssa.Alloc); lit {
						return // element of a literal being built
					}
				}
				if fa, isF := x.Addr.(*ssa.FieldAddr); isF {
					if _, lit := fa.X.(*ssa.Alloc); lit {
						return
					}
				}
				pure = false
			}
		case *ssa.MapUpdate, *ssa.Send, *ssa.Go, *ssa.Select, *ssa.Defer, *ssa.Panic:
			pure = false
		case *ssa.Call:
			cc := &x.Call
			if _, _, isLock := lockOp(cc); isLock {
				return
			}
			if cc.IsInvoke() {
				// getters of the message interfaces are reads; anything else through an interface is opaque
				pure = false
				return
			}
			if _, isBuiltin := cc.Value.(*ssa.Builtin); isBuiltin {
				return
			}
			c2 := StaticCallee(cc)
			if c2 == nil {
				pure = false
				return
			}
			if c2.Pkg != nil && strings.HasPrefix(c2.Pkg.Pkg.Path(), "github.com/b2broker/simplefix-go") {
				if _, _, ok := pureExprOf(c2); !ok {
					pure = false
				}
			}
		}
	})
	if !pure {
		return nil, nil, false
	}
	paths, _ := EnumPaths(fn, 16)
	var ret *Path
	for _, p := range paths {
		if p.Return != nil {
			if ret != nil {
				return nil, nil, false
			}
			ret = p
		}
	}
	if ret == nil || len(ret.ResVals) != 1 {
		return nil, nil, false
	}
	info = pureInfo{ret: ret.ResVals[0], path: ret, ok: true}
	return info.ret, info.path, true
}

// canonicalRecv: x is the receiver of a method of a type of the module: the name that type's receivers have on the pinned tree.
func canonicalRecv(x *ssa.Parameter) string {
	fn := x.Parent()
	if fn == nil || fn.Signature.Recv() == nil || len(fn.Params) == 0 || fn.Params[0] != x {
		return ""
	}
	n := NamedOf(fn.Signature.Recv().Type())
	if n == nil || n.Obj().Pkg() == nil {
		return ""
	}
	return KnownRecv[n.Obj().Pkg().Path()+"."+n.Obj().Name()]
}

// canonicalCell: v is the variable cell of a receiver (a receiver captured by a function literal is spilled to a cell that is
// stored once, with the parameter), or a free variable bound to such a cell or to the receiver itself.
func canonicalCell(v ssa.Value) string {
	switch x := v.(type) {
	case *ssa.FreeVar:
		switch b := FreeVarBinding(x).(type) {
		case *ssa.Parameter:
			return canonicalRecv(b)
		case *ssa.Alloc:
			return canonicalCell(b)
		}
	case *ssa.Alloc:
		if x.Referrers() == nil {
			return ""
		}
		var prm *ssa.Parameter
		n := 0
		for _, ref := range *x.Referrers() {
			if st, ok := ref.(*ssa.Store); ok && st.Addr == ssa.Value(x) {
				n++
				prm, _ = st.Val.(*ssa.Parameter)
			}
		}
		if n == 1 && prm != nil {
			if r := canonicalRecv(prm); r != "" {
				return r
			}
			return pinnedParam(prm) // a parameter captured by a function literal lives in a cell
		}
	}
	return ""
}

// ---------------------------------------------------------------------------
// Interprocedural paths: EnumPathsX is EnumPaths with every call of a helper that the rules do not know by name (a function of
// the module outside KnownFuncs, not recursive, not a single pure expression — those are read through by the renderer) replaced
// by each of the helper's returning paths. The helper's conditions join the path's atoms with its parameters replaced by the
// arguments; the path's own conditions on the call's results are re-read with the values the helper returned on that path, and
// combinations that compare a constant with a different constant are dropped. Blocks of the helper are inserted after the block
// of the call so that Passes sees its instructions.
// ---------------------------------------------------------------------------

// XSub of an expanded path: helper parameters → arguments, call results → returned values.
type xsub map[ssa.Value]ssa.Value

func (s xsub) resolve(v ssa.Value) ssa.Value {
	for i := 0; i < 6; i++ {
		y, ok := s[v]
		if !ok {
			break
		}
		v = y
	}
	return v
}

func spliceable(fn, callee *ssa.Function) bool {
	if callee == nil || callee == fn || callee.Pkg == nil || len(callee.Blocks) == 0 || KnownFuncs[callee.String()] {
		return false
	}
	if !strings.HasPrefix(callee.Pkg.Pkg.Path(), "github.com/b2broker/simplefix-go") {
		return false
	}
	if _, _, pure := pureExprOf(callee); pure {
		return false
	}
	return true
}

// EnumPathsX: see above. depth bounds nesting of helpers.
func EnumPathsX(fn *ssa.Function, max int) ([]*Path, bool) {
	return enumPathsX(fn, max, 0, map[*ssa.Function]bool{fn: true})
}

func enumPathsX(fn *ssa.Function, max, depth int, stack map[*ssa.Function]bool) ([]*Path, bool) {
	base, over := EnumPaths(fn, max)
	if depth > 2 {
		return base, over
	}
	var out []*Path
	for _, p := range base {
		out = append(out, expandPath(fn, p, max, depth, stack)...)
		if len(out) > max {
			return out[:max], true
		}
	}
	return out, over
}

func expandPath(fn *ssa.Function, p *Path, max, depth int, stack map[*ssa.Function]bool) []*Path {
	// the first call of a spliceable helper on the path
	var call *ssa.Call
	var at int
	for i, b := range p.Blocks {
		if b.Parent() != fn {
			continue
		}
		for _, in := range b.Instrs {
			if c, ok := in.(*ssa.Call); ok && call == nil {
				if cal := StaticCallee(&c.Call); spliceable(fn, cal) && !stack[cal] && !p.expanded[c] {
					call, at = c, i
				}
			}
		}
		if call != nil {
			break
		}
	}
	if call == nil {
		return []*Path{p}
	}
	callee := StaticCallee(&call.Call)
	stack[callee] = true
	qs, _ := enumPathsX(callee, 256, depth+1, stack)
	delete(stack, callee)
	var out []*Path
	for _, q := range qs {
		if q.Return == nil || q.Loop {
			continue
		}
		sub := xsub{}
		for k, v := range p.Sub {
			sub[k] = v
		}
		for k, v := range q.Sub {
			sub[k] = v
		}
		for i, prm := range callee.Params {
			if i < len(call.Call.Args) {
				sub[prm] = resolvePhi(spillOnPath(call.Call.Args[i], p.Blocks), p.Blocks)
			}
		}
		// results: the call value (single result) and its extracts
		if len(q.ResVals) == 1 {
			sub[call] = Unspill(q.ResVals[0])
		}
		if call.Referrers() != nil {
			for _, ref := range *call.Referrers() {
				if ex, ok := ref.(*ssa.Extract); ok && ex.Index < len(q.ResVals) {
					sub[ex] = Unspill(q.ResVals[ex.Index])
				}
			}
		}
		np := &Path{Return: p.Return, Panic: p.Panic, Loop: p.Loop, Sub: sub, expanded: map[*ssa.Call]bool{call: true}}
		for _, in := range p.InstrSeq() {
			np.Seq = append(np.Seq, in)
			if in == ssa.Instruction(call) {
				np.Seq = append(np.Seq, q.InstrSeq()...)
			}
		}
		for c := range p.expanded {
			np.expanded[c] = true
		}
		np.Blocks = append(np.Blocks, p.Blocks[:at+1]...)
		np.Blocks = append(np.Blocks, q.Blocks...)
		np.Blocks = append(np.Blocks, p.Blocks[at+1:]...)
		feasible := true
		addAtom := func(a Atom) {
			na := NormAtomSubst(a.Val, a.Taken, sub)
			// a condition that is a constant on this combination (a helper's boolean result) decides itself
			{
				cv, neg := a.Val, false
				for i := 0; i < 4; i++ {
					cv = sub.resolve(cv)
					if u, ok := cv.(*ssa.UnOp); ok && u.Op == token.NOT {
						cv, neg = u.X, !neg
						continue
					}
					break
				}
				if cb, ok := ConstBool(cv); ok {
					if (cb != neg) != a.Taken {
						feasible = false
					}
					return
				}
			}
			// constant against constant decides itself
			if bo, ok := a.Val.(*ssa.BinOp); ok && (bo.Op == token.EQL || bo.Op == token.NEQ) {
				x, y := sub.resolve(bo.X), sub.resolve(bo.Y)
				cx, okx := x.(*ssa.Const)
				cy, oky := y.(*ssa.Const)
				if okx && oky {
					same := (cx.Value == nil && cy.Value == nil) || (cx.Value != nil && cy.Value != nil && cx.Value.ExactString() == cy.Value.ExactString())
					holds := same == (bo.Op == token.EQL)
					if holds != a.Taken {
						feasible = false
					}
					return
				}
				// a freshly made non-nil value compared with nil
				if oky && cy.Value == nil && neverNil(x) || okx && cx.Value == nil && neverNil(y) {
					holds := bo.Op == token.NEQ
					if holds != a.Taken {
						feasible = false
					}
					return
				}
			}
			np.Atoms = append(np.Atoms, na)
		}
		// the caller's atoms up to the call, the helper's, the caller's after it (order matters only for display)
		for _, a := range p.Atoms {
			addAtom(a)
		}
		for _, a := range q.Atoms {
			addAtom(a)
		}
		// a condition and its negation on the same (substituted) operands: the caller re-tests what the helper has decided
		for i := 0; i < len(np.Atoms) && feasible; i++ {
			for j := i + 1; j < len(np.Atoms); j++ {
				if contradicts(np.Atoms[i], np.Atoms[j]) {
					feasible = false
					break
				}
			}
		}
		if !feasible {
			continue
		}
		for _, rv := range p.ResVals {
			r := sub.resolve(resolvePhi(spillOnPath(rv, p.Blocks), p.Blocks))
			np.ResVals = append(np.ResVals, r)
			np.Results = append(np.Results, RenderSubst(r, sub))
		}
		out = append(out, expandPath(fn, np, max, depth, stack)...)
		if len(out) > max {
			break
		}
	}
	return out
}

func contradicts(a, b Atom) bool {
	switch {
	case a.L == b.L && a.R == b.R:
		return a.Rel == "==" && b.Rel == "!=" || a.Rel == "!=" && b.Rel == "==" || a.Rel == "true" && b.Rel == "false" || a.Rel == "false" && b.Rel == "true"
	case a.L == b.R && a.R == b.L:
		return a.Rel == "<" && b.Rel == "<=" || a.Rel == "<=" && b.Rel == "<"
	}
	return false
}

// hasBlocksOf: a call of fn has already been expanded on the path (its parameters are bound once per path, so a second call
// stays opaque).
func (p *Path) hasBlocksOf(fn *ssa.Function) bool {
	for _, b := range p.Blocks {
		if b.Parent() == fn {
			return true
		}
	}
	return false
}

// neverNil: the value is a call that constructs an error or a value (fmt.Errorf, errors.New) or an allocation.
func neverNil(v ssa.Value) bool {
	switch x := v.(type) {
	case *ssa.Alloc, *ssa.MakeInterface, *ssa.MakeClosure, *ssa.MakeSlice, *ssa.MakeMap, *ssa.MakeChan:
		return true
	case *ssa.Call:
		if cal := StaticCallee(&x.Call); cal != nil && cal.Pkg != nil {
			switch cal.Pkg.Pkg.Path() + "." + cal.Name() {
			case "fmt.Errorf", "errors.New":
				return true
			}
		}
	case *ssa.UnOp:
		// a package-level sentinel: assigned once, in the package initialiser, a value that is never nil
		if g, ok := x.X.(*ssa.Global); ok && x.Op == token.MUL {
			return sentinelGlobal(g)
		}
	}
	return false
}

var sentinelCache = map[*ssa.Global]bool{}

func sentinelGlobal(g *ssa.Global) bool {
	if v, ok := sentinelCache[g]; ok {
		return v
	}
	sentinelCache[g] = false
	pkg := g.Pkg
	if pkg == nil {
		return false
	}
	stores, good := 0, 0
	for _, mem := range pkg.Members {
		fn, ok := mem.(*ssa.Function)
		if !ok {
			continue
		}
		for _, f := range WithAnon(fn) {
			AllInstrs(f, func(in ssa.Instruction) {
				if st, ok := in.(*ssa.Store); ok && st.Addr == ssa.Value(g) {
					stores++
					if fn.Name() == "init" && neverNil(st.Val) {
						good++
					}
				}
			})
		}
	}
	sentinelCache[g] = stores == 1 && good == 1
	return sentinelCache[g]
}

// pinnedParam: the name the parameter has on the pinned tree (same function — possibly renamed —, same position).
func pinnedParam(x *ssa.Parameter) string {
	fn := x.Parent()
	if fn == nil || fn.Parent() != nil || fn.Pkg == nil {
		return ""
	}
	names, ok := KnownParams[PinnedFull(fn)]
	if !ok {
		return ""
	}
	list := strings.Split(names, ",")
	for i, p := range fn.Params {
		if p == x && i < len(list) {
			return list[i]
		}
	}
	return ""
}

// singletonName: v has type *session.Session or *simplefixgo.DefaultHandler and is not the creation of a new object.
func singletonName(v ssa.Value) string {
	switch v.(type) {
	case *ssa.Alloc, *ssa.Call, *ssa.Extract, *ssa.Const, *ssa.MakeInterface, *ssa.Phi:
		return ""
	}
	pt, ok := v.Type().Underlying().(*types.Pointer)
	if !ok {
		return ""
	}
	n, ok := pt.Elem().(*types.Named)
	if !ok || n.Obj().Pkg() == nil {
		return ""
	}
	key := n.Obj().Pkg().Path() + "." + PinnedTypeName(n.Obj().Pkg(), n.Obj().Name())
	switch key {
	case "github.com/b2broker/simplefix-go/session.Session", "github.com/b2broker/simplefix-go.DefaultHandler":
		return KnownRecv[key]
	}
	return ""
}
