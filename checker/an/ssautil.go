// Package an holds the analysis engines shared by the property checks.
package an

import (
	"go/constant"
	"go/token"
	"go/types"
	"sort"
	"strings"

	"golang.org/x/tools/go/ssa"
)

// Deref strips pointer types.
func Deref(t types.Type) types.Type {
	for {
		p, ok := t.Underlying().(*types.Pointer)
		if !ok {
			return t
		}
		t = p.Elem()
	}
}

// NamedOf returns the named type behind t (through pointers), or nil.
func NamedOf(t types.Type) *types.Named {
	if t == nil {
		return nil
	}
	t = Deref(t)
	n, _ := t.(*types.Named)
	return n
}

// TypeIs reports whether t (through pointers) is the named type pkgSuffix.name.
func TypeIs(t types.Type, pkgSuffix, name string) bool {
	n := NamedOf(t)
	if n == nil || n.Obj() == nil {
		return false
	}
	if n.Obj().Name() != name && (n.Obj().Pkg() == nil || PinnedTypeName(n.Obj().Pkg(), n.Obj().Name()) != name) {
		return false
	}
	if n.Obj().Pkg() == nil {
		return pkgSuffix == ""
	}
	return n.Obj().Pkg().Path() == pkgSuffix || strings.HasSuffix(n.Obj().Pkg().Path(), "/"+pkgSuffix)
}

// FieldOf returns the struct field object addressed by a FieldAddr or read by a Field instruction.
func FieldOf(v ssa.Value) *types.Var {
	switch x := v.(type) {
	case *ssa.FieldAddr:
		st, ok := Deref(x.X.Type()).Underlying().(*types.Struct)
		if !ok {
			return nil
		}
		return st.Field(x.Field)
	case *ssa.Field:
		st, ok := x.X.Type().Underlying().(*types.Struct)
		if !ok {
			return nil
		}
		return st.Field(x.Field)
	}
	return nil
}

// LoadedField: if v is a load (*p) of a field address, or a Field extraction, return the field and the base value.
func LoadedField(v ssa.Value) (*types.Var, ssa.Value) {
	switch x := v.(type) {
	case *ssa.UnOp:
		if x.Op == token.MUL {
			if fa, ok := x.X.(*ssa.FieldAddr); ok {
				return FieldOf(fa), fa.X
			}
		}
	case *ssa.Field:
		return FieldOf(x), x.X
	}
	return nil, nil
}

// FieldPath renders a chain of field loads such as s.LogonSettings.HeartBtInt; ok=false if v is not such a chain.
func FieldPath(v ssa.Value) (string, bool) {
	var parts []string
	for {
		f, base := LoadedField(v)
		if f == nil {
			break
		}
		parts = append([]string{FieldName(f)}, parts...)
		v = base
	}
	if len(parts) == 0 {
		return "", false
	}
	root := RootName(v)
	return root + "." + strings.Join(parts, "."), true
}

// RootName names a parameter, free variable (possibly through its capture cell) or other value.
func RootName(v ssa.Value) string {
	switch x := v.(type) {
	case *ssa.Parameter:
		return x.Name()
	case *ssa.FreeVar:
		return x.Name()
	case *ssa.UnOp:
		if x.Op == token.MUL {
			return RootName(x.X)
		}
	case *ssa.Alloc:
		if x.Comment != "" {
			return x.Comment
		}
	}
	return v.Name()
}

// ConstInt returns the integer value of a constant.
func ConstInt(v ssa.Value) (int64, bool) {
	c, ok := v.(*ssa.Const)
	if !ok || c.Value == nil {
		return 0, false
	}
	if c.Value.Kind() != constant.Int {
		return 0, false
	}
	return c.Int64(), true
}

// ConstString returns the string value of a constant.
func ConstString(v ssa.Value) (string, bool) {
	c, ok := v.(*ssa.Const)
	if !ok || c.Value == nil || c.Value.Kind() != constant.String {
		return "", false
	}
	return constant.StringVal(c.Value), true
}

// ConstBool returns the boolean value of a constant.
func ConstBool(v ssa.Value) (bool, bool) {
	c, ok := v.(*ssa.Const)
	if !ok || c.Value == nil || c.Value.Kind() != constant.Bool {
		return false, false
	}
	return constant.BoolVal(c.Value), true
}

// IsNilConst reports whether v is the nil constant.
func IsNilConst(v ssa.Value) bool {
	c, ok := v.(*ssa.Const)
	return ok && c.Value == nil
}

// Unwrap strips interface conversions and type changes.
func Unwrap(v ssa.Value) ssa.Value {
	for {
		switch x := v.(type) {
		case *ssa.ChangeInterface:
			v = x.X
		case *ssa.MakeInterface:
			v = x.X
		case *ssa.ChangeType:
			v = x.X
		case *ssa.Convert:
			return v
		default:
			return v
		}
	}
}

// StaticCallee returns the statically known callee of a call (function, method, or closure literal).
func StaticCallee(cc *ssa.CallCommon) *ssa.Function {
	if cc.IsInvoke() {
		return nil
	}
	switch f := cc.Value.(type) {
	case *ssa.Function:
		return f
	case *ssa.MakeClosure:
		if fn, ok := f.Fn.(*ssa.Function); ok {
			return fn
		}
	}
	return nil
}

// ClosureFn returns the function behind a function value used as an argument (closure literal or named function).
func ClosureFn(v ssa.Value) *ssa.Function {
	switch f := Unwrap(v).(type) {
	case *ssa.Function:
		return f
	case *ssa.MakeClosure:
		if fn, ok := f.Fn.(*ssa.Function); ok {
			return BoundTarget(fn)
		}
	case *ssa.ChangeType:
		return ClosureFn(f.X)
	case *ssa.Call:
		// a factory of the same module: every return hands out a closure of one and the same function literal
		cal := StaticCallee(&f.Call)
		if cal == nil || cal.Blocks == nil || f.Parent() == nil || cal.Pkg != f.Parent().Pkg || cal.Signature.Results().Len() != 1 {
			return nil
		}
		var lit *ssa.Function
		for _, b := range cal.Blocks {
			ret, ok := b.Instrs[len(b.Instrs)-1].(*ssa.Return)
			if !ok {
				continue
			}
			var r ssa.Value = ret.Results[0]
			if ct, isCT := r.(*ssa.ChangeType); isCT {
				r = ct.X
			}
			mc, ok := r.(*ssa.MakeClosure)
			if !ok {
				return nil
			}
			fn, _ := mc.Fn.(*ssa.Function)
			if fn == nil || fn.Parent() != cal || (lit != nil && lit != fn) {
				return nil
			}
			lit = fn
		}
		return lit
	}
	return nil
}

// BoundTarget: for the synthetic wrapper of a method value (x.m used as a function) the method itself; otherwise fn.
// The method's parameters are the receiver followed by the wrapper's parameters.
func BoundTarget(fn *ssa.Function) *ssa.Function {
	if fn == nil || !strings.HasPrefix(fn.Synthetic, "bound method wrapper") {
		return fn
	}
	var target *ssa.Function
	AllInstrs(fn, func(in ssa.Instruction) {
		if cc := CallOf(in); cc != nil {
			if cal := StaticCallee(cc); cal != nil {
				target = cal
			}
		}
	})
	if target != nil {
		return target
	}
	return fn
}

// HandlerArg returns the parameter of a registered handler that carries the message: the last one (a function literal has
// only that parameter, a method used as a handler has its receiver first).
func HandlerArg(fn *ssa.Function) *ssa.Parameter {
	if fn == nil || len(fn.Params) == 0 {
		return nil
	}
	return fn.Params[len(fn.Params)-1]
}

// CallOf returns the CallCommon of a call-like instruction.
func CallOf(in ssa.Instruction) *ssa.CallCommon {
	switch x := in.(type) {
	case *ssa.Call:
		return &x.Call
	case *ssa.Defer:
		return &x.Call
	case *ssa.Go:
		return &x.Call
	}
	return nil
}

// InvokeOn reports whether cc invokes method name on an interface named iface in a package with the given suffix.
func InvokeOn(cc *ssa.CallCommon, pkgSuffix, iface, method string) bool {
	if !cc.IsInvoke() || cc.Method.Name() != method {
		return false
	}
	return TypeIs(cc.Value.Type(), pkgSuffix, iface)
}

// CalleeIs reports whether cc statically calls pkgPath.name (name may be "T.m" for methods, through pointer receivers).
func CalleeIs(cc *ssa.CallCommon, pkgPath, name string) bool {
	f := StaticCallee(cc)
	if f == nil {
		return false
	}
	return FuncIs(f, pkgPath, name)
}

// FuncIs reports whether f is pkgPath.name ("T.m" for methods).
func FuncIs(f *ssa.Function, pkgPath, name string) bool {
	if f == nil {
		return false
	}
	obj, _ := f.Object().(*types.Func)
	if obj == nil || obj.Pkg() == nil {
		return false
	}
	if obj.Pkg().Path() != pkgPath && !strings.HasSuffix(obj.Pkg().Path(), "/"+pkgPath) {
		return false
	}
	sig := obj.Type().(*types.Signature)
	if i := strings.Index(name, "."); i >= 0 {
		if sig.Recv() == nil {
			return false
		}
		n := NamedOf(sig.Recv().Type())
		return n != nil && PinnedTypeName(n.Obj().Pkg(), n.Obj().Name()) == name[:i] && NameOf(f) == name[i+1:]
	}
	return sig.Recv() == nil && NameOf(f) == name
}

// AllInstrs calls f for every instruction of fn (not of its closures).
func AllInstrs(fn *ssa.Function, f func(ssa.Instruction)) {
	for _, b := range fn.Blocks {
		for _, in := range b.Instrs {
			f(in)
		}
	}
}

// WithAnon returns fn and all functions nested in it.
func WithAnon(fn *ssa.Function) []*ssa.Function {
	out := []*ssa.Function{fn}
	for _, a := range fn.AnonFuncs {
		out = append(out, WithAnon(a)...)
	}
	return out
}

// CellValue resolves a load from a capture cell: if v is *alloc or *freevar where the cell
// is stored exactly once (in the defining function), return the stored value.
func CellValue(v ssa.Value) ssa.Value {
	if w := BoundRecvField(v); w != v {
		return w
	}
	u, ok := v.(*ssa.UnOp)
	if !ok || u.Op != token.MUL {
		return v
	}
	var cell ssa.Value = u.X
	if fv, ok := cell.(*ssa.FreeVar); ok {
		// find binding in the parent MakeClosure
		fn := fv.Parent()
		idx := -1
		for i, f := range fn.FreeVars {
			if f == fv {
				idx = i
			}
		}
		if idx < 0 || fn.Parent() == nil {
			return v
		}
		var bound ssa.Value
		n := 0
		for _, pf := range WithAnon(rootOf(fn)) {
			AllInstrs(pf, func(in ssa.Instruction) {
				if mc, ok := in.(*ssa.MakeClosure); ok && mc.Fn == fn {
					bound = mc.Bindings[idx]
					n++
				}
			})
		}
		if n != 1 || bound == nil {
			return v
		}
		cell = bound
		if _, ok := cell.(*ssa.FreeVar); ok {
			// nested capture: recurse through a synthetic load
			return v
		}
	}
	al, ok := cell.(*ssa.Alloc)
	if !ok {
		return v
	}
	var stored ssa.Value
	n := 0
	for _, r := range *al.Referrers() {
		if st, ok := r.(*ssa.Store); ok && st.Addr == al {
			stored = st.Val
			n++
		}
	}
	// stores from closures that captured the cell
	for _, pf := range WithAnon(rootOf(al.Parent())) {
		if pf == al.Parent() {
			continue
		}
		for i, fv := range pf.FreeVars {
			_ = i
			if bindsCell(pf, fv, al) {
				for _, r := range *fv.Referrers() {
					if st, ok := r.(*ssa.Store); ok && st.Addr == fv {
						n++
					}
				}
			}
		}
	}
	if n == 1 && stored != nil {
		return stored
	}
	return v
}

var pkgFuncsCache = map[*ssa.Package][]*ssa.Function{}

// PkgFuncs lists the source functions, methods and function literals of a package (with bodies), in a stable order.
func PkgFuncs(pkg *ssa.Package) []*ssa.Function {
	if pkg == nil {
		return nil
	}
	if out, ok := pkgFuncsCache[pkg]; ok {
		return out
	}
	var out []*ssa.Function
	seen := map[*ssa.Function]bool{}
	add := func(fn *ssa.Function) {
		for _, f := range WithAnon(fn) {
			if !seen[f] && len(f.Blocks) > 0 {
				seen[f] = true
				out = append(out, f)
			}
		}
	}
	for _, name := range SortedKeys(pkg.Members) {
		switch mem := pkg.Members[name].(type) {
		case *ssa.Function:
			add(mem)
		case *ssa.Type:
			for _, t := range []types.Type{mem.Type(), types.NewPointer(mem.Type())} {
				ms := pkg.Prog.MethodSets.MethodSet(t)
				for i := 0; i < ms.Len(); i++ {
					if fn := pkg.Prog.MethodValue(ms.At(i)); fn != nil && fn.Pkg == pkg && fn.Synthetic == "" {
						add(fn)
					}
				}
			}
		}
	}
	pkgFuncsCache[pkg] = out
	return out
}

// BoundRecvField: v reads field f of the receiver of a method that is used as a method value in exactly one place
// (x.m handed to a registration, a timer, a goroutine) where x is a struct literal: the value the literal gives f. Otherwise v.
func BoundRecvField(v ssa.Value) ssa.Value {
	var recv ssa.Value
	var st *types.Struct
	idx := -1
	switch x := v.(type) {
	case *ssa.Field:
		recv, idx = x.X, x.Field
		st, _ = x.X.Type().Underlying().(*types.Struct)
	case *ssa.UnOp:
		if fa, ok := x.X.(*ssa.FieldAddr); ok && x.Op == token.MUL {
			recv, idx = fa.X, fa.Field
			st, _ = Deref(fa.X.Type()).Underlying().(*types.Struct)
			// a value receiver is copied into a local first: *local = w, and the local is only read
			if al, isAl := fa.X.(*ssa.Alloc); isAl {
				var whole ssa.Value
				clean := true
				for _, ref := range *al.Referrers() {
					switch y := ref.(type) {
					case *ssa.Store:
						if y.Addr == ssa.Value(al) && whole == nil {
							whole = y.Val
						} else {
							clean = false
						}
					case *ssa.FieldAddr:
						for _, r2 := range *y.Referrers() {
							if _, isLoad := r2.(*ssa.UnOp); !isLoad {
								if _, isDbg := r2.(*ssa.DebugRef); !isDbg {
									clean = false
								}
							}
						}
					case *ssa.DebugRef:
					default:
						clean = false
					}
				}
				if clean && whole != nil {
					recv = whole
				}
			}
		}
	}
	prm, ok := recv.(*ssa.Parameter)
	if !ok || st == nil || idx < 0 || idx >= st.NumFields() {
		return v
	}
	fn := prm.Parent()
	if fn == nil || fn.Signature.Recv() == nil || len(fn.Params) == 0 || fn.Params[0] != prm || fn.Pkg == nil {
		return v
	}
	var bound ssa.Value
	n := 0
	for _, pf := range PkgFuncs(fn.Pkg) {
		AllInstrs(pf, func(in ssa.Instruction) {
			if mc, ok := in.(*ssa.MakeClosure); ok {
				if w, ok := mc.Fn.(*ssa.Function); ok && w != fn && BoundTarget(w) == fn && len(mc.Bindings) == 1 {
					bound = mc.Bindings[0]
					n++
				}
			}
			// a direct call of the method elsewhere: the receiver is not only the bound one
			if cc := CallOf(in); cc != nil && StaticCallee(cc) == fn && pf.Synthetic == "" {
				n += 2
			}
		})
	}
	if n != 1 || bound == nil {
		return v
	}
	lit, ok := StructLit(bound)
	if !ok {
		return v
	}
	if val, ok := lit[FieldName(st.Field(idx))]; ok {
		return val
	}
	return v
}

// LocalStructField reads through a struct that only carries values inside one function: fa addresses field i of a local struct
// variable that does not escape (it is only stored to and read, never passed on or captured). If the variable is assigned once,
// as a whole, from a call returning the struct, the result is (call, i) — the field plays the part of the i-th result of a
// tuple; if the field is stored exactly once (a composite literal), the result is (stored value, -1). Otherwise (nil, 0).
func LocalStructField(fa *ssa.FieldAddr) (ssa.Value, int) {
	al, ok := fa.X.(*ssa.Alloc)
	if !ok || al.Heap {
		return nil, 0
	}
	var whole []ssa.Value
	var fieldStores []ssa.Value
	for _, ref := range *al.Referrers() {
		switch y := ref.(type) {
		case *ssa.Store:
			if y.Addr != ssa.Value(al) {
				return nil, 0
			}
			whole = append(whole, y.Val)
		case *ssa.FieldAddr:
			for _, r2 := range *y.Referrers() {
				switch z := r2.(type) {
				case *ssa.Store:
					if z.Addr != ssa.Value(y) {
						return nil, 0
					}
					if y.Field == fa.Field {
						fieldStores = append(fieldStores, z.Val)
					}
				case *ssa.UnOp, *ssa.DebugRef:
				default:
					return nil, 0
				}
			}
		case *ssa.UnOp, *ssa.DebugRef:
		default:
			return nil, 0
		}
	}
	switch {
	case len(whole) == 1 && len(fieldStores) == 0:
		if call, ok := whole[0].(*ssa.Call); ok {
			return call, fa.Field
		}
		// a bundle handed over by value: a struct parameter of a cut-out helper, or the struct result of one
		if o := StructFieldOrigin(whole[0], fa.Field, 0); o != nil {
			return o, -1
		}
	case len(whole) == 0 && len(fieldStores) == 1:
		return fieldStores[0], -1
	}
	return nil, 0
}

// IsKnown: fn is a function of the pinned tree's vocabulary (under its own or a new name).
func IsKnown(fn *ssa.Function) bool {
	return fn != nil && (KnownFuncs[fn.String()] || PinnedFull(fn) != fn.String())
}

// LogicalOwner returns the function on whose behalf fn runs: a helper of the module that the rules do not know by name
// (unexported, not in the pinned vocabulary), that has exactly one static call site — a plain call, not go or defer — and is
// never used as a value, is a piece cut out of its caller and belongs to it (transitively, at most four levels). The second result
// lists the call sites from the owner down to fn.
func LogicalOwner(fn *ssa.Function) (*ssa.Function, []*ssa.Call) {
	var chain []*ssa.Call
	for depth := 0; depth < 4; depth++ {
		if fn == nil || fn.Parent() != nil || fn.Pkg == nil || fn.Object() == nil || fn.Object().Exported() || IsKnown(fn) {
			break
		}
		var site *ssa.Call
		n := 0
		for _, pf := range PkgFuncs(fn.Pkg) {
			AllInstrs(pf, func(in ssa.Instruction) {
				cc := CallOf(in)
				for _, op := range in.Operands(nil) {
					if op != nil && *op == ssa.Value(fn) && (cc == nil || cc.Value != ssa.Value(fn)) {
						n += 2 // used as a value
					}
				}
				if mc, ok := in.(*ssa.MakeClosure); ok {
					if w, ok := mc.Fn.(*ssa.Function); ok && w != fn && BoundTarget(w) == fn {
						n += 2
					}
				}
				if cc != nil && StaticCallee(cc) == fn {
					if call, ok := in.(*ssa.Call); ok {
						site = call
						n++
					} else {
						n += 2
					}
				}
			})
		}
		if n != 1 || site == nil {
			break
		}
		chain = append([]*ssa.Call{site}, chain...)
		fn = site.Parent()
	}
	return fn, chain
}

// OwnerSub maps the parameters of a helper cut out of its logical owner (and of the helpers in between) to the arguments at
// the single call sites, for rendering a value of the helper in the owner's terms (RenderSubst).
func OwnerSub(fn *ssa.Function) map[ssa.Value]ssa.Value {
	sub := map[ssa.Value]ssa.Value{}
	_, chain := LogicalOwner(fn)
	for _, site := range chain {
		cal := StaticCallee(&site.Call)
		if cal == nil {
			continue
		}
		for i, prm := range cal.Params {
			if i < len(site.Call.Args) {
				sub[prm] = site.Call.Args[i]
			}
		}
	}
	return sub
}

func rootOf(fn *ssa.Function) *ssa.Function {
	for fn.Parent() != nil {
		fn = fn.Parent()
	}
	return fn
}

func bindsCell(fn *ssa.Function, fv *ssa.FreeVar, al *ssa.Alloc) bool {
	idx := -1
	for i, f := range fn.FreeVars {
		if f == fv {
			idx = i
		}
	}
	if idx < 0 || fn.Parent() == nil {
		return false
	}
	found := false
	for _, pf := range WithAnon(rootOf(fn)) {
		AllInstrs(pf, func(in ssa.Instruction) {
			if mc, ok := in.(*ssa.MakeClosure); ok && mc.Fn == fn && idx < len(mc.Bindings) && mc.Bindings[idx] == al {
				found = true
			}
		})
	}
	return found
}

// Unspill resolves a load of a local cell that is stored exactly once in its function
// (go/ssa spills results of functions with defers): it returns the stored value.
func Unspill(v ssa.Value) ssa.Value {
	u, ok := v.(*ssa.UnOp)
	if !ok || u.Op != token.MUL {
		return v
	}
	al, ok := u.X.(*ssa.Alloc)
	if !ok {
		return v
	}
	var stored ssa.Value
	n := 0
	for _, r := range *al.Referrers() {
		switch x := r.(type) {
		case *ssa.Store:
			if x.Addr == al {
				stored = x.Val
				n++
			} else {
				return v // address escapes into memory
			}
		case *ssa.UnOp:
		case *ssa.DebugRef:
		default:
			return v // address used otherwise (captured, passed)
		}
	}
	if n == 1 {
		return stored
	}
	return v
}

// StructLit returns the rendered field values of a struct value built from a composite literal:
// either a load of a local Alloc whose fields are stored, or the Alloc itself. ok=false otherwise.
func StructLit(v ssa.Value) (map[string]ssa.Value, bool) {
	var al *ssa.Alloc
	switch x := v.(type) {
	case *ssa.UnOp:
		if x.Op == token.MUL {
			al, _ = x.X.(*ssa.Alloc)
		}
	case *ssa.Alloc:
		al = x
	}
	if call, isCall := v.(*ssa.Call); isCall && al == nil {
		// a helper of the module whose every return is one struct literal: read the literal, parameters replaced by the arguments
		cal := StaticCallee(&call.Call)
		if cal == nil || len(cal.Blocks) == 0 || cal.Pkg == nil || call.Parent() == nil || cal.Pkg != call.Parent().Pkg {
			return nil, false
		}
		var lit map[string]ssa.Value
		n := 0
		AllInstrs(cal, func(in ssa.Instruction) {
			if r, isR := in.(*ssa.Return); isR && len(r.Results) == 1 {
				n++
				if l, ok := StructLit(r.Results[0]); ok {
					lit = l
				}
			}
		})
		if n != 1 || lit == nil {
			return nil, false
		}
		for k, val := range lit {
			if prm, isP := val.(*ssa.Parameter); isP {
				for i, q := range cal.Params {
					if q == prm && i < len(call.Call.Args) {
						lit[k] = call.Call.Args[i]
					}
				}
			}
		}
		return lit, true
	}
	if al == nil {
		return nil, false
	}
	out := map[string]ssa.Value{}
	for _, ref := range *al.Referrers() {
		fa, ok := ref.(*ssa.FieldAddr)
		if !ok {
			continue
		}
		for _, r2 := range *fa.Referrers() {
			if st, ok := r2.(*ssa.Store); ok && st.Addr == ssa.Value(fa) {
				out[FieldName(FieldOf(fa))] = st.Val
			}
		}
	}
	return out, true
}

// SliceElems reconstructs the elements of a slice literal / variadic argument list:
// go/ssa lowers []T{a, b} to `new [N]T`, IndexAddr+Store per element, and a Slice of the array.
func SliceElems(v ssa.Value) ([]ssa.Value, bool) {
	sl, ok := v.(*ssa.Slice)
	if !ok || sl.Low != nil || sl.High != nil {
		return nil, false
	}
	al, ok := sl.X.(*ssa.Alloc)
	if !ok {
		return nil, false
	}
	arr, ok := Deref(al.Type()).Underlying().(*types.Array)
	if !ok {
		return nil, false
	}
	out := make([]ssa.Value, arr.Len())
	for _, ref := range *al.Referrers() {
		ia, ok := ref.(*ssa.IndexAddr)
		if !ok {
			continue
		}
		idx, ok := ConstInt(ia.Index)
		if !ok || idx < 0 || idx >= arr.Len() {
			return nil, false
		}
		for _, r2 := range *ia.Referrers() {
			if st, ok := r2.(*ssa.Store); ok && st.Addr == ssa.Value(ia) {
				out[idx] = st.Val
			}
		}
	}
	for _, e := range out {
		if e == nil {
			return nil, false
		}
	}
	return out, true
}

// FreeVarBinding returns what a closure's free variable is bound to at its (single) MakeClosure site.
func FreeVarBinding(fv *ssa.FreeVar) ssa.Value {
	fn := fv.Parent()
	idx := -1
	for i, f := range fn.FreeVars {
		if f == fv {
			idx = i
		}
	}
	if idx < 0 || fn.Parent() == nil {
		return nil
	}
	var bound ssa.Value
	n := 0
	for _, pf := range WithAnon(rootOf(fn)) {
		AllInstrs(pf, func(in ssa.Instruction) {
			if mc, ok := in.(*ssa.MakeClosure); ok && mc.Fn == fn && idx < len(mc.Bindings) {
				bound = mc.Bindings[idx]
				n++
			}
		})
	}
	if n != 1 {
		return nil
	}
	if fv2, ok := bound.(*ssa.FreeVar); ok {
		return FreeVarBinding(fv2)
	}
	return bound
}

// CellOf returns the variable cell (Alloc) a value is loaded from, following closure captures; nil if v is not such a load.
func CellOf(v ssa.Value) *ssa.Alloc {
	u, ok := v.(*ssa.UnOp)
	if !ok || u.Op != token.MUL {
		return nil
	}
	switch c := u.X.(type) {
	case *ssa.Alloc:
		return c
	case *ssa.FreeVar:
		if b, ok := FreeVarBinding(c).(*ssa.Alloc); ok {
			return b
		}
	}
	return nil
}

// CellStores returns the values stored into a cell anywhere (the defining function and closures that captured it).
func CellStores(al *ssa.Alloc) []ssa.Value {
	var out []ssa.Value
	for _, r := range *al.Referrers() {
		if st, ok := r.(*ssa.Store); ok && st.Addr == ssa.Value(al) {
			out = append(out, st.Val)
		}
	}
	for _, pf := range WithAnon(rootOf(al.Parent())) {
		for _, fv := range pf.FreeVars {
			if FreeVarBinding(fv) == ssa.Value(al) {
				for _, r := range *fv.Referrers() {
					if st, ok := r.(*ssa.Store); ok && st.Addr == ssa.Value(fv) {
						out = append(out, st.Val)
					}
				}
			}
		}
	}
	return out
}

// Delegate follows pure forwarding: while fn's whole body is `return g(params...)` with g a function of the same package that
// receives fn's parameters unchanged and in order, g stands for fn. It returns the function that holds the real body.
func Delegate(fn *ssa.Function) *ssa.Function {
	for depth := 0; fn != nil && depth < 4; depth++ {
		if len(fn.Blocks) != 1 {
			return fn
		}
		var call *ssa.Call
		var ret *ssa.Return
		extra := false
		for _, in := range fn.Blocks[0].Instrs {
			switch x := in.(type) {
			case *ssa.Call:
				if call != nil {
					extra = true
				}
				call = x
			case *ssa.Return:
				ret = x
			case *ssa.DebugRef:
			default:
				extra = true
			}
		}
		if extra || call == nil || ret == nil || len(ret.Results) != 1 || ret.Results[0] != ssa.Value(call) {
			return fn
		}
		g := StaticCallee(&call.Call)
		if g == nil || g.Pkg != fn.Pkg || len(g.Blocks) == 0 || len(call.Call.Args) != len(fn.Params) || len(g.Params) != len(fn.Params) {
			return fn
		}
		for i, a := range call.Call.Args {
			if a != ssa.Value(fn.Params[i]) {
				return fn
			}
		}
		fn = g
	}
	return fn
}

// EffCall reads a call through a forwarding helper: when the callee is a function of the module that the rules do not know by
// name (not in KnownFuncs) and whose body makes exactly one call and returns that call's results (it may build function literals
// and values for the arguments, nothing else), the call stands for the inner call with the helper's parameters replaced by the
// outer arguments. Outer is the instruction in the analysed function (for dominance, path atoms and positions).
type EffCall struct {
	Outer *ssa.Call
	Inner *ssa.Call
	sub   map[ssa.Value]ssa.Value
}

// Effective follows forwarding helpers (at most three levels).
func Effective(call *ssa.Call) EffCall {
	e := EffCall{Outer: call, Inner: call, sub: map[ssa.Value]ssa.Value{}}
	for depth := 0; depth < 3; depth++ {
		cal := StaticCallee(&e.Inner.Call)
		if cal == nil || cal.Pkg == nil || len(cal.Blocks) != 1 || KnownFuncs[cal.String()] || !strings.HasPrefix(cal.Pkg.Pkg.Path(), "github.com/b2broker/simplefix-go") {
			return e
		}
		var inner *ssa.Call
		var ret *ssa.Return
		ok := true
		for _, in := range cal.Blocks[0].Instrs {
			switch x := in.(type) {
			case *ssa.Call:
				if inner != nil {
					ok = false
				}
				inner = x
			case *ssa.Return:
				ret = x
			case *ssa.MakeClosure, *ssa.Alloc, *ssa.FieldAddr, *ssa.UnOp, *ssa.DebugRef, *ssa.MakeInterface, *ssa.ChangeType, *ssa.Convert, *ssa.Extract, *ssa.IndexAddr, *ssa.Slice:
			case *ssa.Store:
				// only stores that initialise the cells of captured parameters
				if _, isCell := x.Addr.(*ssa.Alloc); !isCell {
					ok = false
				}
			default:
				ok = false
			}
		}
		if !ok || inner == nil || ret == nil {
			return e
		}
		// the results returned are the inner call's (all of them, in order), or nothing is returned
		switch len(ret.Results) {
		case 0:
		case 1:
			if ret.Results[0] != ssa.Value(inner) {
				return e
			}
		default:
			for i, r := range ret.Results {
				ex, isEx := r.(*ssa.Extract)
				if !isEx || ex.Tuple != ssa.Value(inner) || ex.Index != i {
					return e
				}
			}
		}
		for i, prm := range cal.Params {
			if i < len(e.Inner.Call.Args) {
				e.sub[prm] = e.Arg(i)
			}
		}
		e.Inner = inner
	}
	return e
}

// Resolve reads a value of a forwarding helper in terms of the outer function: parameters are the outer arguments, a captured
// parameter (free variable, or the cell it was spilled to) is that parameter.
func (e EffCall) Resolve(v ssa.Value) ssa.Value {
	for i := 0; i < 8; i++ {
		switch x := v.(type) {
		case *ssa.Parameter:
			if a, ok := e.sub[x]; ok {
				v = a
				continue
			}
		case *ssa.FreeVar:
			if b := FreeVarBinding(x); b != nil {
				v = b
				continue
			}
		case *ssa.UnOp:
			if x.Op == token.MUL {
				switch c := x.X.(type) {
				case *ssa.FreeVar:
					if b := FreeVarBinding(c); b != nil {
						if al, isCell := b.(*ssa.Alloc); isCell {
							if st := CellStores(al); len(st) == 1 {
								v = st[0]
								continue
							}
						}
					}
				case *ssa.Alloc:
					if st := CellStores(c); len(st) == 1 {
						if _, isP := st[0].(*ssa.Parameter); isP {
							v = st[0]
							continue
						}
					}
				}
			}
		}
		break
	}
	return v
}

// Arg is the i-th argument of the inner call in the outer function's terms.
func (e EffCall) Arg(i int) ssa.Value { return e.Resolve(e.Inner.Call.Args[i]) }

// DelegateTo: when fn's whole body is `return g(args...)` with g a function of the module that the rules do not know by name,
// g holds fn's real body; the arguments (values of fn) are returned with it. Otherwise (fn, nil).
func DelegateTo(fn *ssa.Function) (*ssa.Function, []ssa.Value) {
	if fn == nil || len(fn.Blocks) != 1 {
		return fn, nil
	}
	var call *ssa.Call
	var ret *ssa.Return
	for _, in := range fn.Blocks[0].Instrs {
		switch x := in.(type) {
		case *ssa.Call:
			if call != nil {
				return fn, nil
			}
			call = x
		case *ssa.Return:
			ret = x
		case *ssa.FieldAddr, *ssa.UnOp, *ssa.DebugRef, *ssa.ChangeType, *ssa.Convert, *ssa.MakeInterface:
		default:
			return fn, nil
		}
	}
	if call == nil || ret == nil || len(ret.Results) != 1 {
		return fn, nil
	}
	if r := ret.Results[0]; r != ssa.Value(call) {
		if ct, ok := r.(*ssa.ChangeType); !ok || ct.X != ssa.Value(call) {
			return fn, nil
		}
	}
	g := StaticCallee(&call.Call)
	if g == nil || g.Pkg != fn.Pkg || len(g.Blocks) == 0 || KnownFuncs[g.String()] {
		return fn, nil
	}
	return g, call.Call.Args
}

// SigString renders the parameter and result types of fn (without the receiver), package-qualified by full path.
func SigString(fn *ssa.Function) string {
	sig := fn.Signature
	q := func(p *types.Package) string { return p.Path() }
	anon := func(t *types.Tuple) *types.Tuple {
		var vs []*types.Var
		for i := 0; i < t.Len(); i++ {
			vs = append(vs, types.NewVar(token.NoPos, nil, "", t.At(i).Type()))
		}
		return types.NewTuple(vs...)
	}
	return types.TypeString(types.NewSignatureType(nil, nil, nil, anon(sig.Params()), anon(sig.Results()), sig.Variadic()), q)
}

// --- rename tolerance -------------------------------------------------------------------------------------------------
// A function of the pinned tree that is missing from the current tree, and a function of the current tree that the pinned tree
// does not have, are the same function under a new name when they are declared on the same receiver type (or both plain
// functions of the same package), have identical parameter and result types, and the match is unique in both directions.

var renameCache = map[*ssa.Package]map[*ssa.Function]string{}

func pkgTopFuncs(pkg *ssa.Package) []*ssa.Function {
	var out []*ssa.Function
	seen := map[*ssa.Function]bool{}
	for _, name := range SortedKeys(pkg.Members) {
		switch mem := pkg.Members[name].(type) {
		case *ssa.Function:
			if mem.Synthetic == "" && !seen[mem] {
				seen[mem] = true
				out = append(out, mem)
			}
		case *ssa.Type:
			for _, t := range []types.Type{mem.Type(), types.NewPointer(mem.Type())} {
				ms := pkg.Prog.MethodSets.MethodSet(t)
				for i := 0; i < ms.Len(); i++ {
					if fn := pkg.Prog.MethodValue(ms.At(i)); fn != nil && fn.Pkg == pkg && fn.Synthetic == "" && !seen[fn] {
						seen[fn] = true
						out = append(out, fn)
					}
				}
			}
		}
	}
	return out
}

// ownerPrefix is fn.String() without the function's own name: "(*pkg.T)." or "pkg.".
func ownerPrefix(full string) string {
	i := strings.LastIndex(full, ".")
	if i < 0 {
		return ""
	}
	return full[:i+1]
}

func renamesOf(pkg *ssa.Package) map[*ssa.Function]string {
	if m, ok := renameCache[pkg]; ok {
		return m
	}
	m := map[*ssa.Function]string{}
	renameCache[pkg] = m
	cur := pkgTopFuncs(pkg)
	present := map[string]bool{}
	var unknown []*ssa.Function
	for _, f := range cur {
		present[f.String()] = true
		if !KnownFuncs[f.String()] {
			unknown = append(unknown, f)
		}
	}
	// missing pinned functions of this package
	var missing []string
	for name := range KnownFuncs {
		if present[name] {
			continue
		}
		pre := ownerPrefix(name)
		if pre == pkg.Pkg.Path()+"." || strings.HasPrefix(pre, "(*"+pkg.Pkg.Path()+".") || strings.HasPrefix(pre, "("+pkg.Pkg.Path()+".") {
			missing = append(missing, name)
		}
	}
	sort.Strings(missing)
	// candidates: same owner (receiver type, possibly renamed, or package) and same parameter/result types
	sameOwner := func(f *ssa.Function, name string) bool {
		return pinnedOwnerPrefix(f) == ownerPrefix(name)
	}
	candOf := map[string][]*ssa.Function{}
	for _, name := range missing {
		for _, f := range unknown {
			if sameOwner(f, name) && SigString(f) == KnownSigs[name] {
				candOf[name] = append(candOf[name], f)
			}
		}
	}
	// settle in rounds: a pair is settled when it is the only candidate both ways, or — among several candidates of one
	// signature — when what the function calls (external functions, interface methods, settled module functions) resembles what the
	// pinned function called more than any rival does
	settledName := map[string]*ssa.Function{}
	calleeNamer = func(f *ssa.Function) string {
		if f.Parent() != nil {
			return ""
		}
		if KnownFuncs[f.String()] {
			return f.String()
		}
		if n, ok := m[f]; ok {
			return n
		}
		return ""
	}
	defer func() { calleeNamer = nil }()
	sim := func(f *ssa.Function, name string) float64 {
		want := map[string]bool{}
		for _, c := range strings.Split(KnownCallees[name], ",") {
			if c != "" {
				want[c] = true
			}
		}
		got := CalleeNames(f)
		inter, union := 0, len(want)
		for _, g := range got {
			if want[g] {
				inter++
			} else if !strings.HasPrefix(g, "module:") || true {
				union++
			}
		}
		if union == 0 {
			return 1
		}
		return float64(inter) / float64(union)
	}
	for round := 0; round < 4; round++ {
		progress := false
		for _, name := range missing {
			if settledName[name] != nil {
				continue
			}
			var free []*ssa.Function
			for _, f := range candOf[name] {
				if _, taken := m[f]; !taken {
					free = append(free, f)
				}
			}
			if len(free) == 0 {
				continue
			}
			// rivals: other missing names that could claim the same functions
			best, bestSim, second := (*ssa.Function)(nil), -1.0, -1.0
			for _, f := range free {
				sc := sim(f, name)
				if sc > bestSim {
					best, second, bestSim = f, bestSim, sc
				} else if sc > second {
					second = sc
				}
			}
			// the chosen function must not resemble another unsettled missing name at least as much
			ok := len(free) == 1 || bestSim > second+0.15
			if ok {
				for _, other := range missing {
					if other == name || settledName[other] != nil {
						continue
					}
					for _, f := range candOf[other] {
						if f == best && sim(best, other) >= bestSim && !(len(candOf[other]) > 1 && len(free) == 1) {
							ok = false
						}
					}
				}
			}
			if ok && best != nil {
				m[best] = name
				settledName[name] = best
				progress = true
			}
		}
		if !progress {
			break
		}
	}
	return m
}

// PinnedFull returns the name (fn.String() form) under which the rules know fn: its own if the pinned tree has it, the pinned
// name it was renamed from if that can be told, otherwise its own.
func PinnedFull(fn *ssa.Function) string {
	if fn == nil {
		return ""
	}
	if fn.Pkg == nil || KnownFuncs[fn.String()] || fn.Parent() != nil {
		return fn.String()
	}
	if old, ok := renamesOf(fn.Pkg)[fn]; ok {
		return old
	}
	return fn.String()
}

// NameOf is fn.Name() in the rules' vocabulary (see PinnedFull); a function literal is named after its renamed parent.
func NameOf(fn *ssa.Function) string {
	if fn == nil {
		return ""
	}
	if fn.Parent() != nil {
		p := fn.Parent()
		if strings.HasPrefix(fn.Name(), p.Name()) {
			return NameOf(p) + fn.Name()[len(p.Name()):]
		}
		return fn.Name()
	}
	full := PinnedFull(fn)
	if i := strings.LastIndex(full, "."); i >= 0 {
		return full[i+1:]
	}
	return fn.Name()
}

// FindPinned finds, in pkg, the function the pinned tree calls recv.name (recv "" for plain functions).
func FindPinned(pkg *ssa.Package, recv, name string) *ssa.Function {
	if pkg == nil {
		return nil
	}
	for _, f := range pkgTopFuncs(pkg) {
		if NameOf(f) != name {
			continue
		}
		r := ""
		if f.Signature.Recv() != nil {
			if n := NamedOf(f.Signature.Recv().Type()); n != nil {
				r = PinnedTypeName(n.Obj().Pkg(), n.Obj().Name())
			}
		}
		if r == recv {
			return f
		}
	}
	return nil
}

// CalleeNames lists what fn and its function literals call, as stable names: standard-library and other external functions as
// "pkg.Name" / "pkg.Type.Name", interface methods as "~Method"; functions of the module are left out (their names may change).
var calleeNamer func(*ssa.Function) string

func CalleeNames(fn *ssa.Function) []string {
	set := map[string]bool{}
	for _, f := range WithAnon(fn) {
		AllInstrs(f, func(in ssa.Instruction) {
			cc := CallOf(in)
			if cc == nil {
				return
			}
			if cc.IsInvoke() {
				set["~"+cc.Method.Name()] = true
				return
			}
			cal := StaticCallee(cc)
			if cal == nil || cal.Pkg == nil {
				if cal != nil && cal.Object() != nil && cal.Object().Pkg() != nil && !strings.HasPrefix(cal.Object().Pkg().Path(), "github.com/b2broker/simplefix-go") {
					set[cal.Object().Pkg().Path()+"."+cal.Name()] = true
				}
				return
			}
			if strings.HasPrefix(cal.Pkg.Pkg.Path(), "github.com/b2broker/simplefix-go") {
				// a function of the module: by the name the pinned tree knows it under, if that is settled
				if calleeNamer != nil {
					if n := calleeNamer(cal); n != "" {
						set["module:"+n] = true
					}
				} else if cal.Parent() == nil {
					set["module:"+cal.String()] = true
				}
				return
			}
			name := cal.Name()
			if cal.Signature.Recv() != nil {
				if n := NamedOf(cal.Signature.Recv().Type()); n != nil {
					name = n.Obj().Name() + "." + name
				}
			}
			set[cal.Pkg.Pkg.Path()+"."+name] = true
		})
	}
	var out []string
	for k := range set {
		out = append(out, k)
	}
	sort.Strings(out)
	return out
}

// pinnedOwnerPrefix is ownerPrefix(fn.String()) with a renamed receiver type replaced by its pinned name.
func pinnedOwnerPrefix(fn *ssa.Function) string {
	pre := ownerPrefix(fn.String())
	if fn.Signature.Recv() == nil || fn.Pkg == nil {
		return pre
	}
	n := NamedOf(fn.Signature.Recv().Type())
	if n == nil {
		return pre
	}
	if old := PinnedTypeName(fn.Pkg.Pkg, n.Obj().Name()); old != n.Obj().Name() {
		return strings.Replace(pre, "."+n.Obj().Name()+")", "."+old+")", 1)
	}
	return pre
}

var typeRenameCache = map[*types.Package]map[string]string{}

// PinnedTypeName: the name a struct type of the module has on the pinned tree — its own, or, when the pinned tree has no type of
// this name, the name of the one pinned struct type that is missing from the package and has the same field types in the same order.
func PinnedTypeName(pkg *types.Package, name string) string {
	if pkg == nil {
		return name
	}
	m, ok := typeRenameCache[pkg]
	if !ok {
		m = map[string]string{}
		typeRenameCache[pkg] = m
		fieldTypes := func(spec string) string {
			var ts []string
			for _, f := range strings.Split(spec, ";") {
				if i := strings.Index(f, ":"); i >= 0 {
					ts = append(ts, f[i+1:])
				}
			}
			return strings.Join(ts, ";")
		}
		cur := map[string]string{} // current struct types → field type list
		for _, n := range pkg.Scope().Names() {
			tn, ok := pkg.Scope().Lookup(n).(*types.TypeName)
			if !ok {
				continue
			}
			st, ok := tn.Type().Underlying().(*types.Struct)
			if !ok {
				continue
			}
			var ts []string
			for i := 0; i < st.NumFields(); i++ {
				ts = append(ts, types.TypeString(st.Field(i).Type(), func(q *types.Package) string { return q.Path() }))
			}
			cur[n] = strings.Join(ts, ";")
		}
		var missing []string
		for full, spec := range KnownFields {
			if !strings.HasPrefix(full, pkg.Path()+".") || strings.Contains(full[len(pkg.Path())+1:], ".") {
				continue
			}
			short := full[len(pkg.Path())+1:]
			if _, present := cur[short]; !present {
				missing = append(missing, short)
			}
			_ = spec
		}
		sort.Strings(missing)
		for _, old := range missing {
			want := fieldTypes(KnownFields[pkg.Path()+"."+old])
			// a renamed type refers to itself under its new name: compare with the old name substituted
			var cands []string
			for n, ts := range cur {
				if _, known := KnownFields[pkg.Path()+"."+n]; known {
					continue
				}
				if strings.ReplaceAll(ts, pkg.Path()+"."+n, pkg.Path()+"."+old) == want {
					cands = append(cands, n)
				}
			}
			if len(cands) == 1 {
				m[cands[0]] = old
			}
		}
	}
	if old, ok := m[name]; ok {
		return old
	}
	return name
}

// --- field rename tolerance -------------------------------------------------------------------------------------------

var fieldRenameCache = map[*types.Package]map[*types.Var]string{}

// FieldName is the name of a struct field in the rules' vocabulary: its own, or — when the pinned struct has no field of this
// name — the name of the one pinned field of that struct that is missing now and has the same type (unique both ways).
func FieldName(f *types.Var) string {
	if f == nil {
		return ""
	}
	pkg := f.Pkg()
	if pkg == nil || !strings.HasPrefix(pkg.Path(), "github.com/b2broker/simplefix-go") {
		return f.Name()
	}
	m, ok := fieldRenameCache[pkg]
	if !ok {
		m = map[*types.Var]string{}
		fieldRenameCache[pkg] = m
		q := func(p *types.Package) string { return p.Path() }
		for _, n := range pkg.Scope().Names() {
			tn, ok := pkg.Scope().Lookup(n).(*types.TypeName)
			if !ok {
				continue
			}
			st, ok := tn.Type().Underlying().(*types.Struct)
			if !ok {
				continue
			}
			old := PinnedTypeName(pkg, n)
			spec, known := KnownFields[pkg.Path()+"."+old]
			if !known {
				continue
			}
			pinned := map[string]string{} // name → type
			var order []string
			for _, fs := range strings.Split(spec, ";") {
				if i := strings.Index(fs, ":"); i >= 0 {
					pinned[fs[:i]] = fs[i+1:]
					order = append(order, fs[:i])
				}
			}
			present := map[string]bool{}
			var unknown []*types.Var
			for i := 0; i < st.NumFields(); i++ {
				fv := st.Field(i)
				present[fv.Name()] = true
				if _, ok := pinned[fv.Name()]; !ok {
					unknown = append(unknown, fv)
				}
			}
			for _, pn := range order {
				if present[pn] {
					continue
				}
				var cands []*types.Var
				for _, u := range unknown {
					ts := strings.ReplaceAll(types.TypeString(u.Type(), q), pkg.Path()+"."+n, pkg.Path()+"."+old)
					if ts == pinned[pn] {
						cands = append(cands, u)
					}
				}
				// unique both ways: no other missing pinned field of that type
				rivals := 0
				for _, other := range order {
					if !present[other] && pinned[other] == pinned[pn] {
						rivals++
					}
				}
				if len(cands) == 1 && rivals == 1 {
					m[cands[0]] = pn
				} else if len(cands) == rivals && rivals > 1 {
					// several fields of one type renamed together: keep their relative order
					idx := 0
					for _, other := range order {
						if !present[other] && pinned[other] == pinned[pn] {
							if other == pn && idx < len(cands) {
								m[cands[idx]] = pn
							}
							idx++
						}
					}
				}
			}
		}
	}
	if old, ok := m[f]; ok {
		return old
	}
	return f.Name()
}

// StructFieldOrigin resolves field number field of the struct value v to the one value it was built with, where the struct only
// carries values between a function and the helpers cut out of it: v is a load of a local composite literal (the field's single
// store), a parameter of a cut-out helper (the argument at its only call site), or result i of a function of the same package
// whose returns either build the struct with one and the same value for the field or return the zero struct (error exits).
// nil when the origin is not unique.
func StructFieldOrigin(v ssa.Value, field int, depth int) ssa.Value {
	if depth > 6 || v == nil {
		return nil
	}
	switch x := v.(type) {
	case *ssa.Parameter:
		if x.Parent() == nil {
			return nil
		}
		if a, ok := OwnerSub(x.Parent())[x]; ok && a != v {
			return StructFieldOrigin(a, field, depth+1)
		}
	case *ssa.UnOp:
		al, ok := x.X.(*ssa.Alloc)
		if !ok || x.Op != token.MUL {
			return nil
		}
		var stores []ssa.Value
		for _, ref := range *al.Referrers() {
			switch y := ref.(type) {
			case *ssa.FieldAddr:
				for _, r2 := range *y.Referrers() {
					if st, ok := r2.(*ssa.Store); ok && st.Addr == ssa.Value(y) && y.Field == field {
						stores = append(stores, st.Val)
					}
				}
			case *ssa.Store:
				if y.Addr == ssa.Value(al) {
					return StructFieldOrigin(y.Val, field, depth+1)
				}
			}
		}
		if len(stores) == 1 {
			return stores[0]
		}
	case *ssa.Extract:
		call, ok := x.Tuple.(*ssa.Call)
		if !ok {
			return nil
		}
		return structResultField(call, x.Index, field, depth)
	case *ssa.Call:
		return structResultField(x, 0, field, depth)
	}
	return nil
}

func structResultField(call *ssa.Call, res, field, depth int) ssa.Value {
	cal := StaticCallee(&call.Call)
	if cal == nil || cal.Blocks == nil || call.Parent() == nil || cal.Pkg != call.Parent().Pkg {
		return nil
	}
	var origin ssa.Value
	for _, b := range cal.Blocks {
		ret, ok := b.Instrs[len(b.Instrs)-1].(*ssa.Return)
		if !ok || res >= len(ret.Results) {
			continue
		}
		r := ret.Results[res]
		if isZeroStruct(r) {
			continue
		}
		o := StructFieldOrigin(r, field, depth+1)
		if o == nil || (origin != nil && o != origin) {
			return nil
		}
		origin = o
	}
	return origin
}

// isZeroStruct: a struct constant (zero value) or the load of a local that is never stored to.
func isZeroStruct(v ssa.Value) bool {
	if c, ok := v.(*ssa.Const); ok {
		return c.Value == nil
	}
	u, ok := v.(*ssa.UnOp)
	if !ok {
		return false
	}
	al, ok := u.X.(*ssa.Alloc)
	if !ok {
		return false
	}
	for _, ref := range *al.Referrers() {
		switch y := ref.(type) {
		case *ssa.Store:
			if y.Addr == ssa.Value(al) {
				return false
			}
		case *ssa.FieldAddr:
			for _, r2 := range *y.Referrers() {
				if st, ok := r2.(*ssa.Store); ok && st.Addr == ssa.Value(y) {
					return false
				}
			}
		}
	}
	return true
}
