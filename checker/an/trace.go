package an

import (
	"fmt"
	"go/token"
	"go/types"
	"sort"
	"strings"

	"golang.org/x/tools/go/ssa"
)

// ---------------------------------------------------------------------------
// E1 — handler-trace engine: enumerates the acyclic paths of a function of
// package session (with same-package callees spliced in) as traces of events,
// carrying an abstract session state (a set of LogonState constants).
// ---------------------------------------------------------------------------

// StateSet is a bit set over the LogonState constants (bit i = constant value i).
type StateSet uint32

func (s StateSet) Has(i int64) bool { return i >= 0 && i < 32 && s&(1<<uint(i)) != 0 }

// Event is one step of a trace.
type Event struct {
	Kind    string // unmarshal send state guard check cancel register clean trigger handle-in handle-out store spawn timer afterfunc callback return loopback call select panic setfield
	Name    string // detail: callee / method / state name / check name
	Instr   ssa.Instruction
	Fn      *ssa.Function
	Pos     token.Pos
	Outcome string   // ok/fail/true/false/"" (not branched on)
	Kinds   []string // message kinds for send
	To      int64    // target state for state events (-1 unknown)
	Trigger int      // 1 true, 0 false, -1 unknown
	Pre     StateSet // abstract state before the event
	Post    StateSet
	Args    []ssa.Value
	Val     ssa.Value // value produced (call result)
	Ret     string    // for return: constant result rendered
	Depth   int
	Read    StateSet  // for guard: the values the tested read may have had, after refinement
	Stale   bool      // for guard: an own state write happened between the read and the test
	ReadVal ssa.Value // for guard: the read that was tested
	// Sub maps the parameters of the spliced callee the event occurred in to the caller's values (for rendering operands that
	// the callee builds from its parameters)
	Sub map[ssa.Value]ssa.Value
}

// R renders an operand of the event in the root function's terms.
func (e Event) R(v ssa.Value) string { return RenderSubst(v, e.Sub) }

func (e Event) String() string {
	s := e.Kind
	if e.Name != "" {
		s += ":" + e.Name
	}
	if len(e.Kinds) > 0 {
		s += "(" + strings.Join(e.Kinds, "|") + ")"
	}
	if e.Outcome != "" {
		s += "=" + e.Outcome
	}
	if e.Kind == "return" && e.Ret != "" {
		s += " " + e.Ret
	}
	return s
}

// Trace is one path.
type Trace struct {
	Events []Event
	Final  StateSet
	Entry  StateSet
}

func (t *Trace) String(m *SessionModel) string {
	var parts []string
	for _, e := range t.Events {
		if e.Kind == "return" && e.Depth > 0 {
			continue
		}
		parts = append(parts, e.String())
	}
	return strings.Join(parts, " → ")
}

// SessionModel resolves the roles of package session once.
type SessionModel struct {
	Pkg        *ssa.Package
	PkgPath    string
	Session    *types.Named
	StateField *types.Var
	StateNames map[int64]string
	StateVals  map[string]int64
	AllStates  StateSet
	// readers of Session.state: function → (-1 = returns the state; c>=0 = returns state==c)
	StateReaders map[*ssa.Function]int64
	// functions that store a parameter/constant into Session.state: fn → index of the state parameter (-1: constants only)
	StateWriters map[*ssa.Function]int
	TriggerParam map[*ssa.Function]int
	// interference: transitions other goroutines may make at any time
	Interfere map[int64][]int64
	MaxDepth  int
	Problems  []string
}

// NewSessionModel builds the model from the SSA package session.
func NewSessionModel(pkg *ssa.Package) (*SessionModel, error) {
	m := &SessionModel{Pkg: pkg, PkgPath: pkg.Pkg.Path(), StateNames: map[int64]string{}, StateVals: map[string]int64{},
		StateReaders: map[*ssa.Function]int64{}, StateWriters: map[*ssa.Function]int{}, TriggerParam: map[*ssa.Function]int{}, MaxDepth: 4}
	tn, _ := pkg.Pkg.Scope().Lookup("Session").(*types.TypeName)
	if tn == nil {
		return nil, fmt.Errorf("type session.Session not found")
	}
	m.Session, _ = tn.Type().(*types.Named)
	st, _ := m.Session.Underlying().(*types.Struct)
	if st == nil {
		return nil, fmt.Errorf("session.Session is not a struct")
	}
	for i := 0; i < st.NumFields(); i++ {
		if st.Field(i).Name() == "state" {
			m.StateField = st.Field(i)
		}
	}
	if m.StateField == nil {
		return nil, fmt.Errorf("field Session.state not found")
	}
	stType := m.StateField.Type()
	for _, name := range pkg.Pkg.Scope().Names() {
		c, ok := pkg.Pkg.Scope().Lookup(name).(*types.Const)
		if !ok || !types.Identical(c.Type(), stType) {
			continue
		}
		sc := ssa.NewConst(c.Val(), c.Type())
		v, ok := ConstInt(sc)
		if !ok {
			continue
		}
		m.StateNames[v] = name
		m.StateVals[name] = v
		m.AllStates |= 1 << uint(v)
	}
	for _, need := range []string{"WaitingLogon", "SuccessfulLogged", "WaitingLogonAnswer", "WaitingLogoutAnswer", "ReceivedLogoutAnswer", "WaitingTestReqAnswer", "Disconnect"} {
		if _, ok := m.StateVals[need]; !ok {
			return nil, fmt.Errorf("LogonState constant %s not found", need)
		}
	}
	// classify readers and writers of Session.state
	for _, mem := range pkg.Members {
		if fn, ok := mem.(*ssa.Function); ok {
			m.classify(fn)
		}
	}
	ms := pkg.Prog.MethodSets.MethodSet(types.NewPointer(m.Session))
	for i := 0; i < ms.Len(); i++ {
		if fn := pkg.Prog.MethodValue(ms.At(i)); fn != nil && fn.Pkg == pkg {
			m.classify(fn)
		}
	}
	// Interference seen by the inbound dispatch goroutine: the probe timer goroutine
	// (SuccessfulLogged → WaitingTestReqAnswer → Disconnect) and an application goroutine
	// calling Logout/Stop (→ WaitingLogoutAnswer). None of them re-enters a pre-logon state.
	sl, wt, dc, wlo := m.StateVals["SuccessfulLogged"], m.StateVals["WaitingTestReqAnswer"], m.StateVals["Disconnect"], m.StateVals["WaitingLogoutAnswer"]
	m.Interfere = map[int64][]int64{
		sl: {wt, dc, wlo},
		wt: {dc, wlo},
	}
	return m, nil
}

func (m *SessionModel) classify(fn *ssa.Function) {
	if fn.Blocks == nil {
		return
	}
	// writer: contains a Store to Session.state
	AllInstrs(fn, func(in ssa.Instruction) {
		st, ok := in.(*ssa.Store)
		if !ok {
			return
		}
		fa, ok := st.Addr.(*ssa.FieldAddr)
		if !ok || FieldOf(fa) != m.StateField {
			return
		}
		idx := -1
		if p, ok := st.Val.(*ssa.Parameter); ok {
			for i, q := range fn.Params {
				if q == p {
					idx = i
				}
			}
		}
		m.StateWriters[fn] = idx
		// trigger parameter: a bool parameter (if any)
		m.TriggerParam[fn] = -1
		for i, q := range fn.Params {
			if b, ok := q.Type().Underlying().(*types.Basic); ok && b.Kind() == types.Bool {
				m.TriggerParam[fn] = i
			}
		}
	})
	if _, w := m.StateWriters[fn]; w {
		return
	}
	// reader: every return returns the load of state, or state == const
	kind := int64(-2)
	okAll := true
	nret := 0
	AllInstrs(fn, func(in ssa.Instruction) {
		r, ok := in.(*ssa.Return)
		if !ok {
			return
		}
		if fn.Recover != nil && r.Block() == fn.Recover {
			return
		}
		nret++
		if len(r.Results) != 1 {
			okAll = false
			return
		}
		v := Unspill(r.Results[0])
		if f, _ := LoadedField(v); f == m.StateField {
			if kind == -2 || kind == -1 {
				kind = -1
			} else {
				okAll = false
			}
			return
		}
		if b, ok := v.(*ssa.BinOp); ok && b.Op == token.EQL {
			x, y := b.X, b.Y
			if _, isC := x.(*ssa.Const); isC {
				x, y = y, x
			}
			c, isC := ConstInt(y)
			if isC {
				if f, _ := LoadedField(x); f == m.StateField {
					kind = c
					return
				}
				// state read through another reader
				if call, ok := x.(*ssa.Call); ok {
					if cal := StaticCallee(&call.Call); cal != nil {
						m.classify(cal)
						if k, ok := m.StateReaders[cal]; ok && k == -1 {
							kind = c
							return
						}
					}
				}
			}
		}
		okAll = false
	})
	if okAll && nret > 0 && kind != -2 {
		// a reader must not have other effects than locking
		m.StateReaders[fn] = kind
	}
}

func (m *SessionModel) Close(s StateSet) StateSet {
	for changed := true; changed; {
		changed = false
		for from, tos := range m.Interfere {
			if s.Has(from) {
				for _, to := range tos {
					if !s.Has(to) {
						s |= 1 << uint(to)
						changed = true
					}
				}
			}
		}
	}
	return s
}

func (m *SessionModel) Set(names ...string) StateSet {
	var s StateSet
	for _, n := range names {
		s |= 1 << uint(m.StateVals[n])
	}
	return s
}

func (m *SessionModel) SetString(s StateSet) string {
	if s == m.AllStates {
		return "⊤"
	}
	var names []string
	for v, n := range m.StateNames {
		if s.Has(v) {
			names = append(names, n)
		}
	}
	sort.Strings(names)
	return "{" + strings.Join(names, ",") + "}"
}

// isSessionVal reports whether v has type *Session.
func (m *SessionModel) isSessionVal(v ssa.Value) bool {
	p, ok := v.Type().Underlying().(*types.Pointer)
	return ok && types.Identical(p.Elem(), m.Session)
}

// sessionField: v is a load of field name of the session.
func (m *SessionModel) sessionField(v ssa.Value) string {
	f, base := LoadedField(v)
	if f == nil || !m.isSessionVal(base) {
		return ""
	}
	return FieldName(f)
}

// MsgKindOf derives the message kind of a value passed to a send function.
func (m *SessionModel) MsgKindOf(v ssa.Value, seen map[ssa.Value]bool) []string {
	if seen == nil {
		seen = map[ssa.Value]bool{}
	}
	if seen[v] {
		return nil
	}
	seen[v] = true
	v = Unwrap(v)
	if n := NamedOf(v.Type()); n != nil && n.Obj().Pkg() != nil && strings.HasSuffix(n.Obj().Pkg().Path(), "/session/messages") {
		name := n.Obj().Name()
		if strings.HasSuffix(name, "Builder") && name != "Builder" && name != "PipelineBuilder" && name != "HeaderBuilder" && name != "TrailerBuilder" {
			return []string{strings.TrimSuffix(name, "Builder")}
		}
	}
	switch x := v.(type) {
	case *ssa.Phi:
		var out []string
		for _, e := range x.Edges {
			out = append(out, m.MsgKindOf(e, seen)...)
		}
		return uniq(out)
	case *ssa.Call:
		// fluent setter on a typed builder: already handled by the type; otherwise unknown origin
		if x.Call.IsInvoke() {
			return m.MsgKindOf(x.Call.Value, seen)
		}
	case *ssa.Parameter:
		return []string{"Param:" + x.Name()}
	}
	return []string{"Unknown"}
}

func uniq(in []string) []string {
	sort.Strings(in)
	var out []string
	for i, s := range in {
		if i == 0 || s != in[i-1] {
			out = append(out, s)
		}
	}
	return out
}

// ---------------------------------------------------------------------------

type frame struct {
	fn      *ssa.Function
	visited map[*ssa.BasicBlock]bool
	defers  []*ssa.Defer
	depth   int
	prev    *ssa.BasicBlock
	up      *frame
	// sub maps the parameters of a spliced callee to the caller's values (already resolved in the caller's frame);
	// phis holds, for the phis of the blocks entered on this path, the edge value chosen by the path.
	sub  map[ssa.Value]ssa.Value
	phis map[*ssa.Phi]ssa.Value
}

// readInfo is what a path knows about one read of Session.state: the set of values
// the read may have returned, and the number of own state writes before it.
type readInfo struct {
	set   StateSet
	epoch int
}

type pstate struct {
	events []Event
	conds  map[ssa.Value]bool
	reads  map[ssa.Value]readInfo
	// alias maps the result of a spliced call to the value the callee returned on this path (tuple results per component)
	alias map[ssa.Value][]ssa.Value
	st    StateSet
	epoch int
	steps int
}

func (p *pstate) fork() *pstate {
	q := &pstate{st: p.st, steps: p.steps, epoch: p.epoch}
	q.events = append([]Event(nil), p.events...)
	q.conds = make(map[ssa.Value]bool, len(p.conds))
	for k, v := range p.conds {
		q.conds[k] = v
	}
	q.reads = make(map[ssa.Value]readInfo, len(p.reads))
	for k, v := range p.reads {
		q.reads[k] = v
	}
	q.alias = make(map[ssa.Value][]ssa.Value, len(p.alias))
	for k, v := range p.alias {
		q.alias[k] = v
	}
	return q
}

// resolve reads a value in terms of the root function where the path determines it: a parameter of a spliced callee is the
// caller's argument, a phi is the edge the path came through, the result of a spliced call is what the callee returned.
func (t *Tracer) resolve(fr *frame, p *pstate, v ssa.Value) ssa.Value {
	for i := 0; i < 12 && v != nil; i++ {
		switch x := v.(type) {
		case *ssa.Parameter:
			if a, ok := fr.sub[x]; ok {
				v = a
				continue
			}
		case *ssa.Phi:
			for f := fr; f != nil; f = f.up {
				if a, ok := f.phis[x]; ok {
					v = a
					break
				}
			}
			if v != ssa.Value(x) {
				continue
			}
		case *ssa.Call:
			if a, ok := p.alias[x]; ok && len(a) == 1 {
				v = a[0]
				continue
			}
		case *ssa.Extract:
			if a, ok := p.alias[x.Tuple]; ok && x.Index < len(a) {
				v = a[x.Index]
				continue
			}
		case *ssa.ChangeInterface:
			// an interface conversion of something the path knows better (the result of a spliced helper handed on as a
			// wider interface): the converted value itself
			if in := t.resolve(fr, p, x.X); in != x.X {
				v = in
				continue
			}
		}
		break
	}
	return v
}

func (t *Tracer) resolveAll(fr *frame, p *pstate, vs []ssa.Value) []ssa.Value {
	out := make([]ssa.Value, len(vs))
	for i, v := range vs {
		out[i] = t.resolve(fr, p, v)
	}
	return out
}

// Tracer enumerates traces.
type Tracer struct {
	M        *SessionModel
	MaxPaths int
	paths    int
	Overflow bool
	// NoSplice lists functions treated as opaque events (kind "call").
	NoSplice map[*ssa.Function]bool
}

// Traces enumerates the traces of fn starting from abstract state entry.
func (t *Tracer) Traces(fn *ssa.Function, entry StateSet) []*Trace {
	if t.MaxPaths == 0 {
		t.MaxPaths = 20000
	}
	t.paths = 0
	var out []*Trace
	if fn == nil || len(fn.Blocks) == 0 {
		return nil
	}
	st := &pstate{conds: map[ssa.Value]bool{}, reads: map[ssa.Value]readInfo{}, alias: map[ssa.Value][]ssa.Value{}, st: t.M.Close(entry)}
	fr := &frame{fn: fn, visited: map[*ssa.BasicBlock]bool{}, sub: map[ssa.Value]ssa.Value{}, phis: map[*ssa.Phi]ssa.Value{}}
	t.walk(fr, fn.Blocks[0], 0, st, func(p *pstate) {
		if t.paths >= t.MaxPaths {
			t.Overflow = true
			return
		}
		t.paths++
		out = append(out, &Trace{Events: p.events, Final: p.st, Entry: entry})
	})
	return out
}

func (t *Tracer) emit(p *pstate, fr *frame, e Event) {
	e.Fn = fr.fn
	e.Depth = fr.depth
	if len(fr.sub) > 0 {
		e.Sub = fr.sub
	}
	if e.Instr != nil && e.Pos == token.NoPos {
		e.Pos = e.Instr.Pos()
	}
	e.Pre = p.st
	if e.Kind == "state" {
		p.epoch++
		if e.To >= 0 {
			p.st = t.M.Close(1 << uint(e.To))
		} else {
			p.st = t.M.AllStates
		}
	}
	e.Post = p.st
	p.events = append(p.events, e)
}

// walk processes block b from instruction index i in frame fr; k is called at each end of the root function's paths
// (for spliced callees, k continues in the caller).
func (t *Tracer) walk(fr *frame, b *ssa.BasicBlock, i int, p *pstate, k func(*pstate)) {
	if t.paths >= t.MaxPaths {
		t.Overflow = true
		return
	}
	if i == 0 {
		if fr.visited[b] {
			t.emit(p, fr, Event{Kind: "loopback", Name: b.Comment, Pos: firstPos(b)})
			if fr.depth == 0 {
				k(p)
			} else {
				// a loop inside a spliced callee: stop exploring this iteration, continue in caller
				k(p)
			}
			return
		}
		fr.visited[b] = true
		defer func() { fr.visited[b] = false }()
		// the phis of this block take the value of the edge the path came through
		if fr.prev != nil {
			idx := -1
			for j, pr := range b.Preds {
				if pr == fr.prev {
					idx = j
				}
			}
			if idx >= 0 {
				type saved struct {
					phi *ssa.Phi
					old ssa.Value
					had bool
				}
				var sv []saved
				var vals []ssa.Value
				var phis []*ssa.Phi
				for _, in := range b.Instrs {
					phi, ok := in.(*ssa.Phi)
					if !ok {
						break
					}
					phis = append(phis, phi)
					vals = append(vals, t.resolve(fr, p, phi.Edges[idx])) // all edges are read before any phi is updated
				}
				for j, phi := range phis {
					old, had := fr.phis[phi]
					sv = append(sv, saved{phi, old, had})
					fr.phis[phi] = vals[j]
				}
				defer func() {
					for _, x := range sv {
						if x.had {
							fr.phis[x.phi] = x.old
						} else {
							delete(fr.phis, x.phi)
						}
					}
				}()
			}
		}
	}
	for ; i < len(b.Instrs); i++ {
		in := b.Instrs[i]
		p.steps++
		switch x := in.(type) {
		case *ssa.If:
			t.branch(fr, b, x, p, k)
			return
		case *ssa.Jump:
			prev := fr.prev
			fr.prev = b
			t.walk(fr, b.Succs[0], 0, p, k)
			fr.prev = prev
			return
		case *ssa.Return:
			t.doReturn(fr, x, p, k)
			return
		case *ssa.Panic:
			t.emit(p, fr, Event{Kind: "panic", Instr: x})
			k(p)
			return
		case *ssa.Defer:
			fr.defers = append(fr.defers, x)
			defer func() { fr.defers = fr.defers[:len(fr.defers)-1] }()
		case *ssa.RunDefers:
			// replay deferred calls, last first, then continue
			t.runDefers(fr, len(fr.defers)-1, b, i+1, p, k)
			return
		case *ssa.Go:
			fn := StaticCallee(&x.Call)
			name := "?"
			if fn != nil {
				name = NameOf(fn)
			}
			t.emit(p, fr, Event{Kind: "spawn", Name: name, Instr: x, Args: t.resolveAll(fr, p, x.Call.Args)})
			if fn == nil || fn.Parent() == nil {
				// `go f(x)` with a named callee: its effects (sends, state changes) are attributed to this trace;
				// a closure body is analysed as a root of its own.
				cont := func(q *pstate) { t.walk(fr, b, i+1, q, k) }
				if t.callCommon(fr, x, &x.Call, nil, p, cont) {
					return
				}
			}
		case *ssa.Store:
			if fa, ok := x.Addr.(*ssa.FieldAddr); ok && FieldOf(fa) == t.M.StateField {
				to := int64(-1)
				if c, ok := ConstInt(t.resolve(fr, p, x.Val)); ok {
					to = c
				}
				t.emit(p, fr, Event{Kind: "state", Name: t.M.StateNames[to] + "(direct store)", Instr: x, To: to, Trigger: 0})
			} else if fa, ok := x.Addr.(*ssa.FieldAddr); ok && t.M.isSessionVal(fa.X) {
				if f := FieldOf(fa); f != nil {
					t.emit(p, fr, Event{Kind: "setfield", Name: FieldName(f), Instr: x, Args: []ssa.Value{t.resolve(fr, p, x.Val)}})
				}
			} else if fa, ok := x.Addr.(*ssa.FieldAddr); ok {
				// a field of an object the session holds: s.LogonSettings.HeartBtInt = …
				if outer, base := LoadedField(fa.X); outer != nil && base != nil && t.M.isSessionVal(base) {
					if f := FieldOf(fa); f != nil {
						t.emit(p, fr, Event{Kind: "setfield", Name: FieldName(outer) + "." + FieldName(f), Instr: x, Args: []ssa.Value{t.resolve(fr, p, x.Val)}})
					}
				}
			}
		case *ssa.UnOp:
			if f, _ := LoadedField(x); f == t.M.StateField {
				p.reads[x] = readInfo{set: p.st, epoch: p.epoch}
			}
		case *ssa.Select:
			t.emit(p, fr, Event{Kind: "select", Instr: x})
		case *ssa.Send:
			t.emit(p, fr, Event{Kind: "chansend", Instr: x})
		case *ssa.Call:
			if t.call(fr, b, i, x, p, k) {
				return // continuation handled by splice
			}
		}
	}
}

func firstPos(b *ssa.BasicBlock) token.Pos {
	for _, in := range b.Instrs {
		if in.Pos().IsValid() {
			return in.Pos()
		}
	}
	return token.NoPos
}

func (t *Tracer) runDefers(fr *frame, idx int, b *ssa.BasicBlock, next int, p *pstate, k func(*pstate)) {
	if idx < 0 {
		t.walk(fr, b, next, p, k)
		return
	}
	d := fr.defers[idx]
	cont := func(q *pstate) { t.runDefers(fr, idx-1, b, next, q, k) }
	// classify the deferred call like a normal call
	if t.callCommon(fr, d, &d.Call, nil, p, cont) {
		return
	}
	cont(p)
}

func (t *Tracer) doReturn(fr *frame, r *ssa.Return, p *pstate, k func(*pstate)) {
	ret := ""
	results := t.resolveAll(fr, p, r.Results)
	for j, v := range results {
		if j > 0 {
			ret += ","
		}
		switch c := Unspill(v).(type) {
		case *ssa.Const:
			if c.Value == nil {
				ret += "nil"
			} else {
				ret += c.Value.String()
			}
		default:
			ret += "?"
		}
	}
	t.emit(p, fr, Event{Kind: "return", Instr: r, Ret: ret, Args: results})
	k(p)
}

// branch handles an If terminator.
func (t *Tracer) branch(fr *frame, b *ssa.BasicBlock, x *ssa.If, p *pstate, k func(*pstate)) {
	for _, side := range []bool{true, false} {
		q := p
		if side {
			q = p.fork()
		}
		base, pol := t.resolve(fr, q, x.Cond), true
		for {
			u, ok := base.(*ssa.UnOp)
			if !ok || u.Op != token.NOT {
				break
			}
			base, pol = t.resolve(fr, q, u.X), !pol
		}
		if cb, isConst := ConstBool(base); isConst {
			if (cb == pol) != side {
				if side {
					continue
				}
				return
			}
		} else {
			if known, ok := q.conds[base]; ok && (known == pol) != side {
				if side {
					continue
				}
				return
			}
			q.conds[base] = side == pol
		}
		if !t.refine(fr, x.Cond, side, q) {
			if side {
				continue
			}
			return
		}
		succ := b.Succs[1]
		if side {
			succ = b.Succs[0]
		}
		prev := fr.prev
		fr.prev = b
		t.walk(fr, succ, 0, q, k)
		fr.prev = prev
	}
}

// refine interprets condition cond being `val` on this path. Returns false if the path is infeasible.
func (t *Tracer) refine(fr *frame, cond ssa.Value, val bool, p *pstate) bool {
	cond = t.resolve(fr, p, cond)
	if b, ok := ConstBool(cond); ok {
		return b == val // a constant returned by a spliced callee decides the branch
	}
	switch c := cond.(type) {
	case *ssa.UnOp:
		if c.Op == token.NOT {
			return t.refine(fr, c.X, !val, p)
		}
		if call := structResultOf(c); call != nil {
			return t.setOutcome(p, call, fmt.Sprint(val))
		}
	case *ssa.Field:
		if call := structResultOf(c); call != nil {
			return t.setOutcome(p, call, fmt.Sprint(val))
		}
	case *ssa.Phi:
		// short-circuit && / || : cannot interpret in general
		return true
	case *ssa.BinOp:
		if c.Op != token.EQL && c.Op != token.NEQ {
			return true
		}
		eq := val == (c.Op == token.EQL)
		x, y := t.resolve(fr, p, c.X), t.resolve(fr, p, c.Y)
		if _, isC := x.(*ssa.Const); isC {
			x, y = y, x
		}
		// a value the path knows to be nil (the nil a spliced callee returned) compared with nil
		if IsNilConst(y) && IsNilConst(x) {
			return eq
		}
		// error/nil tests on event results
		if IsNilConst(y) {
			return t.setOutcome(p, x, map[bool]string{true: "ok", false: "fail"}[eq])
		}
		if cv, ok := ConstInt(y); ok {
			if t.isStateRead(x) {
				return t.refineRead(fr, x, cv, eq, val, cond.Pos(), p)
			}
			// a test of Session.side: the path belongs to one side from here on
			if f, base := LoadedField(x); f != nil && FieldName(f) == "side" && base != nil && t.M.isSessionVal(base) {
				acc := int64(0)
				if k, ok := t.M.Pkg.Members["sideAcceptor"].(*ssa.NamedConst); ok {
					if v, isInt := ConstInt(k.Value); isInt {
						acc = v
					}
				}
				side := "initiator"
				if (cv == acc) == eq {
					side = "acceptor"
				}
				t.emit(p, fr, Event{Kind: "side", Name: side, Pos: cond.Pos()})
			}
		}
		if bv, ok := ConstBool(y); ok {
			return t.refine(fr, x, eq == bv, p)
		}
	case *ssa.Call:
		if cal := StaticCallee(&c.Call); cal != nil {
			if kind, ok := t.M.StateReaders[cal]; ok && kind >= 0 {
				return t.refineRead(fr, c, kind, val, val, c.Pos(), p)
			}
		}
		return t.setOutcome(p, c, fmt.Sprint(val))
	case *ssa.Extract:
		return t.setOutcomeExtract(p, c, fmt.Sprint(val))
	}
	return true
}

// refineRead narrows what is known about read value x by (x == cv) being eq.
func (t *Tracer) refineRead(fr *frame, x ssa.Value, cv int64, eq, branch bool, pos token.Pos, p *pstate) bool {
	ri, ok := p.reads[x]
	if !ok {
		ri = readInfo{set: t.M.AllStates, epoch: -1}
	}
	if eq {
		ri.set &= 1 << uint(cv)
	} else {
		ri.set &^= 1 << uint(cv)
	}
	if ri.set == 0 {
		return false
	}
	p.reads[x] = ri
	if ri.epoch == p.epoch {
		ns := p.st & t.M.Close(ri.set)
		if ns == 0 {
			return false
		}
		p.st = ns
	}
	t.emit(p, fr, Event{Kind: "guard", Name: fmt.Sprintf("state%s%s", map[bool]string{true: "==", false: "!="}[eq], t.M.StateNames[cv]),
		Pos: pos, Outcome: fmt.Sprint(branch), Read: ri.set, Stale: ri.epoch != p.epoch, ReadVal: x})
	return true
}

func (t *Tracer) isStateRead(v ssa.Value) bool {
	if f, base := LoadedField(v); f == t.M.StateField && base != nil {
		return true
	}
	if c, ok := v.(*ssa.Call); ok {
		if cal := StaticCallee(&c.Call); cal != nil {
			if kind, ok := t.M.StateReaders[cal]; ok && kind == -1 {
				return true
			}
		}
	}
	return false
}

// structResultOf: v reads a bool or error field of the struct value a call returned (res := f(); res.ok): that call.
func structResultOf(v ssa.Value) *ssa.Call {
	var from ssa.Value
	var ft types.Type
	switch x := v.(type) {
	case *ssa.Field:
		from = x.X
		ft = x.Type()
	case *ssa.UnOp:
		fa, ok := x.X.(*ssa.FieldAddr)
		if !ok || x.Op != token.MUL {
			return nil
		}
		al, ok := fa.X.(*ssa.Alloc)
		if !ok {
			return nil
		}
		sts := CellStores(al)
		if len(sts) != 1 {
			return nil
		}
		from = sts[0]
		ft = x.Type()
	default:
		return nil
	}
	call, ok := from.(*ssa.Call)
	if !ok || !(isBool(ft) || types.Identical(ft, types.Universe.Lookup("error").Type())) {
		return nil
	}
	return call
}

// opposite: the two outcomes of one test.
func opposite(a, b string) bool {
	return a == "ok" && b == "fail" || a == "fail" && b == "ok" || a == "true" && b == "false" || a == "false" && b == "true"
}

// setOutcome records how the test of an event's result came out on this path. It returns false when the path has already
// decided the same test the other way (a helper tested the error and the caller tests the value it returned again): such a
// path is not feasible.
func (t *Tracer) setOutcome(p *pstate, v ssa.Value, outcome string) bool {
	if call := structResultOf(v); call != nil {
		v = call
	}
	// v may be the call result itself or an extract of a tuple call
	if ex, ok := v.(*ssa.Extract); ok {
		return t.setOutcomeExtract(p, ex, outcome)
	}
	for i := len(p.events) - 1; i >= 0; i-- {
		if p.events[i].Val != nil && p.events[i].Val == v {
			if opposite(p.events[i].Outcome, outcome) {
				return false
			}
			p.events[i].Outcome = outcome
			return true
		}
	}
	return true
}

func (t *Tracer) setOutcomeExtract(p *pstate, ex *ssa.Extract, outcome string) bool {
	for i := len(p.events) - 1; i >= 0; i-- {
		if p.events[i].Val != nil && p.events[i].Val == ex.Tuple {
			// for (value, err) tuples the error is the last component; for (ok, ...) the first
			tup, _ := ex.Tuple.Type().(*types.Tuple)
			if tup != nil {
				ct := tup.At(ex.Index).Type()
				if types.Identical(ct, types.Universe.Lookup("error").Type()) || isBool(ct) {
					if opposite(p.events[i].Outcome, outcome) {
						return false
					}
					p.events[i].Outcome = outcome
				}
			}
			return true
		}
	}
	return true
}

func isBool(t types.Type) bool {
	b, ok := t.Underlying().(*types.Basic)
	return ok && b.Kind() == types.Bool
}

// call classifies a call instruction. Returns true if the continuation was taken over (splice).
func (t *Tracer) call(fr *frame, b *ssa.BasicBlock, i int, x *ssa.Call, p *pstate, k func(*pstate)) bool {
	cont := func(q *pstate) { t.walk(fr, b, i+1, q, k) }
	return t.callCommon(fr, x, &x.Call, x, p, cont)
}

// callCommon emits the event(s) of a call; if the callee is spliced it runs cont for every path through the callee and returns true.
func (t *Tracer) callCommon(fr *frame, in ssa.Instruction, cc *ssa.CallCommon, val ssa.Value, p *pstate, cont func(*pstate)) bool {
	m := t.M
	ev := func(e Event) {
		e.Instr = in
		e.Val = val
		if e.Args == nil {
			e.Args = cc.Args
		}
		e.Args = t.resolveAll(fr, p, e.Args)
		t.emit(p, fr, e)
	}
	rarg := func(i int) ssa.Value { return t.resolve(fr, p, cc.Args[i]) }
	// --- interface invocations
	if cc.IsInvoke() {
		recvT := cc.Value.Type()
		name := cc.Method.Name()
		switch {
		case TypeIs(recvT, "session", "Unmarshaller") && name == "Unmarshal":
			ev(Event{Kind: "unmarshal"})
		case TypeIs(recvT, "session", "Handler"):
			switch name {
			case "Send", "SendRaw":
				kinds := []string{"Raw"}
				if name == "Send" {
					kinds = m.MsgKindOf(rarg(0), nil)
				}
				ev(Event{Kind: "send", Name: "Router." + name, Kinds: kinds})
			case "SendBatch":
				ev(Event{Kind: "send", Name: "Router.SendBatch", Kinds: []string{"Stored"}})
			case "Stop":
				ev(Event{Kind: "cancel", Name: "Router.Stop"})
			case "HandleIncoming":
				ev(Event{Kind: "handle-in", Name: m.MsgTypeKey(rarg(0))})
			case "HandleOutgoing":
				ev(Event{Kind: "handle-out", Name: m.MsgTypeKey(rarg(0))})
			case "Context":
			default:
				ev(Event{Kind: "router", Name: name})
			}
		case TypeIs(recvT, "session", "CounterStorage"), TypeIs(recvT, "session", "MessageStorage"):
			ev(Event{Kind: "store", Name: name})
		default:
			// builder getters / setters and anything else through interfaces of session/messages
			if n := NamedOf(recvT); n != nil && n.Obj().Pkg() != nil && strings.HasSuffix(n.Obj().Pkg().Path(), "/session/messages") {
				if strings.HasPrefix(name, "SetField") {
					ev(Event{Kind: "set", Name: name, Args: append([]ssa.Value{t.resolve(fr, p, cc.Value)}, cc.Args...)})
				}
				return false
			}
			if name == "Error" || name == "Done" || name == "Err" {
				return false
			}
			ev(Event{Kind: "invoke", Name: fmt.Sprintf("%s.%s", types.TypeString(recvT, nil), name)})
		}
		return false
	}
	// --- calls of function values stored in session fields
	if fn := StaticCallee(cc); fn == nil {
		if fld := m.sessionField(cc.Value); fld != "" {
			switch fld {
			case "LogonHandler":
				ev(Event{Kind: "check", Name: "app"})
			case "cancel":
				ev(Event{Kind: "cancel", Name: "s.cancel"})
			default:
				ev(Event{Kind: "callback", Name: fld})
			}
			return false
		}
		if _, isBuiltin := cc.Value.(*ssa.Builtin); isBuiltin {
			return false
		}
		ev(Event{Kind: "dyncall", Name: cc.Value.Name()})
		return false
	}
	fn := StaticCallee(cc)
	// --- state writers / readers
	if idx, ok := m.StateWriters[fn]; ok {
		to := int64(-1)
		if idx >= 0 && idx < len(cc.Args) {
			if c, ok := ConstInt(rarg(idx)); ok {
				to = c
			}
		}
		trig := -1
		if ti := m.TriggerParam[fn]; ti >= 0 && ti < len(cc.Args) {
			if bv, ok := ConstBool(rarg(ti)); ok {
				if bv {
					trig = 1
				} else {
					trig = 0
				}
			}
		}
		if idx >= 0 {
			ev(Event{Kind: "state", Name: m.StateNames[to], To: to, Trigger: trig})
			return false
		}
		// a function with constant stores only: splice it
	}
	if _, ok := m.StateReaders[fn]; ok {
		if val != nil {
			p.reads[val] = readInfo{set: p.st, epoch: p.epoch}
			ev(Event{Kind: "stateread", Name: NameOf(fn)})
		}
		return false // interpreted at the branch that tests its result
	}
	pkgPath := ""
	if fn.Pkg != nil {
		pkgPath = fn.Pkg.Pkg.Path()
	} else if o := fn.Object(); o != nil && o.Pkg() != nil {
		pkgPath = o.Pkg().Path()
	}
	recvName := ""
	if sig := fn.Signature; sig.Recv() != nil {
		if n := NamedOf(sig.Recv().Type()); n != nil {
			recvName = n.Obj().Name()
		}
	}
	switch {
	case pkgPath == m.PkgPath && recvName == "Session":
		switch NameOf(fn) {
		case "send", "sendWithErrorCheck", "Send":
			ev(Event{Kind: "send", Name: NameOf(fn), Kinds: m.MsgKindOf(rarg(1), nil)})
			return false
		case "checkLogonParams":
			ev(Event{Kind: "check", Name: "params"})
			return false
		case "start":
			ev(Event{Kind: "check", Name: "start"})
			return false
		case "MakeReject":
			ev(Event{Kind: "mkreject"})
			return false
		case "OnChangeState":
			ev(Event{Kind: "register", Name: eventName(rarg(1))})
			return false
		}
	case strings.HasSuffix(pkgPath, "/utils") && recvName == "EventHandlerPool":
		switch NameOf(fn) {
		case "Handle":
			ev(Event{Kind: "register", Name: eventName(cc.Args[1])})
		case "Clean":
			ev(Event{Kind: "clean"})
		case "Trigger":
			ev(Event{Kind: "trigger", Name: eventName(cc.Args[1])})
		}
		return false
	case strings.HasSuffix(pkgPath, "/utils") && (recvName == "Timer" || NameOf(fn) == "NewTimer"):
		ev(Event{Kind: "timer", Name: NameOf(fn)})
		return false
	case pkgPath == "time" && NameOf(fn) == "AfterFunc":
		ev(Event{Kind: "afterfunc"})
		return false
	case pkgPath == "time" && recvName == "Timer" && NameOf(fn) == "Stop":
		ev(Event{Kind: "timerstop"})
		return false
	case pkgPath == "sync":
		return false
	}
	// --- splice same-package functions (and closures called directly)
	if pkgPath == m.PkgPath && len(fn.Blocks) > 0 && !t.NoSplice[fn] {
		if fr.depth >= m.MaxDepth || t.onStack(fr, fn) {
			ev(Event{Kind: "call", Name: NameOf(fn) + " (not spliced: depth)"})
			return false
		}
		ev(Event{Kind: "enter", Name: NameOf(fn)})
		nf := &frame{fn: fn, visited: map[*ssa.BasicBlock]bool{}, depth: fr.depth + 1, up: fr, sub: map[ssa.Value]ssa.Value{}, phis: map[*ssa.Phi]ssa.Value{}}
		// the bindings of the frames above stay visible: an argument may be an expression of the caller whose operands are the
		// caller's own parameters (rendering reads through all of them)
		for k, v := range fr.sub {
			nf.sub[k] = v
		}
		for i, prm := range fn.Params {
			if i < len(cc.Args) {
				nf.sub[prm] = rarg(i)
			}
		}
		t.walk(nf, fn.Blocks[0], 0, p, func(q *pstate) {
			// callee path ended (return / panic / loopback); a constant boolean result decides the caller's branch on it,
			// any other result is known to the caller as the value the callee returned
			if val != nil && len(q.events) > 0 {
				last := q.events[len(q.events)-1]
				if last.Kind == "return" && last.Depth == nf.depth {
					if len(last.Args) == 1 {
						if b, ok := ConstBool(Unspill(last.Args[0])); ok {
							q.conds[val] = b
						}
					}
					if len(last.Args) >= 1 {
						// results that are constants, results of calls or values of the caller are known to the caller as such;
						// anything the callee builds itself (a literal, an expression) stays behind the call value
						res := make([]ssa.Value, len(last.Args))
						okAll := true
						for i, a := range last.Args {
							u := Unspill(a)
							switch y := Unwrap(u).(type) {
							case *ssa.Const, *ssa.Call, *ssa.Extract:
							default:
								if vi, isI := y.(ssa.Instruction); isI && vi.Parent() == nf.fn {
									okAll = false
								}
								if _, isP := y.(*ssa.Parameter); isP {
									okAll = false
								}
							}
							res[i] = u
						}
						if okAll {
							q.alias[val] = res
						}
					}
				}
			}
			cont(q)
		})
		return true
	}
	if strings.HasPrefix(pkgPath, "github.com/b2broker/simplefix-go") {
		ev(Event{Kind: "call", Name: FuncShort(fn)})
	}
	return false
}

func (t *Tracer) onStack(fr *frame, fn *ssa.Function) bool {
	for f := fr; f != nil; f = f.up {
		if f.fn == fn {
			return true
		}
	}
	return false
}

// FuncShort renders pkg.Func or pkg.(T).m briefly.
func FuncShort(fn *ssa.Function) string {
	s := fn.String()
	return strings.ReplaceAll(s, "github.com/b2broker/simplefix-go", "sfgo")
}

func eventName(v ssa.Value) string {
	if c, ok := ConstInt(v); ok {
		names := []string{"EventDisconnect", "EventConnect", "EventStopped", "EventLogon", "EventRequest", "EventLogout"}
		if c >= 0 && int(c) < len(names) {
			return names[c]
		}
		return fmt.Sprint(c)
	}
	return "?"
}

// MsgTypeKey renders the message-type argument of HandleIncoming/HandleOutgoing: "ALL" or the builder field name minus "Builder".
func (m *SessionModel) MsgTypeKey(v ssa.Value) string {
	if s, ok := ConstString(v); ok {
		return s
	}
	if call, ok := v.(*ssa.Call); ok && call.Call.IsInvoke() && call.Call.Method.Name() == "MsgType" {
		if f, _ := LoadedField(call.Call.Value); f != nil && strings.HasSuffix(f.Name(), "Builder") {
			return strings.TrimSuffix(f.Name(), "Builder")
		}
	}
	return "?"
}

// Registration is one HandleIncoming / HandleOutgoing call site.
type Registration struct {
	In     bool
	Key    string
	Fn     *ssa.Function // the handler
	Site   *ssa.Call
	Parent *ssa.Function // the function the registration belongs to (see LogicalOwner)
	Where  *ssa.Function // the function that contains the call
	Chain  []*ssa.Call   // call sites from Parent down to Where (empty when they are the same)
}

// Registrations finds all handler registrations in the package (in source order per function).
func (m *SessionModel) Registrations() []Registration {
	var out []Registration
	var fns []*ssa.Function
	for _, fn := range pkgTopFuncs(m.Pkg) { // functions and the methods of every type of the package
		fns = append(fns, WithAnon(fn)...)
	}
	for _, fn := range fns {
		AllInstrs(fn, func(in ssa.Instruction) {
			call, ok := in.(*ssa.Call)
			if !ok || !call.Call.IsInvoke() || !TypeIs(call.Call.Value.Type(), "session", "Handler") {
				return
			}
			name := call.Call.Method.Name()
			if name != "HandleIncoming" && name != "HandleOutgoing" {
				return
			}
			owner, chain := LogicalOwner(fn)
			out = append(out, Registration{In: name == "HandleIncoming", Key: m.MsgTypeKey(call.Call.Args[0]),
				Fn: ClosureFn(call.Call.Args[1]), Site: call, Parent: owner, Where: fn, Chain: chain})
		})
	}
	sort.SliceStable(out, func(i, j int) bool { return out[i].Site.Pos() < out[j].Site.Pos() })
	return out
}

// Method returns the SSA function of (*Session).name.
func (m *SessionModel) Method(name string) *ssa.Function {
	ms := m.Pkg.Prog.MethodSets.MethodSet(types.NewPointer(m.Session))
	for i := 0; i < ms.Len(); i++ {
		if ms.At(i).Obj().Name() == name {
			return m.Pkg.Prog.MethodValue(ms.At(i))
		}
	}
	if f := FindPinned(m.Pkg, "Session", name); f != nil { // renamed
		return f
	}
	if w, ok := InlinedInto["Session."+name]; ok { // inlined into its exported wrapper
		for i := 0; i < ms.Len(); i++ {
			if "Session."+ms.At(i).Obj().Name() == w {
				return m.Pkg.Prog.MethodValue(ms.At(i))
			}
		}
	}
	return nil
}

// InlinedInto lists unexported methods of the pinned tree whose body may legitimately move into the exported wrapper that was
// their only other caller's alternative: the rules about the method then apply to the wrapper.
var InlinedInto = map[string]string{"Session.send": "Session.Send"}

// MsgTypeKeyOfBuilder: v is a load of MessageBuilders.<K>Builder → K.
func (m *SessionModel) MsgTypeKeyOfBuilder(v ssa.Value) string {
	if f, _ := LoadedField(v); f != nil && strings.HasSuffix(f.Name(), "Builder") {
		return strings.TrimSuffix(f.Name(), "Builder")
	}
	return "?"
}

// IsSessionVal reports whether v is a *Session.
func (m *SessionModel) IsSessionVal(v ssa.Value) bool { return m.isSessionVal(v) }
