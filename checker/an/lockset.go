package an

import (
	"go/token"
	"go/types"
	"sort"
	"strings"

	"golang.org/x/tools/go/ssa"
)

// ---------------------------------------------------------------------------
// E2 — must-held lockset analysis.
// ---------------------------------------------------------------------------

// LockID identifies a mutex: the mutex field and the rendered base object it belongs to.
type LockID struct {
	Field *types.Var
	Base  string
}

func (l LockID) String() string { return l.Base + "." + l.Field.Name() }

// Lock modes.
const (
	ModeR = 1
	ModeW = 2
)

// LockSet maps a held lock to its mode.
type LockSet map[LockID]int

func (s LockSet) clone() LockSet {
	o := LockSet{}
	for k, v := range s {
		o[k] = v
	}
	return o
}

func (s LockSet) String() string {
	var parts []string
	for k, m := range s {
		x := k.String()
		if m == ModeR {
			x += "(R)"
		}
		parts = append(parts, x)
	}
	sort.Strings(parts)
	return "{" + strings.Join(parts, ", ") + "}"
}

// Holds reports whether a lock on field f of base is held with at least the given mode.
func (s LockSet) Holds(f *types.Var, base string, mode int) bool {
	m, ok := s[LockID{f, base}]
	return ok && m >= mode
}

// HoldsField reports whether some lock on mutex field f is held (any base) with at least mode.
func (s LockSet) HoldsField(f *types.Var, mode int) bool {
	for k, m := range s {
		if k.Field == f && m >= mode {
			return true
		}
	}
	return false
}

func meet(a, b LockSet) LockSet {
	o := LockSet{}
	for k, m := range a {
		if m2, ok := b[k]; ok {
			if m2 < m {
				m = m2
			}
			o[k] = m
		}
	}
	return o
}

func equalLS(a, b LockSet) bool {
	if len(a) != len(b) {
		return false
	}
	for k, v := range a {
		if b[k] != v {
			return false
		}
	}
	return true
}

// lockOp classifies a call as a lock operation.
func lockOp(cc *ssa.CallCommon) (id LockID, op string, ok bool) {
	f := StaticCallee(cc)
	if f == nil || f.Pkg == nil || f.Pkg.Pkg.Path() != "sync" || f.Signature.Recv() == nil || len(cc.Args) == 0 {
		return
	}
	switch f.Name() {
	case "Lock", "RLock", "Unlock", "RUnlock":
	default:
		return
	}
	n := NamedOf(f.Signature.Recv().Type())
	if n == nil || (n.Obj().Name() != "Mutex" && n.Obj().Name() != "RWMutex") {
		return
	}
	fa, isFA := cc.Args[0].(*ssa.FieldAddr)
	if !isFA {
		return LockID{}, "", false
	}
	return LockID{Field: FieldOf(fa), Base: Render(fa.X)}, f.Name(), true
}

// LockAnalysis holds the result for a set of functions.
type LockAnalysis struct {
	Fns   []*ssa.Function
	At    map[ssa.Instruction]LockSet // lockset held immediately before the instruction
	Entry map[*ssa.Function]LockSet
	// Unresolved lock operations (argument is not a field address): reported by clients.
	Odd []ssa.Instruction
}

// AnalyseLocks computes must-held locksets for fns. inherit lists functions whose entry lockset is
// the meet over their static call sites inside fns (unexported helpers only called directly).
func AnalyseLocks(fns []*ssa.Function) *LockAnalysis {
	la := &LockAnalysis{Fns: fns, At: map[ssa.Instruction]LockSet{}, Entry: map[*ssa.Function]LockSet{}}
	inSet := map[*ssa.Function]bool{}
	for _, f := range fns {
		inSet[f] = true
		la.Entry[f] = LockSet{}
	}
	// which functions may inherit: unexported, not a closure, never used as a value
	callSites := map[*ssa.Function][]*ssa.Call{}
	usedAsValue := map[*ssa.Function]bool{}
	for _, f := range fns {
		AllInstrs(f, func(in ssa.Instruction) {
			var direct *ssa.Function
			if cc := CallOf(in); cc != nil {
				direct = StaticCallee(cc)
				if call, ok := in.(*ssa.Call); ok && direct != nil && inSet[direct] {
					callSites[direct] = append(callSites[direct], call)
				} else if direct != nil && inSet[direct] {
					usedAsValue[direct] = true // go / defer: runs with its own lock context
				}
			}
			for _, op := range in.Operands(nil) {
				if fn, ok := (*op).(*ssa.Function); ok && fn != direct {
					usedAsValue[fn] = true
				}
				if mc, ok := (*op).(*ssa.MakeClosure); ok {
					if fn, ok := mc.Fn.(*ssa.Function); ok && fn != direct {
						usedAsValue[fn] = true
					}
				}
			}
		})
	}
	mayInherit := func(f *ssa.Function) bool {
		if f.Parent() != nil || usedAsValue[f] || len(callSites[f]) == 0 {
			return false
		}
		name := f.Name()
		return name != "" && !(name[0] >= 'A' && name[0] <= 'Z')
	}
	for round := 0; round < 4; round++ {
		for _, f := range fns {
			la.analyseFn(f)
		}
		changed := false
		for _, f := range fns {
			if !mayInherit(f) {
				continue
			}
			var acc LockSet
			for i, cs := range callSites[f] {
				at := la.At[cs]
				// translate bases: caller's rendering of the receiver argument → callee's receiver name
				tr := LockSet{}
				if len(cs.Call.Args) > 0 && len(f.Params) > 0 {
					recv := Render(cs.Call.Args[0])
					for k, m := range at {
						if k.Base == recv {
							tr[LockID{k.Field, Render(f.Params[0])}] = m
						}
					}
				}
				if i == 0 {
					acc = tr
				} else {
					acc = meet(acc, tr)
				}
			}
			if !equalLS(acc, la.Entry[f]) {
				la.Entry[f] = acc
				changed = true
			}
		}
		if !changed {
			break
		}
	}
	return la
}

func (la *LockAnalysis) analyseFn(f *ssa.Function) {
	if len(f.Blocks) == 0 {
		return
	}
	in := map[*ssa.BasicBlock]LockSet{}
	in[f.Blocks[0]] = la.Entry[f].clone()
	// deferred unlocks of this function
	deferred := map[LockID]bool{}
	AllInstrs(f, func(i ssa.Instruction) {
		if d, ok := i.(*ssa.Defer); ok {
			if id, op, ok := lockOp(&d.Call); ok && (op == "Unlock" || op == "RUnlock") {
				deferred[id] = true
			}
		}
	})
	work := []*ssa.BasicBlock{f.Blocks[0]}
	seen := map[*ssa.BasicBlock]bool{}
	for len(work) > 0 {
		b := work[0]
		work = work[1:]
		cur := in[b].clone()
		for _, i := range b.Instrs {
			la.At[i] = cur.clone()
			switch x := i.(type) {
			case *ssa.Call:
				if id, op, ok := lockOp(&x.Call); ok {
					switch op {
					case "Lock":
						cur[id] = ModeW
					case "RLock":
						if cur[id] < ModeR {
							cur[id] = ModeR
						}
					case "Unlock", "RUnlock":
						delete(cur, id)
					}
				} else if fn := StaticCallee(&x.Call); fn != nil && fn.Pkg != nil && fn.Pkg.Pkg.Path() == "sync" && (fn.Name() == "Lock" || fn.Name() == "Unlock" || fn.Name() == "RLock" || fn.Name() == "RUnlock") {
					la.Odd = append(la.Odd, i)
				}
			case *ssa.RunDefers:
				for id := range deferred {
					delete(cur, id)
				}
			}
		}
		for _, s := range b.Succs {
			old, ok := in[s]
			var nw LockSet
			if !ok {
				nw = cur.clone()
			} else {
				nw = meet(old, cur)
			}
			if !ok || !equalLS(old, nw) || !seen[s] {
				in[s] = nw
				seen[s] = true
				work = append(work, s)
			}
		}
	}
}

// FieldAccess is one access to a struct field.
type FieldAccess struct {
	Field  *types.Var
	Base   ssa.Value
	Instr  ssa.Instruction
	Write  bool
	Atomic bool   // the field address is passed to a sync/atomic function
	How    string // load store mapupdate delete lookup range len atomic.<fn> addr-escapes
	Fn     *ssa.Function
}

// FieldAccesses lists all accesses to field f in fn.
func FieldAccesses(fn *ssa.Function, want func(*types.Var) bool) []FieldAccess {
	var out []FieldAccess
	AllInstrs(fn, func(in ssa.Instruction) {
		fa, ok := in.(*ssa.FieldAddr)
		if !ok {
			if fl, ok := in.(*ssa.Field); ok && want(FieldOf(fl)) {
				out = append(out, FieldAccess{Field: FieldOf(fl), Base: fl.X, Instr: in, How: "load", Fn: fn})
			}
			return
		}
		f := FieldOf(fa)
		if f == nil || !want(f) {
			return
		}
		for _, ref := range *fa.Referrers() {
			switch r := ref.(type) {
			case *ssa.Store:
				if r.Addr == ssa.Value(fa) {
					out = append(out, FieldAccess{Field: f, Base: fa.X, Instr: r, Write: true, How: "store", Fn: fn})
				} else {
					out = append(out, FieldAccess{Field: f, Base: fa.X, Instr: r, Write: true, How: "addr-escapes", Fn: fn})
				}
			case *ssa.UnOp:
				if r.Op != token.MUL {
					continue
				}
				out = append(out, FieldAccess{Field: f, Base: fa.X, Instr: r, How: "load", Fn: fn})
				// operations on the loaded map/slice value
				for _, r2 := range *r.Referrers() {
					switch m := r2.(type) {
					case *ssa.MapUpdate:
						if m.Map == ssa.Value(r) {
							out = append(out, FieldAccess{Field: f, Base: fa.X, Instr: m, Write: true, How: "mapupdate", Fn: fn})
						}
					case *ssa.Lookup:
						if m.X == ssa.Value(r) {
							out = append(out, FieldAccess{Field: f, Base: fa.X, Instr: m, How: "lookup", Fn: fn})
						}
					case *ssa.Range:
						out = append(out, FieldAccess{Field: f, Base: fa.X, Instr: m, How: "range", Fn: fn})
					case *ssa.Call:
						if b, ok := m.Call.Value.(*ssa.Builtin); ok {
							switch b.Name() {
							case "delete":
								out = append(out, FieldAccess{Field: f, Base: fa.X, Instr: m, Write: true, How: "delete", Fn: fn})
							case "len":
								out = append(out, FieldAccess{Field: f, Base: fa.X, Instr: m, How: "len", Fn: fn})
							}
						}
					}
				}
			case *ssa.Call:
				if cal := StaticCallee(&r.Call); cal != nil && cal.Pkg != nil && cal.Pkg.Pkg.Path() == "sync/atomic" {
					w := !strings.HasPrefix(cal.Name(), "Load")
					out = append(out, FieldAccess{Field: f, Base: fa.X, Instr: r, Write: w, Atomic: true, How: "atomic." + cal.Name(), Fn: fn})
				} else if _, _, isLock := lockOp(&r.Call); !isLock {
					out = append(out, FieldAccess{Field: f, Base: fa.X, Instr: r, Write: true, How: "addr-escapes", Fn: fn})
				}
			case *ssa.Defer, *ssa.Go:
				if cc := CallOf(r); cc != nil {
					if _, _, isLock := lockOp(cc); !isLock {
						out = append(out, FieldAccess{Field: f, Base: fa.X, Instr: r, Write: true, How: "addr-escapes", Fn: fn})
					}
				}
			case *ssa.FieldAddr, *ssa.DebugRef:
			case *ssa.Return:
				out = append(out, FieldAccess{Field: f, Base: fa.X, Instr: r, Write: true, How: "addr-returned", Fn: fn})
			case *ssa.Phi:
				onlyReturned := r.Referrers() != nil
				if onlyReturned {
					for _, r2 := range *r.Referrers() {
						switch r2.(type) {
						case *ssa.Return, *ssa.DebugRef:
						default:
							onlyReturned = false
						}
					}
				}
				how := "addr-escapes"
				if onlyReturned {
					how = "addr-returned"
				}
				out = append(out, FieldAccess{Field: f, Base: fa.X, Instr: r, Write: true, How: how, Fn: fn})
			default:
				out = append(out, FieldAccess{Field: f, Base: fa.X, Instr: r, Write: true, How: "addr-escapes", Fn: fn})
			}
		}
	})
	return out
}

// IsConstructorBase reports whether the accessed object is still private to fn:
// allocated in fn (composite literal / new) or returned by a call to a function that allocates it.
func IsConstructorBase(base ssa.Value, fn *ssa.Function) bool {
	switch b := base.(type) {
	case *ssa.Alloc:
		return true
	case *ssa.Call:
		if cal := StaticCallee(&b.Call); cal != nil {
			return returnsFresh(cal, 0)
		}
	case *ssa.Extract:
		if call, ok := b.Tuple.(*ssa.Call); ok {
			if cal := StaticCallee(&call.Call); cal != nil {
				return returnsFresh(cal, b.Index)
			}
		}
	case *ssa.UnOp:
		// named result cell holding a fresh object (s, err = newSession(...); s.side = ...)
		if b.Op == token.MUL {
			if al, ok := b.X.(*ssa.Alloc); ok {
				fresh := true
				n := 0
				for _, r := range *al.Referrers() {
					if st, ok := r.(*ssa.Store); ok && st.Addr == ssa.Value(al) {
						n++
						if !IsConstructorBase(st.Val, fn) {
							if c, isC := st.Val.(*ssa.Const); !isC || c.Value != nil {
								fresh = false
							}
						}
					}
				}
				return fresh && n > 0
			}
		}
	case *ssa.Phi:
		for _, e := range b.Edges {
			if c, isC := e.(*ssa.Const); isC && c.Value == nil {
				continue
			}
			if !IsConstructorBase(e, fn) {
				return false
			}
		}
		return true
	}
	return false
}

// returnsFresh: every return of cal yields, at result idx, an object allocated in cal (or nil).
func returnsFresh(cal *ssa.Function, idx int) bool {
	if len(cal.Blocks) == 0 {
		return false
	}
	ok := true
	n := 0
	AllInstrs(cal, func(in ssa.Instruction) {
		r, isR := in.(*ssa.Return)
		if !isR || idx >= len(r.Results) {
			return
		}
		if cal.Recover != nil && r.Block() == cal.Recover {
			return
		}
		v := r.Results[idx]
		n++
		if c, isC := v.(*ssa.Const); isC && c.Value == nil {
			return
		}
		if !IsConstructorBase(v, cal) {
			ok = false
		}
	})
	return ok && n > 0
}

// LockOp exposes lockOp: the mutex (field and rendered base) and the operation of a sync.(RW)Mutex call.
func LockOp(cc *ssa.CallCommon) (LockID, string, bool) { return lockOp(cc) }

// HeldAtReturn lists, for every returning acyclic path of fn, the locks that were acquired on the path and are still held when
// the function returns (explicit unlocks and the deferred unlocks whose defer statement the path executed are taken into
// account). The result maps a description of the lock to the conditions of one such path.
func HeldAtReturn(fn *ssa.Function) map[string]string {
	out := map[string]string{}
	paths, _ := EnumPaths(fn, 4096)
	for _, p := range paths {
		if p.Return == nil {
			continue
		}
		held := map[LockID]bool{}
		deferred := map[LockID]bool{}
		for _, in := range p.InstrSeq() {
			switch x := in.(type) {
			case *ssa.Call:
				if id, op, ok := lockOp(&x.Call); ok {
					switch op {
					case "Lock", "RLock":
						held[id] = true
					default:
						delete(held, id)
					}
				}
			case *ssa.Defer:
				if id, op, ok := lockOp(&x.Call); ok && (op == "Unlock" || op == "RUnlock") {
					deferred[id] = true
				}
			case *ssa.RunDefers:
				for id := range deferred {
					delete(held, id)
				}
			}
		}
		for id := range held {
			if _, dup := out[id.String()]; !dup {
				out[id.String()] = p.CondString()
			}
		}
	}
	return out
}

// HeldAt lists the locks that are held, on some acyclic path of fn, when the path reaches instruction at (locks acquired on
// the path and not released before it; deferred unlocks have not run yet). The result maps the lock to one such path's
// conditions.
func HeldAt(fn *ssa.Function, at ssa.Instruction) map[string]string {
	out := map[string]string{}
	paths, _ := EnumPaths(fn, 4096)
	for _, p := range paths {
		if !p.Passes(at) {
			continue
		}
		held := map[LockID]bool{}
		for _, in := range p.InstrSeq() {
			if in == at {
				break
			}
			if call, ok := in.(*ssa.Call); ok {
				if id, op, ok := lockOp(&call.Call); ok {
					switch op {
					case "Lock", "RLock":
						held[id] = true
					default:
						delete(held, id)
					}
				}
			}
		}
		for id := range held {
			if _, dup := out[id.String()]; !dup {
				out[id.String()] = p.CondString()
			}
		}
	}
	return out
}

// HeldExclusiveAt is HeldAt restricted to locks taken with Lock (not RLock).
func HeldExclusiveAt(fn *ssa.Function, at ssa.Instruction) map[string]string {
	out := map[string]string{}
	paths, _ := EnumPaths(fn, 4096)
	for _, p := range paths {
		if !p.Passes(at) {
			continue
		}
		held := map[LockID]bool{}
		for _, in := range p.InstrSeq() {
			if in == at {
				break
			}
			if call, ok := in.(*ssa.Call); ok {
				if id, op, ok := lockOp(&call.Call); ok {
					switch op {
					case "Lock":
						held[id] = true
					case "Unlock":
						delete(held, id)
					}
				}
			}
		}
		for id := range held {
			if _, dup := out[id.String()]; !dup {
				out[id.String()] = p.CondString()
			}
		}
	}
	return out
}
