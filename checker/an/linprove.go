package an

import (
	"fmt"
	"go/token"
	"go/types"
	"sort"
	"strings"

	"golang.org/x/tools/go/ssa"
)

// ---------------------------------------------------------------------------
// E6 — a small linear-inequality engine for bounds obligations.
// Terms are linear forms over opaque integer symbols (lengths of SSA slice values,
// search results, parameters). Facts are collected along one acyclic path (branch
// conditions, post-conditions of executed slice/index operations, library facts about
// bytes.Index / HasPrefix / Join / make / range). A goal is discharged when it is a
// non-negative combination of at most three facts plus a non-negative constant.
// Loop-head phis stay symbolic (they stand for an arbitrary iteration); clients supply
// and separately prove loop invariants and function preconditions.
// ---------------------------------------------------------------------------

// LForm is Σ coef·symbol + K.
type LForm struct {
	C map[string]int64
	K int64
}

func lconst(k int64) LForm { return LForm{C: map[string]int64{}, K: k} }
func lsym(s string) LForm  { return LForm{C: map[string]int64{s: 1}} }

func (a LForm) Add(b LForm, sign int64) LForm {
	o := LForm{C: map[string]int64{}, K: a.K + sign*b.K}
	for k, v := range a.C {
		o.C[k] += v
	}
	for k, v := range b.C {
		o.C[k] += sign * v
	}
	for k, v := range o.C {
		if v == 0 {
			delete(o.C, k)
		}
	}
	return o
}

func (a LForm) Scale(m int64) LForm {
	o := LForm{C: map[string]int64{}, K: a.K * m}
	for k, v := range a.C {
		if v*m != 0 {
			o.C[k] = v * m
		}
	}
	return o
}

func (a LForm) IsConst() bool { return len(a.C) == 0 }

func (a LForm) String() string {
	var keys []string
	for k := range a.C {
		keys = append(keys, k)
	}
	sort.Strings(keys)
	var parts []string
	for _, k := range keys {
		switch a.C[k] {
		case 1:
			parts = append(parts, k)
		case -1:
			parts = append(parts, "-"+k)
		default:
			parts = append(parts, fmt.Sprintf("%d·%s", a.C[k], k))
		}
	}
	if a.K != 0 || len(parts) == 0 {
		parts = append(parts, fmt.Sprint(a.K))
	}
	return strings.Join(parts, " + ")
}

// Fact is lin ≥ 0 with a human-readable origin.
type Fact struct {
	L   LForm
	Why string
}

// Prover holds the facts of one path prefix.
type Prover struct {
	Fn        *ssa.Function
	Path      *Path
	Facts     []Fact
	loopHeads map[*ssa.BasicBlock]bool
	seenLen   map[string]bool
	found     map[*ssa.Call]bool
	// sub maps the parameters of an expanded helper (pureExprOf) to the caller's values while its return expression is evaluated
	sub        map[ssa.Value]ssa.Value
	otherHeads map[*ssa.Function]map[*ssa.BasicBlock]bool
}

// inCallee evaluates f with the parameters of the expanded helper bound to the call's arguments and the helper's single path
// as the path that resolves its phis and spilled locals.
func (p *Prover) inCallee(call *ssa.Call, callee *ssa.Function, path *Path, f func() LForm) LForm {
	args := make([]ssa.Value, len(call.Call.Args))
	for i, a := range call.Call.Args {
		args[i] = p.resolve(a)
	}
	oldSub, oldPath, oldHeads := p.sub, p.Path, p.loopHeads
	p.sub = map[ssa.Value]ssa.Value{}
	for k, v := range oldSub {
		p.sub[k] = v
	}
	for i, prm := range callee.Params {
		if i < len(args) {
			p.sub[prm] = args[i]
		}
	}
	p.Path, p.loopHeads = path, LoopHeads(callee)
	out := f()
	p.sub, p.Path, p.loopHeads = oldSub, oldPath, oldHeads
	return out
}

// LoopHeads returns the blocks of fn that are targets of a back edge.
func LoopHeads(fn *ssa.Function) map[*ssa.BasicBlock]bool {
	out := map[*ssa.BasicBlock]bool{}
	for _, b := range fn.Blocks {
		for _, s := range b.Succs {
			if s.Dominates(b) {
				out[s] = true
			}
		}
	}
	return out
}

func (p *Prover) resolve(v ssa.Value) ssa.Value {
	for i := 0; i < 8; i++ {
		if a, ok := p.sub[v]; ok {
			return a // an argument: already resolved in the caller's context
		}
		var y ssa.Value = spillOnPath(v, p.Path.Blocks)
		if phi, ok := y.(*ssa.Phi); ok && !p.isLoopHead(phi.Block()) {
			y = resolvePhi(phi, p.Path.Blocks)
		}
		// on an interprocedural path: a helper's parameter is the argument, the result of its call the value it returned
		if s, ok := p.Path.Sub[y]; ok {
			y = s
		}
		if y == v {
			break
		}
		v = y
	}
	return v
}

// isLoopHead: b is the head of a loop of its function (the functions of the helpers spliced into an interprocedural path are
// looked at on demand).
func (p *Prover) isLoopHead(b *ssa.BasicBlock) bool {
	if b.Parent() == p.Fn || p.Path == nil || p.Path.Sub == nil {
		return p.loopHeads[b]
	}
	if p.otherHeads == nil {
		p.otherHeads = map[*ssa.Function]map[*ssa.BasicBlock]bool{}
	}
	h, ok := p.otherHeads[b.Parent()]
	if !ok {
		h = LoopHeads(b.Parent())
		p.otherHeads[b.Parent()] = h
	}
	return h[b]
}

func (p *Prover) name(v ssa.Value) string {
	return renderWith(v, func(x ssa.Value) ssa.Value { return p.resolve(x) })
}

// Lin converts an integer SSA value to a linear form.
func (p *Prover) Lin(v ssa.Value) LForm {
	v = p.resolve(v)
	switch x := v.(type) {
	case *ssa.Const:
		if k, ok := ConstInt(x); ok {
			return lconst(k)
		}
	case *ssa.BinOp:
		switch x.Op {
		case token.ADD:
			return p.Lin(x.X).Add(p.Lin(x.Y), 1)
		case token.SUB:
			return p.Lin(x.X).Add(p.Lin(x.Y), -1)
		case token.MUL:
			if k, ok := ConstInt(p.resolve(x.Y)); ok {
				return p.Lin(x.X).Scale(k)
			}
			if k, ok := ConstInt(p.resolve(x.X)); ok {
				return p.Lin(x.Y).Scale(k)
			}
		}
	case *ssa.Convert:
		if isIntType(x.Type()) && isIntType(x.X.Type()) {
			return p.Lin(x.X)
		}
	case *ssa.Call:
		if b, ok := x.Call.Value.(*ssa.Builtin); ok && (b.Name() == "len" || b.Name() == "cap") {
			return p.LenOf(x.Call.Args[0])
		}
		if cal := StaticCallee(&x.Call); cal != nil {
			if ret, path, ok := pureExprOf(cal); ok {
				return p.inCallee(x, cal, path, func() LForm { return p.Lin(ret) })
			}
		}
	}
	return lsym(p.name(v))
}

// LenOf returns the length of a slice/string SSA value as a linear form.
func (p *Prover) LenOf(v ssa.Value) LForm {
	v = p.resolve(v)
	switch x := v.(type) {
	case *ssa.Slice:
		var lo, hi LForm
		if x.Low != nil {
			lo = p.Lin(x.Low)
		} else {
			lo = lconst(0)
		}
		if x.High != nil {
			hi = p.Lin(x.High)
		} else {
			if at, ok := Deref(x.X.Type()).Underlying().(*types.Array); ok {
				hi = lconst(at.Len())
			} else {
				hi = p.LenOf(x.X)
			}
		}
		return hi.Add(lo, -1)
	case *ssa.MakeSlice:
		return p.Lin(x.Len)
	case *ssa.Const:
		if x.Value == nil {
			return lconst(0)
		}
		if s, ok := ConstString(x); ok {
			return lconst(int64(len(s)))
		}
	case *ssa.Convert:
		if isByteish(x.Type()) && isByteish(x.X.Type()) {
			return p.LenOf(x.X)
		}
	case *ssa.ChangeType:
		return p.LenOf(x.X)
	case *ssa.BinOp:
		// string concatenation
		if x.Op == token.ADD && isByteish(x.Type()) {
			return p.LenOf(x.X).Add(p.LenOf(x.Y), 1)
		}
	case *ssa.Call:
		if b, ok := x.Call.Value.(*ssa.Builtin); ok && b.Name() == "append" && len(x.Call.Args) == 2 {
			return p.LenOf(x.Call.Args[0]).Add(p.LenOf(x.Call.Args[1]), 1)
		}
		if cal := StaticCallee(&x.Call); cal != nil {
			if ret, path, ok := pureExprOf(cal); ok {
				return p.inCallee(x, cal, path, func() LForm { return p.LenOf(ret) })
			}
		}
		if cal := StaticCallee(&x.Call); cal != nil && cal.Pkg != nil && cal.Pkg.Pkg.Path() == "bytes" && cal.Name() == "Join" {
			if elems, ok := SliceElems(p.resolve(x.Call.Args[0])); ok {
				out := lconst(0)
				sep := p.LenOf(x.Call.Args[1])
				for i, e := range elems {
					if i > 0 {
						out = out.Add(sep, 1)
					}
					out = out.Add(p.LenOf(e), 1)
				}
				return out
			}
		}
	case *ssa.UnOp:
		if x.Op == token.MUL {
			if g, ok := x.X.(*ssa.Global); ok && g.Name() == "Delimiter" {
				return lconst(1)
			}
		}
	}
	if n, ok := arrayLen(v); ok {
		return lconst(n)
	}
	s := "len(" + p.name(v) + ")"
	if !p.seenLen[s] {
		p.seenLen[s] = true
		p.Facts = append(p.Facts, Fact{L: lsym(s), Why: s + " ≥ 0"})
	}
	return lsym(s)
}

func arrayLen(v ssa.Value) (int64, bool) {
	if sl, ok := v.(*ssa.Slice); ok && sl.Low == nil && sl.High == nil {
		if elems, ok := SliceElems(sl); ok {
			return int64(len(elems)), true
		}
	}
	return 0, false
}

func isIntType(t types.Type) bool {
	b, ok := t.Underlying().(*types.Basic)
	return ok && b.Info()&types.IsInteger != 0
}

// NewProver collects the facts on the path up to (not including) instruction site.
func NewProver(fn *ssa.Function, path *Path, site ssa.Instruction, extra []Fact) *Prover {
	p := &Prover{Fn: fn, Path: path, loopHeads: LoopHeads(fn), seenLen: map[string]bool{}, found: map[*ssa.Call]bool{}}
	p.Facts = append(p.Facts, extra...)
	if path.Seq != nil {
		p.collectSeq(site)
		return p
	}
	done := false
	for bi, b := range path.Blocks {
		if done {
			break
		}
		for _, in := range b.Instrs {
			if in == site {
				done = true
				break
			}
			p.instrFacts(in)
		}
		if done {
			break
		}
		// the branch taken to the next block
		if iff, ok := b.Instrs[len(b.Instrs)-1].(*ssa.If); ok && bi+1 < len(path.Blocks) {
			taken := b.Succs[0] == path.Blocks[bi+1]
			if b.Succs[0] == b.Succs[1] {
				continue
			}
			p.condFacts(iff.Cond, taken)
		}
	}
	// a search result that the path's facts show to be ≥ 0 (however the test was spelled) lies inside its haystack
	for _, b := range path.Blocks {
		for _, in := range b.Instrs {
			if in == site {
				return p
			}
			call, ok := in.(*ssa.Call)
			if !ok || p.found[call] {
				continue
			}
			if cal := StaticCallee(&call.Call); cal != nil && cal.Pkg != nil && cal.Pkg.Pkg.Path() == "bytes" && (cal.Name() == "Index" || cal.Name() == "LastIndex" || cal.Name() == "IndexByte" || cal.Name() == "LastIndexByte") {
				if ok, _ := p.Prove(p.Lin(call)); ok {
					p.foundFacts(call)
				}
			}
		}
	}
	return p
}

// collectSeq is the fact collection on an interprocedural path: the instructions in execution order up to the site; a branch
// is taken towards the next block of the same function on the path.
func (p *Prover) collectSeq(site ssa.Instruction) {
	path := p.Path
	seen := map[*ssa.BasicBlock]int{}
	var upto []ssa.Instruction
	for _, in := range path.Seq {
		if in == site {
			break
		}
		upto = append(upto, in)
	}
	for _, in := range upto {
		p.instrFacts(in)
		iff, ok := in.(*ssa.If)
		if !ok {
			continue
		}
		b := iff.Block()
		// the occurrence of b on the path (a helper spliced twice has its blocks twice)
		bi, n := -1, 0
		for j, x := range path.Blocks {
			if x == b {
				if n == seen[b] {
					bi = j
					break
				}
				n++
			}
		}
		seen[b]++
		if bi < 0 || b.Succs[0] == b.Succs[1] {
			continue
		}
		for j := bi + 1; j < len(path.Blocks); j++ {
			if path.Blocks[j].Parent() == b.Parent() {
				if path.Blocks[j] == b.Succs[0] || path.Blocks[j] == b.Succs[1] {
					p.condFacts(iff.Cond, path.Blocks[j] == b.Succs[0])
				}
				break
			}
		}
	}
	for _, in := range upto {
		call, ok := in.(*ssa.Call)
		if !ok || p.found[call] {
			continue
		}
		if cal := StaticCallee(&call.Call); cal != nil && cal.Pkg != nil && cal.Pkg.Pkg.Path() == "bytes" && (cal.Name() == "Index" || cal.Name() == "LastIndex" || cal.Name() == "IndexByte" || cal.Name() == "LastIndexByte") {
			if ok, _ := p.Prove(p.Lin(call)); ok {
				p.foundFacts(call)
			}
		}
	}
}

func (p *Prover) add(l LForm, why string) { p.Facts = append(p.Facts, Fact{L: l, Why: why}) }

func (p *Prover) instrFacts(in ssa.Instruction) {
	switch x := in.(type) {
	case *ssa.Slice:
		if _, isArr := Deref(x.X.Type()).Underlying().(*types.Array); isArr {
			return
		}
		// post-conditions of an executed slice expression
		lo := lconst(0)
		if x.Low != nil {
			lo = p.Lin(x.Low)
			p.add(lo, "executed "+p.name(x)+": low ≥ 0")
		}
		var hi LForm
		if x.High != nil {
			hi = p.Lin(x.High)
		} else {
			hi = p.LenOf(x.X)
		}
		p.add(hi.Add(lo, -1), "executed "+p.name(x)+": low ≤ high")
	case *ssa.Call:
		if cal := StaticCallee(&x.Call); cal != nil && cal.Pkg != nil && cal.Pkg.Pkg.Path() == "bytes" {
			switch cal.Name() {
			case "Index", "IndexByte", "LastIndex":
				p.add(p.Lin(x).Add(lconst(1), 1), p.name(x)+" ≥ -1")
			}
		}
	case *ssa.IndexAddr:
		if phi := rangeIdx(x.Index); phi != nil {
			// handled through the loop condition; the lower bound comes from the range pattern
		}
	}
}

// rangeIdx: v is (phi + 1) with phi = φ(-1, v…): a range index, known ≥ 0.
func rangeIdx(v ssa.Value) *ssa.Phi {
	b, ok := v.(*ssa.BinOp)
	if !ok || b.Op != token.ADD {
		return nil
	}
	if k, ok := ConstInt(b.Y); !ok || k != 1 {
		return nil
	}
	phi, ok := b.X.(*ssa.Phi)
	if !ok || len(phi.Edges) < 2 {
		return nil
	}
	if k, ok := ConstInt(phi.Edges[0]); !ok || k != -1 {
		return nil
	}
	for _, e := range phi.Edges[1:] {
		if e != ssa.Value(b) {
			return nil
		}
	}
	return phi
}

func (p *Prover) condFacts(cond ssa.Value, taken bool) {
	for {
		u, ok := cond.(*ssa.UnOp)
		if !ok || u.Op != token.NOT {
			break
		}
		cond = u.X
		taken = !taken
	}
	switch c := cond.(type) {
	case *ssa.BinOp:
		if !isIntVal(c.X) {
			return
		}
		l, r := p.Lin(c.X), p.Lin(c.Y)
		op := c.Op
		if !taken {
			switch op {
			case token.LSS:
				op = token.GEQ
			case token.LEQ:
				op = token.GTR
			case token.GTR:
				op = token.LEQ
			case token.GEQ:
				op = token.LSS
			case token.EQL:
				op = token.NEQ
			case token.NEQ:
				op = token.EQL
			}
		}
		why := p.name(c.X) + " " + op.String() + " " + p.name(c.Y)
		switch op {
		case token.LSS:
			p.add(r.Add(l, -1).Add(lconst(1), -1), why)
		case token.LEQ:
			p.add(r.Add(l, -1), why)
		case token.GTR:
			p.add(l.Add(r, -1).Add(lconst(1), -1), why)
		case token.GEQ:
			p.add(l.Add(r, -1), why)
		case token.EQL:
			p.add(r.Add(l, -1), why)
			p.add(l.Add(r, -1), why)
		case token.NEQ:
			// x != -1 for a search result x ≥ -1  ⇒  x ≥ 0 and the match lies inside the haystack
			for _, pair := range [][2]ssa.Value{{c.X, c.Y}, {c.Y, c.X}} {
				if k, ok := ConstInt(p.resolve(pair[1])); ok && k == -1 {
					p.foundFacts(pair[0])
				}
			}
		}
	case *ssa.Call:
		if cal := StaticCallee(&c.Call); cal != nil && cal.Pkg != nil && cal.Pkg.Pkg.Path() == "bytes" && cal.Name() == "HasPrefix" && taken {
			p.add(p.LenOf(c.Call.Args[0]).Add(p.LenOf(c.Call.Args[1]), -1), "HasPrefix("+p.name(c.Call.Args[0])+", …) ⇒ the buffer is at least as long as the prefix")
		}
	}
}

// foundFacts: v is a bytes.Index result known to be ≠ -1.
func (p *Prover) foundFacts(v ssa.Value) {
	v = p.resolve(v)
	call, ok := v.(*ssa.Call)
	if !ok {
		return
	}
	cal := StaticCallee(&call.Call)
	if cal == nil || cal.Pkg == nil || cal.Pkg.Pkg.Path() != "bytes" || (cal.Name() != "Index" && cal.Name() != "LastIndex" && cal.Name() != "IndexByte" && cal.Name() != "LastIndexByte") {
		return
	}
	if p.found[call] {
		return
	}
	p.found[call] = true
	r := p.Lin(call)
	p.add(r, p.name(call)+" ≠ -1 ⇒ ≥ 0")
	// r + len(needle) ≤ len(haystack)
	needle := lconst(1)
	if !strings.HasSuffix(cal.Name(), "Byte") {
		needle = p.LenOf(call.Call.Args[1])
	}
	p.add(p.LenOf(call.Call.Args[0]).Add(r, -1).Add(needle, -1), "a match of the needle lies inside the haystack")
}

func isIntVal(v ssa.Value) bool { return isIntType(v.Type()) }

// Prove tries to show goal ≥ 0. It returns the facts used.
func (p *Prover) Prove(goal LForm) (bool, []string) {
	if goal.IsConst() {
		return goal.K >= 0, nil
	}
	n := len(p.Facts)
	try := func(idx []int, mult []int64) bool {
		rest := goal
		for i, fi := range idx {
			rest = rest.Add(p.Facts[fi].L.Scale(mult[i]), -1)
		}
		return rest.IsConst() && rest.K >= 0
	}
	mults := []int64{1, 2}
	for a := 0; a < n; a++ {
		for _, ma := range mults {
			if try([]int{a}, []int64{ma}) {
				return true, []string{p.Facts[a].Why}
			}
		}
	}
	for a := 0; a < n; a++ {
		for b := a + 1; b < n; b++ {
			for _, ma := range mults {
				for _, mb := range mults {
					if try([]int{a, b}, []int64{ma, mb}) {
						return true, []string{p.Facts[a].Why, p.Facts[b].Why}
					}
				}
			}
		}
	}
	for a := 0; a < n; a++ {
		for b := a + 1; b < n; b++ {
			for c := b + 1; c < n; c++ {
				if try([]int{a, b, c}, []int64{1, 1, 1}) {
					return true, []string{p.Facts[a].Why, p.Facts[b].Why, p.Facts[c].Why}
				}
			}
		}
	}
	for a := 0; a < n; a++ {
		for b := a + 1; b < n; b++ {
			for c := b + 1; c < n; c++ {
				for d := c + 1; d < n; d++ {
					if try([]int{a, b, c, d}, []int64{1, 1, 1, 1}) {
						return true, []string{p.Facts[a].Why, p.Facts[b].Why, p.Facts[c].Why, p.Facts[d].Why}
					}
				}
			}
		}
	}
	return false, nil
}
