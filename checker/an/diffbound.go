package an

import (
	"strconv"
	"strings"
)

// ---------------------------------------------------------------------------
// A small difference-bound domain: constraints x - y <= c over opaque integer terms
// (rendered SSA values) and the constant 0. Used to prune arithmetically infeasible
// paths and to discharge simple bounds obligations. It is an abstract domain with a
// closed-form decision procedure (negative-cycle detection), not a general solver.
// ---------------------------------------------------------------------------

// Lin is term + K (Term "" means the constant K).
type Lin struct {
	Term string
	K    int64
}

// ParseLin parses a rendered expression of the form "t", "(t + k)", "(t - k)", "(k + t)" or an integer literal.
func ParseLin(s string) Lin {
	s = strings.TrimSpace(s)
	if v, err := strconv.ParseInt(s, 10, 64); err == nil {
		return Lin{K: v}
	}
	if strings.HasPrefix(s, "(") && strings.HasSuffix(s, ")") {
		inner := s[1 : len(s)-1]
		// split at top-level " + " or " - " (last occurrence at depth 0)
		depth := 0
		for i := len(inner) - 1; i > 0; i-- {
			switch inner[i] {
			case ')', ']':
				depth++
			case '(', '[':
				depth--
			}
			if depth == 0 && i+3 <= len(inner) && (inner[i:i+3] == " + " || inner[i:i+3] == " - ") {
				l, r := inner[:i], inner[i+3:]
				neg := inner[i+1] == '-'
				if k, err := strconv.ParseInt(r, 10, 64); err == nil {
					base := ParseLin(l)
					if neg {
						k = -k
					}
					return Lin{Term: base.Term, K: base.K + k}
				}
				if k, err := strconv.ParseInt(l, 10, 64); err == nil && !neg {
					base := ParseLin(r)
					return Lin{Term: base.Term, K: base.K + k}
				}
				break
			}
		}
	}
	return Lin{Term: s}
}

// DBM is a set of difference constraints.
type DBM struct {
	idx map[string]int
	// edges: u -> v with weight w means  v - u <= w
	edges []dbEdge
	// ne: disequalities a != b, used to tighten a <= b to a < b
	ne [][2]Lin
}

type dbEdge struct {
	u, v int
	w    int64
}

func NewDBM() *DBM { return &DBM{idx: map[string]int{"": 0}} }

func (d *DBM) node(t string) int {
	if i, ok := d.idx[t]; ok {
		return i
	}
	i := len(d.idx)
	d.idx[t] = i
	if strings.HasPrefix(t, "len(") {
		// lengths are non-negative: 0 - len <= 0
		d.edges = append(d.edges, dbEdge{u: i, v: 0, w: 0})
	}
	return i
}

// AddLE adds a <= b (+strict: a < b), with a, b linear forms.
func (d *DBM) AddLE(a, b Lin, strict bool) {
	// a.Term + a.K <= b.Term + b.K  ⇒  a.Term - b.Term <= b.K - a.K
	w := b.K - a.K
	if strict {
		w--
	}
	d.edges = append(d.edges, dbEdge{u: d.node(b.Term), v: d.node(a.Term), w: w})
}

// parseDiff parses "(x - y)" with non-numeric y.
func parseDiff(s string) (x, y Lin, ok bool) {
	s = strings.TrimSpace(s)
	if !strings.HasPrefix(s, "(") || !strings.HasSuffix(s, ")") {
		return
	}
	inner := s[1 : len(s)-1]
	depth := 0
	for i := len(inner) - 1; i > 0; i-- {
		switch inner[i] {
		case ')', ']':
			depth++
		case '(', '[':
			depth--
		}
		if depth == 0 && i+3 <= len(inner) && inner[i:i+3] == " - " {
			r := inner[i+3:]
			if _, err := strconv.ParseInt(r, 10, 64); err == nil {
				return
			}
			return ParseLin(inner[:i]), ParseLin(r), true
		}
	}
	return
}

// AddAtom adds a normalised path atom (Rel <, <=, ==); != and boolean atoms are ignored.
func (d *DBM) AddAtom(a Atom) {
	// (x - y) rel k   or   k rel (x - y)
	if x, y, ok := parseDiff(a.L); ok {
		if k := ParseLin(a.R); k.Term == "" {
			// x - y rel k  ⇒  x rel y + k
			a = Atom{L: linString(x), Rel: a.Rel, R: linString(Lin{Term: y.Term, K: y.K + k.K})}
		}
	} else if x, y, ok := parseDiff(a.R); ok {
		if k := ParseLin(a.L); k.Term == "" {
			// k rel x - y  ⇒  y + k rel x
			a = Atom{L: linString(Lin{Term: y.Term, K: y.K + k.K}), Rel: a.Rel, R: linString(x)}
		}
	}
	l, r := ParseLin(a.L), ParseLin(a.R)
	switch a.Rel {
	case "<":
		d.AddLE(l, r, true)
	case "<=":
		d.AddLE(l, r, false)
	case "==":
		d.AddLE(l, r, false)
		d.AddLE(r, l, false)
	case "!=":
		d.node(l.Term)
		d.node(r.Term)
		d.ne = append(d.ne, [2]Lin{l, r})
	}
}

// Feasible reports whether the constraints have an integer solution: no negative cycle, after each disequality a != b
// whose one side a <= b is already forced has been tightened to a < b (sound: it only removes the excluded point;
// two-sided-open disequalities are ignored, which keeps more paths feasible, never fewer).
func (d *DBM) Feasible() bool {
	if len(d.ne) == 0 {
		return d.feasible()
	}
	c := &DBM{idx: map[string]int{}, edges: append([]dbEdge(nil), d.edges...)}
	for k, v := range d.idx {
		c.idx[k] = v
	}
	if !c.feasible() {
		return false
	}
	for round := 0; round < len(d.ne)+1; round++ {
		changed := false
		for _, ne := range d.ne {
			a, b := ne[0], ne[1]
			le, ge := c.Entails(a, b, false), c.Entails(b, a, false)
			switch {
			case le && ge:
				return false
			case le && !c.Entails(a, b, true):
				c.AddLE(a, b, true)
				changed = true
			case ge && !c.Entails(b, a, true):
				c.AddLE(b, a, true)
				changed = true
			}
		}
		if !changed {
			break
		}
		if !c.feasible() {
			return false
		}
	}
	return true
}

func (d *DBM) feasible() bool {
	n := len(d.idx)
	dist := make([]int64, n)
	for i := 0; i < n; i++ {
		changed := false
		for _, e := range d.edges {
			if dist[e.u]+e.w < dist[e.v] {
				dist[e.v] = dist[e.u] + e.w
				changed = true
			}
		}
		if !changed {
			return true
		}
	}
	for _, e := range d.edges {
		if dist[e.u]+e.w < dist[e.v] {
			return false
		}
	}
	return true
}

// Entails reports whether the constraints imply a <= b (strict: a < b): adding the negation is infeasible.
func (d *DBM) Entails(a, b Lin, strict bool) bool {
	c := &DBM{idx: map[string]int{}, edges: append([]dbEdge(nil), d.edges...)}
	for k, v := range d.idx {
		c.idx[k] = v
	}
	// negation of a <= b is b < a ; of a < b is b <= a
	c.AddLE(b, a, !strict)
	return !c.feasible()
}

// PathFeasible checks the arithmetic atoms of a path together with extra assumptions.
func PathFeasible(p *Path, extra ...Atom) bool {
	d := NewDBM()
	for _, a := range p.Atoms {
		d.AddAtom(a)
	}
	for _, a := range extra {
		d.AddAtom(a)
	}
	return d.Feasible()
}

func linString(l Lin) string {
	if l.Term == "" {
		return strconv.FormatInt(l.K, 10)
	}
	if l.K == 0 {
		return l.Term
	}
	if l.K < 0 {
		return "(" + l.Term + " - " + strconv.FormatInt(-l.K, 10) + ")"
	}
	return "(" + l.Term + " + " + strconv.FormatInt(l.K, 10) + ")"
}

// PathDBM builds the constraint set of a path.
func PathDBM(p *Path) *DBM {
	d := NewDBM()
	for _, a := range p.Atoms {
		d.AddAtom(a)
	}
	return d
}
