#!/usr/bin/env python3
"""Archives validated mutation directories into /verif/seeded/<prop>-<tag>-<k>/.
   usage: archive_round.py <tag> <validation-json-dir> <matrix-json>
   <validation-json-dir> holds one <prop>-<k>.json per mutation as written by validate_mut.py;
   <matrix-json> is what mutmatrix.py wrote (/tmp/mutmatrix.json)."""
import json, os, sys, shutil, glob
tag, valdir, matrix = sys.argv[1], sys.argv[2], sys.argv[3]
mm = {r["dir"]: r for r in json.load(open(matrix))}
n = 0
for vf in sorted(glob.glob(os.path.join(valdir, "*.json"))):
    v = json.load(open(vf))
    if not v.get("valid"):
        print("skip (invalid)", vf); continue
    d = v["dir"]
    meta = json.load(open(os.path.join(d, "meta.json")))
    prop = meta["property"]
    k = os.path.basename(d)
    dst = f"/verif/seeded/{prop}-{tag}-{k}"
    if os.path.exists(dst): shutil.rmtree(dst)
    os.makedirs(dst)
    for f in os.listdir(d):
        if f == "meta.json": continue
        src = os.path.join(d, f)
        if os.path.isdir(src): shutil.copytree(src, os.path.join(dst, f))
        else: shutil.copy(src, dst)
    m = mm.get(d, {})
    out = {
        "property": prop,
        "summary": meta.get("summary", ""),
        "needs_to_manifest": meta.get("needs_to_manifest", ""),
        "files_touched": meta.get("files_touched", []),
        "demo_file": meta.get("demo_file", ""),
        "demo_dir_in_repo": meta.get("demo_dir_in_repo", "."),
        "demo_cmd": meta.get("demo_cmd", ""),
        "origin": "written by an independent sub-agent that was given only the property text, a list of ideas already taken, and a scratch worktree of /repo (nothing from /verif); round " + tag,
        "validated": {
            "against_repo_commit": v.get("head"),
            "how": "scripts/validate_mut.py: fresh worktree of /repo HEAD; demo passes without the patch; patch applies; go build ./... ok; the 34 stable tests pass with the patch (scripts/baseline.sh); the demo fails with the patch",
            "demo_without_patch": v.get("demo_without_patch"),
            "demo_with_patch": v.get("demo_with_patch"),
            "suite_with_patch": v.get("suite_with_patch"),
            "demo_output_tail_with_patch": v.get("demo_with_output_tail", "")[-600:],
        },
        "detected_by": m.get("detected_by", []),
        "first_report": m.get("first", {}),
    }
    json.dump(out, open(os.path.join(dst, "meta.json"), "w"), indent=1, ensure_ascii=False)
    n += 1
print("archived", n)
