#!/usr/bin/env python3
"""Runs every registered check against every mutation patch; prints a detection matrix.
   usage: mutmatrix.py [glob of mutation dirs] (default /tmp/mut/*/out/* and /verif/seeded/*/*)"""
import subprocess, sys, os, glob, json, tempfile, shutil, concurrent.futures as cf
pat = sys.argv[1:] or ["/tmp/mut/*/out/*", "/verif/seeded/*"]
dirs = sorted(d for p in pat for d in glob.glob(p) if os.path.exists(os.path.join(d, "patch.diff")))
props = [p for p in subprocess.check_output(["/verif/bin/sfcheck", "-list"], text=True).split() if p.startswith("C")]
def run(d):
    tmp = tempfile.mkdtemp(prefix="sfmm.")
    wt = os.path.join(tmp, "wt")
    out = {"dir": d, "detected_by": [], "first": {}}
    try:
        subprocess.check_call(["git", "-C", "/repo", "worktree", "add", "-q", "--detach", wt, "HEAD"])
        r = subprocess.run(["git", "-C", wt, "apply", os.path.join(d, "patch.diff")], capture_output=True, text=True)
        if r.returncode != 0:
            out["error"] = "patch does not apply"; return out
        for p in props:
            r = subprocess.run(["/verif/bin/sfcheck", "-property", p, "-repo", wt, "-no-evidence"], capture_output=True, text=True)
            if r.returncode != 0:
                out["detected_by"].append(p)
                lines = [l for l in r.stdout.splitlines() if l.startswith("  ")]
                out["first"][p] = (lines[0].strip()[:260] if lines else r.stdout[:260]).replace(wt + "/", "")
    finally:
        subprocess.call(["git", "-C", "/repo", "worktree", "remove", "--force", wt]); shutil.rmtree(tmp, ignore_errors=True)
    return out
with cf.ThreadPoolExecutor(max_workers=6) as ex:
    res = list(ex.map(run, dirs))
for r in res:
    own = "?"
    try: own = json.load(open(os.path.join(r["dir"], "meta.json")))["property"]
    except Exception: pass
    mark = "OWN" if own in r["detected_by"] else ("other" if r["detected_by"] else "MISSED")
    print(f"{r['dir']:38s} prop={own} {mark:6s} by={','.join(r['detected_by']) or '-'} {r.get('error','')}")
    if os.environ.get("MM_VERBOSE"):
        for p, l in r["first"].items(): print("      ", p, l)
json.dump(res, open("/tmp/mutmatrix.json", "w"), indent=1)
