#!/usr/bin/env python3
"""Refreshes detected_by/first_report in /verif/seeded/*/meta.json from a mutmatrix.py run over /verif/seeded/* (/tmp/mutmatrix.json)
   and regenerates /verif/seeded/INDEX.md."""
import json, os, glob, re
mm = {r["dir"]: r for r in json.load(open("/tmp/mutmatrix.json"))}
rows = []
def key(d):
    b = os.path.basename(d)
    m = re.match(r"(C\d+)-(?:(r\d+)-)?(\d+)$", b)
    return (m.group(1), m.group(2) or "", int(m.group(3))) if m else (b, "", 0)
for d in sorted(glob.glob("/verif/seeded/C*"), key=key):
    mf = os.path.join(d, "meta.json")
    meta = json.load(open(mf))
    r = mm.get(d)
    if r is not None:
        meta["detected_by"] = r["detected_by"]
        meta["first_report"] = r["first"]
        json.dump(meta, open(mf, "w"), indent=1, ensure_ascii=False)
    own = meta["property"]
    det = meta.get("detected_by", [])
    det = ([own] if own in det else []) + [p for p in det if p != own]
    rows.append((os.path.basename(d), own, ", ".join(det) or "MISSED", meta.get("summary", "").replace("|", "/").replace("\n", " ")[:160]))
with open("/verif/seeded/INDEX.md", "w") as f:
    f.write("# Seeded changes\n\nEach directory holds patch.diff (applies to /repo HEAD with `git apply`), the demonstration (fails with the patch, passes without) and meta.json.\n"
            "All were written by sub-agents that saw only the property text and a scratch worktree (round 2 — directories `Cxx-r2-k` — additionally saw one-line summaries of the round-1 ideas, to steer them elsewhere); each was re-validated with scripts/validate_mut.py and then run against every check with scripts/mutmatrix.py.\n\n")
    f.write(f"{len(rows)} changes; detected by the check of the property they break: {sum(1 for r in rows if r[2].split(', ')[0]==r[1])}.\n\n")
    f.write("| seeded change | breaks | detected by (own property first) | what was changed |\n|---|---|---|---|\n")
    for r in rows: f.write("| " + " | ".join(r) + " |\n")
print(len(rows), "rows")
