#!/usr/bin/env python3
"""Writes /verif/MANIFEST.json from the table below (one entry per claimed property)."""
import json, os, sys
ROOT = os.path.dirname(os.path.dirname(os.path.abspath(__file__)))

CLAIMS = {}
NA = {}

def claim(pid, technique, text, note, design_ref, category="other"):
    CLAIMS[pid] = dict(technique=technique, text=text, note=note, design_ref=design_ref, category=category)

exec(open(os.path.join(ROOT, "scripts", "claims.py")).read())

ids = [json.loads(l)["id"] for l in open(os.path.join(ROOT, "properties.jsonl"))]
checks = []
for pid in ids:
    if pid not in CLAIMS:
        continue
    c = CLAIMS[pid]
    checks.append({
        "property_id": pid,
        "quick_cmd": f"bin/sfcheck -property {pid} -tier quick",
        "thorough_cmd": f"bin/sfcheck -property {pid} -tier thorough",
        "evidence_file": f"/verif/evidence/{pid}.json",
        "replay_cmd_template": "bin/sfcheck -replay {path}",
        "engine": "sfcheck",
        "level_claimed": {"category": c["category"], "text": c["text"], "design_ref": c["design_ref"]},
        "level_note": c["note"],
        "technique": c["technique"],
    })
na = [{"property_id": pid, "reason": NA.get(pid, "check not built yet (work in progress; DESIGN.md section 3 describes the planned static rule)")}
      for pid in ids if pid not in CLAIMS]
m = {
    "version": 1,
    "setup_cmd": "scripts/setup.sh",
    "hooks": {
        "guard": "verif",
        "enable": "the checker loads /repo with go/packages and build flag -tags verif; static analysis needs no instrumentation, so no hook files exist",
        "baseline_off_cmd": "scripts/baseline.sh /repo",
        "source_commits": [],
        "add_only": True,
    },
    "engines": [{
        "name": "sfcheck",
        "path": "checker/",
        "serves_properties": sorted(CLAIMS),
        "kind_free_text": "repository-specific static analyser (go/packages + go/types + go/ssa, golang.org/x/tools v0.29.0): handler-trace typestate, lockset, blocking-operation discipline, who-may-call, byte-layout inference, needle shape, codec table, generator lints and schema-to-package validation; nothing of /repo is executed",
    }],
    "checks": checks,
    "not_applicable": na,
    "notes": "Technique family: static analysis only. Every check re-loads /repo's working tree, type-checks it and decides its rules on the typed syntax / SSA; see DESIGN.md. KNOWN_FINDINGS.txt lists recorded findings and the repairs made by fix: commits.",
}
json.dump(m, open(os.path.join(ROOT, "MANIFEST.json"), "w"), indent=1)
print("claimed:", " ".join(sorted(CLAIMS)), "| not claimed:", " ".join(x["property_id"] for x in na))
