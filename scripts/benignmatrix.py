#!/usr/bin/env python3
"""Runs every check on every behaviour-preserving patch (/tmp/benign2/*/out/*.diff): any alarm is a false alarm."""
import subprocess, sys, os, glob, tempfile, shutil, concurrent.futures as cf
pats = sys.argv[1:] or ["/tmp/benign2/*/out/*.diff", "/verif/benign/*.diff"]
diffs = sorted(d for p in pats for d in glob.glob(p))
props = [p for p in subprocess.check_output(["/verif/bin/sfcheck", "-list"], text=True).split() if p.startswith("C")]
def run(d):
    tmp = tempfile.mkdtemp(prefix="sfbn."); wt = os.path.join(tmp, "wt"); out = []
    try:
        subprocess.check_call(["git", "-C", "/repo", "worktree", "add", "-q", "--detach", wt, "HEAD"])
        r = subprocess.run(["git", "-C", wt, "apply", d], capture_output=True, text=True)
        if r.returncode != 0: return d, ["PATCH DOES NOT APPLY"]
        for p in props:
            r = subprocess.run(["/verif/bin/sfcheck", "-property", p, "-repo", wt, "-no-evidence"], capture_output=True, text=True)
            if r.returncode != 0:
                lines = [l.strip() for l in r.stdout.splitlines() if l.startswith("  ")]
                out.append(p + ": " + (lines[0][:400] if lines else r.stdout[:300]).replace(wt + "/", ""))
    finally:
        subprocess.call(["git", "-C", "/repo", "worktree", "remove", "--force", wt]); shutil.rmtree(tmp, ignore_errors=True)
    return d, out
with cf.ThreadPoolExecutor(max_workers=6) as ex:
    res = list(ex.map(run, diffs))
bad = 0
for d, out in res:
    if out:
        bad += 1
        print("FALSE ALARM on", d)
        for l in out: print("    ", l)
print(f"{len(res)} benign patches, {bad} with alarms")
