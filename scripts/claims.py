# One claim(...) per property that has a registered check. Executed by mkmanifest.py.

claim("C07",
  technique="static typestate analysis: path enumeration over go/ssa of every session entry point with an abstract logon-state set; who-may-call census of send sites and of the timer start function; parse-error path rule shared with C16; runs the C03 integrity rules, the ValueByTag needle census, the value parsers and the C02 decoder rules as premises; origin of the installed logon callback; recover-sets-error rule",
  text="Safety invariant of the library's own send sites, decided for every inbound history at once: on every acyclic SSA path of every entry point of package session "
       "(inbound/outbound handlers, event and AfterFunc callbacks, exported methods, goroutine bodies; same-package callees spliced in) a send of a message kind other than "
       "Logon/Logout/Reject happens only in an abstract state that excludes the two pre-logon states; the timer goroutines are started only behind the approved-logon checks. "
       "It is a structural necessary-and-sufficient condition for the library's own sends, not a statement about what the application sends.",
  note="Trusted: go/ssa lowering; the classification of calls into events (checker/an/trace.go); message kind = static builder type; "
       "interference model (other goroutines only move SuccessfulLogged→WaitingTestReqAnswer→Disconnect / →WaitingLogoutAnswer). Application sends through Session.Send/Handler.Send are out of scope.",
  design_ref="DESIGN.md §3 C07, §2 E1")

claim("C06",
  technique="static typestate analysis over go/ssa paths (abstract logon-state set, check-sequence constraints), path-condition comparison of the parameter-check decision tree, operand-flow matching; entry rule for WaitingLogonAnswer (only where the session's own Logon is sent); runs the C03 integrity rules as a premise; origin of the installed logon callback; recover-sets-error rule; no counter reset on refusal paths; producer-contract rules of props/contracts.go as premises",
  text="Safety rules decided for every inbound history at once (they hold per inbound message in every abstract state): each transition to SuccessfulLogged anywhere in package session sits behind "
       "parse-ok + the state read as WaitingLogonAnswer, or behind parse-ok + WaitingLogon + parameter check + application approval + timer start, or is a restoration from WaitingTestReqAnswer, which itself is entered only from logged-on states; "
       "the parameter check's decision tree equals method∈allowed ∧ Min≤HeartBtInt≤Max with the right tag per refusal; every refusal path emits exactly one Reject with the Logon's MsgSeqNum and changes no state; "
       "the reply echoes the received interval and method; replaced settings keep the limits; the initiator's first message is its Logon built from the configured settings. Structural necessary conditions; the callback's behaviour and value-level content of messages are not decided.",
  note="Trusted: go/ssa, the event classification and splicing bounds of checker/an/trace.go, canonical rendering of SSA values (checker/an/paths.go), the interference model for other goroutines.",
  design_ref="DESIGN.md §3 C06, §2 E1")

claim("C14",
  technique="static path enumeration over go/ssa of the TestRequest handler with operand-flow matching; codec identity check on fix.String; forward flow of received queue messages to the socket write (shared with C04); reader needles, value formatters and parsers as premises; lock pairing on every returning path; all-types handlers neither stop the dispatch nor send; C03 integrity rules as a premise; validator calls accessors only",
  text="On every SSA path of the TestRequest handler with parse ok and the logged-on test true: exactly one send, of kind Heartbeat, synchronous, whose TestReqID operand is TestReqID() of the builder the handler "
       "parsed its own input into; fix.String converts bytes↔string without transformation. A structural necessary condition for the echo; content-dependent mis-location of field 112 by the decoder's substring search is not decided (C18 decides anchoring).",
  note="Trusted: go/ssa; message kind = static builder type; sequential dispatch is C04's rule F5, the decoder's extraction is C18/C02.",
  design_ref="DESIGN.md §3 C14")

claim("C15",
  technique="static typestate analysis over go/ssa paths of the Logout handler and Stop; registration-liveness (no Clean after Handle on any path, defers replayed); loop-shape check of the event pool; ordering of state reads and decode on every trace; lock mode held while event callbacks run; handler-pool grow-only rule; callbacks outside the state lock; deadline timer only stopped by the logout callback and never reset; registration does not run the callback; enqueue rule shared with C10",
  text="Logout handler: state read SuccessfulLogged ⇒ exactly one Logout sent and the final abstract state excludes SuccessfulLogged; state read WaitingLogoutAnswer ⇒ nothing sent and changeState(ReceivedLogoutAnswer, true), "
       "which changeState maps to the logout event. Stop: Logout sent in WaitingLogoutAnswer, AfterFunc(configured CloseTimeout, cancel), logout-event callback that stops that very timer and cancels; the registration is not wiped before Stop returns; "
       "the pool keeps order and stops at false. Timing (answer vs. deadline) is not decided.",
  note="Trusted: go/ssa, event classification, time.AfterFunc/Timer.Stop semantics, context cancellation.",
  design_ref="DESIGN.md §3 C15")

claim("C16",
  technique="static path enumeration over go/ssa of the five administrative handlers, classified by parse outcome and by the refined value of the first state read; trace constraints; operand-flow matching in the raw-bytes reject; runs the C03 integrity rules and the probe-state entry rule as premises; value formatters and the connection reader's framing rules (C04·F1–F3) as premises; all-types handlers neither stop the dispatch nor send; producer-contract rules of props/contracts.go as premises",
  text="For each administrative handler: parsing is the first event, of the handler's own bytes, into a fresh builder of its own type; every parse-error path and every not-permitted-in-this-state path contains exactly one Reject send, "
       "no state change that alters logged-on-ness, no cancellation, and returns true so dispatch continues; every parse-ok path of Heartbeat/TestRequest/ResendRequest is behind a logged-on test; the raw-bytes reject takes RefSeqNum from "
       "Atoi(ValueByTag(offending bytes, MsgSeqNum tag)) and names that tag when the lookup or the conversion fails. Does not decide that later valid messages are processed normally beyond absence of state change/cancel.",
  note="Trusted: go/ssa, event classification, canonical rendering of operands; which inputs make Unmarshal fail is C03's subject.",
  design_ref="DESIGN.md §3 C16")

claim("C10",
  technique="static operand-flow and path-condition analysis over go/ssa (resend handler, save handler, gap check), loop-shape check of the store's range lookup; argument identity of the gap check; store retention; send-path order shared with C19; handler-pool grow-only rule; lock pairing on every returning path; no counter write before the gap check on any Logon trace; producer-contract rules of props/contracts.go as premises",
  text="Structural necessary conditions for every outbound history and every requested range: messages are saved under their own MsgSeqNum by the first outgoing handler; the resend handler passes the parsed BeginSeqNo/EndSeqNo "
       "(EndSeqNo = 0 ⇒ the outgoing counter's current value) to the store's outgoing side and hands the returned list unmodified to SendBatch without taking a number or re-stamping a header; the in-memory store returns "
       "exactly messages[from..to] ascending or an error, never a partial list; a gap at logon is requested from last-received+1 with EndSeqNo 0. Byte identity of retransmitted messages beyond 'same stored object, no mutation on the path' is not decided.",
  note="Trusted: go/ssa; canonical rendering of operands; the store is the bundled memory.Storage (a custom store is the application's).",
  design_ref="DESIGN.md §3 C10")

claim("C19",
  technique="static dominance / path-condition analysis over go/ssa of the send and dispatch paths; loop-shape checks of the handler pools; constructor trace (first registered outgoing handler); event-pool order rule; producer-contract rules of props/contracts.go as premises",
  text="For every set of handlers and every refusal/store-failure pattern: the enqueue in DefaultHandler.send is reached only through the pass edges of the all-types range, the type range and ToBytes, in that order, with the bytes ToBytes returned; "
       "each fail edge returns a non-nil error that Send/SendBatch/Session.send/Session.Send propagate; pools append, snapshot in order, iterate ascending and stop at the first refusal; the session's save handler is the first all-types outgoing handler and is "
       "registered before the constructor returns; inbound dispatch offers each message to the all-types handlers and then to the handlers of its extracted type. What a handler does with the message is the application's.",
  note="Trusted: go/ssa; canonical rendering; map/append semantics of Go.",
  design_ref="DESIGN.md §3 C19")

claim("C05",
  technique="must-held lockset analysis over go/ssa (lock regions), who-may-call census of numbering/send sites, no-spawn check on the send chain, operand-flow matching of the header stamps; one-writer-per-connection census (shared with C04); reset-constant rule of the bundled counter store; origin census of the session's time location; teardown-reaches-context rule shared with C13; one socket write per message outside any loop; producer-contract rules of props/contracts.go as premises",
  text="The premises of the ordering argument are decided for every schedule: the number is taken, the header stamped and the message enqueued inside one Session.mu region (and one DefaultHandler.mu region below it); there is a single numbering site and a single Router.Send site; "
       "no goroutine is spawned between numbering and the FIFO channel; the bundled counter is an atomic increment-and-return and is never reset or set by the session; the stamps are the number just taken, the session's (mirrored) identifiers and time.Now() in FIX layout on the message that is sent; "
       "the channel has one producer function and one consumer per serve function. The argument from these premises to gap-free, ordered numbering on the wire is manual (DESIGN.md); the refused/unsaved case is C19.",
  note="Trusted: go/ssa; lock identity = mutex field + rendered receiver; Go channel FIFO semantics; sync.Mutex; the consumer side (one writer goroutine calling Conn.Write sequentially) is C04's rule F4.",
  design_ref="DESIGN.md §3 C05, §2 E2")

claim("C20",
  technique="lockset (guarded-by) analysis over go/ssa with interprocedural lock inheritance for unexported helpers; atomic-consistency check; completeness census of field stores; copylock rule (no value receiver/parameter/result/whole-struct load of a type holding a sync primitive); producer-contract rules of props/contracts.go as premises",
  text="For all schedules at once: every access to the five guarded fields happens with the guard held on the same object (exclusive for writes), the store's counters are touched only through sync/atomic, and every other struct field of the "
       "library packages that is written outside its constructor is one of six named configuration fields whose premise is checked. A sufficient condition for race freedom on the library's own shared state; memory reached through application callbacks, "
       "custom stores, or message objects shared by the application is not modelled.",
  note="Trusted: go/ssa; the guarded-by table (confirmed by reading every access); sync.Mutex/RWMutex/atomic semantics; constructor-context escape reasoning (object allocated in, or freshly returned to, the function).",
  design_ref="DESIGN.md §3 C20, §2 E2")

claim("C08",
  technique="static wiring analysis over go/ssa: value identity of timer variables across closures, path enumeration of the heartbeat goroutine, canonical rendering of the period arithmetic, shape check of utils.Timer; period arithmetic compared as a linear form over the negotiated interval on interprocedural paths; no settings assignment after the timers were armed (typestate trace); lock pairing on every returning path of every library function; no registered message handler cancels the session; exact Int parser; send-path order shared with C19; timers armed only after the application's approval on every trace; operand of the announced interval in the Logon request",
  text="Necessary conditions of the heartbeat guarantee, each of which breaks it when broken: the all-types outgoing handler refreshes the very timer the heartbeat goroutine waits on; each iteration of that goroutine waits once, leaves only on session cancellation and otherwise sends exactly one Heartbeat; "
       "the period is time.Second × negotiated HeartBtInt; Timer.Refresh stores time.Now(), TakeTimeout restarts the period, polls every timeout/10 and returns only on expiry or Close. The timing bound N + N/10 + slack itself depends on the scheduler and on blocking inside send and is NOT decided.",
  note="Trusted: go/ssa; time.Ticker/time.Until semantics; that every outbound message passes DefaultHandler.send (C19.H1).",
  design_ref="DESIGN.md §3 C08, §2 E10")

claim("C09",
  technique="static wiring analysis over go/ssa (timer variable identity, period arithmetic), typestate path enumeration of the probe goroutine, call-chain checks from the disconnect event to net.Conn.Close; order of the state change and the probe send on every trace; who-may-refresh census of the probe timer; census of Disconnect transitions by abstract pre-state; no lock held where the socket is closed; socket-option census (no read deadline); framing rules as a premise",
  text="Necessary conditions: every inbound message refreshes the timer the probe goroutine waits on and restores WaitingTestReqAnswer→SuccessfulLogged; the period is time.Second × (HeartBtInt + max(1, HeartBtInt/20)); per expiry the goroutine disconnects iff the state was read as WaitingTestReqAnswer, "
       "probes (state change + one TestRequest) iff it was read as SuccessfulLogged, and does nothing otherwise; Disconnect triggers the disconnect event, whose callback cancels the session and stops the handler; handler stop → Run returns → every goroutine of the connection runs the shared cancel → socket closed. "
       "'A peer that sends at least every N seconds is never probed or disconnected' depends on arrival times and is NOT decided.",
  note="Trusted: go/ssa; context cancellation; errgroup; the utils.Timer shape rules shared with C08.",
  design_ref="DESIGN.md §3 C09, §2 E10")

claim("C04",
  technique="static ownership / who-may-call analysis over go/ssa: sole-reader census, loop-carried buffer dataflow (phi edges of the read loop), producer/consumer census of the hand-off channels, no-spawn check of the dispatch path, freshness of per-connection objects; forward flow of every value received from a byte-message channel to a sink on every path (no dropped message); goroutine-ownership census through shared helpers; channel-capacity rules (unbuffered reader queue and error rendezvous); lock-region shape of the batch send (one acquisition outside the loop); who-may-dispatch census; inbound hand-over select shape; one socket write per message outside any loop; reader does not cancel the connection (recorded finding D21); socket-option census",
  text="All partitions of the byte stream are covered through one contract: the socket is read only by bufio.Reader.ReadBytes(SOH) on one reader per connection. Decided structurally: bytes read are always appended to a local buffer or the accumulated message is handed off and the buffer re-bound to a fresh allocation; "
       "the hand-off test is a start-anchored comparison with the CheckSum tag; each hand-off channel has one producer and one consumer goroutine; each dequeued message is written with one net.Conn.Write; no goroutine is spawned on the dispatch path; "
       "each accepted socket gets its own Conn, handler and channels. Timing and custom net.Conn implementations are not decided.",
  note="Trusted: go/ssa; bufio.Reader.ReadBytes contract (returns data up to and including the delimiter regardless of chunking); Go channel FIFO semantics.",
  design_ref="DESIGN.md §3 C04, §2 E3/E4")

claim("C13",
  technique="static blocking-operation discipline over go/ssa: census of channel sends/receives and goroutine bodies, loop-exit classification, deferred-cancel pairing, teardown-reaches-context rules, who-may-call table for StopWithError, lock-order graph over the VTA call graph; lock pairing on every returning path (acquire/release, deferred unlocks); origin analysis of the context a per-connection goroutine watches (through helper parameters to all call sites); listener closed on every return of the function that starts the accept goroutine; no condition-variable waits; context-scope rule for bare waits through exported constructors; configured write timeout passed along unchanged",
  text="Exhaustive over the source of the library packages: every channel send is a select case with the owning context's Done() (two tabled exceptions with checked premises); every loop of every goroutine body has an exit governed by cancellation, a closed channel or an error of a blocking call on a resource the close path closes; "
       "every goroutine of a connection defers the shared cancel first and that cancel closes the socket and every scope a sender can wait on (including the initiator's handler); Run raises the stopped/disconnect event before returning; the timer goroutines test the session context after each wake-up; "
       "the mutex acquisition order is acyclic. Necessary structural conditions for 'nothing stays blocked'; the settling time and the relative timing of cause and in-flight traffic are NOT decided.",
  note="Trusted: go/ssa, VTA call graph (for lock order through interfaces), context/errgroup/net semantics (closing a socket fails a blocked Read/Accept), the frozen exception tables.",
  design_ref="DESIGN.md §3 C13, §2 E3")

claim("C01",
  category="proof",
  technique="byte-layout inference over go/ssa (a compositional effect/type inference: atoms for leaf producers, constants for literal bytes, linear forms for lengths), per-path comparison of the assembled layout with the length function, dominance and who-may-write checks; read-only (effect) analysis of the length function, the assembly and the checksum function over the VTA call graph; producer-contract rules of props/contracts.go as premises",
  text="Proof relative to the layout model: for every path of the serializer the inferred layout of Message.prepared is BeginString·SOH·BodyLength·SOH·MsgType·(SOH·non-empty part)*·SOH·10=CHK·SOH; the integer stored into the BodyLength value equals, as a linear form over the atoms' lengths, "
       "the length of the region it must measure, for every consistent combination of emptiness conditions; CHK is the checksum function applied to exactly the emitted prefix, and that function adds every byte once plus one SOH modulo 256 as three zero-padded digits; only Prepare writes the image and ToBytes returns it only after a successful Prepare. "
       "Because atoms are opaque, the statement covers every template, population and value (digit-count and modulo boundaries need no case split). Every obligation must be discharged; none is excepted.",
  note="Trusted base: go/ssa lowering; the transfer functions for bytes.Join/append/len/conversions in checker/an/seq.go; fmt's %03s/%03d padding and strconv.Itoa; the leaf producers' loop-shape summaries (rule S2, checked); assumption A1 (MsgType non-empty) and the property's own precondition that values contain no SOH.",
  design_ref="DESIGN.md §3 C01, §2 E5")

claim("C17",
  technique="static writer/reader table agreement (layout inference of the serializer vs. the item list offered to the parser), codec-pair table check per value type over go/ssa paths, loop-shape (collector) summaries of the leaf producers, storage-ownership checks of the entry accessors; runs the C02 decoder rules as a premise; typed-template freshness shared with C02; no collector return that bypasses its loop; producer-contract rules of props/contracts.go as premises",
  text="Structural conditions for 'exactly the populated fields reach the wire, once, in template order': the serializer emits the same ordered parts Items() lists; constructors and setters mark values populated and ToBytes is the tabled canonical text (nil when null); "
       "every leaf producer iterates its own slice in index order, skips exactly the elements without bytes, joins with SOH and modifies nothing; a KeyValue emits its own key once; a group emits its count first; accessors hand out the message's own storage. "
       "One recorded finding: the trailer is listed but never emitted (cannot be repaired without failing a pinned test). Not decided: canonical text beyond the codec table.",
  note="Trusted: go/ssa; the layout model (seq.go); the frozen codec table (strconv/time inverse pairs).",
  design_ref="DESIGN.md §3 C17, §2 E5/E8")

claim("C18",
  technique="static needle-shape analysis: byte-layout inference of the needle of every bytes/strings search call in the decoder, ValueByTag and the connection reader; positional checks of the group separator's slice bounds; who-may-search census; framing rules of the connection reader (C04·F1–F3) as a premise; producer-contract rules of props/contracts.go as premises",
  text="For every message content at once: every tag-derived needle is SOH·tag·'=' when searched inside a buffer, or tag·'=' when compared with the start of a buffer that begins at a field boundary; the repeating-group separator is taken at the delimiter after the count field and ends with the first '='; "
       "the end-of-message tag is compared only with the start of a delimiter-terminated segment; packages root and session inspect raw bytes only through ValueByTag/Unmarshal with configured tags. Anchoring is decided; which of several well-anchored occurrences (duplicate tags) is chosen is not.",
  note="Trusted: go/ssa; the layout model (seq.go) for needles; bytes.Index/HasPrefix semantics.",
  design_ref="DESIGN.md §3 C18, §2 E7")

claim("C11",
  technique="static panic census over the decoder's call-graph closure; bounds obligations discharged by the Go compiler's prove pass (bounds-check report) or by a path-wise linear-inequality engine with library facts, tabled preconditions proved at call sites and a loop invariant proved by induction; variant-based termination check; nil-interface-field rule (every library construction of a struct sets the interface fields the parser calls unguarded); non-negative repeat counts; builders called unguarded are read by the option validation; producer-contract rules of props/contracts.go as premises",
  text="Every slice/index operation, non-comma-ok type assertion, explicit panic and integer division reachable from the decoder entry points (and from the session's inbound path down to them) is an obligation; each is discharged by the compiler's prove pass, by the linear engine on every acyclic path, or by one of three tabled exceptions with checked premises. "
       "Every loop in that set has a variant. This is a proof of panic-freedom and termination of the decoder set relative to the trusted base below, for every byte string and every well-formed template; it is not labelled proof because of the tabled exceptions.",
  note="Trusted: the Go compiler's prove pass; go/ssa; the library facts about bytes.Index/HasPrefix/Join, make and range encoded in checker/an/linprove.go; assumption that a template's three framing tags are distinct and its KeyValues have non-nil values. Recursion depth on templates and memory use are not decided.",
  design_ref="DESIGN.md §3 C11, §2 E6")

claim("C03",
  technique="static must-pass-through (dominance + path conditions) analysis of the decoder's validation, mode-independence check of branch conditions, mirror-arithmetic comparison of the validator's linear forms with the serializer's layout; mode-independence over every function the framing lookup goes through; identity of the scanned bytes with the validated bytes (parameter pass-through); trailer test on the accepting path (the CheckSum field found is the input's last field)",
  text="Decides the soundness half structurally: a message is populated or reported parsed only after the raw validation returned nil; the validation has a single accepting path, which requires declared length == measured length and byte-equality of the declared with the recomputed checksum (recomputed with the serializer's own function over the serializer's own prefix length); "
       "no decision depends on strict mode; missing or non-numeric BodyLength is an error. It does NOT decide that every damaged neighbour of a valid message fails these checks (that is a statement about all 256·n variants; e.g. a NUL inserted into the BeginString value is invisible to both checks).",
  note="Trusted: go/ssa; canonical rendering; the serializer's layout as established by C01.",
  design_ref="DESIGN.md §3 C03")

claim("C02",
  technique="static codec-pair table check, exhaustiveness/type-preservation analysis of the template switches over go/ssa paths, loop-shape and operand-identity checks of the group decoder, linear-form comparison of slice cuts; no store into the split pieces; value setters of the codec table; use census of the declared group count; producer-contract rules of props/contracts.go as premises",
  text="Structural necessary conditions for round-tripping, each of which breaks it when broken: formatter/parser of every value type are an inverse pair (Float keeps and prefers its source bytes); templates are rebuilt with the same kinds and concrete value types at the same positions; "
       "each group entry gets a fresh template created inside the per-entry loop, filled from its own piece and added once, with the number of pieces checked against the parsed count; a value is exactly the bytes after its anchored 'tag=' up to the next delimiter; splitGroup partitions its input; item loops visit every item. "
       "Equality of parsed with original values over all inputs, and which of several well-anchored occurrences is found, are NOT decided.",
  note="Trusted: go/ssa; the codec table (strconv/time pairs are inverses on the property's value domain); canonical rendering; the linear forms of checker/an/linprove.go.",
  design_ref="DESIGN.md §3 C02, §2 E8")

claim("C12",
  category="translation_validation",
  technique="static schema-to-package validation (the XML schemas read as data vs. the shipped package as typed syntax, declaration by declaration) plus generator lints over go/ssa and the parsed text templates (template-field existence, accessor index agreement, index lock-step, map-order taint table, duplicate rejection, type-table agreement); interprocedural backward slice of the output path (directory untransformed), package-level-state and single-derivation lints; version-string rendering rule (Sprintf verbs matched to arguments); formatting failure is fatal on every path; evaluation of the constant package-name pattern; key-normalisation agreement between writers and readers of the generator's tables",
  text="The shipped reference package is validated against an oracle derived from the XML alone: constants, member order and value types of every message/component/header/trailer/group, accessor positions and Go types, populating constructors, pipeline wrappers, and the converse (no constant without a schema origin). "
       "For every schema, necessary conditions on the generator source are decided: template fields exist, getter and setter share index/name/type, the accessor index tracks the constructor position on every path, required ⇔ constructor argument + setter call, groups of any depth are collected, no map order reaches the output, "
       "the package name is the output directory's base name, duplicates are rejected before any write, the type table agrees with package fix. One recorded finding (one type per group name: NoMDEntries). NOT decided: that an arbitrary accepted schema yields a compiling package, and that the shipped package is what the generator emits — both need running the generator.",
  note="Trusted: go/types, go/ast, go/ssa, text/template/parse, encoding/xml; the naming conventions of the generator's templates (make<Name>, New<Name>Grp, <Name>Entry) used to locate declarations.",
  design_ref="DESIGN.md §3 C12, §2 E9")
