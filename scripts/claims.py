# One claim(...) per property that has a registered check. Executed by mkmanifest.py.

claim("C07",
  technique="static typestate analysis: path enumeration over go/ssa of every session entry point with an abstract logon-state set; who-may-call census of send sites and of the timer start function",
  text="Safety invariant of the library's own send sites, decided for every inbound history at once: on every acyclic SSA path of every entry point of package session "
       "(inbound/outbound handlers, event and AfterFunc callbacks, exported methods, goroutine bodies; same-package callees spliced in) a send of a message kind other than "
       "Logon/Logout/Reject happens only in an abstract state that excludes the two pre-logon states; the timer goroutines are started only behind the approved-logon checks. "
       "It is a structural necessary-and-sufficient condition for the library's own sends, not a statement about what the application sends.",
  note="Trusted: go/ssa lowering; the classification of calls into events (checker/an/trace.go); message kind = static builder type; "
       "interference model (other goroutines only move SuccessfulLogged→WaitingTestReqAnswer→Disconnect / →WaitingLogoutAnswer). Application sends through Session.Send/Handler.Send are out of scope.",
  design_ref="DESIGN.md §3 C07, §2 E1")
