#!/bin/bash
# usage: scripts/trymut.sh <patch.diff> <property> [more properties...]
# Applies a patch to a scratch worktree of /repo's HEAD, runs the given checks on it (no evidence written), removes it.
PATCH=$(realpath "$1"); shift
D=$(mktemp -d /tmp/sfmut.XXXXXX)
git -C /repo worktree add -q --detach "$D/wt" HEAD || exit 2
if ! git -C "$D/wt" apply "$PATCH"; then echo "PATCH DOES NOT APPLY"; git -C /repo worktree remove --force "$D/wt"; rm -rf "$D"; exit 3; fi
rc=0
for P in "$@"; do
  /verif/bin/sfcheck -property "$P" -repo "$D/wt" -no-evidence | sed "s#$D/wt/##g" | cut -c1-400 | head -${TRYMUT_LINES:-8}
  [ "${PIPESTATUS[0]}" != 0 ] && rc=1
done
git -C /repo worktree remove --force "$D/wt"; rm -rf "$D"
exit $rc
