#!/bin/bash
# Runs the repository's pinned test suite (guard off) and reports whether the 34 stable tests pass.
# usage: scripts/baseline.sh [repo-dir]
REPO=${1:-/repo}
export GOFLAGS=-mod=mod GOPROXY=off GOSUMDB=off GOTOOLCHAIN=local
unset GOWORK
cd "$REPO" || exit 2
go build ./... || exit 1
OUT=$(mktemp)
go test -json -vet=off -count=1 -timeout 25m ./... > "$OUT" 2>&1
python3 - "$OUT" <<'PY'
import json,sys
stable=set(json.load(open('/root/.vp/BASELINE.json'))['stable_pass'])
res={}
for l in open(sys.argv[1]):
    try: e=json.loads(l)
    except Exception: continue
    if e.get('Test') and e.get('Action') in('pass','fail','skip'):
        res[e['Package']+'::'+e['Test']]=e['Action']
bad=[t for t in sorted(stable) if res.get(t)!='pass']
print("stable passed: %d/%d"%(len(stable)-len(bad),len(stable)))
for t in bad: print("NOT PASSED:",t,res.get(t))
other=[t for t in res if t not in stable and res[t]!='pass']
for t in other: print("(non-stable) ",t,res[t])
sys.exit(1 if bad else 0)
PY
rc=$?
rm -f "$OUT"
exit $rc
