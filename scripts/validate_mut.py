#!/usr/bin/env python3
"""Validates a seeded mutation directory (patch.diff, meta.json, demo files) against /repo's HEAD:
   demo passes without the patch; with the patch the tree builds, the 34 stable tests pass and the demo fails.
   usage: validate_mut.py <dir> [--keep-as /verif/seeded/<name>]   prints a JSON verdict."""
import json, os, subprocess, sys, tempfile, shutil, glob
d = os.path.abspath(sys.argv[1])
env = dict(os.environ, GOFLAGS="-mod=mod", GOPROXY="off", GOSUMDB="off", GOTOOLCHAIN="local")
env.pop("GOWORK", None)
meta = json.load(open(os.path.join(d, "meta.json")))
tmp = tempfile.mkdtemp(prefix="sfval.")
wt = os.path.join(tmp, "wt")
def sh(cmd, cwd=wt, timeout=900):
    p = subprocess.run(cmd, shell=True, cwd=cwd, env=env, stdout=subprocess.PIPE, stderr=subprocess.STDOUT, text=True, errors="replace", timeout=timeout)
    return p.returncode, p.stdout
res = {"dir": d, "property": meta.get("property")}
try:
    subprocess.check_call(["git", "-C", "/repo", "worktree", "add", "-q", "--detach", wt, "HEAD"])
    res["head"] = subprocess.check_output(["git", "-C", "/repo", "rev-parse", "--short", "HEAD"], text=True).strip()
    demo_dir = os.path.join(wt, meta.get("demo_dir_in_repo", ".").strip("/") or ".")
    os.makedirs(demo_dir, exist_ok=True)
    demos = [f for f in os.listdir(d) if f not in ("patch.diff", "meta.json") and not f.endswith(".json")]
    for f in demos:
        src = os.path.join(d, f)
        if os.path.isdir(src): shutil.copytree(src, os.path.join(demo_dir, f))
        else: shutil.copy(src, demo_dir)
    cmd = meta["demo_cmd"]
    rc, out = sh(cmd)
    res["demo_without_patch"] = "pass" if rc == 0 else "FAIL"
    if rc != 0: res["demo_without_output"] = out[-1500:]
    rc, out = sh("git apply " + os.path.join(d, "patch.diff"))
    res["patch_applies"] = rc == 0
    if rc == 0:
        rc, out = sh("go build ./...")
        res["builds"] = rc == 0
        rc, out = sh(cmd)
        res["demo_with_patch"] = "fail" if rc != 0 else "PASS"
        res["demo_with_output_tail"] = out[-600:]
        # move demo away for the suite run (the demo must not count as part of the suite)
        for f in demos:
            p = os.path.join(demo_dir, f)
            if os.path.isdir(p): shutil.rmtree(p)
            else: os.remove(p)
        rc, out = sh("/verif/scripts/baseline.sh " + wt, cwd="/verif")
        res["suite_with_patch"] = out.strip().splitlines()[0] if out.strip() else "?"
        res["suite_ok"] = rc == 0
    res["valid"] = bool(res.get("demo_without_patch") == "pass" and res.get("patch_applies") and res.get("builds") and res.get("demo_with_patch") == "fail" and res.get("suite_ok"))
finally:
    subprocess.call(["git", "-C", "/repo", "worktree", "remove", "--force", wt])
    shutil.rmtree(tmp, ignore_errors=True)
print(json.dumps(res, indent=1))
