#!/bin/bash
# Builds the checker from the sources under /verif/checker, offline.
set -e
cd "$(dirname "$0")/../checker"
export GOFLAGS=-mod=mod GOPROXY=off GOSUMDB=off GOTOOLCHAIN=local
unset GOWORK
mkdir -p ../bin ../evidence
go build -o ../bin/sfcheck .
echo "built $(cd ../bin && pwd)/sfcheck"
