#!/usr/bin/env python3
"""Validates every mutation under /tmp/mut/*/out/* against /repo HEAD (scripts/validate_mut.py), runs all checks on it,
   and archives the valid ones as /verif/seeded/<prop>-<k>/ (patch.diff, demo, meta.json)."""
import subprocess, json, os, glob, shutil, sys, concurrent.futures as cf
dirs = sorted(glob.glob("/tmp/mut/*/out/*"))
dirs = [d for d in dirs if os.path.exists(os.path.join(d, "patch.diff")) and os.path.exists(os.path.join(d, "meta.json"))]
def work(d):
    try:
        out = subprocess.run(["python3", "/verif/scripts/validate_mut.py", d], capture_output=True, text=True, timeout=1800).stdout
        return d, json.loads(out)
    except Exception as e:
        return d, {"valid": False, "error": str(e)}
res = {}
with cf.ThreadPoolExecutor(max_workers=int(os.environ.get("WORKERS", "3"))) as ex:
    for d, r in ex.map(work, dirs):
        res[d] = r
        print(d, "valid" if r.get("valid") else "INVALID", {k: r.get(k) for k in ("demo_without_patch", "patch_applies", "builds", "demo_with_patch", "suite_with_patch")}, flush=True)
json.dump(res, open("/tmp/mut_validation.json", "w"), indent=1)
